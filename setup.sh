#!/bin/bash
# Idempotent offline bootstrap of the tooling venv used by every check.
# /venv (python 3.12 + the repo's deps) is exposed through a .pth file;
# crosshair-tool / z3-solver / cvc5 / jsonschema come from the offline wheelhouse.
set -e
V=/verif/.venv
exec 9>/verif/.venv.lock
flock 9
if [ ! -x $V/bin/python ] || ! $V/bin/python -c 'import z3, crosshair, jsonschema' 2>/dev/null; then
  rm -rf $V
  /venv/bin/python -m venv $V
  SP=$($V/bin/python -c 'import site; print(site.getsitepackages()[0])')
  echo "import site; site.addsitedir('/venv/lib/python3.12/site-packages')" > $SP/_venv_base.pth
  PIP_NO_INDEX=1 $V/bin/pip install -q --no-index --find-links /opt/veriftools/wheels crosshair-tool z3-solver cvc5 jsonschema >/dev/null
fi
$V/bin/python -c 'import z3, crosshair, cvc5, jsonschema; print("vf-venv ok: z3", z3.get_version_string())'
