"""Per-property registration data for MANIFEST.json (edited by hand as checks land)."""

NA_PERMANENT = {
 'C01': 'Whole-program differential against CPython over generated programs: needs the whole 80k-line compiler per program and CPython as oracle (object-level); no bounded symbolic encoding within reach. Encodable fragments are claimed under C02-C21, C28, C32, C35.',
 'C23': 'Generator/coroutine protocol over call histories: Coroutine.c/AsyncGen.c are 3.5k lines of API- and thread-state-bound pointer code driving compiled program text; object-level and history-dependent, outside the IR subset the translator supports.',
 'C30': 'cdef dataclasses are synthesised as Cython source from option lattices and compiled by the full pipeline; the oracle is the dataclasses module at run time (object-level).',
 'C31': 'match statements specialise on Python object protocols (Sequence/Mapping ABCs, __match_args__); object-level, oracle is CPython.',
 'C33': 'C/C++ container conversions expand to C++ over libstdc++ containers with per-element CPython calls; no C++ IR translator is within reach here.',
 'C34': 'Fused dispatch is generated as Cython source inspecting runtime types/buffer formats via CPython calls; object-level.',
 'C42': 'Determinism under PYTHONHASHSEED / scheduling is a property of host nondeterminism; there is no input to make symbolic.',
 'C43': 'Subject is the entire pipeline on arbitrary text; measured: the pure-Python parser costs ~0.3 s per CrossHair path, texts of <= 3 chars over 10 letters did not finish in 240 s. No bound worth stating is reachable. (The crash found on the way is claimed under C10.)',
 'C45': 'Profiling/tracing events go through CPython monitoring machinery from macro-expanded thread-state-bound code; the property is about the interpreter event stream (object-level).',
 'C48': 'Cache keys are SHA digests (hashlib is a C boundary, hashes are opaque to SMT); output-affecting-option can only be decided by running the compiler twice.',
}

_TB = ('Trusted: z3/CrossHair, the reference model in the harness file, CPython 3.12 semantics of the builtins used by the reference. '
       'Bounds and exclusions are listed in the evidence file (coverage.bounds) and DESIGN.md.')

CHECKS = {
 'C38': dict(engine='PYSYM', technique='CrossHair symbolic execution (z3 Int) of Shadow.cdiv/cmod/cast vs C99 truncation reference; concrete replay',
             text='Bounded-unbounded model check: for ALL pairs of Python ints (b != 0) Shadow.cdiv/cmod equal C truncation semantics; cast/declare on the integer typedefs are identity. CrossHair reports "confirmed over all paths" (each path decided by z3 over mathematical integers).',
             note=_TB),
 'C44': dict(engine='PYAST+PYSYM', technique='symbolic interpretation of the real LineTable.py AST with z3 bit-vectors (all paths, inductive step for lists of any length) + CrossHair counterexample search; replay through CPython co_positions()',
             text='Bounded model check of the position-table encoder: encode_varint is a self-delimiting code for every v < 2^32; one step of encode_single_position from ANY running line emits one entry the reference decoder maps back to the input position and leaves encoder and decoder in the same state (covers start-sorted lists of any length, values < 2^30); build_line_table glue for lists of 1-2 positions.',
             note=_TB + ' The reference decoder is transcribed from CPython InternalDocs/locations.md and validated every run against code.co_positions().'),
 'C49': dict(engine='PYSYM', technique='CrossHair symbolic execution of StringIOTree / CCodeWriter operation histories, prefix-split into one condition per 2-operation prefix, vs a list-of-holes reference',
             text='Bounded model check over histories: every history of <= 4 (quick) / <= 6 (thorough) write / insertion_point / insert / commit operations on any live buffer gives getvalue(), copyto(), empty() and allmarkers() equal to the in-order reference on every live buffer; same for CCodeWriter write/putln/mark_pos/insertion_point/new_writer+insert histories.',
             note=_TB),
 'C50': dict(engine='PYSYM', technique='CrossHair symbolic execution of the real Plex pipeline (Lexicon->NFA->DFA->Scanner.run_machine_inlined) on a symbolic input string per enumerated lexicon, vs a set-of-end-positions reference matcher',
             text='For each of the listed lexicons (fixed regression set + VERIF_SEED-drawn), for EVERY input text up to the stated length over {a,b,c,newline}, the token sequence (rule index and text, longest match, earliest rule on ties, error iff nothing matches) equals the reference matcher.',
             note=_TB + ' Lexicons are enumerated, not symbolic.'),
 'C47': dict(engine='PYSYM', technique='CrossHair symbolic execution of strip_string_literals on symbolic token sequences / symbolic characters; oracle = label substitution + CPython tokenizer spans; concrete replay',
             text='For every text in the stated families (all concatenations of <= 3 tokens from a 16-token alphabet of quotes, escapes, braces, f prefix, comment and newline; f-string and triple-quote skeletons with 4 symbolic middle tokens; all texts of <= 3 characters over 9 characters) the stripper is lossless (labels substitute back) and complete (exactly the string/comment body positions CPython\'s tokenizer reports are inside labels).',
             note=_TB + ' Completeness is only asserted for texts CPython compiles.'),
 'C11': dict(engine='PYSYM', technique='CrossHair symbolic execution of escape_byte_string / split_string_literal / escape_char / as_c_string_literal over symbolic byte-class selectors, against a reference ISO C literal lexer (trigraphs, escapes, concatenation)',
             text='For every byte string in the bounded families (all bytes len <= 1; len <= 3-4 over 19 byte classes; split_string_literal with limits 6..9 over all sequences of <= 4 escape tokens) the emitted C literal (plain, split, and MSVC char-array forms) is read back by the reference C lexer as exactly the original bytes.',
             note=_TB),
 'C03': dict(engine='GEN+CIR', technique='template kernels compiled by the real Cython; generated C + CMath.c helpers lowered with clang to LLVM IR and encoded as z3 bit-vector BMC formulas; one unsat query per obligation over ALL operand values; NIA lemmas for the floor/remainder closed forms; replay on a native build',
             text='For each of the listed kernels (type x operator x divisor kind x cdivision) and for every value of the operands at full width: divisor != 0 and fitting result => the stored result equals the Python floor quotient / remainder (C truncation with cdivision on) with no error set; divisor == 0 with cdivision off => returns the error value with ZeroDivisionError set.',
             note='Trusted: clang-14 front end + mem2reg, the IR->SMT translator (self-tested against the native build each run), z3, SMT-LIB division as C division. Programs are an enumerated family; within each the claim is for all inputs.', level='model_checking'),
 'C04': dict(engine='GEN+CIR', technique='overflowcheck template kernels compiled by the real Cython; both preprocessor arms of Overflow.c lowered to LLVM IR and encoded in z3 (bit-vectors); soundness/completeness/no-UB obligations discharged for all operand values, UF abstraction of shared multipliers, NIA lemmas for the division-based multiplication test; counterexamples replayed on native (and UBSan) builds',
             text='For each listed kernel (type x expression shape x fold setting x {__builtin_*_overflow arm, portable arm}) and every operand value: a normal return carries the exact result; every unrepresentable (sub)result or zero divisor raises OverflowError/ZeroDivisionError; no executed operation is undefined behaviour. Known findings (unchecked unary minus, MIN // -1 on types narrower than long) are reported as KNOWN-FINDING and excluded by input-space predicates.',
             note='Trusted: clang-14 + mem2reg, the IR->SMT translator, z3, SMT-LIB overflow predicates as the definition of "not representable" (64-bit multiplication). 64-bit symbolic x symbolic multiplication through the portable division-based arm is attempted in the thorough tier only.'),
 'C05': dict(engine='CIR', technique='TypeConversion.c CIntFromPy/CIntToPy as instantiated by the real compiler, lowered to LLVM IR and encoded in z3 over an arbitrary valid PyLongObject (symbolic lv_tag + 5 digits under the CPython representation invariant); both CYTHON_USE_PYLONG_INTERNALS arms; UB obligations; replay on a native build',
             text='For each of 15 C integer types (incl. extern typedefs whose declared base differs from the real type) and every valid int object of <= 5 digits: value fits T => returned exactly with no error; otherwise OverflowError and -1; a failing __index__/__int__ propagates; C -> Python creates an int object with exactly the C value (sign/zero extension) for every value of T; no UB on any path.',
             note='Trusted: clang + mem2reg, translator, z3, CPython 3.12 PyLong layout/invariant, documented contracts of PyLong_As*/PyLong_From* (stubs). Non-int arguments are modelled through a contract stub of __Pyx_PyNumber_Long.'),
}
