#!/usr/bin/env python3
"""Prints the prompt for a seeding sub-agent for property <id> (property text only; nothing from /verif)."""
import json, sys
pid = sys.argv[1]
for l in open('/verif/properties.jsonl'):
    p = json.loads(l)
    if p['id'] == pid:
        break
txt = json.dumps({k: p[k] for k in ('id', 'title', 'statement', 'quantifier', 'why_tests_cant', 'anchors')}, indent=1)
print(f"""You are a careful adversarial engineer. Your job: write realistic, subtle BUG-INTRODUCING changes ("seeded defects") to the Cython compiler source, which will later be used to evaluate an independent verification tool that you know nothing about.

WORKSPACE
- Your scratch git worktree of the Cython repository (pinned commit) is: /tmp/seed/{pid}/wt  . Work ONLY there and in /tmp/seed/{pid}/ . Do NOT read, list or modify /verif or /repo (those are off limits), and do not commit anything. NEVER use `git stash` (the stash is shared between several worktrees of this repository and other people are working in them); to restore your tree use `git -C <your worktree> checkout -- .` only.
- Python interpreter: /venv/bin/python (3.12). The worktree has no compiled .so files, so `import Cython` from the worktree (cwd = worktree, or PYTHONPATH=/tmp/seed/{pid}/wt) runs the compiler as pure Python from your edited sources. No network.
- To compile+build a .pyx/.py into an importable extension with the worktree's compiler: `/tmp/seed/build_pyx.sh /tmp/seed/{pid}/wt /path/to/dir/mod.pyx` (builds next to the source; import it with that dir on sys.path). gcc and clang are available. numpy is available.
- The existing pinned test suite: `/tmp/seed/check_baseline.py /tmp/seed/{pid}/wt` (about 10 s) must print 504/504 and exit 0 WITH your change applied.

THE PROPERTY YOUR CHANGES MUST BREAK
{txt}

WHAT TO PRODUCE: 3 independent changes m1, m2, m3 (each a separate small diff against the pristine worktree; different code sites / different failure mechanisms). Each must:
 1. break the property above (some input/program/history now violates it) in code the anchors above point to (or closely related code that the property depends on);
 2. keep the compiler working: Cython still imports and compiles ordinary programs, generated C still compiles, and check_baseline.py still passes 504/504;
 3. be REALISTIC (what a maintainer's refactoring or "optimisation" slip could introduce: off-by-one, wrong boundary constant, dropped special case, swapped operands, wrong sign/width, missing mask, condition inverted in a rare arm ...) and SUBTLE: ordinary use must NOT expose it at once. It should need something specific to manifest — an unusual or boundary input, a particular multi-step sequence of operations, a particular configuration, or two cooperating code sites that each look fine alone. Prefer changes that only misbehave on a small part of the input space. Do not add dead code, comments announcing the bug, or special-casing of magic inputs.
 4. come with a demonstration that FAILS (non-zero exit) with the change applied and PASSES (exit 0) on the pristine tree. The demo takes the tree to test from the environment variable WT (e.g. WT=/tmp/seed/{pid}/wt) and must use the Cython from that tree (PYTHONPATH=$WT or sys.path.insert(0, os.environ['WT'])); if it needs a built extension it calls /tmp/seed/build_pyx.sh "$WT" ... into a fresh temp dir itself. Keep demos fast (< 2 min) and self-contained. Note: some modules under Cython/ exist in other checkouts ALSO as stale compiled .so files; so always import the module under test through a tree without .so files as described (your worktree is fine), and make the demo assert `module.__file__.endswith('.py')` for pure-Python modules it tests.

DELIVERABLES in /tmp/seed/{pid}/ for N in 1..3:
  mN.diff       — `git diff` output relative to the worktree root (must apply with `git -C <tree> apply mN.diff` on a pristine tree)
  mN_demo.py or mN_demo.sh — the demonstration (run as `WT=<tree> /venv/bin/python mN_demo.py` or `WT=<tree> bash mN_demo.sh`)
  mN_meta.json  — {{"property": "{pid}", "files": [...], "what_breaks": "...", "needs_to_manifest": "...", "failing_example": "...", "commands_run": [...]}}
Verify for each N yourself: pristine tree -> demo exit 0; apply diff -> demo exit != 0 AND check_baseline.py exit 0; then `git -C /tmp/seed/{pid}/wt checkout -- .` to restore before the next one. Leave the worktree pristine at the end.
If after honest effort you cannot make 3, deliver as many as you can (at least 1). Be economical: read only the code you need. Final answer: a short list of the deliverables with one line each on what breaks and what is needed to manifest.""")
