#!/venv/bin/python
"""usage: check_baseline.py <tree>   — runs the pinned suite in <tree>; exit 0 iff all 504 baseline tests pass."""
import json, subprocess, sys, os, tempfile, xml.etree.ElementTree as ET
tree = sys.argv[1]
base = json.load(open('/root/.vp/BASELINE.json'))
want = set(base['stable_pass'])
x = tempfile.mktemp(suffix='.xml')
subprocess.run(['/venv/bin/python', '-m', 'pytest', '-q', '-p', 'no:cacheprovider', '--timeout=900',
                '--continue-on-collection-errors', '--junitxml=' + x], cwd=tree, stdout=subprocess.DEVNULL, stderr=subprocess.DEVNULL)
passed = set()
for tc in ET.parse(x).getroot().iter('testcase'):
    if not any(c.tag in ('failure', 'error', 'skipped') for c in tc):
        passed.add('%s::%s' % (tc.get('classname'), tc.get('name')))
os.unlink(x)
missing = sorted(want - passed)
print('baseline tests passing: %d / %d' % (len(want & passed), len(want)))
for m in missing[:20]:
    print('  NOT PASSING:', m)
sys.exit(0 if not missing else 1)
