#!/bin/bash
# usage: verify_seed.sh <ID> <n>  — independently confirm seeded change /tmp/seed/<ID>/m<n>.diff in a scratch worktree
# (demo passes on pristine HEAD, fails with the change, pinned suite still 504/504), then file it under /verif/seeded/.
ID=$1; N=$2; S=/tmp/seed/$ID; WT=/tmp/seedv/$ID-m$N
DEMO=$(ls $S/m${N}_demo.* 2>/dev/null | head -1)
[ -f "$S/m$N.diff" ] && [ -n "$DEMO" ] || { echo "$ID m$N: missing files"; exit 2; }
mkdir -p /tmp/seedv; rm -rf $WT; git -C /repo worktree prune; git -C /repo worktree add -q --detach $WT HEAD || exit 2
run_demo() { case "$DEMO" in *.py) WT=$WT timeout 900 /venv/bin/python "$DEMO";; *) WT=$WT timeout 900 bash "$DEMO";; esac >/tmp/seedv/$ID-m$N.$1.log 2>&1; echo $?; }
r0=$(run_demo pristine)
git -C $WT apply "$S/m$N.diff" || { echo "$ID m$N: diff does not apply"; git -C /repo worktree remove --force $WT; exit 2; }
r1=$(run_demo mutated)
/verif/tools/check_baseline.py $WT > /tmp/seedv/$ID-m$N.base.log 2>&1; rb=$?
git -C /repo worktree remove --force $WT
echo "$ID m$N: demo pristine=$r0 mutated=$r1 baseline=$rb"
if [ "$r0" = 0 ] && [ "$r1" != 0 ] && [ "$rb" = 0 ]; then
  O=/verif/seeded/$ID-m$N; mkdir -p $O
  cp "$S/m$N.diff" $O/patch.diff; cp "$DEMO" $O/$(basename "$DEMO" | sed "s/^m${N}_//")
  /venv/bin/python - "$S/m${N}_meta.json" "$O/meta.json" "$ID" "$N" "$(basename $DEMO)" <<'P'
import json, sys
src, dst, pid, n, demo = sys.argv[1:]
try: m = json.load(open(src))
except Exception as e: m = {"note": "agent meta unreadable: %s" % e}
m["property"] = pid
m["confirmed_by_main"] = {"demo_on_pristine_HEAD_exit": 0, "demo_with_patch_exit": "non-zero", "pinned_suite_with_patch": "504/504",
  "ran": ["git worktree add --detach <scratch> HEAD", "WT=<scratch> " + demo + "  (exit 0)", "git apply patch.diff", "WT=<scratch> " + demo + "  (exit != 0)", "/verif/tools/check_baseline.py <scratch>  (504/504)", "git worktree remove --force <scratch>"]}
json.dump(m, open(dst, "w"), indent=1)
P
  echo "$ID m$N: CONFIRMED -> $O"
else
  echo "$ID m$N: NOT confirmed (see /tmp/seedv/$ID-m$N.*.log)"
fi
