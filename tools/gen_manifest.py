#!/usr/bin/env python3
"""Regenerates /verif/MANIFEST.json from the table below (single source of truth)."""
import json, os, sys
sys.path.insert(0, '/verif')
from tools.manifest_table import CHECKS, NA_PERMANENT

ALL = ['C%02d' % i for i in range(1, 51)]
checks = []
for pid in ALL:
    if pid not in CHECKS:
        continue
    c = CHECKS[pid]
    checks.append(dict(
        property_id=pid,
        quick_cmd='./check %s --tier quick' % pid,
        thorough_cmd='./check %s --tier thorough' % pid,
        evidence_file='/verif/evidence/%s.json' % pid,
        replay_cmd_template='./check %s --replay {path}' % pid,
        engine=c['engine'],
        level_claimed=dict(category=c.get('level', 'model_checking'), text=c['text'], design_ref=c.get('ref', 'DESIGN.md §3 ' + pid)),
        level_note=c['note'],
        technique=c['technique'],
    ))
na = []
for pid in ALL:
    if pid in CHECKS:
        continue
    na.append(dict(property_id=pid, reason=NA_PERMANENT.get(pid, 'encoding not completed within budget (intended claim, see DESIGN.md §3 %s); not replaced by another technique' % pid)))
m = dict(
    version=1,
    setup_cmd='./setup.sh',
    hooks=dict(guard='CYTHON_VERIF', enable='no hooks are needed: checks read /repo sources directly (pure-Python overlay + clang IR of the real C)',
               baseline_off_cmd='cd /repo && /venv/bin/python -m pytest -ra -q -p no:cacheprovider --timeout=900 --continue-on-collection-errors',
               source_commits=[], add_only=True),
    engines=[
        dict(name='CIR', path='/verif/vf/cir', serves_properties=sorted(p for p, c in CHECKS.items() if 'CIR' in c['engine']),
             kind_free_text='real utility / generated C -> clang-14 LLVM IR (-O0 + mem2reg) -> bounded-model-checking encoding in z3 (bit-vectors, FP, region memory), UB obligations, unwinding assertions, replay on native build'),
        dict(name='GEN', path='/verif/vf/gen', serves_properties=sorted(p for p, c in CHECKS.items() if 'GEN' in c['engine']),
             kind_free_text='finite families of template programs compiled by the real (pure-Python overlay) Cython; emitted C run through CIR with symbolic inputs / faults'),
        dict(name='PYSYM', path='/verif/vf/pysym', serves_properties=sorted(p for p, c in CHECKS.items() if 'PYSYM' in c['engine']),
             kind_free_text='CrossHair symbolic execution (z3) of the real pure-Python units against short reference models; prefix-split conditions, concrete replay'),
        dict(name='PYAST', path='/verif/vf/pyast', serves_properties=sorted(p for p, c in CHECKS.items() if 'PYAST' in c['engine']),
             kind_free_text='AST slice of the real Python source -> z3 terms (integer-only blocks)'),
    ],
    checks=checks,
    not_applicable=na,
    notes='Solver-based checking of the real code; see DESIGN.md. Exit codes: 0 held within stated bounds, 1 VIOLATION (replayed), 2 harness error / inconclusive mandatory obligation (never a finding).',
)
json.dump(m, open('/verif/MANIFEST.json', 'w'), indent=1)
import jsonschema
jsonschema.validate(m, json.load(open('/root/.vp/MANIFEST.schema.json')))
print('MANIFEST.json: %d checks, %d not_applicable' % (len(checks), len(na)))
