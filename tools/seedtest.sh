#!/bin/bash
# usage: seedtest.sh <diff> <property-id> [tier]
# Applies a seeded change to a scratch worktree of /repo's HEAD (never to /repo itself), runs the check against
# that tree (VF_REPO) with evidence/replays redirected (VF_OUT), removes the worktree.
D=$(readlink -f "$1"); P=$2; T=${3:-quick}
TAG=$(basename $(dirname $D))-$(basename $D .diff)-$P
WT=/tmp/seedt/$TAG; OUT=/tmp/seedt/out-$TAG
mkdir -p /tmp/seedt; rm -rf $WT $OUT; git -C /repo worktree prune
git -C /repo worktree add -q --detach $WT HEAD || exit 9
git -C $WT apply "$D" || { echo "patch does not apply"; git -C /repo worktree remove --force $WT; exit 9; }
cd /verif && VF_REPO=$WT VF_OUT=$OUT ./check $P --tier $T > /tmp/seedt/$TAG.log 2>&1; rc=$?
git -C /repo worktree remove --force $WT
grep -E "VIOLATION|KNOWN-FINDING|HARNESS-ERROR" /tmp/seedt/$TAG.log | cut -c1-220 | head -6
echo "== $TAG: exit=$rc"
rm -rf $OUT
