#!/bin/bash
# usage: seedtest.sh <diff> <property-id> [tier]   — apply a seeded change to /repo, run the check, undo.
D=$(readlink -f "$1"); P=$2; T=${3:-quick}
cd /repo || exit 9
if ! git diff --quiet; then echo "/repo has uncommitted changes"; exit 9; fi
git apply "$D" || { echo "patch does not apply"; exit 9; }
cd /verif && ./check $P --tier $T > /tmp/seedtest_$P.log 2>&1; rc=$?
git -C /repo checkout -- . 
grep -E "VIOLATION|KNOWN-FINDING|HARNESS-ERROR|CEX|\?\?\?" /tmp/seedtest_$P.log | head -12
echo "== $(basename $D) on $P: exit=$rc"
# evidence files are rewritten by the run on the mutated tree: restore the committed ones
git -C /verif checkout -- evidence 2>/dev/null
exit 0
