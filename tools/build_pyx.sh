#!/bin/bash
# usage: build_pyx.sh <worktree> <file.pyx|file.py> [extra cython args]
# Compiles the file with the Cython found in <worktree> (pure Python) and builds an importable
# extension module next to the source file.  Import it with the source directory on sys.path.
# (Seeding sub-agents get a copy as /tmp/seed/build_pyx.sh, together with tools/check_baseline.py.)
set -e
WT=$1; SRC=$2; shift 2
D=$(dirname "$SRC"); B=$(basename "$SRC"); M=${B%.*}
INC=$(/venv/bin/python -c "import sysconfig; print(sysconfig.get_paths()['include'])")
SUF=$(/venv/bin/python -c "import sysconfig; print(sysconfig.get_config_var('EXT_SUFFIX'))")
NPI=$(/venv/bin/python -c "import numpy; print(numpy.get_include())" 2>/dev/null || true)
cd "$D"
PYTHONPATH=$WT /venv/bin/python -c "import Cython, sys; assert Cython.__file__.startswith('$WT'), Cython.__file__; from Cython.Compiler.Main import setuptools_main; sys.argv=['cython','-3']+sys.argv[1:]; setuptools_main()" "$@" "$B"
gcc -shared -fPIC -O1 -fwrapv -w -I"$INC" ${NPI:+-I$NPI} "$M.c" -o "$M$SUF"
echo "built $D/$M$SUF"
