"""LLVM-14 textual IR (typed pointers) -> Python structures.  Only what clang -O0 + mem2reg emits for C."""
import re

TOKEN = re.compile(r'''
    (?P<ws>\s+) |
    (?P<comment>;[^\n]*) |
    (?P<cstr>c"(?:[^"\\]|\\[0-9A-Fa-f]{2}|\\\\)*") |
    (?P<str>"(?:[^"\\]|\\.)*") |
    (?P<local>%(?:[-\w.$]+|"[^"]*")) |
    (?P<glob>@(?:[-\w.$]+|"[^"]*")) |
    (?P<meta>![-\w.$]*) |
    (?P<attr>\#\d+) |
    (?P<hexfp>0x[KLMHR]?[0-9A-Fa-f]+) |
    (?P<fp>-?\d+\.\d*(?:[eE][-+]?\d+)?) |
    (?P<int>-?\d+) |
    (?P<dots>\.\.\.) |
    (?P<word>[A-Za-z_][\w.]*) |
    (?P<punct>[()\[\]{}<>,=*:|])
''', re.X)


class ParseError(Exception):
    pass


def tokenize(s):
    out = []
    pos = 0
    n = len(s)
    while pos < n:
        m = TOKEN.match(s, pos)
        if not m:
            raise ParseError('cannot tokenize at %r' % s[pos:pos + 40])
        pos = m.end()
        k = m.lastgroup
        if k in ('ws', 'comment'):
            continue
        out.append((k, m.group(k)))
    return out


# ---- types ---------------------------------------------------------------------------------
class T:
    """type: kind in int/float/void/ptr/array/struct/named/func/label/metadata/opaque"""
    __slots__ = ('kind', 'bits', 'elem', 'count', 'fields', 'packed', 'name', 'ret', 'params', 'vararg')

    def __init__(self, kind, **kw):
        self.kind = kind
        self.bits = self.elem = self.count = self.fields = self.name = self.ret = self.params = None
        self.packed = self.vararg = False
        for k, v in kw.items():
            setattr(self, k, v)

    def __repr__(self):
        k = self.kind
        if k == 'int': return 'i%d' % self.bits
        if k == 'float': return {32: 'float', 64: 'double', 80: 'x86_fp80', 16: 'half', 128: 'fp128'}[self.bits]
        if k == 'ptr': return '%r*' % (self.elem,)
        if k == 'array': return '[%d x %r]' % (self.count, self.elem)
        if k == 'struct': return ('<{%s}>' if self.packed else '{%s}') % ', '.join(map(repr, self.fields))
        if k == 'named': return self.name
        if k == 'func': return '%r (%s)' % (self.ret, ', '.join(map(repr, self.params)) + (', ...' if self.vararg else ''))
        return k

    @property
    def is_ptr(self): return self.kind == 'ptr'
    @property
    def is_int(self): return self.kind == 'int'
    @property
    def is_fp(self): return self.kind == 'float'


FLOATS = {'half': 16, 'float': 32, 'double': 64, 'x86_fp80': 80, 'fp128': 128}
PARAM_ATTRS = {'noundef', 'zeroext', 'signext', 'nonnull', 'noalias', 'nocapture', 'readonly', 'readnone', 'writeonly',
               'returned', 'inreg', 'nest', 'immarg', 'nofree', 'swiftself', 'swifterror', 'noreturn'}


class P:
    """token cursor"""

    def __init__(self, toks):
        self.t = toks
        self.i = 0

    def peek(self, k=0):
        return self.t[self.i + k] if self.i + k < len(self.t) else (None, None)

    def next(self):
        tok = self.t[self.i]
        self.i += 1
        return tok

    def accept(self, val):
        if self.i < len(self.t) and self.t[self.i][1] == val:
            self.i += 1
            return True
        return False

    def expect(self, val):
        if not self.accept(val):
            raise ParseError('expected %r, got %r in %r' % (val, self.peek(), ' '.join(x[1] for x in self.t[:40])))

    def done(self):
        return self.i >= len(self.t)

    # -- types
    def type(self):
        k, v = self.next()
        if k == 'word':
            m = re.match(r'^i(\d+)$', v)
            if m:
                t = T('int', bits=int(m.group(1)))
            elif v in FLOATS:
                t = T('float', bits=FLOATS[v])
            elif v == 'void':
                t = T('void')
            elif v == 'label':
                t = T('label')
            elif v == 'metadata':
                t = T('metadata')
            elif v == 'opaque':
                t = T('opaque')
            elif v == 'ptr':
                t = T('ptr', elem=T('int', bits=8))
            else:
                raise ParseError('type word ' + v)
        elif k == 'local':
            t = T('named', name=v)
        elif v == '[':
            _, n = self.next()
            self.expect_word('x')
            e = self.type()
            self.expect(']')
            t = T('array', count=int(n), elem=e)
        elif v == '{':
            t = T('struct', fields=self._fields('}'))
        elif v == '<':
            if self.peek()[1] == '{':
                self.next()
                f = self._fields('}')
                self.expect('>')
                t = T('struct', fields=f, packed=True)
            else:
                _, n = self.next()
                self.expect_word('x')
                e = self.type()
                self.expect('>')
                t = T('vector', count=int(n), elem=e)
        else:
            raise ParseError('type at %r' % ((k, v),))
        # suffixes: pointers and function types
        while True:
            if self.accept('*'):
                t = T('ptr', elem=t)
            elif self.peek()[1] == '(' and self._looks_like_functype():
                self.next()
                params, va = [], False
                while not self.accept(')'):
                    if self.accept('...'):
                        va = True
                    else:
                        params.append(self.type())
                        while self.peek()[0] == 'word' and self.peek()[1] in PARAM_ATTRS:
                            self.next()
                    self.accept(',')
                t = T('func', ret=t, params=params, vararg=va)
            else:
                return t

    def _looks_like_functype(self):
        # a '(' directly after a type starts a function type only in type context; callers that parse
        # `call <ty> @f(args)` use type_nofunc() instead
        return True

    def expect_word(self, w):
        k, v = self.next()
        if v != w:
            raise ParseError('expected %s got %s' % (w, v))

    def _fields(self, close):
        out = []
        while not self.accept(close):
            out.append(self.type())
            self.accept(',')
        return out


def parse_type_str(s):
    return P(tokenize(s)).type()


# ---- module --------------------------------------------------------------------------------
class Function:
    def __init__(self, name, ret, params, lines):
        self.name, self.ret, self.params = name, ret, params      # params: list of (T, name)
        self.lines = lines
        self._blocks = None

    @property
    def blocks(self):
        """ordered dict label -> list of parsed instructions (parsed lazily)"""
        if self._blocks is None:
            self._blocks = parse_body(self.lines)
        return self._blocks


class Global:
    def __init__(self, name, ty, init_toks, constant, external):
        self.name, self.ty, self.init_toks, self.constant, self.external = name, ty, init_toks, constant, external


class Module:
    def __init__(self, text):
        self.structs = {}       # '%struct.x' -> T
        self.functions = {}
        self.declares = {}      # name -> (ret T, [param T], vararg)
        self.globals = {}
        self._parse(text)

    def _parse(self, text):
        lines = text.split('\n')
        i = 0
        n = len(lines)
        while i < n:
            line = lines[i]
            if line.startswith('%') and ' = type ' in line:
                name, rest = line.split(' = type ', 1)
                self.structs[name.strip()] = parse_type_str(rest)
            elif line.startswith('define '):
                j = i + 1
                while lines[j] != '}':
                    j += 1
                self._define(line, lines[i + 1:j])
                i = j
            elif line.startswith('declare '):
                self._declare(line)
            elif line.startswith('@'):
                self._global(line)
            i += 1

    def _sig(self, line):
        toks = tokenize(line)
        p = P(toks)
        p.next()  # define/declare
        # skip linkage etc. until we can parse "<type> @name("
        while True:
            save = p.i
            k, v = p.peek()
            if k == 'word' and v in ('internal', 'private', 'dso_local', 'hidden', 'weak', 'linkonce_odr', 'available_externally',
                                      'external', 'noundef', 'zeroext', 'signext', 'nonnull', 'noalias', 'unnamed_addr',
                                      'local_unnamed_addr', 'fastcc', 'ccc', 'protected', 'default', 'extern_weak', 'dllimport'):
                p.next()
                continue
            if k == 'word' and v in ('align', 'dereferenceable', 'dereferenceable_or_null'):
                p.next()
                if p.accept('('):
                    p.next(); p.expect(')')
                else:
                    p.next()
                continue
            break
        ret = self._type_before_global(p)
        k, name = p.next()
        assert k == 'glob', (k, name, line[:100])
        p.expect('(')
        params, va = [], False
        while not p.accept(')'):
            if p.accept('...'):
                va = True
            else:
                t = p.type()
                pname = None
                while True:
                    k, v = p.peek()
                    if k == 'word' and (v in PARAM_ATTRS):
                        p.next()
                    elif k == 'word' and v in ('align', 'dereferenceable', 'dereferenceable_or_null', 'byval', 'sret', 'inalloca', 'preallocated', 'elementtype'):
                        p.next()
                        if p.accept('('):
                            depth = 1
                            while depth:
                                kk, vv = p.next()
                                depth += (vv == '(') - (vv == ')')
                        else:
                            p.next()
                    elif k == 'local':
                        pname = p.next()[1]
                    else:
                        break
                params.append((t, pname))
            p.accept(',')
        return name[1:].strip('"'), ret, params, va

    def _type_before_global(self, p):
        # return type followed by @name( : parse a type but do not treat "(" after @name as a func type
        return p.type()

    def _define(self, line, body):
        name, ret, params, va = self._sig(line)
        self.functions[name] = Function(name, ret, params, body)

    def _declare(self, line):
        name, ret, params, va = self._sig(line)
        self.declares[name] = (ret, [t for t, _ in params], va)

    def _global(self, line):
        toks = tokenize(line)
        p = P(toks)
        name = p.next()[1][1:].strip('"')
        p.expect('=')
        external = False
        constant = False
        while True:
            k, v = p.peek()
            if v in ('global', 'constant'):
                constant = (v == 'constant')
                p.next()
                break
            if v in ('external', 'extern_weak'):
                external = True
            if v == 'alias' or v is None:
                return
            p.next()
            if v in ('thread_local',) and p.accept('('):
                p.next(); p.expect(')')
        ty = p.type()
        init = toks[p.i:]
        # strip trailing ", align N" / section / comdat
        depth = 0
        cut = len(init)
        for idx, (k, v) in enumerate(init):
            if v in '([{<' and k == 'punct':
                depth += 1
            elif v in ')]}>' and k == 'punct':
                depth -= 1
            elif v == ',' and depth == 0:
                cut = idx
                break
        self.globals[name] = Global(name, ty, init[:cut], constant, external or cut == 0)


# ---- instructions --------------------------------------------------------------------------
class Ins:
    __slots__ = ('op', 'dst', 'ty', 'args', 'flags', 'extra', 'text')

    def __init__(self, op, dst, text):
        self.op, self.dst, self.text = op, dst, text
        self.ty = None
        self.args = []
        self.flags = ()
        self.extra = None

    def __repr__(self):
        return self.text


BINOPS = {'add', 'sub', 'mul', 'and', 'or', 'xor', 'shl', 'lshr', 'ashr', 'sdiv', 'udiv', 'srem', 'urem',
          'fadd', 'fsub', 'fmul', 'fdiv', 'frem'}
CASTS = {'zext', 'sext', 'trunc', 'bitcast', 'ptrtoint', 'inttoptr', 'sitofp', 'uitofp', 'fptosi', 'fptoui', 'fpext', 'fptrunc',
         'addrspacecast'}
FLAGWORDS = {'nsw', 'nuw', 'exact', 'inbounds', 'nnan', 'ninf', 'nsz', 'arcp', 'contract', 'afn', 'reassoc', 'fast',
             'volatile', 'atomic', 'tail', 'musttail', 'notail'}


def parse_value(p, ty):
    """operand value -> ('local', name) | ('global', name) | ('int', v) | ('fp', text) | ('null',) | ('undef',) | ('zero',)
       | ('cexpr', op, ...) | ('agg', [(ty, val)...]) | ('cstr', bytes)"""
    k, v = p.next()
    if k == 'local':
        return ('local', v)
    if k == 'glob':
        return ('global', v[1:].strip('"'))
    if k == 'int':
        return ('int', int(v))
    if k in ('fp', 'hexfp'):
        return ('fp', v)
    if k == 'cstr':
        return ('cstr', _cstr(v))
    if k == 'word':
        if v == 'null': return ('null',)
        if v in ('undef', 'poison'): return ('undef',)
        if v == 'zeroinitializer': return ('zero',)
        if v == 'true': return ('int', 1)
        if v == 'false': return ('int', 0)
        if v in ('getelementptr',):
            flags = []
            while p.peek()[1] in ('inbounds',):
                flags.append(p.next()[1])
            p.expect('(')
            base_ty = p.type()
            p.expect(',')
            ops = []
            while True:
                t = p.type()
                val = parse_value(p, t)
                ops.append((t, val))
                if not p.accept(','):
                    break
            p.expect(')')
            return ('cexpr', 'getelementptr', base_ty, ops)
        if v in CASTS:
            p.expect('(')
            t = p.type()
            val = parse_value(p, t)
            p.expect_word('to')
            t2 = p.type()
            p.expect(')')
            return ('cexpr', v, t, val, t2)
        if v in BINOPS:
            while p.peek()[1] in FLAGWORDS:
                p.next()
            p.expect('(')
            t = p.type(); a = parse_value(p, t); p.expect(',')
            t2 = p.type(); b = parse_value(p, t2); p.expect(')')
            return ('cexpr', v, t, a, b)
        raise ParseError('value word ' + v)
    if v in ('{', '[', '<'):
        packed = False
        if v == '<' and p.peek()[1] == '{':
            p.next(); packed = True
            close = '}'
        else:
            close = {'{': '}', '[': ']', '<': '>'}[v]
        elems = []
        while not p.accept(close):
            t = p.type()
            elems.append((t, parse_value(p, t)))
            p.accept(',')
        if packed:
            p.expect('>')
        return ('agg', elems)
    raise ParseError('value %r' % ((k, v),))


def _cstr(tok):
    body = tok[2:-1]
    out = bytearray()
    i = 0
    while i < len(body):
        if body[i] == '\\':
            if body[i + 1] == '\\':
                out.append(92); i += 2
            else:
                out.append(int(body[i + 1:i + 3], 16)); i += 3
        else:
            out.append(ord(body[i])); i += 1
    return bytes(out)


def _strip_meta(toks):
    """drop trailing ', !dbg !12' / ', align 4' handled by callers; remove metadata attachments"""
    out = []
    i = 0
    while i < len(toks):
        k, v = toks[i]
        if k == 'meta' and out and out[-1][1] == ',':
            out.pop()
            # skip '!name !N' pairs
            i += 1
            while i < len(toks) and toks[i][0] == 'meta':
                i += 1
            continue
        out.append(toks[i])
        i += 1
    return out


def parse_ins(line):
    toks = _strip_meta(tokenize(line))
    p = P(toks)
    dst = None
    if p.peek()[0] == 'local' and p.peek(1)[1] == '=':
        dst = p.next()[1]
        p.next()
    k, op = p.next()
    while op in ('tail', 'musttail', 'notail'):
        k, op = p.next()
    ins = Ins(op, dst, line.strip())
    if op in BINOPS:
        flags = []
        while p.peek()[1] in FLAGWORDS:
            flags.append(p.next()[1])
        ins.flags = tuple(flags)
        ins.ty = p.type()
        a = parse_value(p, ins.ty); p.expect(',')
        b = parse_value(p, ins.ty)
        ins.args = [a, b]
    elif op == 'fneg':
        while p.peek()[1] in FLAGWORDS:
            p.next()
        ins.ty = p.type()
        ins.args = [parse_value(p, ins.ty)]
    elif op in ('icmp', 'fcmp'):
        while p.peek()[1] in FLAGWORDS:
            p.next()
        ins.extra = p.next()[1]
        ins.ty = p.type()
        a = parse_value(p, ins.ty); p.expect(',')
        b = parse_value(p, ins.ty)
        ins.args = [a, b]
    elif op in CASTS:
        t = p.type()
        a = parse_value(p, t)
        p.expect_word('to')
        ins.ty = p.type()
        ins.args = [(t, a)]
    elif op == 'select':
        while p.peek()[1] in FLAGWORDS:
            p.next()
        tc = p.type(); c = parse_value(p, tc); p.expect(',')
        t1 = p.type(); a = parse_value(p, t1); p.expect(',')
        t2 = p.type(); b = parse_value(p, t2)
        ins.ty = t1
        ins.args = [(tc, c), a, b]
    elif op == 'phi':
        while p.peek()[1] in FLAGWORDS:
            p.next()
        ins.ty = p.type()
        inc = []
        while True:
            p.expect('[')
            v = parse_value(p, ins.ty); p.expect(',')
            lab = p.next()[1]
            p.expect(']')
            inc.append((v, lab[1:]))
            if not p.accept(','):
                break
        ins.args = inc
    elif op == 'br':
        if p.peek()[1] == 'label':
            p.next()
            ins.args = [p.next()[1][1:]]
        else:
            t = p.type(); c = parse_value(p, t); p.expect(',')
            p.expect_word('label'); l1 = p.next()[1][1:]; p.expect(',')
            p.expect_word('label'); l2 = p.next()[1][1:]
            ins.args = [c, l1, l2]
    elif op == 'switch':
        ins.ty = p.type()
        v = parse_value(p, ins.ty); p.expect(',')
        p.expect_word('label'); dflt = p.next()[1][1:]
        p.expect('[')
        cases = []
        while not p.accept(']'):
            t = p.type(); cv = parse_value(p, t); p.expect(',')
            p.expect_word('label'); cases.append((cv[1], p.next()[1][1:]))
        ins.args = [v, dflt, cases]
    elif op == 'ret':
        ins.ty = p.type()
        if ins.ty.kind != 'void':
            ins.args = [parse_value(p, ins.ty)]
    elif op == 'getelementptr':
        flags = []
        while p.peek()[1] in ('inbounds',):
            flags.append(p.next()[1])
        ins.flags = tuple(flags)
        ins.ty = p.type(); p.expect(',')
        ops = []
        while True:
            t = p.type()
            ops.append((t, parse_value(p, t)))
            if not p.accept(','):
                break
        ins.args = ops
    elif op == 'load':
        while p.peek()[1] in FLAGWORDS:
            p.next()
        ins.ty = p.type(); p.expect(',')
        pt = p.type()
        ins.args = [parse_value(p, pt)]
    elif op == 'store':
        while p.peek()[1] in FLAGWORDS:
            p.next()
        t = p.type(); v = parse_value(p, t); p.expect(',')
        pt = p.type(); ptr = parse_value(p, pt)
        ins.ty = t
        ins.args = [v, ptr]
    elif op == 'alloca':
        while p.peek()[1] in ('inalloca',):
            p.next()
        ins.ty = p.type()
        ins.extra = 1
        if p.accept(','):
            if p.peek()[1] != 'align':
                t = p.type()
                ins.extra = parse_value(p, t)
    elif op == 'call':
        while p.peek()[0] == 'word' and (p.peek()[1] in FLAGWORDS or p.peek()[1] in ('fastcc', 'ccc') or p.peek()[1] in PARAM_ATTRS):
            p.next()
        # return type (no function-type suffix unless explicitly "(...)*")
        ret = _call_ret_type(p)
        callee = parse_value(p, None)
        p.expect('(')
        args = []
        while not p.accept(')'):
            t = p.type()
            while True:
                kk, vv = p.peek()
                if kk == 'word' and vv in PARAM_ATTRS:
                    p.next()
                elif kk == 'word' and vv in ('align', 'dereferenceable', 'dereferenceable_or_null', 'byval', 'sret', 'elementtype'):
                    p.next()
                    if p.accept('('):
                        depth = 1
                        while depth:
                            _, x = p.next()
                            depth += (x == '(') - (x == ')')
                    else:
                        p.next()
                else:
                    break
            if t.kind == 'metadata':
                # skip metadata operand
                depth = 0
                while True:
                    kk, vv = p.peek()
                    if depth == 0 and vv in (',', ')'):
                        break
                    depth += (vv == '(') - (vv == ')')
                    p.next()
                args.append((t, ('undef',)))
            else:
                args.append((t, parse_value(p, t)))
            p.accept(',')
        ins.ty = ret
        ins.extra = callee
        ins.args = args
    elif op == 'extractvalue':
        t = p.type(); v = parse_value(p, t)
        idx = []
        while p.accept(','):
            idx.append(int(p.next()[1]))
        ins.ty = t
        ins.args = [v]
        ins.extra = idx
    elif op == 'insertvalue':
        t = p.type(); v = parse_value(p, t); p.expect(',')
        t2 = p.type(); e = parse_value(p, t2)
        idx = []
        while p.accept(','):
            idx.append(int(p.next()[1]))
        ins.ty = t
        ins.args = [v, (t2, e)]
        ins.extra = idx
    elif op == 'unreachable':
        pass
    elif op == 'freeze':
        ins.ty = p.type()
        ins.args = [parse_value(p, ins.ty)]
    else:
        ins.op = 'unsupported:' + op
    return ins


def _call_ret_type(p):
    """`call <ret> @f(...)` or `call <ret> (<params>, ...) @f(...)` (explicit function type for varargs)"""
    t = p.type()
    if t.kind == 'func':
        t = t.ret
    return t


def parse_body(lines):
    blocks = {}
    order = []
    label = None
    pending = None
    for raw in lines:
        s = raw.strip()
        if not s or s.startswith(';'):
            continue
        if pending is not None:                 # multi-line switch
            pending += ' ' + s
            if s != ']':
                continue
            s, pending = pending, None
        elif s.startswith('switch ') and not s.endswith(']'):
            pending = s
            continue
        m = re.match(r'^([-\w.$]+|"[^"]*"):', s)
        if m and not s.startswith('%'):
            label = m.group(1).strip('"')
            blocks[label] = []
            order.append(label)
            continue
        if label is None:
            label = 'entry'
            blocks[label] = []
            order.append(label)
        if s.startswith('call void @llvm.dbg.') or s.startswith('call void @llvm.lifetime.'):
            continue
        blocks[label].append(parse_ins(s))
    return blocks
