"""Engine CIR, step 1: real C text -> LLVM IR (DESIGN §2.2).

cythonize_template(): compile a template .pyx with the pure-Python overlay of /repo's Cython
(so the utility code and call sites are instantiated by the real compiler from the working tree).
lower(): clang-14 -O0 -Xclang -disable-O0-optnone + opt-14 mem2reg only.
native(): the same C compiled to a shared object for self-tests / replays.
"""
import hashlib, os, subprocess, sys, sysconfig
from .. import snapshot

PY = '/verif/.venv/bin/python'
PYINC = sysconfig.get_paths()['include']
EXT_SUFFIX = sysconfig.get_config_var('EXT_SUFFIX')


class BuildError(Exception):
    pass


def _run(cmd, **kw):
    p = subprocess.run(cmd, capture_output=True, text=True, **kw)
    if p.returncode != 0:
        raise BuildError('%s\n%s' % (' '.join(cmd[:6]), (p.stdout + p.stderr)[-3000:]))
    return p


def cythonize_template(src_text, name, workdir, directives=None, cplus=False, extra_args=()):
    """Write <name>.pyx into workdir and compile it to C with the overlay Cython.  Returns the .c path."""
    os.makedirs(workdir, exist_ok=True)
    pyx = os.path.join(workdir, name + '.pyx')
    with open(pyx, 'w') as f:
        f.write(src_text)
    out = os.path.join(workdir, name + ('.cpp' if cplus else '.c'))
    args = ['-3', '--fast-fail']
    for k, v in (directives or {}).items():
        args += ['-X', '%s=%s' % (k, v)]
    if cplus:
        args.append('--cplus')
    args += list(extra_args) + [pyx, '-o', out]
    code = ("import sys, Cython; assert Cython.__file__.startswith(%r), Cython.__file__\n"
            "from Cython.Compiler.Main import setuptools_main\n"
            "sys.argv = ['cython'] + %r\n"
            "sys.exit(setuptools_main())\n") % (snapshot.make_overlay(), args)
    p = subprocess.run([PY, '-c', code], env=snapshot.child_env(), capture_output=True, text=True, cwd=workdir)
    if p.returncode != 0 or not os.path.exists(out):
        raise BuildError('cython failed on %s:\n%s' % (name, (p.stdout + p.stderr)[-4000:]))
    return out


def lower(cfile, defines=(), extra_flags=(), tag=''):
    """C -> textual LLVM IR (typed pointers, LLVM 14), -O0 + mem2reg only."""
    base = os.path.splitext(cfile)[0] + (('.' + tag) if tag else '')
    ll0, ll = base + '.O0.ll', base + '.ll'
    cc = 'clang++-14' if cfile.endswith('.cpp') else 'clang-14'
    if cc == 'clang++-14' and not os.path.exists('/usr/bin/clang++-14'):
        cc = 'clang-14'
    defines = list(defines) + os.environ.get('VF_EXTRA_DEFINES', '').split()      # configuration arm selected by an aggregating check (C39)
    cmd = [cc, '-O0', '-Xclang', '-disable-O0-optnone', '-DNDEBUG', '-w', '-S', '-emit-llvm', '-fno-discard-value-names',
           '-I' + PYINC] + ['-D' + d for d in defines] + list(extra_flags) + [cfile, '-o', ll0]
    _run(cmd)
    _run(['opt-14', '-S', '-passes=mem2reg', ll0, '-o', ll])
    os.unlink(ll0)
    return ll


def native(cfile, defines=(), extra_flags=(), tag='', sanitize=False):
    """Build the translation unit as a shared object (importable extension module / ctypes target)."""
    base = os.path.splitext(cfile)[0]
    so = base + (('_' + tag) if tag else '') + EXT_SUFFIX
    defines = list(defines) + os.environ.get('VF_EXTRA_DEFINES', '').split()
    cmd = ['gcc', '-shared', '-fPIC', '-O1', '-fwrapv', '-w', '-I' + PYINC] + ['-D' + d for d in defines] + list(extra_flags)
    if sanitize:
        cmd = ['gcc', '-shared', '-fPIC', '-O1', '-w', '-fsanitize=undefined', '-fno-sanitize-recover=undefined',
               '-I' + PYINC] + ['-D' + d for d in defines] + list(extra_flags)
    _run(cmd + [cfile, '-o', so])
    return so


def sha(path):
    return hashlib.sha256(open(path, 'rb').read()).hexdigest()[:12]
