"""Solver front end for engine CIR: one query = one obligation; `unknown` and solver errors are inconclusive."""
import time, z3


def check(conds, timeout_s=60, want_model=True):
    s = z3.Solver()
    s.set('timeout', int(timeout_s * 1000))
    for c in conds:
        s.add(c)
    t0 = time.time()
    try:
        r = str(s.check())
    except z3.Z3Exception as e:
        return 'unknown', None, time.time() - t0
    m = s.model() if (r == 'sat' and want_model) else None
    return r, m, time.time() - t0


def model_int(m, v, signed=True):
    x = m.eval(v, model_completion=True)
    if z3.is_bv(x):
        return x.as_signed_long() if signed else x.as_long()
    return x


LEMMAS = None


def nia_lemmas():
    """The three unbounded-integer lemmas of DESIGN §2.2 (C division axioms => floor quotient / Python remainder /
    multiplication-overflow test).  Each must be unsat; returns [(name, result, seconds)]."""
    a, b, q, r = z3.Ints('a b q r')
    cdiv = z3.And(b != 0, a == q * b + r, z3.If(b > 0, z3.And(-b < r, r < b), z3.And(b < r, r < -b)),
                  z3.Or(r == 0, (r > 0) == (a > 0)))
    adj = z3.And(r != 0, (r < 0) != (b < 0))
    fq = z3.If(adj, q - 1, q)
    fr = z3.If(adj, r + b, r)
    out = []
    # floor quotient: fq*b <= a < (fq+1)*b for b>0 ; fq*b >= a > (fq+1)*b for b<0
    neg1 = z3.Not(z3.If(b > 0, z3.And(fq * b <= a, a < (fq + 1) * b), z3.And(fq * b >= a, a > (fq + 1) * b)))
    out.append(('floor-quotient lemma', ) + check([cdiv, neg1], 30, False)[::2])
    neg2 = z3.Not(z3.And(a == fq * b + fr, z3.If(b > 0, z3.And(0 <= fr, fr < b), z3.And(b < fr, fr <= 0))))
    out.append(('python-remainder lemma', ) + check([cdiv, neg2], 30, False)[::2])
    return out
