"""Solver front end for engine CIR: one query = one obligation; `unknown` and solver errors are inconclusive."""
import time, z3


def check(conds, timeout_s=60, want_model=True):
    s = z3.Solver()
    s.set('timeout', int(timeout_s * 1000))
    for c in conds:
        s.add(c)
    t0 = time.time()
    try:
        r = str(s.check())
    except z3.Z3Exception as e:
        return 'unknown', None, time.time() - t0
    m = s.model() if (r == 'sat' and want_model) else None
    return r, m, time.time() - t0


def _mul_terms(e, seen, out):
    if e.get_id() in seen:
        return
    seen.add(e.get_id())
    for c in e.children():
        _mul_terms(c, seen, out)
    if z3.is_app_of(e, z3.Z3_OP_BMUL) and sum(0 if z3.is_bv_value(c) else 1 for c in e.children()) >= 2:
        out.append(e)


def abstract_muls(conds):
    """Replace every symbolic x symbolic bit-vector multiplication by an uninterpreted function of its operands
    (shared between implementation and specification terms).  Sound for UNSAT: any model of the original formula is a
    model of the abstraction.  A SAT answer of the abstraction proves nothing and is re-checked concretely."""
    # one normal form for implementation and specification terms (the executor simplifies guards as it goes)
    conds = [z3.simplify(c) for c in conds]
    ufs = {}
    for _ in range(8):
        terms = []
        seen = set()
        for c in conds:
            _mul_terms(c, seen, terms)
        # innermost first: only terms none of whose children contains another mul term
        ids = {t.get_id() for t in terms}

        def has_inner(t):
            stack = list(t.children())
            while stack:
                x = stack.pop()
                if x.get_id() in ids:
                    return True
                stack.extend(x.children())
            return False
        inner = [t for t in terms if not has_inner(t)]
        if not inner:
            break
        subs = []
        for t in inner:
            w = t.size()
            args = sorted(t.children(), key=lambda a: a.get_id())
            if len(args) != 2:
                continue
            f = ufs.get(w)
            if f is None:
                f = ufs[w] = z3.Function('mul_uf_%d' % w, z3.BitVecSort(w), z3.BitVecSort(w), z3.BitVecSort(w))
            subs.append((t, f(args[0], args[1])))
        if not subs:
            break
        conds = [z3.substitute(c, *subs) for c in conds]
    return conds


def check_abstract_first(conds, timeout_s=60):
    """UNSAT through the multiplication abstraction if possible, otherwise the exact query"""
    conds = [c if not isinstance(c, bool) else z3.BoolVal(c) for c in conds]
    r, m, s = check(abstract_muls(conds), min(timeout_s, 30), want_model=False)
    if r == 'unsat':
        return r, None, s
    r2, m2, s2 = check(conds, timeout_s)
    return r2, m2, s + s2


def model_int(m, v, signed=True):
    x = m.eval(v, model_completion=True)
    if z3.is_bv(x):
        return x.as_signed_long() if signed else x.as_long()
    return x


LEMMAS = None


def nia_lemmas(mul=False):
    """The three unbounded-integer lemmas of DESIGN §2.2 (C division axioms => floor quotient / Python remainder /
    multiplication-overflow test).  Each must be unsat; returns [(name, result, seconds)]."""
    a, b, q, r = z3.Ints('a b q r')
    cdiv = z3.And(b != 0, a == q * b + r, z3.If(b > 0, z3.And(-b < r, r < b), z3.And(b < r, r < -b)),
                  z3.Or(r == 0, (r > 0) == (a > 0)))
    adj = z3.And(r != 0, (r < 0) != (b < 0))
    fq = z3.If(adj, q - 1, q)
    fr = z3.If(adj, r + b, r)
    out = []
    # floor quotient: fq*b <= a < (fq+1)*b for b>0 ; fq*b >= a > (fq+1)*b for b<0
    neg1 = z3.Not(z3.If(b > 0, z3.And(fq * b <= a, a < (fq + 1) * b), z3.And(fq * b >= a, a > (fq + 1) * b)))
    out.append(('floor-quotient lemma', ) + check([cdiv, neg1], 30, False)[::2])
    neg2 = z3.Not(z3.And(a == fq * b + fr, z3.If(b > 0, z3.And(0 <= fr, fr < b), z3.And(b < fr, fr <= 0))))
    out.append(('python-remainder lemma', ) + check([cdiv, neg2], 30, False)[::2])
    if mul:
        # the division-based multiplication-overflow test of Overflow.c (mul_const): with C (truncating) division,
        #   b > 1 : a > MAX/b or a < MIN/b   <=>  a*b outside [MIN, MAX]
        #   b < -1: a > MIN/b or a < MAX/b   <=>  a*b outside [MIN, MAX]
        MAX, MIN, q1, r1, q2, r2 = z3.Ints('MAX MIN q1 r1 q2 r2')
        def tdiv(n, d, q_, r_):
            return z3.And(n == q_ * d + r_, z3.If(d > 0, z3.And(-d < r_, r_ < d), z3.And(d < r_, r_ < -d)), z3.Or(r_ == 0, (r_ > 0) == (n > 0)))
        base = [MAX > 0, MIN == -MAX - 1, tdiv(MAX, b, q1, r1), tdiv(MIN, b, q2, r2)]
        ovf = z3.Or(a * b > MAX, a * b < MIN)
        out.append(('mul-overflow lemma (b > 1)', ) + check(base + [b > 1, z3.Or(a > q1, a < q2) != ovf], 30, False)[::2])
        out.append(('mul-overflow lemma (b < -1)', ) + check(base + [b < -1, z3.Or(a > q2, a < q1) != ovf], 30, False)[::2])
    return out
