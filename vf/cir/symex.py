"""Engine CIR, step 2: bounded-model-checking style symbolic execution of LLVM IR into z3 terms (DESIGN §2.2).

* one pass per function over the *unrolled* CFG in topological order; every node has a path guard, every edge an
  edge guard; phi = ite over edge guards; callee bodies are inlined (depth bounded); no path enumeration;
* values: ints = z3 BitVec, floats = z3 FP, pointers = Ptr(bv64, may-point-to set of regions), aggregates = lists;
* memory: regions at concrete, far-apart base addresses; a region is a field map (concrete offsets) or an element
  array (symbolic index); stores are guarded (ite(guard, new, old));
* undefined behaviour (nsw/nuw overflow, division by zero / MIN/-1, oversized shifts, out-of-region / NULL / freed
  accesses) is collected as obligations `guard AND bad`, to be shown unsat by the harness;
* calls to functions that are not defined in the module go to a stub table; without a stub they are recorded as
  events and return a fresh value; loops are unrolled k times with an unwinding obligation.
"""
import re, itertools, z3
from . import ir

PTRBITS = 64
REGION_SHIFT = 40            # region k lives at [k << 40, (k+1) << 40)


def _short(e):
    """cheap printable form of a z3 term (pretty-printing a large DAG can take minutes)"""
    if not isinstance(e, z3.ExprRef):
        return str(e)
    if z3.is_bv_value(e):
        return str(e.as_long())
    if z3.is_const(e):
        return str(e)
    try:
        if all(z3.is_const(c) or z3.is_bv_value(c) for c in e.children()) and e.num_args() <= 3:
            return str(e)
    except Exception:
        pass
    return '<%s-term #%d>' % (e.decl().name(), e.get_id())


class LocalEnv(dict):
    """SSA environment of one function activation.  `raw[name] = (loop context, value)` remembers the value defined in
    one unrolled iteration instance; a use in the same instance (`view`) sees it unmerged (it dominates the use)."""
    __slots__ = ('raw', 'view')

    def __init__(self):
        dict.__init__(self)
        self.raw = {}
        self.view = None


class Unsupported(Exception):
    pass


class Ptr:
    __slots__ = ('bv', 'regions')

    def __init__(self, bv, regions):
        self.bv = bv
        self.regions = frozenset(regions)

    def __repr__(self):
        return 'Ptr(%s,%s)' % (z3.simplify(self.bv), sorted(self.regions))


NULLPTR = Ptr(z3.BitVecVal(0, 64), [0])


class Region:
    def __init__(self, rid, name, size=None, kind='fields', elemsize=None, elem_is_ptr=False, ptr_targets=(), lazy=True,
                 readonly=False):
        self.id, self.name, self.size, self.kind = rid, name, size, kind
        self.base = rid << REGION_SHIFT
        self.fields = {}            # off -> (nbytes, value)        (kind == 'fields')
        self.elemsize = elemsize    # bytes                         (kind == 'elems')
        self.array = None
        self.elem_is_ptr = elem_is_ptr
        self.ptr_targets = frozenset(ptr_targets)
        self.lazy = lazy            # reading an unwritten location creates a fresh symbolic input
        self.readonly = readonly
        self.freed = z3.BoolVal(False)
        self.ptr_default = None     # callable(off) -> Ptr for lazily created pointer fields

    def __repr__(self):
        return 'Region(%d,%s)' % (self.id, self.name)


class Event:
    __slots__ = ('guard', 'name', 'args', 'ret', 'seq')

    def __init__(self, guard, name, args, ret, seq):
        self.guard, self.name, self.args, self.ret, self.seq = guard, name, args, ret, seq

    def __repr__(self):
        return 'Event(%s)' % self.name


def FPSORT(bits):
    return {16: z3.Float16(), 32: z3.Float32(), 64: z3.Float64(), 128: z3.Float128()}[bits]


RNE = z3.RNE()


def _contains_ite(e, depth=0):
    if z3.is_app_of(e, z3.Z3_OP_ITE):
        return True
    if depth > 5:
        return False
    return any(_contains_ite(c, depth + 1) for c in e.children())


def mul_wrapped(x, y, signed):
    """the W-bit (wrapped) product; up to 32 bits it is taken from the same exact 2W-bit product that mul_fits uses, so that
    implementation and specification share one multiplier term"""
    w = x.size()
    if w <= 32:
        p = (z3.SignExt(w, x) * z3.SignExt(w, y)) if signed else (z3.ZeroExt(w, x) * z3.ZeroExt(w, y))
        return z3.Extract(w - 1, 0, p)
    return x * y


def mul_fits(x, y, signed):
    """exact product representable in the operand width.  Up to 32 bits: by definition through the exact 2W-bit
    product; at 64 bits: z3's bvsmul_noovfl/bvumul_noovfl predicates (the SMT-LIB definition of the same thing)."""
    w = x.size()
    if w <= 32:
        if signed:
            p = z3.SignExt(w, x) * z3.SignExt(w, y)
            return z3.SignExt(w, z3.Extract(w - 1, 0, p)) == p
        p = z3.ZeroExt(w, x) * z3.ZeroExt(w, y)
        return z3.Extract(2 * w - 1, w, p) == 0
    if signed:
        return z3.And(z3.BVMulNoOverflow(x, y, True), z3.BVMulNoUnderflow(x, y))
    return z3.BVMulNoOverflow(x, y, False)


class Exec:
    def __init__(self, module, stubs=None, unroll=4, inline_depth=12, unroll_for=None):
        self.m = module
        self.stubs = dict(stubs or {})
        self.unroll = unroll
        self.unroll_for = unroll_for or {}      # function name -> bound
        self.inline_depth = inline_depth
        self.regions = {}
        self.next_region = 1
        self.events = []
        self.ub = []             # (condition that must be UNSAT, description, function)
        self.unwind = []         # (guard of exceeding the bound, description)
        self.fresh = 0
        self.inputs = {}         # name -> z3 const (lazily created memory inputs etc.)
        self.global_regions = {}
        self.stats = dict(blocks=0, edges=0, ins=0, inlined=0)
        self.assumptions = []    # constraints introduced by stubs (e.g. allocator results are fresh)
        self._sdivs = {}         # per run: AST id of a bvsdiv result -> (dividend, divisor, result)
        self._cur_guard = z3.BoolVal(True)
        self.unit_mul_split = False   # rewrite x*y to an ite over y in {1,-1,0} (exactly equivalent)
        self.arith_log = []      # executed mul/sdiv/srem with symbolic operands: dict(op, g, x, y, r, fn) (operand lemmas)
        self.trace_functions = set()
        self._layout_cache = {}

    # ---- fresh values ------------------------------------------------------------------
    def newbv(self, name, bits):
        self.fresh += 1
        v = z3.BitVec('%s!%d' % (name, self.fresh), bits)
        return v

    def newbool(self, name):
        self.fresh += 1
        return z3.Bool('%s!%d' % (name, self.fresh))

    def new_region(self, name, **kw):
        r = Region(self.next_region, name, **kw)
        self.regions[r.id] = r
        self.next_region += 1
        if r.kind == 'elems':
            r.array = z3.Array('mem_%s_%d' % (name, r.id), z3.BitVecSort(64), z3.BitVecSort(8 * r.elemsize))
        return r

    def ptr_to(self, region, off=0):
        return Ptr(z3.BitVecVal(region.base + off, 64), [region.id])

    # ---- layout ------------------------------------------------------------------------
    def resolve(self, t):
        while t.kind == 'named':
            t = self.m.structs[t.name]
        return t

    def size_align(self, t):
        key = repr(t)
        r = self._layout_cache.get(key)
        if r is None:
            r = self._layout_cache[key] = self._sa(t)
        return r

    def _sa(self, t):
        t = self.resolve(t)
        k = t.kind
        if k == 'ptr':
            return 8, 8
        if k == 'int':
            b = (t.bits + 7) // 8
            n = 1
            while n < b:
                n *= 2
            return n, min(n, 8) if n <= 8 else 16
        if k == 'float':
            return {16: (2, 2), 32: (4, 4), 64: (8, 8), 80: (16, 16), 128: (16, 16)}[t.bits]
        if k == 'array':
            s, a = self.size_align(t.elem)
            return s * t.count, a
        if k == 'struct':
            _, size, align = self.fields(t)
            return size, align
        if k == 'func':
            return 8, 8
        if k == 'opaque':
            return 0, 1
        raise Unsupported('size of type %r' % (t,))

    def fields(self, t):
        t = self.resolve(t)
        offs, off, maxa = [], 0, 1
        for ft in t.fields:
            s, a = self.size_align(ft)
            if t.packed:
                a = 1
            off = (off + a - 1) // a * a
            offs.append((off, ft))
            off += s
            maxa = max(maxa, a)
        size = (off + maxa - 1) // maxa * maxa
        return offs, size, maxa

    def field_offset(self, struct_name, index_path):
        """offset of a (nested) field, e.g. field_offset('%struct._longobject', [1, 1]) -> offset of ob_digit"""
        t = self.m.structs[struct_name] if isinstance(struct_name, str) else struct_name
        off = 0
        for idx in index_path:
            t = self.resolve(t)
            if t.kind == 'struct':
                offs, _, _ = self.fields(t)
                off += offs[idx][0]
                t = offs[idx][1]
            elif t.kind == 'array':
                s, _ = self.size_align(t.elem)
                off += s * idx
                t = t.elem
        return off

    # ---- values ------------------------------------------------------------------------
    def bits_of(self, t):
        t = self.resolve(t)
        if t.kind == 'int':
            return t.bits
        if t.kind == 'ptr':
            return 64
        raise Unsupported('bits of %r' % (t,))

    def zero_of(self, t):
        t = self.resolve(t)
        if t.kind == 'int':
            return z3.BitVecVal(0, t.bits)
        if t.kind == 'ptr':
            return NULLPTR
        if t.kind == 'float':
            return z3.FPVal(0.0, FPSORT(t.bits))
        if t.kind == 'struct':
            return [self.zero_of(f) for f in t.fields]
        if t.kind == 'array':
            return [self.zero_of(t.elem) for _ in range(t.count)]
        raise Unsupported('zero of %r' % (t,))

    def fresh_of(self, t, name):
        t = self.resolve(t)
        if t.kind == 'int':
            return self.newbv(name, t.bits)
        if t.kind == 'float':
            self.fresh += 1
            return z3.FP('%s!%d' % (name, self.fresh), FPSORT(t.bits))
        if t.kind == 'ptr':
            r = self.new_region(name, size=None)
            return self.ptr_to(r)
        if t.kind == 'struct':
            return [self.fresh_of(f, name) for f in t.fields]
        raise Unsupported('fresh of %r' % (t,))

    def fpconst(self, t, text):
        sort = FPSORT(self.resolve(t).bits)
        if text.startswith('0x'):
            if text[2] in 'KLMHR':
                raise Unsupported('fp constant ' + text)
            bits = int(text[2:], 16)          # LLVM prints float/double constants as 64-bit double hex
            d = z3.fpBVToFP(z3.BitVecVal(bits, 64), z3.Float64())
            if sort == z3.Float64():
                return d
            return z3.fpFPToFP(RNE, d, sort)
        return z3.FPVal(float(text), sort)

    def value(self, t, v, env):
        k = v[0]
        if k == 'local':
            try:
                raw = getattr(env, 'raw', None)
                if raw is not None:
                    rd = raw.get(v[1])
                    if rd is not None and rd[0] == env.view:
                        return rd[1]          # defined in this same unrolled iteration instance: no merge needed
                return env[v[1]]
            except KeyError:
                raise Unsupported('use of undefined value %s' % v[1])
        t = self.resolve(t) if t is not None else None
        if k == 'int':
            if t.kind == 'int':
                return z3.BitVecVal(v[1], t.bits)
            raise Unsupported('int const of type %r' % (t,))
        if k == 'fp':
            return self.fpconst(t, v[1])
        if k == 'null':
            return NULLPTR
        if k == 'undef':
            return self.fresh_of(t, 'undef') if t.kind != 'ptr' else NULLPTR
        if k == 'zero':
            return self.zero_of(t)
        if k == 'global':
            return self.global_ptr(v[1])
        if k == 'agg':
            return [self.value(et, ev, env) for et, ev in v[1]]
        if k == 'cstr':
            return [z3.BitVecVal(b, 8) for b in v[1]]
        if k == 'cexpr':
            op = v[1]
            if op == 'getelementptr':
                base_ty, ops = v[2], v[3]
                base = self.value(ops[0][0], ops[0][1], env)
                idxs = [self.value(it, iv, env) for it, iv in ops[1:]]
                return self.gep(base_ty, base, idxs)
            if op in ('bitcast', 'addrspacecast'):
                return self.value(v[2], v[3], env)
            if op == 'ptrtoint':
                p = self.value(v[2], v[3], env)
                return self.fit(p.bv, self.bits_of(v[4]))
            if op == 'inttoptr':
                x = self.value(v[2], v[3], env)
                return Ptr(self.fit(x, 64), self.regions.keys() | {0})
            if op in ir.BINOPS:
                a = self.value(v[2], v[3], env)
                b = self.value(v[2], v[4], env)
                return self.binop(op, (), a, b, z3.BoolVal(True), 'constexpr')
            raise Unsupported('constant expression ' + op)
        raise Unsupported('value %r' % (v,))

    def fit(self, x, bits):
        if x.size() == bits:
            return x
        return z3.Extract(bits - 1, 0, x) if x.size() > bits else z3.ZeroExt(bits - x.size(), x)

    # ---- globals -----------------------------------------------------------------------
    def global_ptr(self, name):
        r = self.global_regions.get(name)
        if r is None:
            if name in self.m.functions or name in self.m.declares:
                r = self.new_region('fn:' + name, size=1, lazy=False)
                r.func_name = name
            else:
                g = self.m.globals.get(name)
                if g is None:
                    r = self.new_region('G:' + name, size=None)
                else:
                    size, _ = self.size_align(g.ty) if self.resolve(g.ty).kind != 'opaque' else (None, 1)
                    r = self.new_region('G:' + name, size=size, lazy=True, readonly=g.constant)
                    if g.init_toks and not g.external:
                        try:
                            p = ir.P(list(g.init_toks))
                            val = ir.parse_value(p, g.ty)
                            self._init_region(r, 0, g.ty, val)
                        except (ir.ParseError, IndexError) as e:
                            raise Unsupported('initializer of @%s: %s' % (name, e))
            self.global_regions[name] = r
        return self.ptr_to(r)

    def _init_region(self, r, off, ty, val):
        t = self.resolve(ty)
        k = val[0]
        if k == 'zero':
            self._zero_fill(r, off, t)
            return
        if k == 'cstr':
            for i, b in enumerate(val[1]):
                r.fields[off + i] = (1, z3.BitVecVal(b, 8))
            return
        if k == 'agg':
            if t.kind == 'struct':
                offs, _, _ = self.fields(t)
                for (fo, ft), (et, ev) in zip(offs, val[1]):
                    self._init_region(r, off + fo, ft, ev)
            elif t.kind == 'array':
                s, _ = self.size_align(t.elem)
                for i, (et, ev) in enumerate(val[1]):
                    self._init_region(r, off + i * s, t.elem, ev)
            return
        if k == 'undef':
            return
        v = self.value(t, val, {})
        n, _ = self.size_align(t)
        r.fields[off] = (n, v)

    def _zero_fill(self, r, off, t):
        t = self.resolve(t)
        if t.kind == 'struct':
            offs, _, _ = self.fields(t)
            for fo, ft in offs:
                self._zero_fill(r, off + fo, ft)
        elif t.kind == 'array':
            s, _ = self.size_align(t.elem)
            if t.count > 4096:
                return
            for i in range(t.count):
                self._zero_fill(r, off + i * s, t.elem)
        else:
            n, _ = self.size_align(t)
            r.fields[off] = (n, self.zero_of(t))

    # ---- pointers / memory ---------------------------------------------------------------
    def gep(self, base_ty, base, idxs):
        off = None          # accumulated offset as z3 BV64
        t = base_ty
        conc = 0
        sym = []
        first = True
        for iv in idxs:
            iv = z3.simplify(self.sx(iv, 64))
            if first:
                s, _ = self.size_align(t)
                first = False
                scale = s
            else:
                tt = self.resolve(t)
                if tt.kind == 'struct':
                    k = iv.as_long()
                    offs, _, _ = self.fields(tt)
                    conc += offs[k][0]
                    t = offs[k][1]
                    continue
                elif tt.kind == 'array':
                    t = tt.elem
                    scale, _ = self.size_align(t)
                else:
                    raise Unsupported('gep into %r' % (tt,))
            if z3.is_bv_value(iv):
                conc += iv.as_signed_long() * scale
            else:
                sym.append(iv * z3.BitVecVal(scale, 64))
        bv = base.bv + z3.BitVecVal(conc & ((1 << 64) - 1), 64)
        for s_ in sym:
            bv = bv + s_
        return Ptr(z3.simplify(bv), base.regions)

    def sx(self, v, bits):
        if v.size() == bits:
            return v
        return z3.SignExt(bits - v.size(), v) if v.size() < bits else z3.Extract(bits - 1, 0, v)

    def _leaves(self, bv, limit=24):
        """decompose an ite-tree of addresses into [(condition, address)], distributing + over ite"""
        out = []

        def has_ite(e, depth=0):
            if z3.is_app_of(e, z3.Z3_OP_ITE):
                return True
            if depth > 3 or not (z3.is_app_of(e, z3.Z3_OP_BADD) or z3.is_app_of(e, z3.Z3_OP_BSUB)):
                return False
            return any(has_ite(c, depth + 1) for c in e.children())

        def walk(e, cond):
            if len(out) > limit:
                return
            if z3.is_app_of(e, z3.Z3_OP_ITE):
                c, a, b = e.children()
                walk(a, cond + [c])
                walk(b, cond + [z3.Not(c)])
                return
            if z3.is_app_of(e, z3.Z3_OP_BADD) or z3.is_app_of(e, z3.Z3_OP_BSUB):
                ch = e.children()
                for i, c in enumerate(ch):
                    if has_ite(c):
                        sub = []
                        saved = list(out)
                        del out[:]
                        walk(c, [])
                        sub, out[:] = list(out), saved
                        for sc, leaf in sub:
                            new = list(ch)
                            new[i] = leaf
                            rebuilt = new[0]
                            for x in new[1:]:
                                rebuilt = (rebuilt + x) if z3.is_app_of(e, z3.Z3_OP_BADD) else (rebuilt - x)
                            walk(z3.simplify(rebuilt), cond + ([sc] if not z3.is_true(sc) else []))
                        return
            out.append((z3.And(*cond) if cond else z3.BoolVal(True), e))
        walk(z3.simplify(bv), [])
        return out if 0 < len(out) <= limit else [(z3.BoolVal(True), bv)]

    def _value_set(self, e, limit=96):
        """sound over-approximation of the values a BV expression can take, as a set of ints, or None if unknown
        (ite trees of constants, sums/differences of such, zero/sign extensions, concatenations with constants)"""
        memo = {}
        mask = (1 << e.size()) - 1

        def vs(x):
            k = x.get_id()
            if k in memo:
                return memo[k]
            r = None
            if z3.is_bv_value(x):
                r = {x.as_long()}
            elif z3.is_app_of(x, z3.Z3_OP_ITE):
                a, b = vs(x.arg(1)), vs(x.arg(2))
                r = (a | b) if a is not None and b is not None else None
            elif z3.is_app_of(x, z3.Z3_OP_BADD) or z3.is_app_of(x, z3.Z3_OP_BSUB):
                m = (1 << x.size()) - 1
                acc = None
                for i, c in enumerate(x.children()):
                    cv = vs(c)
                    if cv is None:
                        acc = None
                        break
                    if acc is None:
                        acc = set(cv)
                    else:
                        acc = {((a + b) if z3.is_app_of(x, z3.Z3_OP_BADD) else (a - b)) & m for a in acc for b in cv}
                    if len(acc) > limit:
                        acc = None
                        break
                r = acc
            elif z3.is_app_of(x, z3.Z3_OP_ZERO_EXT):
                r = vs(x.arg(0))
            elif z3.is_app_of(x, z3.Z3_OP_SIGN_EXT):
                a = vs(x.arg(0))
                w = x.arg(0).size()
                r = None if a is None else {(v if v < (1 << (w - 1)) else v - (1 << w)) & ((1 << x.size()) - 1) for v in a}
            elif z3.is_app_of(x, z3.Z3_OP_CONCAT):
                acc = {0}
                for c in x.children():
                    cv = vs(c)
                    if cv is None:
                        acc = None
                        break
                    acc = {(a << c.size()) | b for a in acc for b in cv}
                    if len(acc) > limit:
                        acc = None
                        break
                r = acc
            if r is not None and len(r) > limit:
                r = None
            memo[k] = r
            return r
        return vs(e)

    def _field_offsets(self, r, off_s, n, guard, what):
        """concrete offsets a symbolic offset into a field-map region may take (superset), creating a proof obligation
        when only the offsets already present can be tracked"""
        vals = self._value_set(off_s)
        hi = r.size if isinstance(r.size, int) else None
        if vals is not None:
            return sorted(v for v in vals if hi is None or v + n <= hi)
        if hi is not None and hi <= 160:
            return list(range(0, hi - n + 1))
        keys = sorted(k for k, (kn, _) in r.fields.items() if kn == n)
        if not keys:
            raise Unsupported('%s at symbolic offset %s into %s' % (what, off_s, r.name))
        self.ub.append((z3.And(guard, z3.Not(z3.Or(*[off_s == z3.BitVecVal(k, 64) for k in keys]))),
                        '%s of %s at an offset the memory model does not track (%s)' % (what, r.name, _short(off_s)), 'memory-model'))
        return keys

    def _candidates(self, p, guard, what, fn):
        """[(region, condition, offset BV64)] for a dereference; emits NULL / wild-pointer obligations"""
        hi = z3.simplify(z3.Extract(63, REGION_SHIFT, p.bv))
        if z3.is_bv_value(hi):
            rid = hi.as_long()
            r = self.regions.get(rid)
            if r is None or (rid not in p.regions and p.regions):
                self.ub.append((guard, '%s through NULL or a pointer into no known object (%s)' % (what, _short(z3.simplify(p.bv))), fn))
                return []
            return [(r, z3.BoolVal(True), z3.simplify(p.bv - z3.BitVecVal(r.base, 64)))]
        out = []
        bad = []
        nonnull = [rid for rid in p.regions if rid != 0 and rid in self.regions]
        if len(nonnull) == 1 and (self.regions[nonnull[0]].kind == 'elems' or not _contains_ite(z3.simplify(p.bv))):
            # a pointer derived from exactly one object: it is taken to point into that object, and the access generates a
            # bounds obligation on the offset (an out-of-object pointer shows up there); NULL-ness is an obligation too
            r = self.regions[nonnull[0]]
            if 0 in p.regions:
                self.ub.append((z3.And(guard, p.bv == 0), '%s through a NULL pointer' % what, fn))
            return [(r, z3.BoolVal(True), z3.simplify(p.bv - z3.BitVecVal(r.base, 64)))]
        for cond, leaf in self._leaves(p.bv):
            lh = z3.simplify(z3.Extract(63, REGION_SHIFT, leaf))
            if z3.is_bv_value(lh):
                r = self.regions.get(lh.as_long())
                if r is None or lh.as_long() == 0:
                    bad.append(cond)
                else:
                    out.append((r, cond, z3.simplify(leaf - z3.BitVecVal(r.base, 64))))
            else:
                # address of unknown shape: fall back to the may-point-to set
                conds = []
                for rid in p.regions:
                    if rid == 0 or rid not in self.regions:
                        continue
                    r = self.regions[rid]
                    c = z3.And(cond, lh == z3.BitVecVal(r.id, 64 - REGION_SHIFT))
                    out.append((r, c, z3.simplify(leaf - z3.BitVecVal(r.base, 64))))
                    conds.append(lh == z3.BitVecVal(r.id, 64 - REGION_SHIFT))
                bad.append(z3.And(cond, z3.Not(z3.Or(*conds)) if conds else z3.BoolVal(True)))
        if bad:
            self.ub.append((z3.And(guard, z3.Or(*bad)), '%s through NULL or a pointer outside its objects' % what, fn))
        return out

    def _bounds(self, r, off, n, guard, what, fn):
        if r.size is None:
            self.ub.append((z3.And(guard, r.freed), '%s of freed object %s' % (what, r.name), fn)) if not z3.is_false(r.freed) else None
            return
        size = r.size if not isinstance(r.size, int) else z3.BitVecVal(r.size, 64)
        bad = z3.Or(z3.UGT(off, size), z3.UGT(off + z3.BitVecVal(n, 64), size))
        bad = z3.simplify(bad)
        if not z3.is_false(bad):
            self.ub.append((z3.And(guard, bad), '%s outside %s (offset %s, %d bytes, size %s)' % (what, r.name, _short(off), n, _short(r.size)), fn))
        if not z3.is_false(r.freed):
            self.ub.append((z3.And(guard, r.freed), '%s of freed object %s' % (what, r.name), fn))

    def load(self, p, t, guard, fn='?'):
        t = self.resolve(t)
        if t.kind in ('struct', 'array'):
            return self._load_agg(p, t, guard, fn)
        n, _ = self.size_align(t)
        cands = self._candidates(p, guard, 'load', fn)
        if not cands:
            return self.fresh_of(t, 'badload') if t.kind != 'ptr' else NULLPTR
        result = None
        for r, c, off in reversed(cands):
            self._bounds(r, off, n, z3.And(guard, c), 'load', fn)
            self._cur_guard = z3.And(guard, c)
            v = self._read(r, off, n, t)
            result = v if result is None else self.ite(c, v, result)
        return result

    def _load_agg(self, p, t, guard, fn):
        if t.kind == 'struct':
            offs, _, _ = self.fields(t)
            return [self.load(Ptr(p.bv + z3.BitVecVal(o, 64), p.regions), ft, guard, fn) for o, ft in offs]
        s, _ = self.size_align(t.elem)
        return [self.load(Ptr(p.bv + z3.BitVecVal(i * s, 64), p.regions), t.elem, guard, fn) for i in range(t.count)]

    def _wrap(self, raw, t, r):
        """raw BV of the right size -> typed value"""
        if t.kind == 'ptr':
            if isinstance(raw, Ptr):
                return raw
            return Ptr(raw, (r.ptr_targets or frozenset(self.regions.keys())) | {0})
        if t.kind == 'float':
            if z3.is_fp(raw):
                return raw
            return z3.fpBVToFP(raw, FPSORT(t.bits))
        if isinstance(raw, Ptr):
            raw = raw.bv
        if z3.is_fp(raw):
            raw = z3.fpToIEEEBV(raw)
        if t.kind == 'int' and raw.size() != t.bits:
            raw = z3.Extract(t.bits - 1, 0, raw)
        return raw

    def _raw(self, v, n):
        if isinstance(v, Ptr):
            return v.bv
        if z3.is_fp(v):
            return z3.fpToIEEEBV(v)
        if v.size() < 8 * n:
            return z3.ZeroExt(8 * n - v.size(), v)
        return v

    def _read(self, r, off, n, t):
        if r.kind == 'elems':
            if n != r.elemsize:
                raise Unsupported('access of %d bytes to element array %s (elements are %d bytes)' % (n, r.name, r.elemsize))
            idx = z3.simplify(z3.UDiv(off, z3.BitVecVal(n, 64)))
            raw = z3.Select(r.array, idx)
            return self._wrap(raw, t, r)
        off_s = z3.simplify(off)
        if z3.is_bv_value(off_s):
            return self._read_concrete(r, off_s.as_long(), n, t)
        # symbolic offset into a field map: ite over the offsets it can take
        keys = self._field_offsets(r, off_s, n, self._cur_guard, 'load')
        if not keys:
            # every value the offset can take lies outside the object: the bounds obligation already emitted for this
            # access covers it; the loaded value is arbitrary
            return self.fresh_of(t, 'oob_load') if t.kind != 'ptr' else NULLPTR
        res = self._read_concrete(r, keys[-1], n, t)
        for k in reversed(keys[:-1]):
            res = self.ite(off_s == z3.BitVecVal(k, 64), self._read_concrete(r, k, n, t), res)
        return res

    def _read_concrete(self, r, o, n, t):
        f = r.fields.get(o)
        if f is not None and f[0] == n:
            return self._wrap(f[1], t, r) if not (t.kind == 'ptr' and isinstance(f[1], Ptr)) else f[1]
        # overlapping / missing: assemble bytes
        covered = self._bytes(r, o, n)
        if covered is None:
            # nothing written there: create a fresh input of this exact shape
            if not r.lazy:
                v = self.fresh_of(t, 'uninit_%s+%d' % (r.name, o)) if t.kind != 'ptr' else NULLPTR
            elif t.kind == 'ptr':
                v = r.ptr_default(o) if r.ptr_default else self._lazy_ptr(r, o)
            elif t.kind == 'float':
                v = z3.FP('in_%s+%d' % (r.name, o), FPSORT(t.bits))
            else:
                v = z3.BitVec('in_%s+%d:%d' % (r.name, o, n), 8 * n)
                self.inputs['%s+%d:%d' % (r.name, o, n)] = v
            r.fields[o] = (n, v)
            return self._wrap(v, t, r)
        raw = z3.Concat(*reversed(covered)) if len(covered) > 1 else covered[0]
        return self._wrap(z3.simplify(raw), t, r)

    def _lazy_ptr(self, r, o):
        nr = self.new_region('%s->%d' % (r.name, o), size=None)
        return self.ptr_to(nr)

    def _bytes(self, r, o, n):
        """list of n byte BVs (little endian) if any byte is covered by existing fields, else None"""
        out = [None] * n
        anyc = False
        for k, (kn, v) in r.fields.items():
            if k < o + n and o < k + kn:
                raw = self._raw(v, kn)
                for b in range(max(k, o), min(k + kn, o + n)):
                    out[b - o] = z3.Extract(8 * (b - k) + 7, 8 * (b - k), raw)
                    anyc = True
        if not anyc:
            return None
        for i in range(n):
            if out[i] is None:
                v = z3.BitVec('in_%s+%d:1' % (r.name, o + i), 8) if r.lazy else self.newbv('uninit', 8)
                r.fields[o + i] = (1, v)
                out[i] = v
        return out

    def store(self, p, val, t, guard, fn='?'):
        t = self.resolve(t)
        if t.kind == 'struct':
            offs, _, _ = self.fields(t)
            for (o, ft), v in zip(offs, val):
                self.store(Ptr(p.bv + z3.BitVecVal(o, 64), p.regions), v, ft, guard, fn)
            return
        if t.kind == 'array':
            s, _ = self.size_align(t.elem)
            for i, v in enumerate(val):
                self.store(Ptr(p.bv + z3.BitVecVal(i * s, 64), p.regions), v, t.elem, guard, fn)
            return
        n, _ = self.size_align(t)
        for r, c, off in self._candidates(p, guard, 'store', fn):
            g = z3.simplify(z3.And(guard, c))
            self._bounds(r, off, n, g, 'store', fn)
            if r.readonly:
                self.ub.append((g, 'store to read-only object %s' % r.name, fn))
            self._write(r, off, n, val, t, g)

    def _write(self, r, off, n, val, t, g):
        if r.kind == 'elems':
            if n != r.elemsize:
                raise Unsupported('store of %d bytes to element array %s' % (n, r.name))
            idx = z3.simplify(z3.UDiv(off, z3.BitVecVal(n, 64)))
            raw = self._raw(val, n)
            new = z3.Store(r.array, idx, raw)
            r.array = new if z3.is_true(g) else z3.If(g, new, r.array)
            return
        off_s = z3.simplify(off)
        if not z3.is_bv_value(off_s):
            for k in self._field_offsets(r, off_s, n, g, 'store'):
                self._write_concrete(r, k, n, val, t, z3.And(g, off_s == z3.BitVecVal(k, 64)))
            return
        self._write_concrete(r, off_s.as_long(), n, val, t, g)

    def _write_concrete(self, r, o, n, val, t, g):
        if z3.is_true(z3.simplify(g)):
            # drop overlapped fields of other sizes
            for k in [k for k, (kn, _) in r.fields.items() if k < o + n and o < k + kn and (k != o or kn != n)]:
                self._split_field(r, k)
            for k in [k for k, (kn, _) in r.fields.items() if k < o + n and o < k + kn and (k != o or kn != n)]:
                del r.fields[k]
            r.fields[o] = (n, val)
            return
        old = self._read_concrete(r, o, n, t)
        f = r.fields.get(o)
        if f is None or f[0] != n:
            for k in [k for k, (kn, _) in r.fields.items() if k < o + n and o < k + kn]:
                self._split_field(r, k)
            for k in [k for k, (kn, _) in r.fields.items() if k >= o and k + kn <= o + n]:
                del r.fields[k]
        r.fields[o] = (n, self.ite(g, val, old))

    def _split_field(self, r, k):
        kn, v = r.fields[k]
        if kn == 1:
            return
        raw = self._raw(v, kn)
        del r.fields[k]
        for b in range(kn):
            r.fields[k + b] = (1, z3.simplify(z3.Extract(8 * b + 7, 8 * b, raw)))

    def ite(self, c, a, b):
        if isinstance(c, bool):
            return a if c else b
        if z3.is_true(c):
            return a
        if z3.is_false(c):
            return b
        if isinstance(a, Ptr) or isinstance(b, Ptr):
            return Ptr(z3.If(c, a.bv, b.bv), a.regions | b.regions)
        if isinstance(a, list):
            return [self.ite(c, x, y) for x, y in zip(a, b)]
        if a is None or b is None:
            return a if b is None else b
        return z3.If(c, a, b)

    # ---- arithmetic ---------------------------------------------------------------------
    def binop(self, op, flags, x, y, g, fn, text=''):
        if op[0] == 'f':
            r = {'fadd': lambda: z3.fpAdd(RNE, x, y), 'fsub': lambda: z3.fpSub(RNE, x, y), 'fmul': lambda: z3.fpMul(RNE, x, y),
                 'fdiv': lambda: z3.fpDiv(RNE, x, y), 'frem': lambda: z3.fpRem(x, y)}[op]
            if op == 'frem':
                raise Unsupported('frem (C fmod is not IEEE remainder)')
            return r()
        if isinstance(x, Ptr) or isinstance(y, Ptr):
            raise Unsupported('integer arithmetic on pointers: ' + text)
        w = x.size()
        ub = self.ub

        def need(bad, what):
            bad = z3.simplify(bad)
            if not z3.is_false(bad):
                ub.append((z3.And(g, bad), '%s: %s' % (what, text), fn))
        if op == 'add':
            r = x + y
            if 'nsw' in flags: need(z3.Not(z3.And(z3.BVAddNoOverflow(x, y, True), z3.BVAddNoUnderflow(x, y))), 'signed overflow')
            if 'nuw' in flags: need(z3.Not(z3.BVAddNoOverflow(x, y, False)), 'unsigned overflow')
        elif op == 'sub':
            r = x - y
            if 'nsw' in flags: need(z3.Not(z3.And(z3.BVSubNoOverflow(x, y), z3.BVSubNoUnderflow(x, y, True))), 'signed overflow')
            if 'nuw' in flags: need(z3.ULT(x, y), 'unsigned overflow')
        elif op == 'mul':
            # sound rewrite (DESIGN §2.2): (a sdiv b) * b == a - (a srem b) in two's complement for b != 0,
            # and that product cannot overflow when the division itself did not
            d = self._as_sdiv(x, y) or self._as_sdiv(y, x)
            if d is not None:
                a_, b_ = d
                r = a_ - z3.SRem(a_, b_)
            else:
                r = x * y
                if self.unit_mul_split and not (z3.is_bv_value(z3.simplify(x)) or z3.is_bv_value(z3.simplify(y))):
                    # exact case split of the same product (x * 1, x * -1, x * 0): equivalent term, easier for the SAT core
                    one, zero = z3.BitVecVal(1, y.size()), z3.BitVecVal(0, y.size())
                    r = z3.If(y == one, x, z3.If(y == -one, -x, z3.If(y == zero, zero, r)))
                if not (z3.is_bv_value(z3.simplify(x)) or z3.is_bv_value(z3.simplify(y))):
                    self.arith_log.append(dict(op='mul', g=g, x=x, y=y, r=r, fn=fn))
                if 'nsw' in flags: need(z3.Not(z3.And(z3.BVMulNoOverflow(x, y, True), z3.BVMulNoUnderflow(x, y))), 'signed overflow')
                if 'nuw' in flags: need(z3.Not(z3.BVMulNoOverflow(x, y, False)), 'unsigned overflow')
        elif op == 'and': r = x & y
        elif op == 'or': r = x | y
        elif op == 'xor': r = x ^ y
        elif op in ('shl', 'lshr', 'ashr'):
            need(z3.UGE(y, z3.BitVecVal(w, w)), 'shift count >= width')
            if op == 'shl':
                r = x << y
                if 'nsw' in flags: need((r >> y) != x, 'signed overflow in shl')
                if 'nuw' in flags: need(z3.LShR(r, y) != x, 'unsigned overflow in shl')
            elif op == 'lshr':
                r = z3.LShR(x, y)
            else:
                r = x >> y
        elif op in ('sdiv', 'srem'):
            need(y == 0, 'division by zero')
            need(z3.And(x == z3.BitVecVal(1 << (w - 1), w), y == z3.BitVecVal(-1, w)), 'signed division overflow (MIN / -1)')
            if op == 'sdiv':
                r = z3.BVSDiv(x, y) if hasattr(z3, 'BVSDiv') else x / y
                self._sdivs[r.get_id()] = (x, y, r)      # keeping r alive keeps its AST id unique
                self.arith_log.append(dict(op='sdiv', g=g, x=x, y=y, r=r, fn=fn))
            else:
                r = z3.SRem(x, y)
                self.arith_log.append(dict(op='srem', g=g, x=x, y=y, r=r, fn=fn))
        elif op in ('udiv', 'urem'):
            need(y == 0, 'division by zero')
            r = z3.UDiv(x, y) if op == 'udiv' else z3.URem(x, y)
            if not z3.is_bv_value(z3.simplify(x)):
                self.arith_log.append(dict(op=op, g=g, x=x, y=y, r=r, fn=fn))
        else:
            raise Unsupported('binop ' + op)
        return r


    def _as_sdiv(self, q, b):
        d = self._sdivs.get(q.get_id())
        if d is not None and d[2].eq(q) and d[1].eq(b):
            return d[0], d[1]
        return None

    def icmp(self, pred, x, y):
        if isinstance(x, Ptr) or isinstance(y, Ptr):
            xb = x.bv if isinstance(x, Ptr) else x
            yb = y.bv if isinstance(y, Ptr) else y
        else:
            xb, yb = x, y
        return {'eq': lambda: xb == yb, 'ne': lambda: xb != yb, 'slt': lambda: xb < yb, 'sle': lambda: xb <= yb,
                'sgt': lambda: xb > yb, 'sge': lambda: xb >= yb, 'ult': lambda: z3.ULT(xb, yb), 'ule': lambda: z3.ULE(xb, yb),
                'ugt': lambda: z3.UGT(xb, yb), 'uge': lambda: z3.UGE(xb, yb)}[pred]()

    def fcmp(self, pred, x, y):
        uno = z3.Or(z3.fpIsNaN(x), z3.fpIsNaN(y))
        base = {'eq': z3.fpEQ, 'gt': z3.fpGT, 'ge': z3.fpGEQ, 'lt': z3.fpLT, 'le': z3.fpLEQ}
        if pred == 'true': return z3.BoolVal(True)
        if pred == 'false': return z3.BoolVal(False)
        if pred == 'ord': return z3.Not(uno)
        if pred == 'uno': return uno
        o = pred[0] == 'o'
        k = pred[1:]
        if k == 'ne':
            c = z3.Not(z3.fpEQ(x, y))
            return z3.And(z3.Not(uno), c) if o else z3.Or(uno, c)
        c = base[k](x, y)
        return c if o else z3.Or(uno, c)

    # ---- control flow: unrolled DAG -------------------------------------------------------
    def _cfg(self, fn):
        key = fn.name
        c = getattr(self, '_cfgs', None)
        if c is None:
            c = self._cfgs = {}
        if key in c:
            return c[key]
        blocks = fn.blocks
        succ = {}
        for l, inss in blocks.items():
            t = inss[-1]
            if t.op == 'br':
                succ[l] = [t.args[0]] if len(t.args) == 1 else [t.args[1], t.args[2]]
            elif t.op == 'switch':
                succ[l] = [t.args[1]] + [x[1] for x in t.args[2]]
            else:
                succ[l] = []
        entry = next(iter(blocks))
        # back edges by iterative DFS
        back = set()
        color = {}
        stack = [(entry, iter(succ[entry]))]
        color[entry] = 1
        while stack:
            node, it = stack[-1]
            for s in it:
                if color.get(s, 0) == 0:
                    color[s] = 1
                    stack.append((s, iter(succ[s])))
                    break
                elif color[s] == 1:
                    back.add((node, s))
            else:
                color[node] = 2
                stack.pop()
        # natural loop bodies
        pred = {}
        for a, ss in succ.items():
            for s in ss:
                pred.setdefault(s, []).append(a)
        loops = {}
        for (u, h) in back:
            body = loops.setdefault(h, {h})
            work = [u]
            while work:
                x = work.pop()
                if x not in body:
                    body.add(x)
                    work.extend(pred.get(x, []))
        c[key] = (succ, back, loops, entry)
        return c[key]

    def _unrolled(self, fn, bound):
        succ, back, loops, entry = self._cfg(fn)
        start = (entry, ())
        nodes = {start: []}
        exceeded = []          # (from node, header) edges beyond the bound
        work = [start]
        while work:
            node = work.pop()
            label, ctx = node
            for s in succ[label]:
                nctx = tuple((h, i) for (h, i) in ctx if s in loops[h])
                if s in loops:
                    if any(h == s for h, _ in nctx):
                        # back edge (or re-entry at the header): next iteration
                        k = [i for i, (h, _) in enumerate(nctx) if h == s][0]
                        it = nctx[k][1] + 1
                        if it > bound:
                            exceeded.append((node, s))
                            continue
                        nctx = nctx[:k] + ((s, it),)
                    else:
                        nctx = nctx + ((s, 0),)
                nn = (s, nctx)
                nodes[node].append(nn)
                if nn not in nodes:
                    nodes[nn] = []
                    work.append(nn)
        # topological order (DFS post-order reversed)
        order = []
        seen = set()
        stack = [(start, iter(nodes[start]))]
        seen.add(start)
        while stack:
            n_, it = stack[-1]
            for s in it:
                if s not in seen:
                    seen.add(s)
                    stack.append((s, iter(nodes[s])))
                    break
            else:
                order.append(n_)
                stack.pop()
        order.reverse()
        return order, nodes, exceeded

    # ---- running a function ----------------------------------------------------------------
    def run(self, name, args, guard=None, depth=0):
        fn = self.m.functions[name]
        guard = z3.BoolVal(True) if guard is None else guard
        bound = self.unroll_for.get(name, self.unroll)
        order, nodes, exceeded = self._unrolled(fn, bound)
        exceeded_from = {}
        for node, h in exceeded:
            exceeded_from.setdefault(node, []).append(h)
        env = LocalEnv()
        if len(args) != len(fn.params):
            raise Unsupported('call of %s with %d args (expects %d)' % (name, len(args), len(fn.params)))
        for (t, pname), a in zip(fn.params, args):
            env[pname] = a
        nguard = {order[0]: guard}
        eguard = {}
        preds = {}
        rets = []
        blocks = fn.blocks
        saved_preds = getattr(self, '_cur_preds', None)
        self._cur_preds = preds
        for node in order:
            g = nguard.get(node)
            if g is None:
                continue
            g = z3.simplify(g)
            if z3.is_false(g):
                continue
            if getattr(self, 'prune', False) == 'eager' and not z3.is_true(g) and not self._feasible(g):
                continue            # the block guard is unsatisfiable under the stated preconditions: the block is not executed
            label, ctx = node
            env.view = ctx
            self.stats['blocks'] += 1
            inss = blocks[label]
            # phis first (parallel semantics)
            newvals = {}
            i = 0
            while i < len(inss) and inss[i].op == 'phi':
                ins = inss[i]
                val = None
                for v, lab in ins.args:
                    for pn in preds.get(node, ()):
                        if pn[0] != lab:
                            continue
                        eg = eguard[(pn, node)]
                        env.view = pn[1]
                        cv = self.value(ins.ty, v, env)
                        env.view = ctx
                        val = cv if val is None else self.ite(eg, cv, val)
                if val is None:
                    raise Unsupported('phi without executed predecessor in %s:%s' % (name, label))
                newvals[ins.dst] = val
                i += 1
            for k, v in newvals.items():
                self._define(env, k, v, g)
            for ins in inss[i:]:
                self.stats['ins'] += 1
                try:
                    g = self.step(fn, node, ins, env, g, nodes, nguard, eguard, rets, depth, exceeded_from)
                except Unsupported as e:
                    if getattr(self, 'prune', False) and not z3.is_true(g) and not self._feasible(g):
                        # lazy pruning: the instruction cannot be encoded, but its block is unreachable under the stated
                        # preconditions (guard unsatisfiable); what the block did so far is guarded by that guard, and it gets no successors
                        g = None
                        break
                    if not getattr(e, 'located', False):
                        e.args = ('%s  [at %s:%s: %s]' % (e.args[0] if e.args else '', name, label, ins.text[:140]),)
                        e.located = True
                    raise
                if g is None:
                    break
        self._cur_preds = saved_preds
        if not rets:
            return None, z3.BoolVal(False)
        rg = z3.simplify(z3.Or(*[r[0] for r in rets]))
        if self.resolve(fn.ret).kind == 'void':
            return None, rg
        val = rets[-1][1]
        for (g_, v) in reversed(rets[:-1]):
            val = self.ite(g_, v, val)
        return val, rg

    def _feasible(self, g):
        """Optional solver-based pruning (self.prune): is the block guard satisfiable together with self.prune_pre (preconditions that
        every query of the check also assumes) and the assumptions collected so far?  `unknown` counts as feasible."""
        cache = self.__dict__.setdefault('_feas_cache', {})
        k = g.get_id()
        r = cache.get(k)
        if r is None:
            s = self.__dict__.get('_feas_solver')
            if s is None:
                s = self._feas_solver = z3.Solver()
                s.set('timeout', 2000)
                s.add(*getattr(self, 'prune_pre', []))
                self._feas_nass = 0
            for a in self.assumptions[self._feas_nass:]:
                s.add(a)
            self._feas_nass = len(self.assumptions)
            s.push()
            s.add(g)
            r = (str(s.check()) != 'unsat', g)          # keep g alive: ids are only unique among live terms
            s.pop()
            cache[k] = r
            self.stats['pruned'] = self.stats.get('pruned', 0) + (0 if r[0] else 1)
        return r[0]

    def _define(self, env, name, val, g):
        if getattr(env, 'raw', None) is not None:
            env.raw[name] = (env.view, val)
        old = env.get(name)
        if old is not None and not z3.is_true(g):
            # redefinition in a later loop iteration: the newest executed instance wins
            try:
                val = self.ite(g, val, old)
            except Exception:
                pass
        env[name] = val

    def _edge(self, node, target_label, cond, g, nodes, nguard, eguard, exceeded_from):
        eg = z3.simplify(z3.And(g, cond))
        if z3.is_false(eg):
            return
        self.stats['edges'] += 1
        tn = None
        for s in nodes[node]:
            if s[0] == target_label:
                tn = s
                break
        if tn is None:
            if target_label in exceeded_from.get(node, []):
                self.unwind.append((eg, 'loop at %s needs more than the unrolling bound' % target_label))
                return
            raise Unsupported('edge to %s not in unrolled graph' % target_label)
        key = (node, tn)
        if key not in eguard:
            self._cur_preds.setdefault(tn, []).append(node)
        eguard[key] = z3.Or(eguard[key], eg) if key in eguard else eg
        nguard[tn] = z3.Or(nguard[tn], eg) if tn in nguard else eg

    def step(self, fn, node, ins, env, g, nodes, nguard, eguard, rets, depth, exceeded_from):
        op = ins.op
        name = fn.name
        if op in ir.BINOPS:
            x = self.value(ins.ty, ins.args[0], env)
            y = self.value(ins.ty, ins.args[1], env)
            self._define(env, ins.dst, self.binop(op, ins.flags, x, y, g, name, ins.text), g)
        elif op == 'fneg':
            self._define(env, ins.dst, z3.fpNeg(self.value(ins.ty, ins.args[0], env)), g)
        elif op == 'icmp':
            c = self.icmp(ins.extra, self.value(ins.ty, ins.args[0], env), self.value(ins.ty, ins.args[1], env))
            self._define(env, ins.dst, z3.If(c, z3.BitVecVal(1, 1), z3.BitVecVal(0, 1)), g)
        elif op == 'fcmp':
            c = self.fcmp(ins.extra, self.value(ins.ty, ins.args[0], env), self.value(ins.ty, ins.args[1], env))
            self._define(env, ins.dst, z3.If(c, z3.BitVecVal(1, 1), z3.BitVecVal(0, 1)), g)
        elif op in ir.CASTS:
            st, sv = ins.args[0]
            x = self.value(st, sv, env)
            self._define(env, ins.dst, self.cast(op, x, self.resolve(st), self.resolve(ins.ty), g, name, ins.text), g)
        elif op == 'select':
            c = self.value(ins.args[0][0], ins.args[0][1], env) == 1
            self._define(env, ins.dst, self.ite(z3.simplify(c), self.value(ins.ty, ins.args[1], env), self.value(ins.ty, ins.args[2], env)), g)
        elif op == 'freeze':
            self._define(env, ins.dst, self.value(ins.ty, ins.args[0], env), g)
        elif op == 'br':
            if len(ins.args) == 1:
                self._edge(node, ins.args[0], z3.BoolVal(True), g, nodes, nguard, eguard, exceeded_from)
            else:
                c = z3.simplify(self.value(ir.T('int', bits=1), ins.args[0], env) == 1)
                self._edge(node, ins.args[1], c, g, nodes, nguard, eguard, exceeded_from)
                self._edge(node, ins.args[2], z3.Not(c), g, nodes, nguard, eguard, exceeded_from)
            return None
        elif op == 'switch':
            x = self.value(ins.ty, ins.args[0], env)
            w = x.size()
            none = []
            for cv, lab in ins.args[2]:
                c = x == z3.BitVecVal(cv, w)
                none.append(z3.Not(c))
                self._edge(node, lab, c, g, nodes, nguard, eguard, exceeded_from)
            self._edge(node, ins.args[1], z3.And(*none) if none else z3.BoolVal(True), g, nodes, nguard, eguard, exceeded_from)
            return None
        elif op == 'ret':
            rets.append((g, self.value(ins.ty, ins.args[0], env) if ins.args else None))
            return None
        elif op == 'unreachable':
            return None
        elif op == 'getelementptr':
            base = self.value(ins.args[0][0], ins.args[0][1], env)
            idxs = [self.value(t, v, env) for t, v in ins.args[1:]]
            self._define(env, ins.dst, self.gep(ins.ty, base, idxs), g)
        elif op == 'load':
            p = self.value(ir.T('ptr', elem=ins.ty), ins.args[0], env)
            self._define(env, ins.dst, self.load(p, ins.ty, g, name), g)
        elif op == 'store':
            p = self.value(ir.T('ptr', elem=ins.ty), ins.args[1], env)
            self.store(p, self.value(ins.ty, ins.args[0], env), ins.ty, g, name)
        elif op == 'alloca':
            size, _ = self.size_align(ins.ty)
            cnt = ins.extra
            if not isinstance(cnt, int):
                c = z3.simplify(self.value(ir.T('int', bits=64), cnt, env))
                if not z3.is_bv_value(c):
                    raise Unsupported('variable-length alloca')
                cnt = c.as_long()
            r = self.new_region('%s:%s' % (name, ins.dst), size=size * cnt, lazy=False)
            self._define(env, ins.dst, self.ptr_to(r), g)
        elif op == 'call':
            return self.call(fn, ins, env, g, depth)
        elif op == 'extractvalue':
            v = self.value(ins.ty, ins.args[0], env)
            for i in ins.extra:
                v = v[i]
            self._define(env, ins.dst, v, g)
        elif op == 'insertvalue':
            v = self.value(ins.ty, ins.args[0], env)
            e = self.value(ins.args[1][0], ins.args[1][1], env)
            v = self._insert(v, ins.extra, e)
            self._define(env, ins.dst, v, g)
        else:
            raise Unsupported('instruction %s' % ins.text[:120])
        return g

    def _insert(self, agg, idx, e):
        agg = list(agg)
        if len(idx) == 1:
            agg[idx[0]] = e
        else:
            agg[idx[0]] = self._insert(agg[idx[0]], idx[1:], e)
        return agg

    def cast(self, op, x, st, dt, g, fn, text):
        if op in ('bitcast', 'addrspacecast'):
            if st.kind == 'ptr' or dt.kind == 'ptr':
                return x
            if st.kind == 'float' and dt.kind == 'int':
                return z3.fpToIEEEBV(x)
            if st.kind == 'int' and dt.kind == 'float':
                return z3.fpBVToFP(x, FPSORT(dt.bits))
            return x
        if op == 'ptrtoint':
            return self.fit(x.bv, dt.bits)
        if op == 'inttoptr':
            return Ptr(self.fit(x, 64), set(self.regions.keys()) | {0})
        if op == 'zext':
            return z3.ZeroExt(dt.bits - x.size(), x)
        if op == 'sext':
            return z3.SignExt(dt.bits - x.size(), x)
        if op == 'trunc':
            return z3.Extract(dt.bits - 1, 0, x)
        if op == 'sitofp':
            r = z3.fpSignedToFP(RNE, x, FPSORT(dt.bits))
            self.arith_log.append(dict(op='sitofp', g=g, x=x, y=None, r=r, fn=fn))
            return r
        if op == 'uitofp':
            r = z3.fpUnsignedToFP(RNE, x, FPSORT(dt.bits))
            self.arith_log.append(dict(op='uitofp', g=g, x=x, y=None, r=r, fn=fn))
            return r
        if op in ('fptosi', 'fptoui'):
            signed = op == 'fptosi'
            r = z3.fpToSBV(z3.RTZ(), x, z3.BitVecSort(dt.bits)) if signed else z3.fpToUBV(z3.RTZ(), x, z3.BitVecSort(dt.bits))
            # C: UB if the truncated value is not representable
            lo = -(2 ** (dt.bits - 1)) if signed else 0
            hi = 2 ** (dt.bits - 1) if signed else 2 ** dt.bits
            tr = z3.fpRoundToIntegral(z3.RTZ(), x)
            sort = x.sort()
            bad = z3.Or(z3.fpIsNaN(x), z3.fpIsInf(x), z3.fpLT(tr, z3.FPVal(float(lo), sort)), z3.fpGEQ(tr, z3.FPVal(float(hi), sort)))
            self.ub.append((z3.And(g, bad), 'float-to-int conversion out of range: ' + text, fn))
            return r
        if op == 'fpext' or op == 'fptrunc':
            return z3.fpFPToFP(RNE, x, FPSORT(dt.bits))
        raise Unsupported('cast ' + op)

    # ---- calls ---------------------------------------------------------------------------
    def call(self, fn, ins, env, g, depth):
        callee = ins.extra
        args = [self.value(t, v, env) for t, v in ins.args]
        rt = self.resolve(ins.ty)
        if callee[0] == 'global':
            cname = callee[1]
        elif callee[0] == 'cexpr' and callee[1] == 'bitcast' and callee[3][0] == 'global':
            cname = callee[3][1]
        else:
            fp = self.value(None, callee, env)
            cname = None
            # function pointer with a single known target
            targets = [self.regions[r] for r in fp.regions if r in self.regions and getattr(self.regions[r], 'func_name', None)]
            hi = z3.simplify(z3.Extract(63, REGION_SHIFT, fp.bv))
            if z3.is_bv_value(hi) and getattr(self.regions.get(hi.as_long()), 'func_name', None):
                cname = self.regions[hi.as_long()].func_name
            if cname is None:
                h = self.stubs.get('<indirect>')
                if h is None:
                    raise Unsupported('indirect call through %r in %s' % (fp, fn.name))
                r = h(self, g, [fp] + args, rt, fn.name)
                if ins.dst:
                    self._define(env, ins.dst, r, g)
                return g
        r, g2 = self.call_named(cname, args, rt, g, depth, fn.name)
        if ins.dst and rt.kind != 'void':
            self._define(env, ins.dst, r, g)
        return g2

    def call_named(self, cname, args, rt, g, depth, caller):
        if cname.startswith('llvm.'):
            return self.intrinsic(cname, args, rt, g, caller), g
        stub = self.stubs.get(cname)
        if stub is not None:
            res = stub(self, g, args, rt, caller)
            if isinstance(res, tuple) and len(res) == 2 and res[0] == '__noreturn__':
                return None, None
            return res, g
        if cname in self.m.functions and depth < self.inline_depth:
            self.stats['inlined'] += 1
            val, rg = self.run(cname, args, g, depth + 1)
            rg = z3.simplify(rg)
            if z3.is_false(rg):
                return None, None
            return val, rg
        # unknown external: event + fresh result
        ret = None
        if rt.kind != 'void':
            ret = self.fresh_of(rt, 'ret_' + cname)
        self.events.append(Event(g, cname, args, ret, len(self.events)))
        return ret, g

    def intrinsic(self, name, args, rt, g, caller):
        base = name.split('.')[1]
        if base == 'expect':
            return args[0]
        if base == 'is' and name.startswith('llvm.is.constant'):
            # __builtin_constant_p: whether the optimiser sees a constant is unspecified -> nondeterministic
            if getattr(self, 'is_constant', 'nondet') is False:
                return z3.BitVecVal(0, 1)
            return z3.If(self.newbool('is_constant'), z3.BitVecVal(1, 1), z3.BitVecVal(0, 1))
        if base in ('sadd', 'ssub', 'smul', 'uadd', 'usub', 'umul') and 'with' in name:
            x, y = args
            signed = base[0] == 's'
            opn = base[1:]
            if opn == 'add':
                r = x + y
                ok = z3.And(z3.BVAddNoOverflow(x, y, signed), z3.BVAddNoUnderflow(x, y)) if signed else z3.BVAddNoOverflow(x, y, False)
            elif opn == 'sub':
                r = x - y
                ok = z3.And(z3.BVSubNoOverflow(x, y), z3.BVSubNoUnderflow(x, y, True)) if signed else z3.UGE(x, y)
            else:
                r = mul_wrapped(x, y, signed)
                ok = mul_fits(x, y, signed)
            return [r, z3.If(ok, z3.BitVecVal(0, 1), z3.BitVecVal(1, 1))]
        if base == 'abs':
            x = args[0]
            return z3.If(x < 0, -x, x)
        if base in ('smax', 'smin', 'umax', 'umin'):
            x, y = args
            c = {'smax': x >= y, 'smin': x <= y, 'umax': z3.UGE(x, y), 'umin': z3.ULE(x, y)}[base]
            return z3.If(c, x, y)
        if base == 'fabs':
            return z3.fpAbs(args[0])
        if base == 'fmuladd':
            # baseline x86-64 has no FMA: a*b+c is two roundings (clang -O0 and gcc without -mfma); stated as an assumption
            return z3.fpAdd(RNE, z3.fpMul(RNE, args[0], args[1]), args[2])
        if base == 'fma':
            return z3.fpFMA(RNE, args[0], args[1], args[2])
        if base == 'floor':
            return z3.fpRoundToIntegral(z3.RTN(), args[0])
        if base == 'ceil':
            return z3.fpRoundToIntegral(z3.RTP(), args[0])
        if base == 'trunc':
            return z3.fpRoundToIntegral(z3.RTZ(), args[0])
        if base == 'copysign':
            return z3.If(z3.fpIsNegative(args[1]), z3.fpNeg(z3.fpAbs(args[0])), z3.fpAbs(args[0]))
        if base == 'sqrt':
            return z3.fpSqrt(RNE, args[0])
        if base in ('memcpy', 'memmove', 'memset'):
            h = self.stubs.get('llvm.' + base)
            if h is None:
                return self.mem_intrinsic(base, args, g, caller)
            return h(self, g, args, rt, caller)
        if base in ('dbg', 'lifetime', 'assume', 'donothing', 'stacksave', 'stackrestore', 'prefetch', 'va_start', 'va_end'):
            return None
        if base == 'trap':
            return None
        raise Unsupported('intrinsic ' + name)

    def mem_intrinsic(self, base, args, g, caller):
        n = z3.simplify(args[2])
        if not z3.is_bv_value(n):
            return self._mem_symbolic(base, args, n, g, caller)
        n = n.as_long()
        if n > 4096:
            raise Unsupported('%s of %d bytes' % (base, n))
        i8 = ir.T('int', bits=8)
        if base == 'memset':
            b = self.fit(args[1], 8)
            for i in range(n):
                self.store(Ptr(args[0].bv + z3.BitVecVal(i, 64), args[0].regions), b, i8, g, caller)
            return None
        # copy with the widest fields available: gather bytes first (memmove semantics)
        vals = [self.load(Ptr(args[1].bv + z3.BitVecVal(i, 64), args[1].regions), i8, g, caller) for i in range(n)]
        for i, v in enumerate(vals):
            self.store(Ptr(args[0].bv + z3.BitVecVal(i, 64), args[0].regions), v, i8, g, caller)
        return None

    def _mem_symbolic(self, base, args, n, g, caller):
        """memcpy/memmove/memset of a symbolic number of bytes between byte-array regions (z3 Lambda arrays)"""
        dc = self._candidates(args[0], g, base, caller)
        if len(dc) != 1 or dc[0][0].kind != 'elems':
            raise Unsupported('%s with symbolic length outside element-array regions in %s' % (base, caller))
        dr, _, doff = dc[0]
        k = dr.elemsize
        if k != 1 and base == 'memset':
            raise Unsupported('memset of a symbolic number of bytes on %d-byte elements in %s' % (k, caller))
        self._bounds(dr, doff, 0, g, base, caller)
        size_d = dr.size if not isinstance(dr.size, int) else z3.BitVecVal(dr.size, 64)
        self.ub.append((z3.And(g, n != 0, z3.Or(z3.UGT(doff, size_d), z3.UGT(n, size_d - doff))), '%s writes outside %s' % (base, dr.name), caller))
        K = z3.BitVecVal(k, 64)
        if k != 1:
            # whole elements only: byte offsets and the length must be multiples of the element size (obligation)
            self.ub.append((z3.And(g, n != 0, z3.Or(z3.URem(doff, K) != 0, z3.URem(n, K) != 0)), '%s of partial elements of %s' % (base, dr.name), caller))
        i = z3.BitVec('i!lam%d' % self.fresh, 64)      # element index
        self.fresh += 1
        dix, nel = z3.UDiv(doff, K), z3.UDiv(n, K)
        inr = z3.And(z3.UGE(i, dix), z3.ULT(i - dix, nel))
        if base == 'memset':
            b = self.fit(args[1], 8)
            newarr = z3.Lambda([i], z3.If(inr, b, z3.Select(dr.array, i)))
        else:
            sc = self._candidates(args[1], g, base, caller)
            if len(sc) != 1 or sc[0][0].kind != 'elems' or sc[0][0].elemsize != k:
                raise Unsupported('%s source is not an element-array region of the same element size in %s' % (base, caller))
            sr, _, soff = sc[0]
            size_s = sr.size if not isinstance(sr.size, int) else z3.BitVecVal(sr.size, 64)
            self.ub.append((z3.And(g, n != 0, z3.Or(z3.UGT(soff, size_s), z3.UGT(n, size_s - soff))), '%s reads outside %s' % (base, sr.name), caller))
            if k != 1:
                self.ub.append((z3.And(g, n != 0, z3.URem(soff, K) != 0), '%s from a partial element of %s' % (base, sr.name), caller))
            if sr is dr and base == 'memcpy':
                overlap = z3.And(n != 0, z3.ULT(soff, doff + n), z3.ULT(doff, soff + n))
                self.ub.append((z3.And(g, overlap), 'memcpy with overlapping source and destination in %s' % dr.name, caller))
            newarr = z3.Lambda([i], z3.If(inr, z3.Select(sr.array, i - dix + z3.UDiv(soff, K)), z3.Select(dr.array, i)))
        dr.array = newarr if z3.is_true(z3.simplify(g)) else z3.If(g, newarr, dr.array)
        return None
