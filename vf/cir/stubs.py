"""Environment of engine CIR: contract stubs for the CPython C-API and ghost state (DESIGN §2.2).

Every stub here is part of the claim of each check that uses it; `Exec.used_stubs` records which ones were hit.
Contracts are the documented ones (docs.python.org/3/c-api): value returned, error indicator set, NULL/-1 on error.
"""
import z3
from . import symex, ir
from .symex import Ptr, NULLPTR, Unsupported

WIDE = 256          # width of "mathematical" integers used for ghost values (PyLongs up to 5 digits = 150 bits)

# CPython 3.12 x86-64 layout constants (asserted against offsetof() by selftest.check_layout)
OB_REFCNT, OB_TYPE, OB_SIZE = 0, 8, 16
LV_TAG, OB_DIGIT = 16, 24
TP_FLAGS = 168
TPFLAGS_LONG = 1 << 24
TPFLAGS_LIST = 1 << 25
TPFLAGS_TUPLE = 1 << 26
TPFLAGS_BYTES = 1 << 27
TPFLAGS_UNICODE = 1 << 28
TPFLAGS_DICT = 1 << 29
PyLong_SHIFT = 30
OB_FVAL = 16
LIST_OB_ITEM, LIST_ALLOCATED = 24, 32
TUPLE_OB_ITEM = 24
BYTES_OB_SVAL = 32


_FMOD = {}


def fmod_model(ex, x, y):
    """C99 7.12.10.1 / Annex F.9.7.1 contract of fmod as an uninterpreted function (shared by implementation and reference)"""
    sort = x.sort()
    key = (sort.ebits(), sort.sbits())
    f = _FMOD.get(key)
    if f is None:
        f = _FMOD[key] = z3.Function('fmod_%d_%d' % key, sort, sort, sort)
    r = f(x, y)
    nan = z3.Or(z3.fpIsNaN(x), z3.fpIsNaN(y), z3.fpIsInf(x), z3.fpIsZero(y))
    contract = z3.If(nan, z3.fpIsNaN(r),
                z3.If(z3.fpIsInf(y), r == x,
                 z3.If(z3.fpIsZero(x), r == x,
                  z3.And(z3.Not(z3.fpIsNaN(r)), z3.Not(z3.fpIsInf(r)), z3.fpLT(z3.fpAbs(r), z3.fpAbs(y)),
                         z3.fpIsNegative(r) == z3.fpIsNegative(x),
                         z3.Implies(z3.fpLT(z3.fpAbs(x), z3.fpAbs(y)), r == x)))))
    if ex is not None:
        ex.assumptions.append(contract)
        # exact values on a small grid (ground facts about the real fmod): lets the solver produce counterexamples that
        # replay, by first looking for one whose operands lie on the grid (see grid_constraint)
        if not hasattr(ex, 'fmod_apps'):
            ex.fmod_apps = []
        if not any(x.eq(a) and y.eq(b) for a, b in ex.fmod_apps):
            ex.fmod_apps.append((x, y))
        key2 = ('grid',) + key
        if key2 not in getattr(ex, '_fmod_grid_done', set()):
            import math
            ex._fmod_grid_done = getattr(ex, '_fmod_grid_done', set()) | {key2}
            for p in FMOD_GRID:
                for q in FMOD_GRID:
                    if q != 0:
                        ex.assumptions.append(f(z3.FPVal(p, sort), z3.FPVal(q, sort)) == z3.FPVal(math.fmod(p, q), sort))
    return r


FMOD_GRID = [-4.0, -3.0, -2.0, -1.5, -1.0, -0.5, 0.5, 1.0, 1.5, 2.0, 3.0, 4.0, 0.0]


def grid_constraint(ex):
    """all operands of fmod applications lie on the grid where the model of fmod is exact"""
    cs = []
    for x, y in getattr(ex, 'fmod_apps', []):
        for v in (x, y):
            if not z3.is_fp_value(v):
                cs.append(z3.Or(*[v == z3.FPVal(p, v.sort()) for p in FMOD_GRID]))
    return cs


class Env:
    """ghost state + stub table bound to one Exec"""

    def __init__(self, ex):
        self.ex = ex
        ex.env = self
        self.ghost = {}          # region id -> dict(kind=..., ...)
        self.used = set()
        self.err = ex.new_region('ERRIND', size=8, lazy=False)
        self.err.fields[0] = (8, NULLPTR)
        self.exc = {}            # name -> region
        self.types = {}
        self.noinline = set()
        ex.stubs.update(self.table())

    # -- helpers ---------------------------------------------------------------------------
    def exc_type(self, name):
        """the object a PyExc_* global points to (distinct, non-null)"""
        r = self.exc.get(name)
        if r is None:
            g = self.ex.global_ptr(name)
            greg = self.ex.regions[next(iter(g.regions))]
            old = greg.fields.get(0)
            if old is not None and isinstance(old[1], Ptr) and len(old[1].regions) == 1 and 0 not in old[1].regions:
                r = self.ex.regions[next(iter(old[1].regions))]        # already materialised by a load during the run
            else:
                r = self.ex.new_region('exc:' + name, size=None)
                greg.fields[0] = (8, self.ex.ptr_to(r))
            self.exc[name] = r
        return r

    def type_object(self, name, flags):
        """region of a static type object (PyLong_Type, ...) with tp_flags set"""
        r = self.types.get(name)
        if r is None:
            g = self.ex.global_ptr(name)
            r = self.ex.regions[next(iter(g.regions))]
            r.fields[TP_FLAGS] = (8, z3.BitVecVal(flags, 64))
            self.types[name] = r
        return r

    def set_error(self, g, exc_ptr):
        self.ex.store(self.ex.ptr_to(self.err), exc_ptr, ir.T('ptr', elem=ir.T('int', bits=8)), g, 'stub')

    def error_indicator(self):
        """current value (pointer BV) of the ghost error indicator"""
        f = self.err.fields[0][1]
        return f.bv if isinstance(f, Ptr) else f

    def error_is(self, name):
        return self.error_indicator() == z3.BitVecVal(self.exc_type(name).base, 64)

    def no_error(self):
        return self.error_indicator() == 0

    def new_object(self, name, ghost):
        """a fresh object returned by an API call: a new reference (ob_refcnt >= 1, not immortal)"""
        r = self.ex.new_region(name, size=None)
        rc = self.ex.newbv(name + '.ob_refcnt', 64)
        r.fields[OB_REFCNT] = (8, rc)
        self.ex.assumptions.append(z3.And(rc >= 1, rc < (1 << 30)))
        self.ghost[r.id] = ghost
        return r

    def ghost_of(self, p):
        """ghost record of the object a pointer refers to (single-region pointers only)"""
        regs = [r for r in p.regions if r != 0]
        if len(regs) == 1:
            return self.ghost.get(regs[0])
        return None

    def event(self, g, name, args, ret=None):
        e = symex.Event(g, name, args, ret, len(self.ex.events))
        self.ex.events.append(e)
        return e

    # -- symbolic PyLong -------------------------------------------------------------------
    def make_pylong(self, name, maxdigits=5, exact_type=True):
        """An arbitrary *valid* CPython 3.12 int object of <= maxdigits digits.
        Returns (ptr, V, inv): V is its mathematical value as a WIDE-bit signed BV, inv the representation invariant."""
        ex = self.ex
        r = ex.new_region(name, size=OB_DIGIT + 4 * max(1, maxdigits), lazy=False)
        tag = z3.BitVec(name + '.lv_tag', 64)
        digits = [z3.BitVec('%s.d%d' % (name, i), 32) for i in range(max(1, maxdigits))]
        refcnt = z3.BitVec(name + '.ob_refcnt', 64)
        tp = self.type_object('PyLong_Type', TPFLAGS_LONG | (1 << 10) | (1 << 12))
        r.fields[OB_REFCNT] = (8, refcnt)
        r.fields[OB_TYPE] = (8, ex.ptr_to(tp))
        r.fields[LV_TAG] = (8, tag)
        for i, d in enumerate(digits):
            r.fields[OB_DIGIT + 4 * i] = (4, d)
        sign = tag & 3                       # 0 positive, 1 zero, 2 negative
        nd = z3.LShR(tag, 3)
        inv = [z3.Or(sign == 0, sign == 1, sign == 2), (tag & 4) == 0, z3.ULE(nd, maxdigits),
               (sign == 1) == (nd == 0)]
        for i, d in enumerate(digits):
            inv.append(z3.ULT(d, 1 << PyLong_SHIFT))
            inv.append(z3.Implies(nd == i + 1, d != 0))            # most significant digit non-zero
            inv.append(z3.Implies(z3.ULE(nd, i), d == 0) if i == 0 else z3.BoolVal(True))   # zero has ob_digit[0] == 0
        mag = z3.BitVecVal(0, WIDE)
        for i, d in enumerate(digits):
            mag = mag + z3.If(z3.UGT(nd, i), z3.ZeroExt(WIDE - 32, d) << (PyLong_SHIFT * i), z3.BitVecVal(0, WIDE))
        V = z3.If(sign == 2, -mag, mag)
        self.ghost[r.id] = dict(kind='int', value=V, region=r, tag=tag, digits=digits, ndigits=nd, refcnt=refcnt)
        inv.append(z3.And(refcnt >= 1, refcnt < (1 << 30)))
        return ex.ptr_to(r), V, z3.And(*inv)

    def make_pyfloat(self, name):
        ex = self.ex
        r = ex.new_region(name, size=24, lazy=False)
        d = z3.FP(name + '.ob_fval', z3.Float64())
        refcnt = z3.BitVec(name + '.ob_refcnt', 64)
        tp = self.type_object('PyFloat_Type', (1 << 10) | (1 << 12))
        r.fields[OB_REFCNT] = (8, refcnt)
        r.fields[OB_TYPE] = (8, ex.ptr_to(tp))
        r.fields[OB_FVAL] = (8, d)
        self.ghost[r.id] = dict(kind='float', value=d, region=r)
        return ex.ptr_to(r), d, z3.And(refcnt >= 1, refcnt < (1 << 30))

    def make_opaque(self, name, tpflags=0):
        """an object of some other type (nothing known but its header)"""
        ex = self.ex
        r = ex.new_region(name, size=None, lazy=True)
        tp = ex.new_region(name + '.type', size=None, lazy=True)
        tp.fields[TP_FLAGS] = (8, z3.BitVecVal(tpflags, 64))
        refcnt = z3.BitVec(name + '.ob_refcnt', 64)
        r.fields[OB_REFCNT] = (8, refcnt)
        r.fields[OB_TYPE] = (8, ex.ptr_to(tp))
        self.ghost[r.id] = dict(kind='opaque', region=r)
        return ex.ptr_to(r), z3.And(refcnt >= 1, refcnt < (1 << 30))

    # -- stub table --------------------------------------------------------------------------
    def table(self):
        T = {}

        def stub(*names):
            def deco(f):
                def wrapped(ex, g, args, rt, caller, _f=f, _n=names[0]):
                    self.used.add(_n)
                    return _f(g, args, rt)
                for n in names:
                    T[n] = wrapped
                return f
            return deco
        ex = self.ex

        def sx(v, bits=WIDE):
            return z3.SignExt(bits - v.size(), v) if v.size() < bits else v

        def zx(v, bits=WIDE):
            return z3.ZeroExt(bits - v.size(), v) if v.size() < bits else v

        # ---- constructors: the result object carries its mathematical value as ghost state
        def from_signed(n):
            @stub(n)
            def _(g, a, rt, n=n):
                r = self.new_object('res:' + n, dict(kind='int', value=sx(a[0]), via=n))
                self.event(g, n, a, ex.ptr_to(r))
                return ex.ptr_to(r)
        for n in ('PyLong_FromLong', 'PyLong_FromLongLong', 'PyLong_FromSsize_t'):
            from_signed(n)

        def from_unsigned(n):
            @stub(n)
            def _(g, a, rt, n=n):
                r = self.new_object('res:' + n, dict(kind='int', value=zx(a[0]), via=n))
                self.event(g, n, a, ex.ptr_to(r))
                return ex.ptr_to(r)
        for n in ('PyLong_FromUnsignedLong', 'PyLong_FromUnsignedLongLong', 'PyLong_FromSize_t'):
            from_unsigned(n)

        @stub('PyFloat_FromDouble')
        def _(g, a, rt):
            r = self.new_object('res:PyFloat_FromDouble', dict(kind='float', value=a[0]))
            self.event(g, 'PyFloat_FromDouble', a, ex.ptr_to(r))
            return ex.ptr_to(r)

        @stub('PyBool_FromLong')
        def _(g, a, rt):
            r = self.new_object('res:PyBool_FromLong', dict(kind='bool', value=a[0] != 0))
            self.event(g, 'PyBool_FromLong', a, ex.ptr_to(r))
            return ex.ptr_to(r)

        # ---- conversions of a (harness-made) int object: value if it fits, else -1 with OverflowError
        def as_c(n, bits, signed):
            @stub(n)
            def _(g, a, rt, n=n, bits=bits, signed=signed):
                gh = self.ghost_of(a[0])
                if gh is None or gh.get('kind') != 'int':
                    raise Unsupported('%s on an object without integer ghost value' % n)
                V = gh['value']
                lo = -(1 << (bits - 1)) if signed else 0
                hi = (1 << (bits - 1)) - 1 if signed else (1 << bits) - 1
                fits = z3.And(V >= z3.BitVecVal(lo, WIDE), V <= z3.BitVecVal(hi, WIDE))
                self.set_error(z3.And(g, z3.Not(fits)), ex.ptr_to(self.exc_type('PyExc_OverflowError')))
                self.event(g, n, a)
                return z3.If(fits, z3.Extract(bits - 1, 0, V), z3.BitVecVal(-1, bits))
        for n, b, s in (('PyLong_AsLong', 64, True), ('PyLong_AsLongLong', 64, True), ('PyLong_AsSsize_t', 64, True),
                        ('PyLong_AsUnsignedLong', 64, False), ('PyLong_AsUnsignedLongLong', 64, False), ('PyLong_AsSize_t', 64, False)):
            as_c(n, b, s)

        def as_c_overflow(n, bits):
            @stub(n)
            def _(g, a, rt, n=n, bits=bits):
                gh = self.ghost_of(a[0])
                if gh is None or gh.get('kind') != 'int':
                    raise Unsupported('%s on an object without integer ghost value' % n)
                V = gh['value']
                lo, hi = -(1 << (bits - 1)), (1 << (bits - 1)) - 1
                small, big = V < z3.BitVecVal(lo, WIDE), V > z3.BitVecVal(hi, WIDE)
                ov = z3.If(big, z3.BitVecVal(1, 32), z3.If(small, z3.BitVecVal(-1, 32), z3.BitVecVal(0, 32)))
                ex.store(a[1], ov, ir.T('int', bits=32), g, 'stub')
                self.event(g, n, a)
                return z3.If(z3.Or(small, big), z3.BitVecVal(-1, bits), z3.Extract(bits - 1, 0, V))
        for n, b in (('PyLong_AsLongAndOverflow', 64), ('PyLong_AsLongLongAndOverflow', 64)):
            as_c_overflow(n, b)

        # ---- error indicator
        @stub('PyErr_SetString', 'PyErr_SetObject')
        def _(g, a, rt):
            self.set_error(g, a[0])
            self.event(g, 'PyErr_Set', a[:1])
            return None

        @stub('PyErr_SetNone')
        def _(g, a, rt):
            self.set_error(g, a[0])
            self.event(g, 'PyErr_Set', a[:1])
            return None

        @stub('PyErr_Format')
        def _(g, a, rt):
            self.set_error(g, a[0])
            self.event(g, 'PyErr_Set', a[:1])
            return NULLPTR

        @stub('PyErr_NoMemory')
        def _(g, a, rt):
            self.set_error(g, ex.ptr_to(self.exc_type('PyExc_MemoryError')))
            return NULLPTR

        @stub('PyErr_Occurred')
        def _(g, a, rt):
            v = self.err.fields[0][1]
            return v if isinstance(v, Ptr) else Ptr(v, set(r.id for r in self.exc.values()) | {0})

        @stub('PyErr_Clear')
        def _(g, a, rt):
            self.set_error(g, NULLPTR)
            return None

        @stub('PyErr_WriteUnraisable', 'PyErr_WriteUnraisable_')
        def _(g, a, rt):
            self.event(g, 'PyErr_WriteUnraisable', a)
            self.set_error(g, NULLPTR)
            return None

        @stub('PyErr_ExceptionMatches', 'PyErr_GivenExceptionMatches')
        def _(g, a, rt):
            cur = self.error_indicator()
            t = a[-1]
            same = cur == t.bv
            other = ex.newbool('exc_matches')
            return z3.If(z3.Or(same, z3.And(cur != 0, other)), z3.BitVecVal(1, 32), z3.BitVecVal(0, 32))

        @stub('PyErr_WarnEx', 'PyErr_WarnFormat')
        def _(g, a, rt):
            fail = ex.newbool('warn_fails')
            self.event(g, 'PyErr_Warn', a[:1])
            self.set_error(z3.And(g, fail), a[0])
            return z3.If(fail, z3.BitVecVal(-1, 32), z3.BitVecVal(0, 32))

        # ---- deallocation
        @stub('_Py_Dealloc')
        def _(g, a, rt):
            for rid in a[0].regions:
                if rid in ex.regions and rid != 0:
                    r = ex.regions[rid]
                    c = z3.And(g, z3.Extract(63, symex.REGION_SHIFT, a[0].bv) == rid)
                    r.freed = z3.simplify(z3.Or(r.freed, c))
            self.event(g, '_Py_Dealloc', a)
            return None

        @stub('Py_FatalError', '_Py_FatalErrorFunc', 'abort', '__assert_fail', '_Py_FatalRefcountErrorFunc')
        def _(g, a, rt):
            self.event(g, 'FATAL', a[:1])
            return ('__noreturn__', None)

        # ---- traceback / bookkeeping helpers of the generated module: events only
        def event_only(n):
            @stub(n)
            def _(g, a, rt, n=n):
                e = self.event(g, n, a)
                if rt.kind == 'void':
                    return None
                r = ex.fresh_of(rt, 'ret_' + n)
                e.ret = r
                return r
        for n in ('__Pyx_AddTraceback', '__Pyx_RefNannySetupContext', '__Pyx_RefNannyFinishContext', '__Pyx_WriteUnraisable',
                  'PyGILState_Ensure', 'PyGILState_Release', 'PyEval_SaveThread', 'PyEval_RestoreThread',
                  '__Pyx_ErrOccurredWithGIL'):
            event_only(n)

        @stub('__Pyx_ErrOccurredWithGIL')
        def _(g, a, rt):
            return z3.If(self.error_indicator() != 0, z3.BitVecVal(1, 32), z3.BitVecVal(0, 32))

        # ---- libm with exact IEEE meaning, and fmod as an uninterpreted function under its C99 contract
        @stub('floor', 'floorf')
        def _(g, a, rt):
            return z3.fpRoundToIntegral(z3.RTN(), a[0])

        @stub('ceil', 'ceilf')
        def _(g, a, rt):
            return z3.fpRoundToIntegral(z3.RTP(), a[0])

        @stub('trunc', 'truncf')
        def _(g, a, rt):
            return z3.fpRoundToIntegral(z3.RTZ(), a[0])

        @stub('fabs', 'fabsf')
        def _(g, a, rt):
            return z3.fpAbs(a[0])

        @stub('copysign', 'copysignf')
        def _(g, a, rt):
            return z3.If(z3.fpIsNegative(a[1]), z3.fpNeg(z3.fpAbs(a[0])), z3.fpAbs(a[0]))

        @stub('fmod', 'fmodf')
        def _(g, a, rt):
            return fmod_model(ex, a[0], a[1])

        @stub('labs', 'llabs', 'abs')
        def _(g, a, rt):
            x = a[0]
            w = x.size()
            ex.ub.append((z3.And(g, x == z3.BitVecVal(1 << (w - 1), w)), 'abs()/labs() of the most negative value', 'libc'))
            return z3.If(x < 0, -x, x)

        @stub('PyObject_RichCompareBool')
        def _(g, a, rt):
            def ival(p):
                gh = self.ghost_of(p)
                if gh and gh.get('kind') == 'int':
                    return gh['value']
                regs = [ex.regions[r] for r in p.regions if r in ex.regions and r != 0]
                if len(regs) == 1 and regs[0].name in ('G:_Py_FalseStruct', 'G:_Py_TrueStruct'):
                    return z3.BitVecVal(0 if 'False' in regs[0].name else 1, WIDE)
                return None
            x, y = ival(a[0]), ival(a[1])
            op = z3.simplify(a[2])
            self.event(g, 'PyObject_RichCompareBool', a)
            if x is None or y is None or not z3.is_bv_value(op):
                return ex.fresh_of(rt, 'richcmp')
            c = {0: x < y, 1: x <= y, 2: x == y, 3: x != y, 4: x > y, 5: x >= y}[op.as_long()]
            return z3.If(c, z3.BitVecVal(1, 32), z3.BitVecVal(0, 32))

        @stub('memcmp', 'strcmp', 'strlen')
        def _(g, a, rt):
            e = self.event(g, 'libc', a)
            return ex.fresh_of(rt, 'libc')
        return T
