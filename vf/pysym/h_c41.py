"""C41 — directive strings are parsed to the documented value or rejected (real code: Cython/Compiler/Options.py)."""
import Cython.Compiler.Options as O
assert O.__file__.endswith('.py')

NAMES = sorted(n for n in O.directive_types if n in O.get_directive_defaults() and O.directive_types[n] is not list)   # settable by string
VALUES = ['True', 'False', 'true', 'false', 'yes', 'no', '0', '1', '-5', '12', '1.5', 'abc', '', ' True', 'True ', 'None',
          'us-ascii', 'ascii', 'utf-8', 'default', 'bytes', 'bytearray', 'str', 'unicode', 'unnicode', '2', '3', '3str', '=', 'a=b']
EQ = ['=', ' =', '= ', ' = ', '\t=\t']
SEP = [',', ' ,', ', ', ' , ', ',,', ', ,']
LNAMES = ['boundscheck', 'cdivision', 'language_level', 'c_string_type', 'unknown_directive', 'warn.all', 'optimize.all', '']
LVALS = ['True', 'False', 'hey', '3', 'bytes', '']


def pin(k, n):
    for v in range(n):
        if k == v:
            return v
    return n


def value_ok(name, value, got):
    t = O.directive_types[name]
    if t is bool:
        return got is (value == 'True') and value in ('True', 'False')
    if t is int:
        return type(got) is int and got == int(value)
    if t is str:
        return got == value
    return True            # callable validators: any returned value is that validator's documented result


def parse_value(ni: int, vi: int) -> bool:
    """parse_directive_value: documented value or ValueError, never another exception, never a value of the wrong type
    pre: 0 <= ni < len(NAMES) and 0 <= vi < len(VALUES)
    post: _ == True
    """
    name, value = NAMES[pin(ni, len(NAMES))], VALUES[pin(vi, len(VALUES))]
    t = O.directive_types[name]
    try:
        got = O.parse_directive_value(name, value)
    except ValueError:
        if t is bool:
            return value not in ('True', 'False')
        if t is int:
            try:
                int(value)
                return False
            except ValueError:
                return True
        return t is not str
    if t is None:
        return got is None      # argument-less decorators: documented as "None is returned if the option does not exist"
    if not (t in (bool, int, str) or (callable(t) and not isinstance(t, type))):
        return False            # not settable from a string: must be rejected with ValueError
    return value_ok(name, value, got)


def ref_list(s):
    """reference for parse_directive_list per its docstring: comma separated, whitespace not considered, name=value"""
    out = {}
    for item in s.split(','):
        item = item.strip()
        if not item:
            continue
        if '=' not in item:
            return 'ValueError'
        name, value = item.split('=', 1)
        name, value = name.strip(), value.strip()
        if name in O.get_directive_defaults():
            if O.directive_types.get(name) is list:
                out.setdefault(name, []).append(value)
                continue
            try:
                out[name] = O.parse_directive_value(name, value)
            except ValueError:
                return 'ValueError'
        elif name.endswith('.all'):
            pre = name[:-3]
            hits = [d for d in O.get_directive_defaults() if d.startswith(pre)]
            if not hits:
                return 'ValueError'
            for d in hits:
                try:
                    out[d] = O.parse_directive_value(d, value)
                except ValueError:
                    return 'ValueError'
        else:
            return 'ValueError'
    return out


def _agree(s):
    want = ref_list(s)
    try:
        got = O.parse_directive_list(s)
    except ValueError:
        return want == 'ValueError'
    return got == want


def parse_list_1(n1: int, e1: int, v1: int, lead: int) -> bool:
    """parse_directive_list on one item `name <eq> value` with whitespace variants
    pre: 0 <= n1 < 8 and 0 <= e1 < 5 and 0 <= v1 < 6 and 0 <= lead < 3
    post: _ == True
    """
    return _agree(['', ' ', '  \t'][pin(lead, 3)] + LNAMES[pin(n1, 8)] + EQ[pin(e1, 5)] + LVALS[pin(v1, 6)])


def parse_list_2(n1: int, e1: int, v1: int, sp: int, n2: int, e2: int, v2: int) -> bool:
    """two items joined by comma/whitespace variants
    pre: 0 <= n1 < 3 and 0 <= n2 < 3 and 0 <= e1 < 2 and 0 <= e2 < 2 and 0 <= v1 < 2 and 0 <= v2 < 2 and 0 <= sp < 6
    post: _ == True
    """
    N, E, V = ['boundscheck', 'cdivision', 'language_level'], ['=', ' = '], ['True', '3']
    return _agree(N[pin(n1, 3)] + E[pin(e1, 2)] + V[pin(v1, 2)] + SEP[pin(sp, 6)] + N[pin(n2, 3)] + E[pin(e2, 2)] + V[pin(v2, 2)])


def twin(ni: int) -> bool:
    """
    pre: 0 <= ni < 4
    post: _ == True
    """
    O.parse_directive_list(LNAMES[pin(ni, 4)] + ' = True')
    return False
