"""C16 - compile-time merging of chained memoryview subscripts: ExprNodes.MemoryViewSliceNode.merged_indices rewrites view[I][J]
into view[K].  For index lists chosen by symbolic selectors, K (when the method returns one) must select exactly what I followed by J
selects on a 3 x 4 x 5 array: same elements, same shape, and an IndexError whenever the two-step form raises one."""
import numpy as np
import Cython.Compiler.ExprNodes as E
assert E.__file__.endswith('.py')

A = np.arange(60).reshape(3, 4, 5)


class _T:
    def __init__(self, is_int, ndim=0):
        self.is_int = is_int
        self.ndim = ndim


class _Part:
    def __init__(self, v):
        self.is_none = v is None
        self.v = v


class Idx:
    is_slice = False

    def __init__(self, v, is_int=True):
        self.v = v
        self.type = _T(is_int)

    def np(self):
        return self.v


class Sl:
    is_slice = True
    type = _T(False)

    def __init__(self, start, stop, step):
        self.start, self.stop, self.step = _Part(start), _Part(stop), _Part(step)

    def np(self):
        return slice(self.start.v, self.stop.v, self.step.v)


# index forms of the first subscript and of the second subscript
def first_forms():
    return [Idx(1), Sl(None, None, None), Sl(None, None, 2), Sl(1, None, None), Sl(None, 2, None), Sl(None, None, -1), Idx(0, is_int=False)]


def second_forms():
    return [Idx(0), Idx(2), Idx(3), Sl(None, None, None), Sl(1, None, None), Sl(None, None, 2)]


NF, NS = 7, 6


def pin(k, n):
    for v in range(n):
        if k == v:
            return v
    return n - 1


class _Base:
    type = _T(False, ndim=3)


class _Self:
    base = _Base()

    def __init__(self, original):
        self.original_indices = original


def select(arr, idx):
    try:
        r = arr[tuple(i.np() for i in idx)] if idx else arr
        return ('ok', np.shape(r), np.asarray(r).tolist())
    except IndexError:
        return ('IndexError',)


def check(nf, f0, f1, f2, ns, s0, s1):
    nf, ns = 1 + pin(nf, 3), pin(ns, 3)
    FF, SF = first_forms(), second_forms()
    first = [FF[pin(f, NF)] for f in (f0, f1, f2)][:nf]
    second = [SF[pin(s, NS)] for s in (s0, s1)][:ns]
    merged = E.MemoryViewSliceNode.merged_indices(_Self(first), second)
    if merged is None:
        return True                      # not merged at compile time: the two subscripts are evaluated one after the other
    step1 = select(A, first)
    if step1[0] != 'ok':
        want = step1
    else:
        inner = A[tuple(i.np() for i in first)]
        if np.ndim(inner) < len(second):
            return True                  # too many indices for the intermediate view: rejected when the second subscript is analysed
        want = select(inner, second)
    got = select(A, merged)
    return got == want


def twin(f0):
    FF = first_forms()
    merged = E.MemoryViewSliceNode.merged_indices(_Self([FF[pin(f0, NF)]]), [Idx(0)])
    return merged is None
