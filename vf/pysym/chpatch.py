"""Tool-limitation shim (DESIGN §2.4): CrossHair 0.0.110 Match.start/end/span do not accept group names."""
# Work around crosshair 0.0.110: Match.start/end/span do not accept group *names*.
from crosshair.libimpl import relib
def _idx(self, group):
    if isinstance(group, str):
        return self.re.groupindex[group]
    return group
_os, _oe, _osp = relib._MatchPart.start, relib._MatchPart.end, relib._MatchPart.span
relib._Match.start = lambda self, group=0: _os(self, _idx(self, group))
relib._Match.end = lambda self, group=0: _oe(self, _idx(self, group))
relib._Match.span = lambda self, group=0: _osp(self, _idx(self, group))
