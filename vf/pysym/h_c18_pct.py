"""C18 - '%'-formatting with a literal template and a tuple: Optimize.ConstantFolding._build_fstring rewrites it into an f-string
(FormattedValueNode per placeholder).  The rewritten conversion + format spec must produce what the '%' operator produces."""
import Cython.Compiler.Optimize as O
import Cython.Compiler.ExprNodes as E
import Cython.Compiler.Errors as Errors
from Cython.Compiler.StringEncoding import EncodedString
assert O.__file__.endswith('.py')
Errors.init_thread()
CF = O.ConstantFolding()
POS = ('<c18>', 1, 0)
# the placeholder grammar the rewriting accepts: '%' [ [-0-9]+ | ' ' ] [ '.' digits ] type
PREFIX = ['', '-', '0', ' ', '5', '05', '-5', '12', '012', '-12', '1', '-0', '0-', '00', '-05', '0-5', '-012', '3']
PREC = ['', '.0', '.3', '.10']
TYPES = 'asrfdoxX'
VALUES = {'a': ['a\xe9', 7, None], 's': ['ab', 7, None, 2.5, ''], 'r': ['ab', 7, 2.5], 'f': [1.5, -2.25, 3, 0.0], 'd': [5, -5, 0, 3.7, True, 123456],
          'o': [8, -8, 0], 'x': [255, -255, 0], 'X': [255, -1]}


def pin(k, n):
    for v in range(n):
        if k == v:
            return v
    return n


def render(node, v):
    """what the generated code computes for the rewritten node: conversion (str/repr/ascii/int) then format(value, spec)"""
    out = []
    for sub in (node.values if isinstance(node, E.JoinedStrNode) else [node]):
        if isinstance(sub, E.UnicodeNode):
            out.append(str(sub.value))
            continue
        c = sub.conversion_char
        spec = str(sub.format_spec.value) if sub.format_spec is not None else ''
        x = v
        if c == 's':
            x = str(v)
        elif c == 'r':
            x = repr(v)
        elif c == 'a':
            x = ascii(v)
        elif c == 'd':
            x = v if type(v) is int else int(v)
        out.append(format(x, spec))
    return ''.join(out)


def outcome(thunk):
    try:
        return ('v', thunk())
    except (ValueError, TypeError, OverflowError) as e:
        return ('e', type(e).__name__)


def check(pi, qi, ti, vi):
    prefix, prec, t = PREFIX[pin(pi, len(PREFIX))], PREC[pin(qi, len(PREC))], TYPES[pin(ti, len(TYPES))]
    vals = VALUES[t]
    v = vals[pin(vi, len(vals)) % len(vals)]
    fmt = 'A%' + prefix + prec + t + 'B'
    arg = E.NameNode(POS, name=EncodedString('v'))
    node = CF._build_fstring(POS, EncodedString(fmt), [arg])        # an internal exception here is a violation (propagates)
    if node is None:
        return True                 # not rewritten: the '%' operator itself runs
    want = outcome(lambda: fmt % (v,))
    got = outcome(lambda: render(node, v))
    return got == want


VALUES_BAD = {'f': ['ab', None], 'd': ['ab', None], 'o': ['ab', 2.5], 'x': ['ab', 2.5], 'X': ['ab', 2.5]}


def bad_outcomes(pi, qi, ti, vi):
    prefix, prec, t = PREFIX[pin(pi, len(PREFIX))], PREC[pin(qi, len(PREC))], TYPES[pin(ti, len(TYPES))]
    vals = VALUES_BAD[t]
    v = vals[pin(vi, len(vals)) % len(vals)]
    fmt = 'A%' + prefix + prec + t + 'B'
    node = CF._build_fstring(POS, EncodedString(fmt), [E.NameNode(POS, name=EncodedString('v'))])
    if node is None:
        return None
    return outcome(lambda: render(node, v)), outcome(lambda: fmt % (v,))


def check_bad(pi, qi, ti, vi):
    """operands of the wrong type for a numeric placeholder: the '%' operator raises TypeError"""
    r = bad_outcomes(pi, qi, ti, vi)
    return r is None or r[0] == r[1]


def is_known_exception_class_difference(pi, qi, ti, vi):
    r = bad_outcomes(pi, qi, ti, vi)
    return r is not None and r[0] == ('e', 'ValueError') and r[1] == ('e', 'TypeError')


def twin_check(pi):
    fmt = 'A%' + PREFIX[pin(pi, len(PREFIX))] + 'sB'
    node = CF._build_fstring(POS, EncodedString(fmt), [E.NameNode(POS, name=EncodedString('v'))])
    return node is None             # must be refuted: the rewriting does happen
