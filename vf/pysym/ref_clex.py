"""Reference reader of C string / character literals (ISO C translation phases 1-6, as far as they matter here):
trigraph replacement first, then escape sequences, then concatenation of adjacent string literals.
Raw characters allowed inside a literal: 0x20..0x7F except the closing quote and backslash (raw DEL is accepted:
no supported compiler rejects it; recorded as an assumption)."""
TRI = {'=': '#', '(': '[', '/': '\\', ')': ']', "'": '^', '<': '{', '!': '|', '>': '}', '-': '~'}
SIMPLE = {'n': 10, 't': 9, 'r': 13, 'a': 7, 'b': 8, 'f': 12, 'v': 11, '\\': 92, '"': 34, "'": 39, '?': 63}


def trigraphs(lit):
    s = []
    i = 0
    n = len(lit)
    while i < n:
        if lit[i] == '?' and i + 2 < n and lit[i + 1] == '?' and lit[i + 2] in TRI:
            s.append(TRI[lit[i + 2]])
            i += 3
        else:
            s.append(lit[i])
            i += 1
    return s


def _escape(s, i, n, out):
    c = s[i]
    if c in SIMPLE:
        out.append(SIMPLE[c])
        return i + 1
    if c in '01234567':
        v = 0
        k = 0
        while k < 3 and i < n and s[i] in '01234567':
            v = v * 8 + (ord(s[i]) - 48)
            i += 1
            k += 1
        if v > 255:
            raise ValueError("octal escape out of range")
        out.append(v)
        return i
    if c == 'x':
        i += 1
        v = 0
        k = 0
        while i < n and s[i] in '0123456789abcdefABCDEF':
            v = v * 16 + int(s[i], 16)
            i += 1
            k += 1
        if k == 0 or v > 255:
            raise ValueError("hex escape empty or out of range")
        out.append(v)
        return i
    raise ValueError("unknown escape")


def c_decode(body):
    """body = what is emitted between the outer double quotes (may contain "" splits)."""
    s = trigraphs(body)
    out = bytearray()
    i = 0
    n = len(s)
    while i < n:
        c = s[i]
        if c == '"':
            if i + 1 < n and s[i + 1] == '"':      # end of one literal, start of the adjacent one
                i += 2
                continue
            raise ValueError("unescaped double quote")
        if c != '\\':
            if ord(c) > 127 or ord(c) < 32:
                raise ValueError("raw non-printable character")
            out.append(ord(c))
            i += 1
            continue
        i += 1
        if i >= n:
            raise ValueError("trailing backslash")
        i = _escape(s, i, n, out)
    return bytes(out)


def c_char_decode(body):
    """body = what is emitted between single quotes of a character constant; exactly one char"""
    s = trigraphs(body)
    out = bytearray()
    n = len(s)
    if n == 0:
        raise ValueError("empty char constant")
    if s[0] == "'":
        raise ValueError("unescaped single quote")
    if s[0] != '\\':
        if ord(s[0]) > 127 or ord(s[0]) < 32:
            raise ValueError("raw non-printable character")
        out.append(ord(s[0]))
        i = 1
    else:
        if n < 2:
            raise ValueError("trailing backslash")
        i = _escape(s, 1, n, out)
    if i != n:
        raise ValueError("multi-character constant")
    return out[0]
