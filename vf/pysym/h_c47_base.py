"""C47 — Dependencies.strip_string_literals: lossless (labels substitute back) and complete (no literal or
comment character survives) — real code: Cython/Build/Dependencies.py; oracle for completeness: CPython's tokenizer."""
import io, re, tokenize
import Cython.Build.Dependencies as D
assert D.__file__.endswith('.py'), D.__file__

TOKENS = ['"""', "'''", '"', "'", '\\\\', '\\', 'f', '{', '}', '{{', '}}', '#', '\n', 'a', ' ', '=']
LABEL = re.compile(r'__Pyx_L(\d+)_')


def roundtrip(code):
    stripped, literals = D.strip_string_literals(code)
    out = stripped
    # substitute in descending label order so that __Pyx_L1_ never clobbers __Pyx_L10_ prefixes
    for label in sorted(literals, key=lambda l: -int(l[7:-1])):
        out = out.replace(label, literals[label])
    # character-wise comparison: CrossHair 0.0.110 mis-evaluates `!=`/`==` on some symbolic strings built by str.replace
    return len(out) == len(code) and all(a == b for a, b in zip(out, code))


def literal_mask_from_strip(code):
    """positions of `code` that ended up inside labels (requires the round trip to hold)"""
    stripped, literals = D.strip_string_literals(code)
    mask = []
    pos = 0
    for m in LABEL.finditer(stripped):
        mask += [False] * (m.start() - pos)
        mask += [True] * len(literals[m.group(0)])
        pos = m.end()
    mask += [False] * (len(stripped) - pos)
    return mask


def literal_mask_from_cpython(code):
    """positions that CPython's tokenizer classifies as string-literal body / f-string literal text / comment body.
    Returns None when CPython does not accept the text."""
    try:
        compile(code, '<c47>', 'exec')
    except (SyntaxError, ValueError):
        return None
    lines = code.split('\n')
    starts = [0]
    for l in lines:
        starts.append(starts[-1] + len(l) + 1)

    def off(p):
        return starts[p[0] - 1] + p[1]
    mask = [False] * len(code)
    try:
        toks = list(tokenize.generate_tokens(io.StringIO(code).readline))
    except (tokenize.TokenError, SyntaxError, IndentationError):
        return None
    for t in toks:
        a, b = off(t.start), off(t.end)
        if t.type == tokenize.COMMENT:
            for i in range(a + 1, b):
                mask[i] = True
        elif t.type == tokenize.STRING:
            s = code[a:b]
            k = 0
            while s[k] not in '"\'':
                k += 1
            q = s[k:k + 3] if s[k:k + 3] in ('"""', "'''") else s[k]
            for i in range(a + k + len(q), b - len(q)):
                mask[i] = True
        elif t.type == tokenize.FSTRING_MIDDLE:
            for i in range(a, b):
                mask[i] = True
    return mask


def complete(code):
    """every literal/comment body character is inside a label, and no label swallows code"""
    want = literal_mask_from_cpython(code)
    if want is None:
        return True            # not valid Python: only the round trip is required
    got = literal_mask_from_strip(code)
    if len(got) != len(code):
        return False
    # escaped braces in f-strings ({{ }}): the tokenizer reports one position for the pair; accept either
    for i, (w, g) in enumerate(zip(want, got)):
        if w != g:
            if code[i] in '{}' and ((i and code[i - 1] == code[i]) or (i + 1 < len(code) and code[i + 1] == code[i])):
                continue
            return False
    return True


def check_tokens(sel):
    code = ''.join(TOKENS[k] for k in sel)
    return roundtrip(code) and complete(code)
