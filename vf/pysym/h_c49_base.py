"""C49 — StringIOTree histories vs a list-of-holes reference (real code: Cython/StringIOTree.py)."""
import io
import Cython.StringIOTree as ST
assert ST.__file__.endswith('.py'), ST.__file__

NOPS = 5      # 0 write, 1 insertion_point, 2 insert(fresh tree with content), 3 commit, 4 insert(fresh empty tree, written later)


def run_ops(ops):
    """Apply a history to real trees and to the reference model; True iff every live buffer agrees with
    the model on getvalue(), copyto(), empty() and allmarkers(), and marker count == line count."""
    root = ST.StringIOTree()
    trees = [root]
    model = {0: []}          # tree id -> list of ('s', text, marker) | ('t', tree id)
    n = 0
    for (op, k) in ops:
        if k >= len(trees):
            return True      # not a history (no such buffer): pruned
        t = trees[k]
        if op == 0:
            n += 1
            s = "w%d\n" % n
            t.write(s)
            t.markers.append(n)           # CCodeWriter appends one marker per written line
            model[k].append(('s', s, n))
        elif op == 1:
            new = t.insertion_point()
            trees.append(new)
            model[len(trees) - 1] = []
            model[k].append(('t', len(trees) - 1))
        elif op == 2:
            new = ST.StringIOTree()
            n += 1
            s = "i%d\n" % n
            new.write(s)
            new.markers.append(n)
            trees.append(new)
            model[len(trees) - 1] = [('s', s, n)]
            t.insert(new)
            model[k].append(('t', len(trees) - 1))
        elif op == 3:
            t.commit()
        else:
            new = ST.StringIOTree()
            trees.append(new)
            model[len(trees) - 1] = []
            t.insert(new)
            model[k].append(('t', len(trees) - 1))

    def flat(i):
        txt = []
        mk = []
        for it in model[i]:
            if it[0] == 's':
                txt.append(it[1])
                mk.append(it[2])
            else:
                a, b = flat(it[1])
                txt.append(a)
                mk.extend(b)
        return "".join(txt), mk
    for i, t in enumerate(trees):
        a, b = flat(i)
        if t.getvalue() != a:
            return False
        if t.allmarkers() != b:
            return False
        if len(t.allmarkers()) != a.count("\n"):
            return False
        out = io.StringIO()
        t.copyto(out)
        if out.getvalue() != a:
            return False
        if t.empty() != (a == ""):
            return False
    return True
