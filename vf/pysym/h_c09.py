"""C09 — compile-time constants keep their exact values (real code: ExprNodes.make_dedup_key, Optimize.ConstantFolding,
Code.GlobalState.new_num_const_cname, Utils.str_to_number)."""
import math
from Cython.Compiler import ExprNodes, Optimize, PyrexTypes, Builtin, Errors, Code, Naming
import Cython.Utils as Utils
assert ExprNodes.__file__.endswith('.py') and Optimize.__file__.endswith('.py') and Code.__file__.endswith('.py') and Utils.__file__.endswith('.py')
POS = ('<c09>', 1, 0)


def pin(k, n):
    for v in range(n):
        if k == v:
            return v
    return n


# ---- constant leaves ------------------------------------------------------------------------------------
def leaf(kind, i, f):
    """(node, python value) for kind 0 int, 1 float, 2 bool, 3 None"""
    if kind == 0:
        n = ExprNodes.IntNode(POS, value=str(i))
        n.constant_result = i
        return n, i
    if kind == 1:
        n = ExprNodes.FloatNode(POS, value=repr(f))
        n.constant_result = f
        return n, f
    if kind == 2:
        b = bool(i & 1)
        n = ExprNodes.BoolNode(POS, value=b)
        n.constant_result = b
        return n, b
    return ExprNodes.NoneNode(POS), None


def tup(items):
    """TupleNode over (node, value) items"""
    n = ExprNodes.TupleNode(POS, args=[x[0] for x in items])
    n.type = Builtin.tuple_type
    n.is_literal = True
    n.constant_result = tuple(x[1] for x in items)
    return n, n.constant_result


def distinguishable(a, b):
    """can CPython code tell the two constants apart (type, value, sign of zero)?"""
    if type(a) is not type(b):
        return True
    if isinstance(a, tuple):
        return len(a) != len(b) or any(distinguishable(x, y) for x, y in zip(a, b))
    if isinstance(a, float):
        if a != a and b != b:
            return False
        return a != b or math.copysign(1.0, a) != math.copysign(1.0, b)
    return a != b


def key_of(node):
    return ExprNodes.make_dedup_key(node.type, [node.mult_factor if node.is_literal else None] + node.args)


def dedup_flat(k1: int, k2: int, i1: int, i2: int, f1: float, f2: float) -> bool:
    """two 2-tuples (leaf, 1): equal keys only for indistinguishable constants
    pre: 0 <= k1 < 4 and 0 <= k2 < 4
    post: _ == True
    """
    return _dedup_flat(k1, k2, i1, i2, f1, f2)


def _dedup_flat(k1, k2, i1, i2, f1, f2):
    # NOTE: no contract here: CrossHair assumes the postcondition of a contracted callee instead of executing it
    one = leaf(0, 1, 0.0)
    t1 = tup([leaf(pin(k1, 4), i1, f1), one])
    t2 = tup([leaf(pin(k2, 4), i2, f2), one])
    ka, kb = key_of(t1[0]), key_of(t2[0])
    if ka is not None and ka == kb and hash(ka) == hash(kb):
        return not distinguishable(t1[1], t2[1])
    return True


def dedup_nested(k1: int, k2: int, i1: int, i2: int, f1: float, f2: float, shape: int) -> bool:
    """nested tuples ((leaf, None), 1) / (leaf, (leaf, 'None'))
    pre: 0 <= k1 < 4 and 0 <= k2 < 4 and 0 <= shape < 2
    post: _ == True
    """
    return _dedup_nested(k1, k2, i1, i2, f1, f2, shape)


def _dedup_nested(k1, k2, i1, i2, f1, f2, shape):
    none = leaf(3, 0, 0.0)
    one = leaf(0, 1, 0.0)
    a, b = leaf(pin(k1, 4), i1, f1), leaf(pin(k2, 4), i2, f2)
    if pin(shape, 2) == 0:
        t1, t2 = tup([tup([a, none]), one]), tup([tup([b, none]), one])
    else:
        t1, t2 = tup([one, tup([none, a])]), tup([one, tup([none, b])])
    ka, kb = key_of(t1[0]), key_of(t2[0])
    if ka is not None and ka == kb and hash(ka) == hash(kb):
        return not distinguishable(t1[1], t2[1])
    return True


FVALS = [0.0, -0.0, 1.0, -1.0, float('nan'), float('inf'), 0.5, 2.0 ** 70]
IVALS = [0, 1, -1, 2, 2 ** 70, -2 ** 70, 255, 1 << 31]


def dedup_classes(k1, k2, v1, v2, sh):
    a, b = pin(v1, 8), pin(v2, 8)
    if sh == 0:
        return _dedup_flat(k1, pin(k2, 4), IVALS[a], IVALS[b], FVALS[a], FVALS[b])
    return _dedup_nested(k1, pin(k2, 4), IVALS[a], IVALS[b], FVALS[a], FVALS[b], sh - 1)


def dedup_cls_0_0(k2: int, v1: int, v2: int) -> bool:
    """the dedup obligation over value classes (finite, so that it can be confirmed over all paths)
    pre: 0 <= k2 < 4 and 0 <= v1 < 8 and 0 <= v2 < 8
    post: _ == True
    """
    return dedup_classes(0, k2, v1, v2, 0)


def dedup_cls_0_1(k2: int, v1: int, v2: int) -> bool:
    """the dedup obligation over value classes (finite, so that it can be confirmed over all paths)
    pre: 0 <= k2 < 4 and 0 <= v1 < 8 and 0 <= v2 < 8
    post: _ == True
    """
    return dedup_classes(0, k2, v1, v2, 1)


def dedup_cls_0_2(k2: int, v1: int, v2: int) -> bool:
    """the dedup obligation over value classes (finite, so that it can be confirmed over all paths)
    pre: 0 <= k2 < 4 and 0 <= v1 < 8 and 0 <= v2 < 8
    post: _ == True
    """
    return dedup_classes(0, k2, v1, v2, 2)


def dedup_cls_1_0(k2: int, v1: int, v2: int) -> bool:
    """the dedup obligation over value classes (finite, so that it can be confirmed over all paths)
    pre: 0 <= k2 < 4 and 0 <= v1 < 8 and 0 <= v2 < 8
    post: _ == True
    """
    return dedup_classes(1, k2, v1, v2, 0)


def dedup_cls_1_1(k2: int, v1: int, v2: int) -> bool:
    """the dedup obligation over value classes (finite, so that it can be confirmed over all paths)
    pre: 0 <= k2 < 4 and 0 <= v1 < 8 and 0 <= v2 < 8
    post: _ == True
    """
    return dedup_classes(1, k2, v1, v2, 1)


def dedup_cls_1_2(k2: int, v1: int, v2: int) -> bool:
    """the dedup obligation over value classes (finite, so that it can be confirmed over all paths)
    pre: 0 <= k2 < 4 and 0 <= v1 < 8 and 0 <= v2 < 8
    post: _ == True
    """
    return dedup_classes(1, k2, v1, v2, 2)


def dedup_cls_2_0(k2: int, v1: int, v2: int) -> bool:
    """the dedup obligation over value classes (finite, so that it can be confirmed over all paths)
    pre: 0 <= k2 < 4 and 0 <= v1 < 8 and 0 <= v2 < 8
    post: _ == True
    """
    return dedup_classes(2, k2, v1, v2, 0)


def dedup_cls_2_1(k2: int, v1: int, v2: int) -> bool:
    """the dedup obligation over value classes (finite, so that it can be confirmed over all paths)
    pre: 0 <= k2 < 4 and 0 <= v1 < 8 and 0 <= v2 < 8
    post: _ == True
    """
    return dedup_classes(2, k2, v1, v2, 1)


def dedup_cls_2_2(k2: int, v1: int, v2: int) -> bool:
    """the dedup obligation over value classes (finite, so that it can be confirmed over all paths)
    pre: 0 <= k2 < 4 and 0 <= v1 < 8 and 0 <= v2 < 8
    post: _ == True
    """
    return dedup_classes(2, k2, v1, v2, 2)


def dedup_cls_3_0(k2: int, v1: int, v2: int) -> bool:
    """the dedup obligation over value classes (finite, so that it can be confirmed over all paths)
    pre: 0 <= k2 < 4 and 0 <= v1 < 8 and 0 <= v2 < 8
    post: _ == True
    """
    return dedup_classes(3, k2, v1, v2, 0)


def dedup_cls_3_1(k2: int, v1: int, v2: int) -> bool:
    """the dedup obligation over value classes (finite, so that it can be confirmed over all paths)
    pre: 0 <= k2 < 4 and 0 <= v1 < 8 and 0 <= v2 < 8
    post: _ == True
    """
    return dedup_classes(3, k2, v1, v2, 1)


def dedup_cls_3_2(k2: int, v1: int, v2: int) -> bool:
    """the dedup obligation over value classes (finite, so that it can be confirmed over all paths)
    pre: 0 <= k2 < 4 and 0 <= v1 < 8 and 0 <= v2 < 8
    post: _ == True
    """
    return dedup_classes(3, k2, v1, v2, 2)


# ---- constant folding -------------------------------------------------------------------------------------
OPS = ['+', '-', '*', '//', '%', '&', '|', '^', '<<', '>>']


def fold(op, n1, n2):
    node = ExprNodes.binop_node(POS, op, n1, n2)
    Errors.init_thread()
    return Optimize.ConstantFolding()(node)


def fold_int(opi: int, a: int, b: int) -> bool:
    """IntNode op IntNode
    pre: 0 <= opi < 10
    pre: b < 200 and a < 2 ** 200 and a > -2 ** 200
    post: _ == True
    """
    op = OPS[pin(opi, 10)]
    r = fold(op, leaf(0, a, 0.0)[0], leaf(0, b, 0.0)[0])
    try:
        want = eval('a %s b' % op)
    except (ZeroDivisionError, ValueError, OverflowError, MemoryError):
        return not isinstance(r, ExprNodes.ConstNode)       # must be left for run time
    if isinstance(r, ExprNodes.IntNode):
        return r.constant_result == want and type(r.constant_result) is int and Utils.str_to_number(r.value) == want
    # not folded: acceptable (evaluated at run time by CPython semantics)
    return not isinstance(r, ExprNodes.ConstNode)


def fold_bool(opi: int, a: int, b: int) -> bool:
    """BoolNode op BoolNode: the folded constant must have CPython's type and value (True & False is a bool, True + True an int)
    pre: 0 <= opi < 10 and 0 <= a < 2 and 0 <= b < 2
    post: _ == True
    """
    op = OPS[pin(opi, 10)]
    x, y = bool(pin(a, 2)), bool(pin(b, 2))
    r = fold(op, leaf(2, int(x), 0.0)[0], leaf(2, int(y), 0.0)[0])
    try:
        want = eval('x %s y' % op)
    except ZeroDivisionError:
        return not isinstance(r, ExprNodes.ConstNode)
    if isinstance(r, ExprNodes.ConstNode):
        return r.constant_result == want and type(r.constant_result) is type(want) and \
            (isinstance(r, ExprNodes.BoolNode) == isinstance(want, bool))
    return True


def fold_float(opi: int, a: float, b: float) -> bool:
    """FloatNode op FloatNode
    pre: 0 <= opi < 3
    post: _ == True
    """
    op = OPS[pin(opi, 3)]
    r = fold(op, leaf(1, 0, a)[0], leaf(1, 0, b)[0])
    want = eval('a %s b' % op)
    if isinstance(r, ExprNodes.FloatNode):
        got = r.constant_result
        return not distinguishable(got, want) and (want != want or not distinguishable(float(r.value), want))
    return not isinstance(r, ExprNodes.ConstNode)


# ---- numeric constant C names ------------------------------------------------------------------------------
MANT = ['1', '.5', '5.', '1.5', '15', '0', '1.50']
EXPS = ['', 'e5', 'e+5', 'e-5', 'E5', 'e05']
SIGN = ['', '-']


def cname_of(text, py_type):
    gs = Code.GlobalState.__new__(Code.GlobalState)
    gs.const_cnames_used = {}
    return Code.GlobalState.new_num_const_cname(gs, text, py_type)


def cnames_distinct(s1: int, m1: int, e1: int, s2: int, m2: int, e2: int) -> bool:
    """two numeric literal texts (sign, mantissa, exponent) that differ get different C names
    pre: 0 <= s1 < 2 and 0 <= s2 < 2 and 0 <= m1 < 7 and 0 <= m2 < 7 and 0 <= e1 < 6 and 0 <= e2 < 6
    post: _ == True
    """
    t1 = SIGN[pin(s1, 2)] + MANT[pin(m1, 7)] + EXPS[pin(e1, 6)]
    t2 = SIGN[pin(s2, 2)] + MANT[pin(m2, 7)] + EXPS[pin(e2, 6)]
    if t1 == t2:
        return True
    return cname_of(t1, 'float') != cname_of(t2, 'float')


def twin(i1: int) -> bool:
    """
    post: _ == True
    """
    _dedup_flat(0, 1, i1, 0, 0.0, 1.0)
    return False
