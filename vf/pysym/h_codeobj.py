"""C44 - code object descriptions: Code.GlobalState.generate_codeobject_constants declares one struct type with bit-fields sized for
the largest value of the module, and ExprNodes.CodeObjectNode.generate_codeobj initialises one such struct per function.  Both are
executed for 1..2 functions with symbolic argument counts, local counts, flags and first lines; every initialiser must fit the bit-field
it is stored in and be the function's own value (a value that does not fit is silently truncated by the C compiler: wrong
co_firstlineno / co_argcount and, because line tables are relative to the first line, wrong lines in tracebacks)."""
import re
import Cython.Compiler.Code as C
import Cython.Compiler.ExprNodes as E
assert C.__file__.endswith('.py') and E.__file__.endswith('.py')

LINES = [1, 2, 3, 4, 7, 8, 15, 16, 255, 256, 1023, 1024, 65535, 65536]
NLN = len(LINES)
CO = dict(CO_OPTIMIZED=1, CO_NEWLOCALS=2, CO_VARARGS=4, CO_VARKEYWORDS=8, CO_GENERATOR=0x20, CO_COROUTINE=0x80, CO_ASYNC_GENERATOR=0x200)


def pin(k, n):
    for v in range(n):
        if k == v:
            return v
    return n - 1


class Writer:
    def __init__(self):
        self.lines = []

    def putln(self, s='', safe=False):
        self.lines.append(s)

    def put(self, s):
        self.lines += s.split('\n')

    def start_initcfunc(self, sig, scope=None, refnanny=False):
        self.lines.append(sig + ' {')

    def exit_cfunc_scope(self):
        pass

    def get_py_string_const(self, text, identifier=False):
        return '__pyx_str'


class _Path:
    def as_posix(self):
        return 'm.pyx'


class _Src:
    def get_relative_path(self):
        return _Path()


class _Var:
    def generate_evaluation_code(self, code): pass
    def generate_disposal_code(self, code): pass
    def free_temps(self, code): pass
    def py_result(self): return '__pyx_n_v'


class _Def:
    node_positions = None
    is_asyncgen = is_coroutine = is_generator = False

    def __init__(self, k, line, nargs, nkw, npos, genexpr, star, starstar, kind):
        self.name = 'f%d' % k
        self.pos = (_Src(), line, 0)
        self.args = [None] * (nargs + nkw)
        self.num_kwonly_args = nkw
        self.num_posonly_args = npos
        self.is_generator_expression = genexpr
        self.star_arg = star or None
        self.starstar_arg = starstar or None
        if kind == 1:
            self.is_generator = True
        elif kind == 2:
            self.is_coroutine = True
        elif kind == 3:
            self.is_asyncgen = True


def make_node(k, line, nargs, nkw, npos, nloc, genexpr, star, starstar, kind):
    n = E.CodeObjectNode.__new__(E.CodeObjectNode)
    n.def_node = _Def(k, line, nargs, nkw, npos, genexpr, star, starstar, kind)
    n.pos = n.def_node.pos
    n.varnames = [_Var() for _ in range(nloc)]
    n.result_code = '__pyx_codeobj_%d' % k
    return n


class FakeState:
    def __init__(self, nodes):
        self.codeobject_constants = nodes
        self.parts = {'init_codeobjects': Writer(), 'module_state': Writer()}

    def use_utility_code(self, uc): pass

    def _generate_module_array_traverse_and_clear(self, *a, **kw): pass


_FIELD = re.compile(r'^\s*unsigned int (\w+) : (\d+);$')
_DESCR = re.compile(r'^const __Pyx_PyCode_New_function_description descr = \{(.*)\};$')
ORDER = ['argcount', 'num_posonly_args', 'num_kwonly_args', 'nlocals', 'flags', 'first_line']


def read_back(st, nodes):
    width, descrs = {}, []
    fields = []
    for l in st.parts['init_codeobjects'].lines:
        m = _FIELD.match(l)
        if m:
            width[m.group(1)] = int(m.group(2))
            fields.append(m.group(1))
            continue
        m = _DESCR.match(l)
        if m:
            vals = [x.strip() for x in m.group(1).split(',')]
            descrs.append(vals)
    if fields != ORDER:
        return 'struct fields %r' % fields
    if len(descrs) != len(nodes):
        return '%d descriptions for %d functions' % (len(descrs), len(nodes))
    for node, vals in zip(nodes, descrs):
        d = node.def_node
        f = vals[4]
        if not (f.startswith('(unsigned int)(') and f.endswith(')')):
            return 'flags %r' % f
        fl = 0
        for name in f[len('(unsigned int)('):-1].split('|'):
            fl |= CO[name]
        got = [int(vals[0]), int(vals[1]), int(vals[2]), int(vals[3]), fl, int(vals[5])]
        for name, v in zip(ORDER, got):
            if width[name] < 1 or v >> width[name]:
                return '%s = %d does not fit its %d-bit field' % (name, v, width[name])
        want_fl = 3 | (4 if d.star_arg else 0) | (8 if d.starstar_arg else 0) | (0x200 if d.is_asyncgen else 0x80 if d.is_coroutine else 0x20 if d.is_generator else 0)
        want = [0 if d.is_generator_expression else len(d.args) - d.num_kwonly_args, d.num_posonly_args, d.num_kwonly_args, len(node.varnames), want_fl, d.pos[1]]
        if d.is_generator_expression:
            want[0] = got[0]              # generator expressions: argcount is 0 - kwonly (never user visible); only the fit matters
        if got != want:
            return 'description %r, function has %r' % (got, want)
    return None


def check(l1, a1, k1, p1, v1, g1, s1, ss1, kind1, two, l2, a2, k2, v2, g2):
    """function 1: line/args/kwonly/posonly/locals/genexpr/star/starstar/kind all symbolic; optional function 2"""
    l1, l2 = LINES[pin(l1, NLN)], LINES[pin(l2, NLN)]
    a1, k1, v1, a2, k2, v2 = pin(a1, 5), pin(k1, 4), pin(v1, 9), pin(a2, 5), pin(k2, 4), pin(v2, 9)
    p1 = pin(p1, a1 + 1)
    g1, g2, s1, ss1, two = bool(pin(g1, 2)), bool(pin(g2, 2)), bool(pin(s1, 2)), bool(pin(ss1, 2)), bool(pin(two, 2))
    if g1:
        a1 = k1 = p1 = 0            # generator expressions take no user-visible arguments
    if g2:
        a2 = k2 = 0
    nodes = [make_node(0, l1, a1, k1, p1, v1, g1, s1, ss1, pin(kind1, 4))]
    if two:
        nodes.append(make_node(1, l2, a2, k2, 0, v2, g2, False, False, 1 if g2 else 0))
    st = FakeState(nodes)
    C.GlobalState.generate_codeobject_constants(st)
    return read_back(st, nodes) is None


def twin(l1):
    return not check(l1, 1, 0, 0, 1, 0, 0, 0, 0, 0, 0, 0, 0, 0, 0)


def check_lines(l1, g1, two, l2, g2):
    return check(l1, 1, 1, 0, 2, g1, 0, 0, 0, two, l2, 2, 0, 1, g2)


def check_args(a1, k1, p1, g1, two, a2, k2, g2):
    return check(2, pin(a1, 4), pin(k1, 3), p1, 2, g1, 0, 0, 0, two, 3, pin(a2, 4), pin(k2, 3), 1, g2)


def check_locals(v1, two, v2, g2):
    return check(2, 1, 0, 0, v1, 0, 0, 0, 0, two, 3, 0, 0, v2, g2)


def check_flags(s1, ss1, kind1, g1, two):
    return check(2, 1, 0, 0, 1, g1, s1, ss1, kind1, two, 3, 0, 0, 1, 0)
