"""C29 - layout checksum of auto-pickled extension types: ParseTreeTransforms._calculate_pickle_checksums must hash an encoding of the
member-name list that is injective (two different layouts never hash the same text)."""
import Cython.Compiler.ParseTreeTransforms as PT
assert PT.__file__.endswith('.py')

LETTERS = 'ab'


class _Rec:
    """stands in for hashlib: records what would be hashed (the digest of distinct texts is assumed distinct: trusted hash)"""
    def __init__(self):
        self.seen = []

    def __getattr__(self, name):
        def mk(data, usedforsecurity=True):
            self.seen.append(bytes(data))
            rec = self

            class D:
                def hexdigest(self_inner):
                    return '0' * 64
            return D()
        return mk


def hashed_text(names):
    rec = _Rec()
    old = PT.hashlib
    PT.hashlib = rec
    try:
        PT._calculate_pickle_checksums(names)
    finally:
        PT.hashlib = old
    return rec.seen[0] if rec.seen else None


def pin(k, n):
    for v in range(n):
        if k == v:
            return v
    return n


def mkname(code, length):
    """identifier of 1..2 characters over the alphabet a b selected by a base-2 code"""
    code, length = pin(code, 4), pin(length, 3)
    s = LETTERS[code % 2]
    if length >= 2:
        s += LETTERS[(code // 2) % 2]
    return s


def check_injective(n1, n2, c11, l11, c12, l12, c21, l21, c22, l22):
    # two member-name lists of 1..2 identifiers.  NOTE: no contract on this function: CrossHair assumes the postcondition of a
    # contracted callee instead of executing it, which made the generated wrappers vacuously true.
    a = [mkname(c11, l11), mkname(c12, l12)][:pin(n1, 3)]
    b = [mkname(c21, l21), mkname(c22, l22)][:pin(n2, 3)]
    if a == b:
        return True
    return hashed_text(a) != hashed_text(b)


def twin(n1):
    return hashed_text(['a', 'b'][:pin(n1, 3)]) == b'a'          # false for n1 == 2: the recorder does see the joined text


def shape(n1, n2, l11, l12, l21, l22, c11, c12, c21, c22):
    return check_injective(n1, n2, c11, l11, c12, l12, c21, l21, c22, l22)
