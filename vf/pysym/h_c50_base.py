"""C50 — Plex scanner (Lexicon -> NFA -> DFA -> Scanner.run_machine_inlined) vs a reference matcher.
Rules are given as nested-tuple specs; the same spec is (a) built into real Plex REs through the public
constructors and (b) interpreted by the reference `ends()` (set-of-end-positions semantics)."""
import Cython.Plex.Scanners as Sc
import Cython.Plex.Lexicons as Lx
import Cython.Plex.Errors as Errors
import Cython.Plex.Regexps as R
import Cython.Plex.Machines, Cython.Plex.DFA, Cython.Plex.Transitions, Cython.Plex.Actions
for _m in (Sc, Lx, R, Cython.Plex.Machines, Cython.Plex.DFA, Cython.Plex.Transitions, Cython.Plex.Actions):
    assert _m.__file__.endswith('.py'), _m.__file__


def build(spec):
    k = spec[0]
    if k == 'str': return R.Str(spec[1])
    if k == 'strs': return R.Str(*spec[1:])
    if k == 'any': return R.Any(spec[1])
    if k == 'anybut': return R.AnyBut(spec[1])
    if k == 'anychar': return R.AnyChar
    if k == 'range': return R.Range(spec[1], spec[2])
    if k == 'seq': return R.Seq(*[build(s) for s in spec[1:]])
    if k == 'alt': return R.Alt(*[build(s) for s in spec[1:]])
    if k == 'rep': return R.Rep(build(spec[1]))
    if k == 'rep1': return R.Rep1(build(spec[1]))
    if k == 'opt': return R.Opt(build(spec[1]))
    if k == 'nocase': return R.NoCase(build(spec[1]))
    if k == 'bol': return R.Bol
    if k == 'eol': return R.Eol
    if k == 'eof': return R.Eof
    raise ValueError(k)


def ends(spec, text, i, nocase=False):
    """reference semantics: set of positions j such that spec matches text[i:j] (Bol/Eol/Eof are zero-width)"""
    k = spec[0]
    n = len(text)
    if k == 'str':
        s = spec[1]
        j = i + len(s)
        if j <= n and (text[i:j] == s or (nocase and text[i:j].lower() == s.lower())):
            return {j}
        return set()
    if k == 'strs':
        out = set()
        for s in spec[1:]:
            out |= ends(('str', s), text, i, nocase)
        return out
    if k in ('any', 'anybut', 'anychar', 'range'):
        if i >= n:
            return set()
        c = text[i]
        cs = [c, c.lower(), c.upper()] if nocase else [c]
        if k == 'any':
            ok = any(x in spec[1] for x in cs)
        elif k == 'anybut':
            ok = c not in spec[1]
            if nocase:
                ok = ok or any(x not in spec[1] for x in cs)
        elif k == 'anychar':
            ok = True
        else:
            ok = any(spec[1] <= x <= spec[2] for x in cs)
        return {i + 1} if ok else set()
    if k == 'seq':
        cur = {i}
        for s in spec[1:]:
            nxt = set()
            for p in cur:
                nxt |= ends(s, text, p, nocase)
            cur = nxt
            if not cur:
                break
        return cur
    if k == 'alt':
        out = set()
        for s in spec[1:]:
            out |= ends(s, text, i, nocase)
        return out
    if k == 'opt':
        return {i} | ends(spec[1], text, i, nocase)
    if k in ('rep', 'rep1'):
        seen = set()
        frontier = ends(spec[1], text, i, nocase)
        while frontier:
            seen |= frontier
            nxt = set()
            for p in frontier:
                nxt |= ends(spec[1], text, p, nocase)
            frontier = nxt - seen
        return seen | ({i} if k == 'rep' else set())
    if k == 'nocase':
        return ends(spec[1], text, i, True)
    if k == 'bol':
        return {i} if (i == 0 or text[i - 1] == '\n') else set()
    if k == 'eol':
        return {i} if (i == n or text[i] == '\n') else set()
    if k == 'eof':
        return {i} if i == n else set()
    raise ValueError(k)


def ref_tokens(rules, text):
    """longest match, earliest rule on ties; 'ERR' when nothing matches before the end of input"""
    out = []
    i = 0
    n = len(text)
    while True:
        best_j, best_r = -1, None
        for r, spec in enumerate(rules):
            e = ends(spec, text, i)
            if e:
                j = max(e)
                if j > best_j:
                    best_j, best_r = j, r
        if best_r is None or (best_j == i and i < n):
            if i >= n:
                return out
            out.append('ERR')
            return out
        if best_j == i:            # zero-width match at end of input (Eol/Eof rules): reported once
            out.append((best_r, ''))
            return out
        out.append((best_r, text[i:best_j]))
        i = best_j


class Stream:
    def __init__(self, s):
        self.s = s
        self.done = False

    def read(self, n):
        if self.done:
            return ''
        self.done = True
        return self.s


def make_lexicon(rules):
    """built once at import time (concretely, outside symbolic tracing): the real NFA->DFA pipeline"""
    return Lx.Lexicon([(build(spec), r) for r, spec in enumerate(rules)])


def real_tokens(rules, text, limit=12, lex=None):
    if lex is None:
        lex = make_lexicon(rules)
    sc = Sc.Scanner(lex, Stream(text))
    out = []
    while len(out) < limit:
        try:
            val, tok = sc.read()
        except Errors.UnrecognizedInput:
            out.append('ERR')
            return out
        if val is None:
            return out
        out.append((val, tok))
        if tok == '':
            # a zero-width token: Plex would loop; the reference reports it once at end of input only
            return out
    return out


def agree(rules, text, lex=None):
    return real_tokens(rules, text, lex=lex) == ref_tokens(rules, text)


def build_trie(rules, maxlen, alpha):
    """Reference answers for every text of length <= maxlen, computed concretely at import time by
    ref_tokens and stored as a character trie, so that the oracle costs one dict step per symbolic char."""
    def node(prefix):
        d = {'$': ref_tokens(rules, prefix)}
        if len(prefix) < maxlen:
            for ch in alpha:
                d[ch] = node(prefix + ch)
        return d
    return node('')


def agree_trie(rules, text, lex, trie):
    node = trie
    for ch in text:
        node = node[ch]
    return real_tokens(rules, text, lex=lex) == node['$']
