"""C12 A3 — whole compressor on small inputs: decompress(lzss_compress(d)) == d, consumed == len(compressed)."""
import Cython.LZSS as LZ
assert LZ.__file__.endswith('.py'), LZ.__file__
from vf.pysym.ref_lzss import decompress


def pin(k, n):
    for v in range(n):
        if k == v:
            return v
    return n


RUNS = list(range(0, 20)) + list(range(253, 268)) + list(range(512, 527))


def roundtrip(data: bytes) -> bool:
    comp = LZ.lzss_compress(data)
    if not data:
        return comp == b''
    try:
        out, used = decompress(comp, len(data))
    except (IndexError, ValueError):
        return False
    return out == data and used == len(comp)


def check_rt2(n: int, bits: int) -> bool:
    """all strings of length n <= 10 over a 2-letter alphabet
    pre: 0 <= n <= 10 and 0 <= bits < 1024
    post: _ == True
    """
    n = pin(n, 11)
    data = bytes(97 + ((pin((bits >> k) & 1, 2))) for k in range(n))
    return roundtrip(data)


def check_rt2_a(n: int, bits: int) -> bool:
    """all strings of length n <= 8 over a 2-letter alphabet
    pre: 0 <= n <= 8 and 0 <= bits < 256
    post: _ == True
    """
    n = pin(n, 9)
    data = bytes(97 + ((pin((bits >> k) & 1, 2))) for k in range(n))
    return roundtrip(data)


def _rt2_fixed(n, bits, top):
    data = bytes(97 + ((pin((bits >> k) & 1, 2))) for k in range(n - len(top))) + bytes(97 + t for t in top)
    return roundtrip(data)


def check_rt2_b0(bits: int) -> bool:
    """all strings of length 9 over a 2-letter alphabet ending in a
    pre: 0 <= bits < 256
    post: _ == True
    """
    return _rt2_fixed(9, bits, [0])


def check_rt2_b1(bits: int) -> bool:
    """all strings of length 9 over a 2-letter alphabet ending in b
    pre: 0 <= bits < 256
    post: _ == True
    """
    return _rt2_fixed(9, bits, [1])


def check_rt2_c0(bits: int) -> bool:
    """length 10 ending in aa
    pre: 0 <= bits < 256
    post: _ == True
    """
    return _rt2_fixed(10, bits, [0, 0])


def check_rt2_c1(bits: int) -> bool:
    """length 10 ending in ab
    pre: 0 <= bits < 256
    post: _ == True
    """
    return _rt2_fixed(10, bits, [0, 1])


def check_rt2_c2(bits: int) -> bool:
    """length 10 ending in ba
    pre: 0 <= bits < 256
    post: _ == True
    """
    return _rt2_fixed(10, bits, [1, 0])


def check_rt2_c3(bits: int) -> bool:
    """length 10 ending in bb
    pre: 0 <= bits < 256
    post: _ == True
    """
    return _rt2_fixed(10, bits, [1, 1])


def check_rt3(a: int, b: int, c: int, d: int, e: int, f: int, n: int) -> bool:
    """all strings of length n <= 6 over a 3-letter alphabet
    pre: 0 <= n <= 6 and 0 <= a < 3 and 0 <= b < 3 and 0 <= c < 3 and 0 <= d < 3 and 0 <= e < 3 and 0 <= f < 3
    post: _ == True
    """
    n = pin(n, 7)
    data = bytes(97 + pin(x, 3) for x in (a, b, c, d, e, f)[:n])
    return roundtrip(data)


def check_runs(ch: int, n: int, tail: int) -> bool:
    """long runs (back references up to the maximum match length and beyond): one letter repeated n times plus a tail byte
    pre: 0 <= ch < 2 and 0 <= n < 50 and 0 <= tail < 3
    post: _ == True
    """
    n = RUNS[pin(n, 50)]
    data = bytes([97 + pin(ch, 2)]) * n + bytes([97 + pin(tail, 3)])
    return roundtrip(data)


def twin(n: int) -> bool:
    """
    pre: 8 <= n <= 9
    post: _ == True
    """
    roundtrip(b'ab' * pin(n, 10))
    return False
