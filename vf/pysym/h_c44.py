"""C44 — LineTable.build_line_table vs reference decoder (real code: Cython/Compiler/LineTable.py)."""
import os
import Cython.Compiler.LineTable as LT
assert LT.__file__.endswith('.py'), LT.__file__
from vf.pysym.ref_linetable import decode, cpython_decode

B = 2 ** 30


def _valid(first, ps):
    last = first
    for (sl, el, sc, ec) in ps:
        if not (sl >= last and el >= sl and 0 <= sc < B and 0 <= ec < B and el < B):
            return False
        if el == sl and ec < sc:
            return False
        last = sl
    return first >= 1


def _roundtrip(first, ps):
    table = LT.build_line_table(list(ps), first)
    ok = decode(table, first) == list(ps)
    if os.environ.get('VF_CONCRETE'):
        # replay: CPython's own decoder must agree with the verdict
        ok = ok and cpython_decode(table, first, len(ps)) == list(ps)
    return ok


def check_rt1(first: int, a0: int, a1: int, a2: int, a3: int) -> bool:
    """
    pre: _valid(first, [(a0, a1, a2, a3)])
    post: _ == True
    """
    return _roundtrip(first, [(a0, a1, a2, a3)])


def check_rt2(first: int, a0: int, a1: int, a2: int, a3: int, b0: int, b1: int, b2: int, b3: int) -> bool:
    """
    pre: _valid(first, [(a0, a1, a2, a3), (b0, b1, b2, b3)])
    post: _ == True
    """
    return _roundtrip(first, [(a0, a1, a2, a3), (b0, b1, b2, b3)])


def check_rt3(first: int, a0: int, a1: int, a2: int, a3: int, b0: int, b1: int, b2: int, b3: int,
              c0: int, c1: int, c2: int, c3: int) -> bool:
    """
    pre: _valid(first, [(a0, a1, a2, a3), (b0, b1, b2, b3), (c0, c1, c2, c3)])
    post: _ == True
    """
    return _roundtrip(first, [(a0, a1, a2, a3), (b0, b1, b2, b3), (c0, c1, c2, c3)])


def check_rt2_single_line(first: int, a0: int, a2: int, a3: int, b0: int, b2: int, b3: int) -> bool:
    """The shape the compiler itself produces: start line == end line.
    pre: _valid(first, [(a0, a0, a2, a3), (b0, b0, b2, b3)])
    post: _ == True
    """
    return _roundtrip(first, [(a0, a0, a2, a3), (b0, b0, b2, b3)])


def check_varint(v: int) -> bool:
    """
    pre: 0 <= v < 2**32
    post: _ == True
    """
    out = []
    LT.encode_varint(out, v)
    # reference: little-endian base-64 digits, continuation bit 64 on all but the last
    val, shift = 0, 0
    for k, ch in enumerate(out):
        b = ord(ch)
        if len(ch) != 1 or b >= 128:
            return False
        if (b & 64 != 0) != (k < len(out) - 1):
            return False
        val |= (b & 63) << shift
        shift += 6
    return val == v and len(out) >= 1 and (len(out) == 1 or ord(out[-1]) != 0)


def twin_rt2(first: int, a0: int, a1: int, a2: int, a3: int, b0: int, b1: int, b2: int, b3: int) -> bool:
    """
    pre: _valid(first, [(a0, a1, a2, a3), (b0, b1, b2, b3)])
    pre: a1 > a0
    post: _ == True
    """
    LT.build_line_table([(a0, a1, a2, a3), (b0, b1, b2, b3)], first)
    return False
