"""C46 — dependency closure with cycles (real code: Cython/Build/Dependencies.py DependencyTree.transitive_merge,
transitive_merge_helper with the real _transitive_cache, all_dependencies, newest_dependency)."""
import Cython.Build.Dependencies as D
assert D.__file__.endswith('.py')


def pin(k, n):
    for v in range(n):
        if k == v:
            return v
    return n


def make_tree(succ, stamps):
    t = D.DependencyTree.__new__(D.DependencyTree)
    t._transitive_cache = {}
    t.cimported_files = lambda n: succ[n]
    t.included_files = lambda n: ()
    t.timestamp = lambda n: stamps[n]
    return t


def reach(succ, i):
    seen = {i}
    work = [i]
    while work:
        x = work.pop()
        for y in succ[x]:
            if y not in seen:
                seen.add(y)
                work.append(y)
    return seen


def run_queries(succ, queries, stamps):
    t = make_tree(succ, stamps)
    for q in queries:
        want = reach(succ, q)
        if t.all_dependencies(q) != want:
            return False
        ts, f = t.newest_dependency(q)
        if ts != max(stamps[x] for x in want) or f not in want or stamps[f] != ts:
            return False
    return True


def graph3(E, qs, stamps):
    succ = {i: tuple(j for j in range(3) if E[i][j]) for i in range(3)}
    return run_queries(succ, qs, stamps)


# 5 files: skeleton a->b->c, a->d->e plus any subset of 8 extra edges (overlapping cycles, chords)
EXTRA = [(2, 0), (2, 1), (4, 0), (4, 3), (1, 0), (3, 0), (4, 1), (2, 3)]


def graph5(xs, qs):
    edges = {(0, 1), (1, 2), (0, 3), (3, 4)}
    for on, e in zip(xs, EXTRA):
        if on:
            edges.add(e)
    succ = {i: tuple(j for j in range(5) if (i, j) in edges) for i in range(5)}
    return run_queries(succ, qs, [1, 2, 3, 4, 5])


def g5_q0(x0: bool, x1: bool, x2: bool, x3: bool, x4: bool, x5: bool, x6: bool, x7: bool, q1: int) -> bool:
    """
    pre: 0 <= q1 < 5
    post: _ == True
    """
    return graph5((x0, x1, x2, x3, x4, x5, x6, x7), [0, pin(q1, 5)])


def g5_q1(x0: bool, x1: bool, x2: bool, x3: bool, x4: bool, x5: bool, x6: bool, x7: bool, q1: int) -> bool:
    """
    pre: 0 <= q1 < 5
    post: _ == True
    """
    return graph5((x0, x1, x2, x3, x4, x5, x6, x7), [1, pin(q1, 5)])


def g5_q2(x0: bool, x1: bool, x2: bool, x3: bool, x4: bool, x5: bool, x6: bool, x7: bool, q1: int) -> bool:
    """
    pre: 0 <= q1 < 5
    post: _ == True
    """
    return graph5((x0, x1, x2, x3, x4, x5, x6, x7), [2, pin(q1, 5)])


def g5_q3(x0: bool, x1: bool, x2: bool, x3: bool, x4: bool, x5: bool, x6: bool, x7: bool, q1: int) -> bool:
    """
    pre: 0 <= q1 < 5
    post: _ == True
    """
    return graph5((x0, x1, x2, x3, x4, x5, x6, x7), [3, pin(q1, 5)])


def g5_q4(x0: bool, x1: bool, x2: bool, x3: bool, x4: bool, x5: bool, x6: bool, x7: bool, q1: int) -> bool:
    """
    pre: 0 <= q1 < 5
    post: _ == True
    """
    return graph5((x0, x1, x2, x3, x4, x5, x6, x7), [4, pin(q1, 5)])


def g3_q00(e01: bool, e02: bool, e10: bool, e12: bool, e20: bool, e21: bool, e00: bool, e11: bool, e22: bool, q2: int, st: int) -> bool:
    """
    pre: 0 <= q2 < 3 and 0 <= st < 3
    post: _ == True
    """
    stamps = [[0, 1, 2], [2, 1, 0], [1, 1, 0]][pin(st, 3)]
    return graph3([[e00, e01, e02], [e10, e11, e12], [e20, e21, e22]], [0, 0, pin(q2, 3)], stamps)


def g3_q01(e01: bool, e02: bool, e10: bool, e12: bool, e20: bool, e21: bool, e00: bool, e11: bool, e22: bool, q2: int, st: int) -> bool:
    """
    pre: 0 <= q2 < 3 and 0 <= st < 3
    post: _ == True
    """
    stamps = [[0, 1, 2], [2, 1, 0], [1, 1, 0]][pin(st, 3)]
    return graph3([[e00, e01, e02], [e10, e11, e12], [e20, e21, e22]], [0, 1, pin(q2, 3)], stamps)


def g3_q02(e01: bool, e02: bool, e10: bool, e12: bool, e20: bool, e21: bool, e00: bool, e11: bool, e22: bool, q2: int, st: int) -> bool:
    """
    pre: 0 <= q2 < 3 and 0 <= st < 3
    post: _ == True
    """
    stamps = [[0, 1, 2], [2, 1, 0], [1, 1, 0]][pin(st, 3)]
    return graph3([[e00, e01, e02], [e10, e11, e12], [e20, e21, e22]], [0, 2, pin(q2, 3)], stamps)


def g3_q10(e01: bool, e02: bool, e10: bool, e12: bool, e20: bool, e21: bool, e00: bool, e11: bool, e22: bool, q2: int, st: int) -> bool:
    """
    pre: 0 <= q2 < 3 and 0 <= st < 3
    post: _ == True
    """
    stamps = [[0, 1, 2], [2, 1, 0], [1, 1, 0]][pin(st, 3)]
    return graph3([[e00, e01, e02], [e10, e11, e12], [e20, e21, e22]], [1, 0, pin(q2, 3)], stamps)


def g3_q11(e01: bool, e02: bool, e10: bool, e12: bool, e20: bool, e21: bool, e00: bool, e11: bool, e22: bool, q2: int, st: int) -> bool:
    """
    pre: 0 <= q2 < 3 and 0 <= st < 3
    post: _ == True
    """
    stamps = [[0, 1, 2], [2, 1, 0], [1, 1, 0]][pin(st, 3)]
    return graph3([[e00, e01, e02], [e10, e11, e12], [e20, e21, e22]], [1, 1, pin(q2, 3)], stamps)


def g3_q12(e01: bool, e02: bool, e10: bool, e12: bool, e20: bool, e21: bool, e00: bool, e11: bool, e22: bool, q2: int, st: int) -> bool:
    """
    pre: 0 <= q2 < 3 and 0 <= st < 3
    post: _ == True
    """
    stamps = [[0, 1, 2], [2, 1, 0], [1, 1, 0]][pin(st, 3)]
    return graph3([[e00, e01, e02], [e10, e11, e12], [e20, e21, e22]], [1, 2, pin(q2, 3)], stamps)


def g3_q20(e01: bool, e02: bool, e10: bool, e12: bool, e20: bool, e21: bool, e00: bool, e11: bool, e22: bool, q2: int, st: int) -> bool:
    """
    pre: 0 <= q2 < 3 and 0 <= st < 3
    post: _ == True
    """
    stamps = [[0, 1, 2], [2, 1, 0], [1, 1, 0]][pin(st, 3)]
    return graph3([[e00, e01, e02], [e10, e11, e12], [e20, e21, e22]], [2, 0, pin(q2, 3)], stamps)


def g3_q21(e01: bool, e02: bool, e10: bool, e12: bool, e20: bool, e21: bool, e00: bool, e11: bool, e22: bool, q2: int, st: int) -> bool:
    """
    pre: 0 <= q2 < 3 and 0 <= st < 3
    post: _ == True
    """
    stamps = [[0, 1, 2], [2, 1, 0], [1, 1, 0]][pin(st, 3)]
    return graph3([[e00, e01, e02], [e10, e11, e12], [e20, e21, e22]], [2, 1, pin(q2, 3)], stamps)


def g3_q22(e01: bool, e02: bool, e10: bool, e12: bool, e20: bool, e21: bool, e00: bool, e11: bool, e22: bool, q2: int, st: int) -> bool:
    """
    pre: 0 <= q2 < 3 and 0 <= st < 3
    post: _ == True
    """
    stamps = [[0, 1, 2], [2, 1, 0], [1, 1, 0]][pin(st, 3)]
    return graph3([[e00, e01, e02], [e10, e11, e12], [e20, e21, e22]], [2, 2, pin(q2, 3)], stamps)


def twin(e01: bool, e10: bool) -> bool:
    """
    post: _ == True
    """
    run_queries({0: (1,) if e01 else (), 1: (0,) if e10 else ()}, [0, 1], [1, 2])
    return False
