"""C38 — Shadow.cdiv / cmod / cast vs C semantics (CrossHair harness; real code: Cython/Shadow.py)."""
import Cython.Shadow as SH
assert SH.__file__.endswith('.py')


def ref_cdiv(a: int, b: int) -> int:
    """C99 6.5.5: truncation toward zero."""
    q = abs(a) // abs(b)
    return q if (a < 0) == (b < 0) else -q


def ref_cmod(a: int, b: int) -> int:
    """C99: (a/b)*b + a%b == a."""
    return a - ref_cdiv(a, b) * b


def check_cdiv(a: int, b: int) -> bool:
    """
    pre: b != 0
    post: _ == True
    """
    return SH.cdiv(a, b) == ref_cdiv(a, b)


def check_cdiv_wide(a: int, k: int, b: int) -> bool:
    """
    pre: 0 <= k < 4 and 1 <= b <= 7 and 0 <= a < 1024
    post: _ == True
    """
    # dividends just above 2**53, 2**63, 2**64, 2**100 (where a float quotient is no longer exact), small divisors
    big = [2 ** 53, 2 ** 63, 2 ** 64, 2 ** 100][pin4(k)] + a
    return SH.cdiv(big, b) == ref_cdiv(big, b) and SH.cdiv(-big, b) == ref_cdiv(-big, b)


def pin4(k):
    for v in range(4):
        if k == v:
            return v
    return 0


def check_cmod(a: int, b: int) -> bool:
    """
    pre: b != 0
    post: _ == True
    """
    # unique characterisation of the C remainder (no multiplication in the oracle):
    # |r| < |b|, r is zero or has the sign of the dividend, and b divides a - r
    r = SH.cmod(a, b)
    return abs(r) < abs(b) and (r == 0 or (r < 0) == (a < 0)) and (a - r) % b == 0


def check_divmod_identity(a: int, b: int) -> bool:
    """
    pre: b != 0
    post: _ == True
    """
    # cdiv characterised without multiplying two symbolic values: q == trunc(a/b)
    q = SH.cdiv(a, b)
    if (a < 0) == (b < 0) or a == 0:
        return q >= 0 and q == abs(a) // abs(b)
    return q <= 0 and -q == abs(a) // abs(b)


def check_cast_int_identity(v: int, which: int) -> bool:
    """
    pre: 0 <= which < 8
    post: _ == True
    """
    t = [SH.int, SH.long, SH.short, SH.uint, SH.Py_ssize_t, SH.size_t, SH.longlong, SH.char][which]
    r = SH.cast(t, v)
    return type(r) is int and r == v


def check_cast_bint(v: int) -> bool:
    """
    post: _ == True
    """
    r = SH.cast(SH.bint, v)
    return type(r) is bool and r == (v != 0)


def check_declare_int(v: int) -> bool:
    """
    post: _ == True
    """
    r = SH.declare(SH.int, v)
    return type(r) is int and r == v


def twin_cdiv(a: int, b: int) -> bool:
    """
    pre: b != 0
    post: _ == True
    """
    SH.cdiv(a, b)
    return False
