"""Engine PYSYM (DESIGN §2.4): CrossHair conditions, one process each, classified
confirmed / counterexample / inconclusive; counterexamples replayed concretely
(plain CPython, no CrossHair) against the overlay before they are reported."""
import os, re, subprocess, sys, time, json, concurrent.futures as cf
from .. import snapshot

CROSSHAIR = '/verif/.venv/bin/crosshair'
PY = '/verif/.venv/bin/python'


class Cond:
    def __init__(self, func, timeout=30, mandatory=True, group=None, max_iter=None):
        self.func, self.timeout, self.mandatory, self.group = func, timeout, mandatory, group or func


def _def_lines(path):
    out = {}
    for i, line in enumerate(open(path), 1):
        m = re.match(r'^def (\w+)\(', line)
        if m:
            out[m.group(1)] = i + 1      # a line inside the def
    return out


def _run_one(path, line, timeout, extra_path, per_path_timeout=None):
    env = snapshot.child_env(extra_path)
    cmd = [CROSSHAIR, 'check', '--report_all', '--per_condition_timeout', str(timeout)]
    if per_path_timeout:
        cmd += ['--per_path_timeout', str(per_path_timeout)]
    cmd += ['%s:%d' % (path, line)]
    t0 = time.time()
    try:
        p = subprocess.run(cmd, env=env, capture_output=True, text=True, timeout=timeout * 2 + 60)
        out = p.stdout + p.stderr
    except subprocess.TimeoutExpired as e:
        out = 'WALL-TIMEOUT ' + ((e.stdout or b'').decode('utf8', 'replace') if isinstance(e.stdout, bytes) else (e.stdout or ''))
    return out, time.time() - t0


def classify(out):
    """-> (status, message).  status: proved | refuted | inconclusive"""
    lines = [l for l in out.splitlines() if l.strip()]
    msg = ' | '.join(l.split(': ', 2)[-1] if ': ' in l else l for l in lines)[:2000]
    if any(': error:' in l for l in lines):
        return 'refuted', msg
    if any('Confirmed over all paths' in l for l in lines) and not any('Not confirmed' in l or 'Unable to meet' in l for l in lines):
        return 'proved', msg
    return 'inconclusive', msg or 'no output'


_CALL = re.compile(r'when calling (\w+)\((.*)\)(?: \(which returns (.*)\))?\s*$')


def parse_cex(out):
    """Extract 'f(args)' from a CrossHair counterexample line."""
    for l in out.splitlines():
        if ': error:' not in l:
            continue
        m = re.search(r'when calling (\w+\(.*\))(?: \(which returns .*\))?\s*$', l)
        if m:
            call = m.group(1)
            # strip a trailing "(which returns ...)" that the greedy match may have swallowed
            k = call.find(') (which returns')
            if k >= 0:
                call = call[:k + 1]
            return call, l
    return None, None


def replay_call(harness_path, call, extra_path=()):
    """Evaluate the harness function concretely (plain python, overlay Cython).
    Returns (reproduced: bool, text).  The harness convention: the function returns True when
    the property holds for that input; returning anything else or raising = violation."""
    mod = os.path.splitext(os.path.basename(harness_path))[0]
    code = (
        "import sys, json\n"
        "sys.path.insert(0, %r)\n"
        "import %s as H\n"
        "from %s import *\n"
        "try:\n"
        "    r = eval(%r, vars(H))\n"
        "    print('REPLAY-RESULT', repr(r))\n"
        "    print('REPLAY-REPRODUCED' if r is not True else 'REPLAY-HOLDS')\n"
        "except BaseException as e:\n"
        "    ok = getattr(H, 'ALLOWED_EXC', ())\n"
        "    print('REPLAY-RESULT raised', type(e).__name__, e)\n"
        "    print('REPLAY-HOLDS' if isinstance(e, ok) and ok else 'REPLAY-REPRODUCED')\n"
    ) % (os.path.dirname(harness_path), mod, mod, call)
    env = snapshot.child_env(extra_path)
    env['VF_CONCRETE'] = '1'
    p = subprocess.run([PY, '-c', code], env=env, capture_output=True, text=True, timeout=300)
    txt = (p.stdout + p.stderr).strip()
    return 'REPLAY-REPRODUCED' in txt, txt[-1500:]


def run_conditions(rep, harness_path, conds, jobs=None, extra_path=(), known_classifier=None,
                   per_path_timeout=None):
    """Run each Cond in its own CrossHair process.  known_classifier(call_text, func) -> key or None."""
    lines = _def_lines(harness_path)
    jobs = jobs or min(16, os.cpu_count() or 4)
    results = {}
    with cf.ThreadPoolExecutor(max_workers=jobs) as ex:
        futs = {}
        for c in conds:
            if c.func not in lines:
                rep.harness_error('harness function %s not found in %s' % (c.func, harness_path))
                continue
            futs[ex.submit(_run_one, harness_path, lines[c.func], c.timeout, extra_path, per_path_timeout)] = c
        for f in cf.as_completed(futs):
            c = futs[f]
            out, secs = f.result()
            results[c.func] = (out, secs)
    total_paths = 0
    for c in conds:
        if c.func not in results:
            continue
        out, secs = results[c.func]
        status, msg = classify(out)
        if status == 'refuted':
            call, line = parse_cex(out)
            if call is None:
                rep.obligation(c.func, 'inconclusive', secs, c.mandatory, 'counterexample without a replayable call: ' + msg)
                continue
            ok, txt = replay_call(harness_path, call, extra_path)
            rep.validated += 1
            if not ok:
                rep.obligation(c.func, 'inconclusive', secs, c.mandatory,
                               'CrossHair counterexample did not reproduce concretely: %s -> %s' % (call, txt))
                continue
            rep.obligation(c.func, 'refuted', secs, c.mandatory, call)
            key = known_classifier(call, c.func) if known_classifier else None
            if key and key in rep.known:
                rep.known_finding(key, rep.known[key] + '  [witness: %s]' % call)
            else:
                rep.violation('%s: %s' % (c.func, msg), dict(harness=harness_path, call=call, replay_output=txt))
        else:
            rep.obligation(c.func, status, secs, c.mandatory, msg if status != 'proved' else None)
    return results


def run_twin(rep, harness_path, func, timeout=20, extra_path=()):
    """Reachability twin: a harness whose postcondition is False at the end; CrossHair must
    find a counterexample (i.e. the assertion point is reachable under the precondition)."""
    lines = _def_lines(harness_path)
    out, secs = _run_one(harness_path, lines[func], timeout, extra_path)
    status, msg = classify(out)
    if status == 'refuted':
        call, _ = parse_cex(out)
        rep.obligation('reach:' + func, 'witness', secs, True, call)
        rep.sample(dict(reachability_witness=call))
        return True
    rep.obligation('reach:' + func, 'vacuous' if status == 'proved' else 'inconclusive', secs, True, msg)
    return False
