"""String table emission (C10 / C12): Code.GlobalState.generate_pystring_constants is executed on a recording stand-in for the
GlobalState, and the emitted C text is read back the way the C compiler and the emitted unpacking loops read it:

 * the bytes handed to the C-literal writer are recorded (escaping and splitting of literals is the subject of C11; CrossHair's
   regular-expression engine recurses once per byte in re.sub, which long strings exceed),
 * every compressed variant must be passed exactly the length of its literal and decompress to the uncompressed variant,
 * the length index is read through its declared bit-field width (value & (2**width - 1)),
 * walking the index over the uncompressed bytes must give, at the table position each cname is #defined to, exactly that string.
"""
import re, zlib, bz2
import Cython.Compiler.Code as C
import Cython.Compiler.StringEncoding as SE
assert C.__file__.endswith('.py') and SE.__file__.endswith('.py')
from vf.pysym.ref_lzss import decompress as lzss_decompress

# candidate lengths: around every power of two up to 512 (bit-field width boundaries) and the compression threshold
LENGTHS = [0, 1, 2, 3, 4, 5, 7, 8, 9, 15, 16, 17, 31, 32, 33, 63, 64, 65, 127, 128, 129, 255, 256, 257, 300, 511, 512, 513]
NL = len(LENGTHS)
UNITS = ['a', 'ab', '\xe9', 'a€', '\\', '"', '?', '\x00', 'x\n']      # repeated to the wanted length (in characters)
NU = len(UNITS)


def pin(k, n):
    for v in range(n):
        if k == v:
            return v
    return n - 1


class Writer:
    def __init__(self):
        self.lines = []

    def putln(self, s='', safe=False):
        self.lines.append(s)

    def put(self, s):
        self.lines.append(s)

    def error_goto(self, pos):
        return 'goto bad;'

    def error_goto_if_null(self, name, pos):
        return 'if (!%s) goto bad;' % name

    def name_in_main_c_code_module_state(self, name):
        return 'mstate->' + name


RECORDED = []


def _record_literal(code, cstring_bytes, c_var_name):
    RECORDED.append(bytes(cstring_bytes))
    code.putln('static const char %s[] = <%d>;' % (c_var_name, len(RECORDED) - 1))


C._write_escaped_cstring_const = _record_literal

try:
    from crosshair.tracers import NoTracing, is_tracing
except ImportError:                       # concrete replay without CrossHair
    NoTracing = None


def untraced(f):
    """Run f on concrete arguments outside CrossHair's tracing.  Used for the LZSS compressor and reference decompressor only: they are
    the subject of C12 A1-A3; here they are providers (pure-Python byte loops that cost ~0.4 s per path under tracing)."""
    def g(*a):
        if NoTracing is not None and is_tracing():
            with NoTracing():
                return f(*a)
        return f(*a)
    return g


C.compression_algorithms = [(num, name, untraced(fn) if name == 'lzss' and fn is not None else fn) for num, name, fn in C.compression_algorithms]
lzss_decompress = untraced(lzss_decompress)


class FakeState:
    module_pos = ('<strtab>', 1, 0)

    def __init__(self):
        self.parts = {'constant_name_defines': Writer(), 'init_constants': Writer()}
        self.used = []

    def use_utility_code(self, uc):
        self.used.append(uc)

    def immortalize_constants(self, array, count, w):
        w.putln('/* immortalize %s %d */' % (array, count))


def make_text(unit, n):
    u = UNITS[unit]
    return (u * (n // len(u) + 1))[:n]


def emit(texts, blobs):
    """texts: [(interned, str)], blobs: [bytes] -> (FakeState, {cname: expected object})"""
    st = FakeState()
    del RECORDED[:]
    want = {}
    ts, bs = [], []
    for k, (interned, t) in enumerate(texts):
        cname = '__pyx_u_%d' % k
        ts.append((bool(interned), cname, SE.EncodedString(t)))
        want[cname] = t
    for k, b in enumerate(blobs):
        cname = '__pyx_b_%d' % k
        bs.append((False, cname, SE.bytes_literal(b, 'utf8')))
        want[cname] = b
    C.GlobalState.generate_pystring_constants(st, ts, bs)
    return st, want


_LIT = re.compile(r'^static const char (\w+)\[\] = <(\d+)>;$')
_IDX = re.compile(r'^const struct \{ const unsigned int length: (\d+); \} (\w+)_length_index\[\] = \{(.*)\};$')
_DEF = re.compile(r'^#define (\w+) (\w+)\[(\d+)\]$')
_LZSS = re.compile(r'__Pyx_DecompressString_LZSS\(cstring, (\d+), (\d+)\)')
_DEC = re.compile(r'__Pyx_DecompressString\(cstring, (\d+), (\d+)\)')


def read_back(st, want):
    """-> None if the emitted text reproduces `want`, else a description of the first difference"""
    pos_of = {}
    for l in st.parts['constant_name_defines'].lines:
        m = _DEF.match(l)
        if not m:
            return 'unexpected define line %r' % l
        pos_of[m.group(1)] = int(m.group(3))
    if sorted(pos_of) != sorted(want) or sorted(pos_of.values()) != list(range(len(want))):
        return 'table positions %r' % pos_of
    index = {}
    variants = []          # (kind, literal bytes, declared length, extra)
    plain = None
    cur = None
    for l in st.parts['init_constants'].lines:
        m = _IDX.match(l)
        if m:
            width = int(m.group(1))
            if width < 1:
                return 'bit-field of width %d' % width
            vals = [int(x.strip('{}')) for x in m.group(3).split(',')]
            index[m.group(2)] = [v & ((1 << width) - 1) for v in vals]      # what the bit-field keeps
            continue
        m = _LIT.match(l)
        if m:
            cur = (m.group(1), RECORDED[int(m.group(2))])
            if m.group(1) == 'bytes':
                plain = cur[1]
            continue
        m = _LZSS.search(l)
        if m:
            variants.append(('lzss', cur[1], int(m.group(1)), int(m.group(2))))
            continue
        m = _DEC.search(l)
        if m:
            variants.append(('algo', cur[1], int(m.group(1)), int(m.group(2))))
    if plain is None:
        return 'no uncompressed variant'
    for kind, lit, n, extra in variants:
        if n != len(lit):
            return '%s variant: length argument %d, literal has %d bytes' % (kind, n, len(lit))
        if kind == 'lzss':
            if extra != len(plain):
                return 'lzss variant: uncompressed size %d, should be %d' % (extra, len(plain))
            out, used = lzss_decompress(lit, extra)
            if out != plain:
                return 'lzss variant decompresses to different bytes'
        else:
            data = zlib.decompress(lit) if extra == 1 else bz2.decompress(lit) if extra == 2 else None
            if data != plain:
                return 'variant %d decompresses to different bytes' % extra
    table = []
    pos = 0
    for n in index.get('str', []):
        try:
            table.append(plain[pos:pos + n].decode('utf-8'))
        except UnicodeDecodeError:
            return 'entry %d is not valid UTF-8 (wrong cut)' % len(table)
        pos += n
    for n in index.get('bytes', []):
        table.append(plain[pos:pos + n])
        pos += n
    if pos != len(plain) or len(table) != len(want):
        return 'index covers %d of %d bytes, %d of %d entries' % (pos, len(plain), len(table), len(want))
    for cname, obj in want.items():
        if table[pos_of[cname]] != obj or type(table[pos_of[cname]]) is not type(obj):
            return '%s arrives as %r' % (cname, table[pos_of[cname]][:20])
    return None


def check(n1, u1, n2, u2, n3, i1, i2, nb):
    """two text strings (lengths/contents by selector, interned or not) and 0..2 bytes strings, the second one of selectable length"""
    n1, n2, n3 = LENGTHS[pin(n1, NL)], LENGTHS[pin(n2, NL)], LENGTHS[pin(n3, NL)]
    t1, t2 = make_text(pin(u1, NU), n1), make_text(pin(u2, NU), n2)
    texts = [(pin(i1, 2), t1), (pin(i2, 2), t2)]
    if t1 == t2:
        texts = texts[:1]
    nb = pin(nb, 3)
    blobs = [b'\x00\xffq"?' * 3, make_text(1, n3).encode('latin-1') + b'\xfe'][:nb]
    st, want = emit(texts, blobs)
    return read_back(st, want) is None


COMBOS = [(0, 1, 2), (1, 1, 0), (0, 0, 1), (1, 0, 2)]          # (first interned, second interned, number of bytes strings)


def check_combo(n1, n2, c):
    i1, i2, nb = COMBOS[pin(c, len(COMBOS))]
    return check(n1, 1, n2, 2, n2, i1, i2, nb)


def twin(n1, u1):
    return not check(n1, u1, 0, 0, 0, 0, 0, 0)
