"""C40 - safe type inference: TypeInference.safe_spanning_type (with find_spanning_type / PyrexTypes.spanning_type) decides the type of an
untyped local from the types of the values assigned to it.  For lists of 1..3 assigned-value types chosen by symbolic selectors, the
inferred type must keep every assigned value what it was for Python: a C type may only be chosen when EVERY assigned value converts to
it and back to an object of its own Python class, and a C integer type only when no arithmetic on the name might overflow."""
import Cython.Compiler.TypeInference as TI
import Cython.Compiler.PyrexTypes as PT
import Cython.Compiler.Builtin as BI
assert TI.__file__.endswith('.py') and PT.__file__.endswith('.py')

# types that values in untyped pure-Python code get: literals, builtin calls, comparisons, containers, generic objects
TYPES = [('bint', PT.c_bint_type, 'bool'), ('long', PT.c_long_type, 'int'), ('int', PT.c_int_type, 'int'), ('Py_ssize_t', PT.c_py_ssize_t_type, 'int'),
         ('Py_hash_t', PT.c_py_hash_t_type, 'int'), ('size_t', PT.c_size_t_type, 'int'), ('long long', PT.c_longlong_type, 'int'),
         ('double', PT.c_double_type, 'float'), ('float', PT.c_float_type, 'float'), ('double complex', PT.c_double_complex_type, 'complex'),
         ('Py_UCS4', PT.c_py_ucs4_type, 'str'),
         ('object', PT.py_object_type, 'object'), ('int object', BI.int_type, 'int'), ('float object', BI.float_type, 'float'), ('str object', BI.unicode_type, 'str'),
         ('bytes object', BI.bytes_type, 'bytes'), ('list object', BI.list_type, 'list'), ('bool object', BI.bool_type, 'bool')]
NT = len(TYPES)


def pin(k, n):
    for v in range(n):
        if k == v:
            return v
    return n - 1


def pyclass_of_result(t):
    for name, ty, cls in TYPES:
        if t is ty or t == ty:
            return cls
    if t.is_int:
        return 'int'
    if t.is_float:
        return 'float'
    return None


def verdict(idx, might_overflow):
    """None if the inferred type is safe for these assigned types, else a description"""
    types = [TYPES[i][1] for i in idx]
    r = TI.safe_spanning_type(types, might_overflow, None)
    if r.is_pyobject:
        return None                       # objects are stored as they are
    rc = pyclass_of_result(r)
    if rc is None:
        return 'unexpected C type %s' % r
    for i in idx:
        if TYPES[i][2] != rc:
            return 'a %s value stored in a C %s variable comes back as %s' % (TYPES[i][0], r, rc)
    if r.is_int and r is not PT.c_bint_type and might_overflow:
        return 'C integer type %s although arithmetic on the name might overflow' % r
    return None


def known_key(idx, might_overflow):
    """the recorded finding F15: numbers of different Python classes (int / float / complex, as C values or as objects of the builtin
    types) assigned to one name are spanned to C double / C double complex"""
    types = [TYPES[i] for i in idx]
    r = TI.safe_spanning_type([t[1] for t in types], might_overflow, None)
    if (r is PT.c_double_type or r == PT.c_double_complex_type) and all(t[2] in ('int', 'float', 'complex') for t in types):
        return 'F15-numbers-of-different-python-classes-inferred-as-one-c-floating-type'
    return None


def check(n, t0, t1, t2, mo):
    n = 1 + pin(n, 3)
    idx = [pin(t, NT) for t in (t0, t1, t2)][:n]
    return verdict(idx, bool(pin(mo, 2))) is None


def check_not_f15(n, t0, t1, t2, mo):
    """the same property outside the recorded finding"""
    n = 1 + pin(n, 3)
    idx = [pin(t, NT) for t in (t0, t1, t2)][:n]
    mo = bool(pin(mo, 2))
    if known_key(idx, mo):
        return True
    return verdict(idx, mo) is None


def check_f15(n, t0, t1, t2, mo):
    """the recorded finding alone (reports it while it exists)"""
    n = 1 + pin(n, 3)
    idx = [pin(t, NT) for t in (t0, t1, t2)][:n]
    mo = bool(pin(mo, 2))
    if not known_key(idx, mo):
        return True
    return verdict(idx, mo) is None


def check4(f15, t0, t1, t2, t3, mo):
    """four assigned values, C types only (the first 11 entries)"""
    idx = [pin(t, 11) for t in (t0, t1, t2, t3)]
    mo = bool(pin(mo, 2))
    if bool(known_key(idx, mo)) != bool(f15):
        return True
    return verdict(idx, mo) is None


def twin(t0):
    return TI.safe_spanning_type([TYPES[pin(t0, NT)][1]], False, None).is_pyobject


# ---- part B: MarkOverflowingArithmetic ---------------------------------------------------------------------
BINOPS = ['+', '-', '*', '//', '%', '<<', '>>', '&', '|', '^']
UNOPS = ['-', '~', 'abs']
NESTS = ['', 'def inner(seq):\n        return sorted(seq, key=lambda v: -v)', 'g = lambda v: -v', 't = sum(-q for q in o)',
         'def inner(seq):\n        def inner2(z):\n            return -z\n        return inner2(seq)']
NEST_USE = ['0', 'inner([0])[0]', 'g(0)', 't', 'inner(0)']


def forms():
    """(label, operator key, statement computing r from the locals k and h)"""
    out = []
    for op in BINOPS:
        out.append(('k %s h' % op, op, 'r = k %s h' % op))
        out.append(('k %s= h' % op, op, 'r = k\n    r %s= h\n    k %s= 1' % (op, op)))
    out.append(('-k', 'neg', 'r = -k + 0 * h' if False else 'r = -k\n    r2 = -h'))
    out.append(('~k', 'inv', 'r = ~k\n    r2 = ~h'))
    out.append(('abs(k)', 'abs', 'r = abs(k)\n    r2 = abs(h)'))
    return out


def source(form, nest, after):
    label, opkey, stmt = form
    n = NESTS[nest]
    lines = ['def outer(o):']
    if n and not after:
        lines.append('    ' + n)
    lines += ['    h = hash(o)', '    k = len(o)', '    ' + stmt]
    if n and after:
        lines.append('    ' + n)
    lines.append('    return r, %s' % NEST_USE[nest])
    return '\n'.join(lines) + '\n'


class _Captured(Exception):
    pass


def capture(src):
    """Runs the real compiler pipeline on the source up to (not including) MarkOverflowingArithmetic and returns (transform, tree).
    Called when the condition module is imported (concretely, outside CrossHair's tracing): the front end is the provider of analysed
    trees with scopes, not the subject."""
    import os, tempfile, shutil
    from Cython.Compiler import Main, Options
    box = {}
    orig = TI.MarkOverflowingArithmetic.__call__

    def cap(self, root):
        box['root'], box['tr'] = root, self
        raise _Captured()
    TI.MarkOverflowingArithmetic.__call__ = cap
    d = tempfile.mkdtemp(prefix='c40_')
    try:
        p = os.path.join(d, 'm.py')
        with open(p, 'w') as f:
            f.write(src)
        try:
            Main.compile_single(p, Main.CompilationOptions(Options.default_options, language_level=3, output_file=os.path.join(d, 'm.c')), 'm')
        except _Captured:
            pass
    finally:
        TI.MarkOverflowingArithmetic.__call__ = orig
        shutil.rmtree(d, True)
    if 'root' not in box:
        raise RuntimeError('pipeline did not reach MarkOverflowingArithmetic for:\n' + src)
    return box['tr'], box['root']


def prepare_overflow(nest, after):
    return [(f[0], f[1], capture(source(f, nest, after))) for f in forms()]


def outer_scope(root):
    from Cython.Compiler.Visitor import TreeVisitor

    class Find(TreeVisitor):
        found = None

        def visit_FuncDefNode(self, n):
            if self.found is None:
                self.found = n
            self.visitchildren(n)

        def visit_Node(self, n):
            self.visitchildren(n)
    f = Find()
    f.visit(root)
    return f.found.local_scope


def run_mark(tr, root):
    sc = outer_scope(root)
    for e in sc.entries.values():
        e.might_overflow = False
    type(tr).__call__(tr, root)                 # the real transform
    return bool(sc.entries['k'].might_overflow), bool(sc.entries['h'].might_overflow)


def check_overflow(tab, exact, j):
    """a name used as an operand may stay a C integer only if the C operation is exact for all 64-bit operands (decided by z3: `exact`)"""
    label, opkey, (tr, root) = tab[pin(j, len(tab))]
    fk, fh = run_mark(tr, root)
    if exact[opkey]:
        return True
    return fk and fh


def twin_overflow(tab, exact, j):
    label, opkey, (tr, root) = tab[pin(j, len(tab))]
    fk, fh = run_mark(tr, root)
    return fk or fh
