"""Lexicon families for C50: fixed regression lexicons + seeded random ones (specs, see h_c50_base)."""
import random

FIXED = [
    [('str', 'ab'), ('rep1', ('any', 'ab')), ('seq', ('str', 'a'), ('opt', ('str', 'c'))), ('anybut', 'abc\n')],
    # rule-order ties: identical languages, the earlier rule must win
    [('str', 'a'), ('any', 'ab'), ('range', 'a', 'c'), ('anychar',)],
    # keyword vs identifier (longest match beats rule order)
    [('str', 'ab'), ('rep1', ('range', 'a', 'c')), ('str', '\n')],
    # newline inside sequences and repetitions (BOL/EOL pseudo symbols in the machine)
    [('seq', ('str', '\n'), ('str', 'a')), ('str', '\n'), ('str', 'a'), ('any', 'bc')],
    [('seq', ('str', 'b'), ('rep1', ('str', '\n'))), ('str', '\n'), ('any', 'abc')],
    [('seq', ('str', 'c\n'), ('str', 'c\n'), ('str', 'c')), ('any', 'abc\n')],
    [('rep1', ('seq', ('str', 'a'), ('str', '\n'))), ('any', 'abc\n')],
    [('seq', ('any', 'ab'), ('rep', ('anybut', 'c'))), ('anychar',)],
    # Bol at rule start, Eol at rule end
    [('seq', ('bol',), ('str', 'a')), ('any', 'abc\n')],
    [('seq', ('str', 'a'), ('eol',)), ('any', 'abc\n')],
    [('seq', ('str', 'a'), ('eol',), ('anybut', 'b')), ('any', 'abc\n')],
    [('seq', ('bol',), ('rep1', ('str', 'b')), ('eol',)), ('any', 'abc\n')],
    # AnyBut + end of input, Eof rule
    [('anybut', 'b'), ('seq', ('str', 'b'), ('eol',))],
    [('str', 'a\nb'), ('any', 'ab')],
    [('seq', ('str', 'a'), ('anybut', 'a')), ('str', 'a')],
    [('alt', ('str', 'ab'), ('seq', ('str', 'a'), ('rep', ('str', 'bc')))), ('any', 'abc\n')],
    [('nocase', ('str', 'ab')), ('any', 'abcAB\n')],
    [('strs', 'a', 'ab', 'abc'), ('any', 'bc\n')],
    [('seq', ('opt', ('str', 'a')), ('str', 'b')), ('rep1', ('str', 'a')), ('any', 'c\n')],
]

ALPHA = 'abc\n'


def _rand_re(rnd, depth):
    if depth == 0 or rnd.random() < 0.3:
        k = rnd.choice(['str', 'str', 'any', 'anybut', 'range', 'anychar'])
        if k == 'str':
            return ('str', ''.join(rnd.choice(ALPHA) for _ in range(rnd.randint(1, 2))))
        if k == 'any':
            return ('any', ''.join(sorted(set(rnd.choice(ALPHA) for _ in range(rnd.randint(1, 3))))))
        if k == 'anybut':
            return ('anybut', ''.join(sorted(set(rnd.choice(ALPHA) for _ in range(rnd.randint(1, 2))))))
        if k == 'range':
            a, b = sorted([rnd.choice('abc'), rnd.choice('abc')])
            return ('range', a, b)
        return ('anychar',)
    k = rnd.choice(['seq', 'seq', 'alt', 'rep', 'rep1', 'opt'])
    if k in ('seq', 'alt'):
        return (k,) + tuple(_rand_re(rnd, depth - 1) for _ in range(rnd.randint(2, 3)))
    return (k, _rand_re(rnd, depth - 1))


def nullable(spec):
    k = spec[0]
    if k in ('rep', 'opt'): return True
    if k == 'rep1' or k == 'nocase': return nullable(spec[1])
    if k == 'seq': return all(nullable(s) for s in spec[1:])
    if k == 'alt': return any(nullable(s) for s in spec[1:])
    return False


def random_lexicons(seed, count):
    rnd = random.Random(seed)
    out = []
    while len(out) < count:
        rules = []
        for _ in range(rnd.randint(2, 4)):
            for _try in range(20):
                r = _rand_re(rnd, rnd.randint(1, 3))
                if not nullable(r):
                    rules.append(r)
                    break
        if rules:
            out.append(rules)
    return out
