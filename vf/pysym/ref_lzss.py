"""Reference for the LZSS-like string-table format (transcribed from the format description in Cython/LZSS.py and
the decoder in Cython/Utility/StringTools.c; used as the oracle for the *compressor* and, per token, for the C decoder)."""


def decode_token(lo, hi, b3):
    """back-reference token -> (end_offset_of_last_occurrence, match_length, bytes used)"""
    if not (lo & 0x80):
        return lo, hi + 3, 2
    if not (hi & 0x80):
        return 0x80 + (((hi << 2) & 0x180) | (lo & 0x7F)), (hi & 0x1F) + 3, 2
    return 0x80 + (((hi & 0x7F) << 7) | (lo & 0x7F)), b3 + 3, 3


def decompress(src, dst_len):
    """-> (bytes, consumed) ; raises IndexError/ValueError on malformed input"""
    dst = bytearray()
    pos = 0
    if dst_len == 0:
        return bytes(dst), 0
    while True:
        flags = src[pos] | 0xFF00
        pos += 1
        while flags & 0x100:
            if flags & 1:
                dst.append(src[pos])
                pos += 1
            else:
                lo, hi = src[pos], src[pos + 1]
                b3 = src[pos + 2] if (lo & 0x80) and (hi & 0x80) else 0
                eo, ml, used = decode_token(lo, hi, b3)
                pos += used
                ref = len(dst) - eo - ml
                if ref < 0:
                    raise ValueError('reference before start of output')
                for k in range(ml):
                    dst.append(dst[ref + k])
            if len(dst) >= dst_len:
                return bytes(dst), pos
            flags >>= 1
