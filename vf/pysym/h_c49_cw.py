"""C49 — CCodeWriter on top of StringIOTree: per-line markers stay aligned with the output
(real code: Cython/Compiler/Code.py CCodeWriter.write/_write_lines/insertion_point/new_writer/insert)."""
import Cython.Compiler.Code as Code
import Cython.StringIOTree as ST
assert Code.__file__.endswith('.py') and ST.__file__.endswith('.py')


class _Cfg:
    emit_linenums = False
    emit_code_comments = False
    c_line_in_traceback = False


class _GS:
    code_config = _Cfg()
    directives = {'linetrace': False}


def run_cw(ops):
    """ops: (op, k): 0 = write one line under a fresh source position, 1 = insertion_point,
    2 = new_writer + insert, 3 = write a two-line chunk, 4 = putln under a newly marked position."""
    gs = _GS()
    root = Code.CCodeWriter()
    root.set_global_state(gs)
    ws = [root]
    model = {0: []}
    n = 0
    for (op, k) in ops:
        if k >= len(ws):
            return True
        w = ws[k]
        if op == 0 or op == 3:
            n += 1
            w.last_marked_pos = ('f.pyx', n, 0)
            s = ("a%d\n" % n) if op == 0 else ("a%d\nb%d\n" % (n, n))
            w.write(s)
            for line in s.splitlines(True):
                model[k].append(('s', line, ('f.pyx', n)))
        elif op == 1:
            new = w.insertion_point()
            ws.append(new)
            model[len(ws) - 1] = []
            model[k].append(('t', len(ws) - 1))
        elif op == 2:
            new = w.new_writer()
            w.insert(new)
            ws.append(new)
            model[len(ws) - 1] = []
            model[k].append(('t', len(ws) - 1))
        else:
            n += 1
            prev = w.last_marked_pos[:2] if w.last_marked_pos else (None, 0)
            bol = w.bol
            w.mark_pos(('g.pyx', n, 0), trace=False)
            w.putln("x%d;" % n)
            # putln at beginning of line first emits the marker: an empty line under the *new* position
            if bol:
                model[k].append(('s', "\n", ('g.pyx', n)))
                model[k].append(('s', "x%d;\n" % n, ('g.pyx', n)))
            else:
                model[k].append(('s', "x%d;\n" % n, prev))

    def flat(i):
        txt = []
        mk = []
        for it in model[i]:
            if it[0] == 's':
                txt.append(it[1])
                mk.append(it[2])
            else:
                a, b = flat(it[1])
                txt.append(a)
                mk.extend(b)
        return "".join(txt), mk
    for i, w in enumerate(ws):
        a, b = flat(i)
        if w.getvalue() != a:
            return False
        if w.buffer.allmarkers() != b:
            return False
    return True
