"""Reference decoder for CPython's 3.11+ location table (Objects/locations.md / InternalDocs/locations.md).
Each entry here has length 1 (one code unit), as Cython emits them."""


def decode(table: str, firstlineno: int):
    data = [ord(c) for c in table]
    i = 0
    line = firstlineno
    out = []

    def varint():
        nonlocal i
        b = data[i]; i += 1
        val = b & 63; shift = 0
        while b & 64:
            b = data[i]; i += 1
            shift += 6
            val |= (b & 63) << shift
        return val

    def svarint():
        u = varint()
        return -(u >> 1) if (u & 1) else (u >> 1)

    while i < len(data):
        first = data[i]; i += 1
        if not (first & 128):
            raise ValueError("entry does not start with the high bit set")
        code = (first >> 3) & 15
        if code <= 9:
            second = data[i]; i += 1
            if second & 128:
                raise ValueError("continuation byte has high bit")
            sc = (code << 3) | ((second >> 4) & 7)
            ec = sc + (second & 15)
            out.append((line, line, sc, ec))
        elif code <= 12:
            line += code - 10
            sc = data[i]; ec = data[i + 1]; i += 2
            if (sc | ec) & 128:
                raise ValueError("continuation byte has high bit")
            out.append((line, line, sc, ec))
        elif code == 13:
            line += svarint()
            out.append((line, line, None, None))
        elif code == 14:
            line += svarint()
            el = line + varint()
            sc = varint() - 1
            ec = varint() - 1
            out.append((line, el, sc, ec))
        else:
            out.append((None, None, None, None))
    return out


def cpython_decode(table: str, firstlineno: int, n: int):
    """CPython's own decoder (used for replays and to validate `decode`)."""
    def f(): pass
    code = f.__code__.replace(co_linetable=table.encode('latin1'), co_firstlineno=firstlineno,
                              co_code=bytes([9, 0]) * n)   # n NOPs
    return list(code.co_positions())
