"""C10 — escape sequences in string / bytes / char literals: Parsing._append_escape_sequence + literal builders
(StringEncoding.UnicodeLiteralBuilder / BytesLiteralBuilder / StrLiteralBuilder) vs CPython's own literal semantics."""
import warnings
import Cython.Compiler.Parsing as P
import Cython.Compiler.StringEncoding as SE
assert P.__file__.endswith('.py') and SE.__file__.endswith('.py')

OCT = '01234567'
HEX = '0123456789abcdefABCDEF'
HEXR = '0178dDfF'                      # class representatives for \u / \U digits
NAMES = ['LATIN SMALL LETTER A', 'NULL', 'NO SUCH CHARACTER NAME', 'GREEK SMALL LETTER ALPHA', '']
SINGLE = [chr(i) for i in range(32, 127)] + ['\n', '\t']
KINDS = ['', 'u', 'b', 'c', 'f']


class Scanner:
    def __init__(self):
        self.errors = []

    def error(self, msg, fatal=True, **kw):
        self.errors.append(msg)


def pin(k, n):
    for v in range(n):
        if k == v:
            return v
    return n


def cpython_value(kind, esc):
    """what CPython assigns to the literal consisting of just this escape; None if CPython rejects it"""
    body = esc
    quote = "'" if "'" not in esc[1:] else '"'
    if esc == '\\' + quote or esc.endswith(quote) and not esc.endswith('\\' + quote):
        quote = '"' if quote == "'" else "'"
    prefix = 'b' if kind in ('b', 'c') else ''
    src = prefix + quote * 3 + body + quote * 3 if '\n' in esc else prefix + quote + body + quote
    with warnings.catch_warnings():
        warnings.simplefilter('ignore')
        try:
            return eval(compile(src, '<c10>', 'eval'))
        except (SyntaxError, ValueError):
            return None


def check(kind_i, esc):
    kind = KINDS[kind_i]
    builder = SE.BytesLiteralBuilder('utf8') if kind in ('b', 'c') else SE.UnicodeLiteralBuilder()
    sc = Scanner()
    P._append_escape_sequence(kind, builder, esc, sc)       # an internal exception here is a violation (propagates)
    want = cpython_value(kind, esc)
    if want is None:
        return len(sc.errors) > 0
    if sc.errors:
        return False
    got = builder.getstring()
    if kind in ('b', 'c'):
        return bytes(got) == want
    return str(got) == want


def octal(kind, n, d0, d1, d2):
    ds = [pin(d0, 8), pin(d1, 8), pin(d2, 8)][:pin(n, 4)]
    return check(kind, '\\' + ''.join(OCT[d] for d in ds))


def hexesc(kind, n, d0, d1):
    ds = [pin(d0, 22), pin(d1, 22)][:pin(n, 3)]
    return check(kind, '\\x' + ''.join(HEX[d] for d in ds))


def uesc4(kind, n, d0, d1, d2, d3):
    ds = [pin(d0, 5), pin(d1, 5), pin(d2, 5), pin(d3, 5)][:pin(n, 5)]
    return check(kind, '\\u' + ''.join(HEXR[d] for d in ds))


def uesc8(kind, short, d0, d1, d2, d3):
    """\\U with 8 digits (3 leading digits from 000/001/00f + 3 symbolic class digits + 00) or a truncated form"""
    lead = ['000', '001', '00f'][pin(d0, 3)]
    body = lead + ''.join(HEXR[pin(d, 5)] for d in (d1, d2, d3)) + '00'
    if pin(short, 2):
        body = body[:5]
    return check(kind, '\\U' + body)


def named(kind, which):
    return check(kind, '\\N{' + NAMES[pin(which, 5)] + '}')


def single(kind, which):
    return check(kind, '\\' + SINGLE[pin(which, len(SINGLE))])
