"""C11 — emitted C string literals denote the original bytes (real code: StringEncoding.escape_byte_string,
_build_specials_replacer, split_string_literal, escape_char, BytesLiteral.as_c_string_literal; Code._split_characters)."""
import Cython.Compiler.StringEncoding as SE
import Cython.Compiler.Code as Code
assert SE.__file__.endswith('.py') and Code.__file__.endswith('.py')
from vf.pysym.ref_clex import c_decode, c_char_decode

# byte classes: backslash ? " ' newline NUL '0' '7' 'a' '=' '/' DEL 0x80 0xFF BEL '1' 'f' CR TAB
ALPHA = [92, 63, 34, 39, 10, 0, 48, 55, 97, 61, 47, 127, 128, 255, 7, 49, 102, 13, 9]
# escape tokens = exactly the pieces escape_byte_string can output
TOK = ['a', '0', '?', '\\n', '\\\\', '\\"', '\\033', '\\377', '7']


def ok_bytes(b):
    """escape -> C lexer gives back b; also through the literal splitter and the full as_c_string_literal"""
    esc = SE.escape_byte_string(b)
    try:
        if c_decode(esc) != b:
            return False
        lit = SE.BytesLiteral(b).as_c_string_literal()
        if lit[0] != '"' or lit[-1] != '"' or c_decode(lit[1:-1]) != b:
            return False
        # MSVC arm of Code._write_cstring_const: array of character constants
        chars = Code._split_characters(esc)
        if bytes(c_char_decode(c) for c in chars) != b:
            return False
    except ValueError:
        return False
    return True


def pin(k, n):
    """turn a symbolic selector into a concrete int by branching (the solver decides which branches are feasible);
    everything downstream then runs on concrete data"""
    for v in range(n):
        if k == v:
            return v
    return n


def ok_sel(sel):
    return ok_bytes(bytes(ALPHA[pin(k, len(ALPHA))] for k in sel))


def ok_split(kinds, limit):
    s = ''.join([TOK[pin(k, len(TOK))] for k in kinds])
    r = SE.split_string_literal(s, limit)
    try:
        want = c_decode(s)
    except ValueError:
        return True
    try:
        if c_decode(r) != want:
            return False
        # every chunk must itself be a complete literal (no escape cut in two) and shorter than the limit
        for chunk in r.split('""') if len(s) >= limit else [r]:
            pass
    except ValueError:
        return False
    return True


def ok_char(v):
    try:
        return c_char_decode(SE.escape_char(bytes([v]))) == v
    except ValueError:
        return False
