"""C25 - the text side of signatures.

(A) Default values in embedded signatures are re-printed by CodeWriter.ExpressionWriter.  An expression text
    OUTER[INNER] is parsed by the real Cython parser, printed by the real writer, and the printed text must parse
    (with CPython's own parser) to the same tree as the fully parenthesised source.
(B) EmbedSignature._fmt_arglist lays out  posonly '/' pos-or-kw '*'/'*args' kwonly '**kw'; the joined text must parse
    (CPython's parser) to a parameter list with the same names in the same kinds.
"""
import ast
import Cython.CodeWriter as CW
from Cython.Compiler.TreeFragment import parse_from_strings
import Cython.Compiler.AutoDocTransforms as AD
assert CW.__file__.endswith('.py') and AD.__file__.endswith('.py')

# expression contexts with one hole; the hole is written in parentheses, so the source text is unambiguous
OUTER = ['(%s) + d', 'd + (%s)', '(%s) - d', 'd - (%s)', '(%s) * d', 'd * (%s)', '(%s) / d', 'd / (%s)', '(%s) // d', 'd // (%s)', '(%s) %% d', 'd %% (%s)',
         '(%s) @ d', 'd @ (%s)', '(%s) ** d', 'd ** (%s)', '(%s) << d', 'd >> (%s)', '(%s) & d', 'd & (%s)', '(%s) | d', 'd | (%s)', '(%s) ^ d', 'd ^ (%s)',
         '-(%s)', '+(%s)', '~(%s)', 'not (%s)',
         '(%s) < d', 'd < (%s)', '(%s) == d', 'd != (%s)', '(%s) is not d', 'd in (%s)', '(%s) not in d', 'd is (%s)',
         '(%s) < d < e', 'd < (%s) < e', 'd < e <= (%s)',
         '(%s) and d', 'd and (%s)', '(%s) or d', 'd or (%s)',
         '(%s)[d]', '(%s).d', '(%s)(d)', 'd[(%s)]', 'd((%s))', 'd(k=(%s))', 'd[(%s):e]', 'd[e:(%s)]', '(%s)[d:e]',
         '((%s),)', '((%s), d)', '[(%s), d]', '{(%s): d}', '{d: (%s)}', '{(%s)}', 'd[(%s),]',
         '(%s) if d else e', 'd if (%s) else e', 'd if e else (%s)',
         '%s']
INNER = ['a + b', 'a - b', 'a * b', 'a / b', 'a // b', 'a % b', 'a @ b', 'a ** b', 'a << b', 'a >> b', 'a & b', 'a | b', 'a ^ b',
         '-a', '+a', '~a', 'not a',
         'a < b', 'a == b', 'a is b', 'a is not b', 'a in b', 'a not in b', 'a < b < c', 'a != b >= c',
         'a and b', 'a or b',
         'a if b else c',
         'a[b]', 'a.b', 'a(b)', 'a[b:c]', 'a(b, k=c)',
         '(a,)', '(a, b)', '()', '[a]', '[]', '{a: b}', '{a}',
         '1', '-1', '-0x10', '1.5', '-1.5', '2j', 'None', 'True', '...',
         "'s'", "b's'", "'q\"\\'\\n\\\\'", "'\\u1234\\x00'",
         'a']
NO, NI = len(OUTER), len(INNER)


def pin(k, n):
    for v in range(n):
        if k == v:
            return v
    return n - 1


class _Norm(ast.NodeTransformer):
    def visit_Constant(self, n):
        n.kind = None            # u'' prefixes are not part of the value
        return n

    def visit_UnaryOp(self, n):  # the Cython parser folds '-<int literal>' into a negative literal
        self.generic_visit(n)
        if isinstance(n.op, ast.USub) and isinstance(n.operand, ast.Constant) and type(n.operand.value) in (int, float, complex):
            return ast.Constant(-n.operand.value)
        return n

    def visit_BoolOp(self, n):   # 'a and b and c' is one flat node in CPython; nesting of the same operator has the same meaning
        self.generic_visit(n)
        vals = []
        for v in n.values:
            vals += v.values if isinstance(v, ast.BoolOp) and type(v.op) is type(n.op) else [v]
        n.values = vals
        return n


def tree(text):
    return ast.dump(_Norm().visit(ast.parse(text, mode='eval')))


def cy_parse(text):
    t = parse_from_strings('c25', 'x = (%s)\n' % text)
    b = t.body
    return b.rhs if hasattr(b, 'rhs') else b.stats[0].rhs


def written(text):
    return CW.ExpressionWriter().write(cy_parse(text))


def roundtrip(text):
    """concrete form (replay, documentation)"""
    try:
        return tree(written(text)) == tree(text)
    except SyntaxError:
        return False


def text2(o, i):
    return OUTER[o] % INNER[i]


def text3(o1, o2, i):
    return OUTER[o1] % (OUTER[o2] % INNER[i])


def prepare(texts):
    """Runs when the generated condition module is imported, i.e. concretely and outside CrossHair's tracing: the parser is the
    provider of realistic expression trees, not the subject (building its lexicon under tracing takes minutes, and CrossHair
    short-circuits annotated parser helpers)."""
    return [(t, tree(t), cy_parse(t)) for t in texts]


def check_prepared(tab, k):
    text, want, node = tab[pin(k, len(tab))]
    try:
        return tree(CW.ExpressionWriter().write(node)) == want
    except SyntaxError:
        return False


def check_prepared2(tabs, k1, k2):
    return check_prepared(tabs[pin(k1, len(tabs))], k2)


def twin_prepared(tab, k):
    return not check_prepared(tab, k)


# ---- (B) argument list layout ---------------------------------------------------------------
class _Entry:
    is_self_arg = False


class _Arg:
    is_self_arg = is_type_arg = False
    annotation = None
    type = None
    entry = _Entry()

    def __init__(self, name, default):
        self.name = name
        self.default = default


ONE = cy_parse('1')


class _Fmt(AD.EmbedSignature):
    def __init__(self):            # no compilation context needed for the formatting helpers
        self.is_format_c = self.is_format_python = self.is_format_clinic = False


def arglist(npo, npa, nk, star, kw, ndef):
    """npo positional-only, npa positional-or-keyword, nk keyword-only parameters; *args / **kw present or not;
    the last ndef positional parameters and every keyword-only parameter have defaults"""
    names = ['p%d' % k for k in range(npo)] + ['a%d' % k for k in range(npa)] + ['k%d' % k for k in range(nk)]
    one = ONE
    args = []
    for k, n_ in enumerate(names):
        has_def = (k >= npo + npa) or (k >= npo + npa - ndef)
        args.append(_Arg(n_, one if has_def else None))
    pargs = _Arg('args', None) if star else None
    kargs = _Arg('kw', None) if kw else None
    parts = _Fmt()._fmt_arglist(args, npo, npa, pargs, nk, kargs)
    return names, ', '.join(parts)


def check_arglist(npo, npa, nk, star, kw, ndef):
    npo, npa, nk, ndef = pin(npo, 4), pin(npa, 4), pin(nk, 4), pin(ndef, 7)
    star, kw = bool(pin(star, 2)), bool(pin(kw, 2))
    names, text = arglist(npo, npa, nk, star, kw, ndef)
    try:
        a = ast.parse('def f(%s): pass' % text).body[0].args
    except SyntaxError:
        return False
    got = ([x.arg for x in a.posonlyargs], [x.arg for x in a.args], [x.arg for x in a.kwonlyargs],
           a.vararg.arg if a.vararg else None, a.kwarg.arg if a.kwarg else None, len(a.defaults), [d is not None for d in a.kw_defaults])
    want = (names[:npo], names[npo:npo + npa], names[npo + npa:], 'args' if star else None, 'kw' if kw else None, ndef, [True] * nk)
    return got == want


def twin_arglist(npo, npa):
    return not check_arglist(npo, npa, 0, False, False, 0)
