"""Pure-Python overlay of /repo/Cython (DESIGN §2.1).

/repo ships stale compiled copies (*.so) of ~20 compiler modules next to the
.py sources.  Every check analyses a fresh copy of the *source* tree without
them, so edits to the working tree are what gets analysed.
"""
import atexit, os, shutil, subprocess, sys, tempfile, hashlib

REPO = os.environ.get('VF_REPO', '/repo')
_overlay = None


def work_root():
    d = os.environ.get('VF_WORK') or tempfile.gettempdir()
    os.makedirs(d, exist_ok=True)
    return d


def make_overlay():
    """Copy /repo/Cython without *.so and without generated .c files that shadow a .py.
    Returns the directory that must be put first on sys.path / PYTHONPATH."""
    global _overlay
    if _overlay and os.path.isdir(_overlay):
        return _overlay
    root = tempfile.mkdtemp(prefix='vf_overlay_', dir=work_root())
    src = os.path.join(REPO, 'Cython')
    dst = os.path.join(root, 'Cython')

    def ignore(d, names):
        out = set()
        for n in names:
            if n.endswith(('.so', '.pyc', '.o')) or n == '__pycache__':
                out.add(n)
            elif n.endswith(('.c', '.cpp')) and not d.endswith(('Utility',)):
                base = n.rsplit('.', 1)[0]
                if base + '.py' in names or base + '.pyx' in names:
                    out.add(n)
        return out
    shutil.copytree(src, dst, ignore=ignore, symlinks=True)
    # cython.py shim so that `import cython` resolves to the overlay's Shadow
    for f in ('cython.py',):
        p = os.path.join(REPO, f)
        if os.path.exists(p):
            shutil.copy(p, os.path.join(root, f))
    _overlay = root
    atexit.register(cleanup)
    return root


def cleanup():
    global _overlay
    if _overlay and os.path.isdir(_overlay) and not os.environ.get('VF_KEEP'):
        shutil.rmtree(_overlay, ignore_errors=True)
    _overlay = None


def activate():
    """Put the overlay first on sys.path of *this* process and check that
    already-imported Cython modules (if any) come from it."""
    root = make_overlay()
    if sys.path[0] != root:
        sys.path.insert(0, root)
    for name in list(sys.modules):
        if name == 'Cython' or name.startswith('Cython.'):
            f = getattr(sys.modules[name], '__file__', '') or ''
            if f and not f.startswith(root):
                del sys.modules[name]
    return root


def assert_pure(*mods):
    for m in mods:
        f = m.__file__
        if not f.endswith('.py') or not f.startswith(_overlay or '\0'):
            raise RuntimeError('module %s not loaded from the pure overlay: %s' % (m.__name__, f))


def sha_of(relpaths):
    h = hashlib.sha256()
    for r in relpaths:
        p = os.path.join(REPO, r)
        try:
            with open(p, 'rb') as f:
                h.update(f.read())
        except OSError:
            h.update(b'<missing>')
    return h.hexdigest()[:16]


def scratch_dir(prefix):
    d = tempfile.mkdtemp(prefix='vf_%s_' % prefix, dir=work_root())
    if not os.environ.get('VF_KEEP'):
        atexit.register(shutil.rmtree, d, True)
    return d


def child_env(extra_path=()):
    env = dict(os.environ)
    root = make_overlay()
    env['PYTHONPATH'] = os.pathsep.join([root, '/verif'] + list(extra_path))
    env['PYTHONHASHSEED'] = '0'
    env['PYTHONDONTWRITEBYTECODE'] = '1'
    return env
