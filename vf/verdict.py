"""Verdict protocol (DESIGN §2.5): obligations, exit codes, evidence, known findings."""
import json, os, sys, time, re

EXIT_OK, EXIT_VIOLATION, EXIT_HARNESS = 0, 1, 2
ROOT = '/verif'
OUT = os.environ.get('VF_OUT', ROOT)     # seed tests redirect evidence/replays away from the committed files
KF_FILE = os.path.join(ROOT, 'known_findings.txt')


def load_known_findings(pid):
    """Lines:  known: property=<id> key=<key> <what fails>
               fixed: property=<id> <commit> <what failed>
    Only `known:` lines suppress anything, and only the exact failure identified by <key>
    (an input-space predicate implemented in the property module)."""
    known, fixed = {}, []
    if not os.path.exists(KF_FILE):
        return known, fixed
    for line in open(KF_FILE, encoding='utf-8'):
        line = line.strip()
        m = re.match(r'^known:\s+property=(\S+)\s+key=(\S+)\s+(.*)$', line)
        if m and m.group(1) == pid:
            known[m.group(2)] = m.group(3)
        m = re.match(r'^fixed:\s+property=(\S+)\s+(\S+)\s+(.*)$', line)
        if m and m.group(1) == pid:
            fixed.append((m.group(2), m.group(3)))
    return known, fixed


class Report:
    def __init__(self, pid, tier, level, seed=0):
        self.pid, self.tier, self.level, self.seed = pid, tier, level, seed
        self.t0 = time.time()
        self.obls = []            # each: dict(name,status,seconds,mandatory,detail)
        self.violations = []      # (what, replay_path)
        self.known_hits = []      # (key, what)
        self.errors = []          # harness errors / inconclusive mandatory obligations
        self.samples = []
        self.assumptions = []
        self.functions = []       # encoded functions (name, hash/size)
        self.bounds = []
        self.stubs = set()
        self.cov = {}
        self.solver_s = 0.0
        self.known, self.fixed = load_known_findings(pid)
        self.validated = 0        # self-test vectors + replays executed against the real code

    # -- recording -----------------------------------------------------
    def obligation(self, name, status, seconds=0.0, mandatory=True, detail=None):
        """status: proved | refuted | inconclusive | witness (reachability twin sat) | vacuous"""
        assert status in ('proved', 'refuted', 'inconclusive', 'witness', 'vacuous'), status
        self.obls.append(dict(name=name, status=status, seconds=round(seconds, 3),
                              mandatory=mandatory, detail=detail))
        self.solver_s += seconds
        if status == 'inconclusive' and mandatory:
            self.errors.append('inconclusive mandatory obligation: %s (%s)' % (name, str(detail)[:300]))
        if status == 'vacuous':
            self.errors.append('vacuous harness (reachability twin unsat): %s' % name)
        tag = {'proved': 'ok ', 'refuted': 'CEX', 'inconclusive': '???', 'witness': 'wit', 'vacuous': 'VAC'}[status]
        print('  [%s] %-70s %6.2fs %s' % (tag, name[:70], seconds, '' if mandatory else '(measured)'), flush=True)

    def sample(self, s):
        if len(self.samples) < 12:
            self.samples.append(s)

    def violation(self, what, replay):
        """A counterexample that reproduced against the real code and is not a known finding."""
        if getattr(self, 'quiet', False):        # sub-report of an aggregating check: the aggregator decides what to propagate
            self.violations.append((what, replay))
            return
        d = os.path.join(OUT, 'replays', self.pid)
        os.makedirs(d, exist_ok=True)
        n = len(os.listdir(d))
        path = os.path.join(d, '%d.json' % n)
        with open(path, 'w') as f:
            json.dump(dict(property=self.pid, what=what, replay=replay), f, indent=1, default=str)
        self.violations.append((what, path))
        print('VIOLATION property=%s replay=%s' % (self.pid, path), flush=True)
        print('  ' + what, flush=True)

    def known_finding(self, key, what=None):
        first = key not in [k for k, _ in self.known_hits]
        self.known_hits.append((key, what or self.known.get(key, '')))
        if getattr(self, 'quiet', False) or not first:
            return
        print('KNOWN-FINDING: property=%s %s' % (self.pid, what or self.known.get(key, key)), flush=True)

    def harness_error(self, msg):
        self.errors.append(msg)
        if getattr(self, 'quiet', False):
            return
        print('HARNESS-ERROR: ' + msg, flush=True)

    def assume(self, *texts):
        for t in texts:
            if t not in self.assumptions:
                self.assumptions.append(t)

    # -- finish --------------------------------------------------------
    def finish(self):
        n_all = len(self.obls)
        proved = sum(1 for o in self.obls if o['status'] == 'proved')
        refuted = sum(1 for o in self.obls if o['status'] == 'refuted')
        inconc = sum(1 for o in self.obls if o['status'] == 'inconclusive')
        wit = sum(1 for o in self.obls if o['status'] == 'witness')
        cov = dict(self.cov)
        cov.setdefault('evaluations', max(1, n_all))
        nontriv = len({o['name'] for o in self.obls if o['status'] in ('proved', 'refuted', 'witness') and o['seconds'] > 0})
        cov.setdefault('distinct_nontrivial', nontriv)
        cov.setdefault('rule', 'one evaluation = one solver query / CrossHair condition; distinct = distinct '
                               'obligation names that reached the solver and were decided (proved, refuted or witnessed)')
        cov['samples'] = (self.samples or [o['name'] for o in self.obls[:5]] or ['<none>'])[:12]
        cov['queries'] = dict(total=n_all, proved=proved, refuted=refuted, inconclusive=inconc, reachability_witnesses=wit)
        cov['solver_s'] = round(self.solver_s, 2)
        cov['functions_encoded'] = self.functions[:200]
        cov['bounds'] = self.bounds
        cov['stubs'] = sorted(self.stubs)
        cov['traces_validated_against_impl'] = cov.get('traces_validated_against_impl', self.validated)
        cov['obligation_list'] = [dict(dict(name=o['name'], status=o['status'], s=o['seconds'], mandatory=o['mandatory']),
                                       **({'detail': str(o['detail'])[:300]} if o.get('detail') else {}))
                                  for o in self.obls][:400]
        cov['known_findings_reported'] = [k for k, _ in self.known_hits]
        cov['inconclusive'] = [o['name'] for o in self.obls if o['status'] == 'inconclusive'][:50]
        ev = dict(property_id=self.pid, tier=self.tier, seed=self.seed, level=self.level, coverage=cov,
                  assumptions=self.assumptions, wall_s=round(time.time() - self.t0, 2),
                  violations=len(self.violations))
        os.makedirs(os.path.join(OUT, 'evidence'), exist_ok=True)
        with open(os.path.join(OUT, 'evidence', self.pid + '.json'), 'w') as f:
            json.dump(ev, f, indent=1, default=str)
        print('%s tier=%s: %d obligations: %d proved, %d refuted, %d inconclusive, %d witnesses; solver %.1fs wall %.1fs'
              % (self.pid, self.tier, n_all, proved, refuted, inconc, wit, self.solver_s, ev['wall_s']), flush=True)
        if self.violations:
            return EXIT_VIOLATION
        if self.errors:
            for e in self.errors:
                print('HARNESS-ERROR: ' + e)
            return EXIT_HARNESS
        return EXIT_OK
