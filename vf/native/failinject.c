/* LD_PRELOAD fault injection for replaying allocation-failure paths found by the C35 check.
 * Calls that extension modules make to the listed C-API functions go through these wrappers (symbol interposition);
 * the interpreter's own internal calls are linked directly and are not affected.
 * VF_FAIL="<function>:<n>" makes the n-th call (1-based) of that function, counted after vf_fail_arm() was called through
 * ctypes (or immediately if VF_FAIL_ARMED=1), fail with MemoryError. */
#define _GNU_SOURCE
#include <dlfcn.h>
#include <stdlib.h>
#include <string.h>
#include <stdio.h>

typedef struct _object PyObject;
typedef long Py_ssize_t;
static int armed = 0;
static long counter = 0;
void vf_fail_arm(void) { armed = 1; counter = 0; }
void vf_fail_disarm(void) { armed = 0; }
long vf_fail_count(void) { return counter; }

static int should_fail(const char *name) {
    const char *spec = getenv("VF_FAIL");
    if (!armed || !spec) return 0;
    size_t n = strlen(name);
    if (strncmp(spec, name, n) != 0 || spec[n] != ':') return 0;
    counter++;
    return counter == atol(spec + n + 1);
}
static PyObject *nomem(void) {
    PyObject *(*f)(void) = (PyObject *(*)(void)) dlsym(RTLD_NEXT, "PyErr_NoMemory");
    return f();
}
#define WRAP1(NAME, T1) \
    PyObject *NAME(T1 a) { \
        static PyObject *(*real)(T1) = 0; \
        if (!real) real = (PyObject *(*)(T1)) dlsym(RTLD_NEXT, #NAME); \
        if (should_fail(#NAME)) return nomem(); \
        return real(a); }
#define WRAP2(NAME, T1, T2) \
    PyObject *NAME(T1 a, T2 b) { \
        static PyObject *(*real)(T1, T2) = 0; \
        if (!real) real = (PyObject *(*)(T1, T2)) dlsym(RTLD_NEXT, #NAME); \
        if (should_fail(#NAME)) return nomem(); \
        return real(a, b); }
#define WRAP3(NAME, T1, T2, T3) \
    PyObject *NAME(T1 a, T2 b, T3 c) { \
        static PyObject *(*real)(T1, T2, T3) = 0; \
        if (!real) real = (PyObject *(*)(T1, T2, T3)) dlsym(RTLD_NEXT, #NAME); \
        if (should_fail(#NAME)) return nomem(); \
        return real(a, b, c); }
WRAP1(PyTuple_New, Py_ssize_t)
WRAP1(PyList_New, Py_ssize_t)
WRAP1(PyObject_GetIter, PyObject *)
WRAP2(PyObject_GetAttr, PyObject *, PyObject *)
WRAP3(PyObject_Call, PyObject *, PyObject *, PyObject *)
