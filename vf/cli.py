"""./check <property-id> [--tier quick|thorough] [--replay file]"""
import argparse, importlib, os, sys, traceback
from . import verdict, snapshot


def main():
    ap = argparse.ArgumentParser()
    ap.add_argument('pid')
    ap.add_argument('--tier', default=os.environ.get('VERIF_TIER', 'quick'), choices=['quick', 'thorough'])
    ap.add_argument('--replay', default=None)
    ap.add_argument('--only', default=None, help='substring filter on obligation groups (debugging)')
    a = ap.parse_args()
    seed = int(os.environ.get('VERIF_SEED', '0') or 0)
    try:
        mod = importlib.import_module('vf.props.' + a.pid)
    except ModuleNotFoundError:
        print('no check for property %s' % a.pid)
        return verdict.EXIT_HARNESS
    if a.replay:
        return mod.replay(a.replay)
    rep = verdict.Report(a.pid, a.tier, getattr(mod, 'LEVEL', 'model_checking'), seed)
    try:
        mod.run(rep, a.tier, only=a.only)
    except Exception as e:        # never BaseException: keep KeyboardInterrupt etc. intact
        traceback.print_exc()
        rep.harness_error('exception in check: %r' % (e,))
    finally:
        snapshot.cleanup()
    return rep.finish()


if __name__ == '__main__':
    sys.exit(main())
