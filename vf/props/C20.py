"""C20 evaluation order: generated code of expression/assignment kernels executed symbolically; the trace of calls and object-protocol operations
is compared with CPython's left-to-right order, each exactly once, stopping at the first failure (GEN + CIR; machinery shared with C35)."""
import multiprocessing as mp, os, re, subprocess, time
import z3
from .. import snapshot
from ..cir import build, solve, symex, stubs, ir
from ..cir.symex import Ptr
from ..gen import harness
from . import C35

LEVEL = 'model_checking'
TEMPLATE = '''# cython: language_level=3
cdef object f3(object a, object b, object c):
    return (a, b, c)
def args3(f, a, b, c): return f(a(), b(), c())
def kw_cdef(a, b, c): return f3(1, c=c(), b=b())
def kw_cdef2(a, b, c): return f3(c=c(), a=a(), b=b())
def aug_sub(p, i, v):
    p.x[i()] += v()
def aug_sub2(t, i, j, v):
    t[i()][j()] += v()
def casc_const(a, b): return a() < 2 < 1 < b()
def casc_const2(a, b): return 1 > 2 > b()
def sub_assign(a, b, c):
    a()[b()] = c()
def dict_disp(a, b, c, d): return {a(): b(), c(): d()}
def chain_assign(o, i, v):
    x = o[i()] = v()
    return x
def cond_expr(a, b, c): return a() if b() else c()
def bool_ops(a, b, c): return a() and b() or c()
'''
# kernel -> number of arguments.  The expected trace (labels call:k = call of argument k; getattr/getitem/setitem/iadd/cmp = object protocol operations)
# is obtained by running the same source in CPython with logging objects (all operations succeeding), see expected_traces()
KERNELS = {'args3': 4, 'kw_cdef': 3, 'kw_cdef2': 3, 'aug_sub': 3, 'aug_sub2': 4, 'casc_const': 2, 'casc_const2': 2, 'sub_assign': 3, 'dict_disp': 4, 'chain_assign': 3}
EXPECTED = {}


def expected_traces():
    py = TEMPLATE.replace('# cython: language_level=3', '').replace('cdef object f3(object a, object b, object c):', 'def f3(a, b, c):')
    ns = {}
    exec(py, ns)
    LOG = []

    class Val:
        def __init__(s, n): s.n = n
        def __getitem__(s, k): LOG.append('getitem'); return Val('item')
        def __setitem__(s, k, v): LOG.append('setitem')
        def __iadd__(s, o): LOG.append('iadd'); return s
        def __lt__(s, o): LOG.append('cmp'); return True
        def __gt__(s, o): LOG.append('cmp'); return True
        def __hash__(s): return id(s)

    class P:
        @property
        def x(s): LOG.append('getattr'); return Val('px')

    def mk(k):
        def f(*a):
            LOG.append('call:%d' % k)
            return Val(k)
        return f
    out = {}
    for fn, nargs in KERNELS.items():
        args = [mk(k) for k in range(nargs)]
        if fn == 'aug_sub':
            args[0] = P()
        if fn in ('aug_sub2', 'chain_assign'):
            args[0] = Val('t')
        del LOG[:]
        ns[fn](*args)
        out[fn] = list(LOG)
    return out


CALLS = ('__Pyx_PyObject_FastCallDict', '__Pyx_PyObject_FastCall', '__Pyx_PyObject_CallNoArg', '__Pyx_PyObject_Call', '__Pyx_PyObject_CallOneArg', 'PyObject_Call',
         '__Pyx_PyObject_FastCall_fallback', '__Pyx_PyVectorcall_FastCallDict')
OPS = {'getattr': ('__Pyx_PyObject_GetAttrStr', 'PyObject_GetAttr'), 'getitem': ('__Pyx_PyObject_GetItem', 'PyObject_GetItem', '__Pyx_PyObject_GetItem_Slow'),
       'setitem': ('PyObject_SetItem',), 'iadd': ('PyNumber_InPlaceAdd',), 'cmp': ('PyObject_RichCompare',)}
_B = None


def T():
    return int(os.environ.get('VF_QTIMEOUT', '120'))


def check_kernel(fn):
    nargs, expected = KERNELS[fn], EXPECTED[fn]
    out = []
    t0 = time.time()
    try:
        ex, env = _B.new_exec(unroll=2)
        tr = C35.Tracker(ex, env)
        tr.install()
        for nm in ('PyNumber_InPlaceAdd', 'PyObject_RichCompare', '__Pyx_PyObject_GetItem', '__Pyx_PyObject_GetItem_Slow', '__Pyx_PyLong_AddObjC', 'PyNumber_Add'):
            ex.stubs[nm] = (lambda n_: lambda ex_, g, a, rt, c: (env.event(g, n_, a), tr.new_object(g, n_))[1])(nm)

        def intfail(name):
            def stub(ex_, g, a, rt, caller):
                tr.n += 1
                r = z3.BitVec('ret_%s_%d' % (name, tr.n), rt.bits)
                tr.flags.append(r)
                ex_.assumptions.append(z3.Or(r == 0, r == -1))
                env.set_error(z3.And(g, r == -1), ex_.ptr_to(env.exc_type('PyExc_RuntimeError')))
                env.event(g, name, a, r)
                return r
            return stub
        ex.stubs['PyObject_SetItem'] = intfail('PyObject_SetItem')
        # building the dict of a display is not an observable operation: it does not fail in this model
        ex.stubs['PyDict_SetItem'] = lambda ex_, g, a, rt, c: z3.BitVecVal(0, rt.bits)
        for nm in ('__Pyx_PyDict_NewPresized', 'PyDict_New', '_PyDict_NewPresized'):
            ex.stubs[nm] = (lambda n_: lambda ex_, g, a, rt, c: tr.new_object(g, n_, may_fail=False))(nm)
        for g_ in ('_Py_NoneStruct', '_Py_TrueStruct', '_Py_FalseStruct'):
            p = ex.global_ptr(g_)
            ex.regions[next(iter(p.regions))].fields[stubs.OB_REFCNT] = (8, z3.BitVecVal(0xFFFFFFFF, 64))
        ms = ex.global_ptr('__pyx_mstate_global_static')
        msr = ex.regions[next(iter(ms.regions))]
        msr.fields.clear()
        msr.lazy = True
        args = [tr.arg('arg%d' % i) for i in range(nargs)]
        ret, rg = ex.run(C35.fname_of(_B, 'pf', fn), [symex.NULLPTR] + args)
    except (symex.Unsupported, ir.ParseError, KeyError, IndexError) as e:
        return [dict(name='%s:encode' % fn, status='inconclusive', s=time.time() - t0, detail='Unsupported: %s' % str(e)[:300], mandatory=True)]
    pre = list(ex.assumptions)
    # classify the recorded events
    labelled = []          # (index in program order, label, guard, success condition)
    for idx, e in enumerate(ex.events):
        if e.name in CALLS and e.args and isinstance(e.args[0], Ptr):
            nxt = ex.events[idx + 1] if idx + 1 < len(ex.events) else None
            for k, a in enumerate(args):
                hit = z3.simplify(z3.And(e.guard, e.args[0].bv == a.bv))
                if not z3.is_false(hit):
                    labelled.append((idx, 'call:%d' % k, hit, e))
            continue
        for lab, names in OPS.items():
            if e.name in names:
                labelled.append((idx, lab, e.guard, e))
    # success of an event: the object it produced is non-NULL / the status is 0.  NEWREF stubs log the event before creating the object: find its flag by order
    okflags = {}
    flag_iter = [f for f in tr.flags]

    def success(e):
        if e.ret is not None and not isinstance(e.ret, Ptr):
            return e.ret == 0
        # the object created right after this event: tracker objects are created in the same order as NEWREF events
        return None
    # pair NEWREF events with tracker objects by creation order
    newref_events = [e for e in ex.events if e.name in C35.NEWREF or e.name in ('PyNumber_InPlaceAdd', 'PyObject_RichCompare', '__Pyx_PyObject_GetItem', '__Pyx_PyObject_GetItem_Slow',
                                                                                   '__Pyx_PyLong_AddObjC', 'PyNumber_Add')]
    created = [o for o in tr.objs if o['ours'] == 1 and not o['name'].startswith(('indirect', 'PyDict_New', '__Pyx_PyDict_NewPresized', '_PyDict_NewPresized', '__Pyx_ErrFetch', '__Pyx__Exception', '__Pyx_Exception', '__Pyx__GetException', '__Pyx_GetException'))]
    ok_of = {}
    if len(newref_events) == len(created):
        for e, o in zip(newref_events, created):
            ok_of[id(e)] = o['created']          # guard & ok flag

    def ok(e):
        s_ = success(e)
        if s_ is not None:
            return z3.And(e.guard, s_)
        return ok_of.get(id(e), e.guard)

    def cexf(m):
        fl = {}
        for f in tr.flags:
            v = m.eval(f, model_completion=True)
            fl[str(f)] = (bool(v) if z3.is_bool(v) else v.as_signed_long())
        trace = [lab for idx, lab, g, e in labelled if z3.is_true(m.eval(g, model_completion=True))]
        return dict(kind='order', fn=fn, flags=fl, trace=trace, expected=expected)

    def ob(name, conds, kind_='unsat'):
        r, m, s = solve.check(pre + conds, T())
        d = dict(name='%s: %s' % (fn, name), s=s, mandatory=True)
        d['status'] = ({'unsat': 'proved', 'sat': 'refuted'} if kind_ == 'unsat' else {'sat': 'witness', 'unsat': 'vacuous'}).get(r, 'inconclusive')
        if r == 'sat' and kind_ == 'unsat':
            d['cex'] = cexf(m)
        out.append(d)
    # expected trace positions: the k-th expected label must be matched by events of that label, the j-th occurrence of a label by the j-th group in program order
    by_label = {}
    for item in labelled:
        by_label.setdefault(item[1], []).append(item)
    unexpected = [it for lab, items in by_label.items() if lab not in expected for it in items]
    if unexpected:
        ob('operations CPython would not perform here never happen (%s)' % ', '.join(sorted(set(it[1] for it in unexpected))), [z3.Or(*[it[2] for it in unexpected])])
    # sequential model: step k happens iff step k-1 happened and succeeded
    prev_done = rg if False else z3.BoolVal(True)
    last_idx = -1
    problems = []
    occ_count = {}
    pos_cursor = {}
    static_order_ok = True
    for k, lab in enumerate(expected):
        items = by_label.get(lab, [])
        nth = occ_count.get(lab, 0)
        occ_count[lab] = nth + 1
        total = expected.count(lab)
        # split this label's event sites into `total` consecutive groups by program order: sites whose guards exclude each other belong to one occurrence
        if total == 1:
            group = items
        else:
            # occurrences are separated by the other expected events between them: use program order boundaries of the neighbours
            group = [it for it in items if it[0] > last_idx]
            nxt_same = None
            # keep only sites before the first site of the next different expected label that lies after them (resolved below by guards)
        if not group:
            problems.append(z3.BoolVal(True))
            out.append(dict(name='%s: step %d (%s) has no site in the generated code' % (fn, k + 1, lab), s=0.0, mandatory=True, status='refuted', cex=dict(kind='order', fn=fn, flags={}, trace=[], expected=expected)))
            return out
        if total > 1:
            # take the maximal prefix of sites that are mutually exclusive with each other or identical in role: sites reachable together with an earlier taken site are a later occurrence
            taken = [group[0]]
            for it in group[1:]:
                r_, _, _ = solve.check(pre + [taken[0][2], it[2]], T(), False)
                if r_ == 'unsat':
                    taken.append(it)
                else:
                    break
            group = taken
        happens = z3.Or(*[it[2] for it in group])
        succeeded = z3.Or(*[ok(it[3]) for it in group])
        ob('step %d (%s) is performed exactly when every earlier step succeeded' % (k + 1, lab), [happens != prev_done])
        # at most once
        if len(group) > 1:
            pairs = [z3.And(group[i][2], group[j][2]) for i in range(len(group)) for j in range(i + 1, len(group))]
            ob('step %d (%s) is performed at most once' % (k + 1, lab), [z3.Or(*pairs)])
        if min(it[0] for it in group) <= last_idx:
            static_order_ok = False
        last_idx = max(it[0] for it in group)
        prev_done = z3.And(prev_done, succeeded)
    out.append(dict(name='%s: the sites of the %d steps appear in the expected program order' % (fn, len(expected)), s=0.0, mandatory=True,
                    status='proved' if static_order_ok else 'inconclusive'))
    # sites of expected labels beyond the expected number of occurrences
    ob('reach: all steps performed', [rg, prev_done], kind_='witness')
    return out


REPLAY = r'''
import sys
sys.path.insert(0, %(dir)r)
import %(mod)s as M
c = %(cex)r
SRC = %(src)r
import re
py = SRC.replace('# cython: language_level=3', '').replace('cdef object f3(object a, object b, object c):', 'def f3(a, b, c):')
ns = {}
exec(py, ns)
LOG = []
class Boom(Exception): pass
def mkcall(name, fail):
    def f(*a):
        LOG.append(name)
        if fail: raise Boom()
        return Val(name)
    return f
class Val:
    def __init__(s, n): s.n = n
    def __getitem__(s, k): LOG.append('getitem'); return Val('item')
    def __setitem__(s, k, v): LOG.append('setitem')
    def __iadd__(s, o): LOG.append('iadd'); return s
    def __lt__(s, o): LOG.append('cmp'); return True
    def __gt__(s, o): LOG.append('cmp'); return True
    def __hash__(s): return id(s)
class P:
    @property
    def x(s): LOG.append('getattr'); return Val('px')
bad = []
fn = c['fn']
nargs = ns[fn].__code__.co_argcount
for failing in [None] + list(range(nargs)):
    def args():
        a = [mkcall('call:%%d' %% k, failing == k) for k in range(nargs)]
        if fn == 'aug_sub': a[0] = P()
        if fn in ('aug_sub2', 'chain_assign'): a[0] = Val('t')
        return a
    res = []
    for f in (getattr(M, fn), ns[fn]):
        del LOG[:]
        try: f(*args()); r = 'ok'
        except BaseException as e: r = type(e).__name__
        res.append((r, list(LOG)))
    if res[0] != res[1]: bad.append((failing, res[0], res[1]))
print('REPLAY', fn, bad[:4])
print('REPLAY-REPRODUCED' if bad else 'REPLAY-HOLDS')
'''
_NATIVE = None


def replay(rep, cex):
    global _NATIVE
    try:
        if _NATIVE is None:
            _NATIVE = build.native(_B.cfile)
    except build.BuildError as e:
        return None, 'native build failed: %s' % e
    p = subprocess.run(['/verif/.venv/bin/python', '-c', REPLAY % dict(dir=os.path.dirname(_NATIVE), mod=_B.name, cex=cex, src=TEMPLATE)], capture_output=True, text=True, timeout=120)
    txt = (p.stdout + p.stderr).strip()[-700:]
    rep.validated += 1
    if p.returncode < 0:
        return True, 'process died with signal %d' % (-p.returncode)
    return 'REPLAY-REPRODUCED' in txt, txt


def _init(B, exp):
    global _B
    _B = B
    C35._B = B
    EXPECTED.update(exp)


def run(rep, tier, only=None):
    global _B
    snapshot.activate()
    _B = harness.build_template('c20t', TEMPLATE)
    C35._B = _B
    EXPECTED.update(expected_traces())
    jobs = [k for k in KERNELS if not only or only in k]
    rep.functions += ['generated code of %d expression / assignment kernels (call arguments, keyword arguments of a cdef function out of declaration order, augmented assignment to a subscript '
                      'of an attribute / of a subscript, cascaded comparison with constant links, subscript assignment, dict display, chained assignment): ExprNodes evaluation code, '
                      'ParseTreeTransforms.ExpandInplaceOperators, ExprNodes.GeneralCallNode.map_to_simple_call_node, Optimize.ConstantFolding of comparison cascades [%s]' % (len(KERNELS), build.sha(_B.cfile))]
    rep.bounds += ['every combination of success / failure of every call and object-protocol operation in the kernel; the expected trace of each kernel is obtained by running the same source in CPython with logging objects '
                   '(all operations succeeding); failing prefixes follow the sequential model and are cross-checked by the native replay',
                   'outside: starred arguments, tuple-unpacking targets, slices, comprehensions, class bodies, decorators, await/yield expressions']
    rep.assume('API contracts of C35', 'program order of event sites in the unrolled control-flow DAG equals execution order on every path through them')
    with mp.Pool(min(16, os.cpu_count() or 4), initializer=_init, initargs=(_B, dict(EXPECTED))) as pool:
        results = pool.map(check_kernel, jobs, chunksize=1)
    for job, res in zip(jobs, results):
        for d in res:
            if d['status'] == 'refuted':
                ok, txt = replay(rep, d['cex'])
                if ok:
                    rep.obligation(d['name'], 'refuted', d['s'], True, str(d['cex'])[:600])
                    rep.violation('%s fails for %s: %s' % (d['name'], str(d['cex'])[:500], txt), dict(cex=d['cex'], replay_output=txt))
                else:
                    rep.obligation(d['name'], 'inconclusive', d['s'], d.get('mandatory', True), 'counterexample %s did not reproduce: %s' % (str(d['cex'])[:400], txt))
            else:
                rep.obligation(d['name'], d['status'], d['s'], d.get('mandatory', True), d.get('detail'))
    rep.cov['states'] = sum(len(r) for r in results)
    rep.cov['transitions'] = sum(len(r) for r in results)
    rep.sample(dict(function='aug_sub', inputs='p.x lookup, i(), v(), __getitem__, __iadd__, __setitem__: each failing or succeeding'))
