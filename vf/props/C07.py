"""C07 power operator: IntPow helper per C type, 2 ** n object fast path, result representation of float ** constant (GEN + CIR)."""
import functools, multiprocessing as mp, os, re, subprocess, time
import z3
from .. import snapshot
from ..cir import build, solve, symex, stubs, ir
from ..cir.symex import Ptr
from ..gen import harness

LEVEL = 'model_checking'
_B = None
TYPES = [('schar', 'signed char', 8, True), ('short', 'short', 16, True), ('int', 'int', 32, True), ('long', 'long', 64, True),
         ('uchar', 'unsigned char', 8, False), ('ushort', 'unsigned short', 16, False), ('uint', 'unsigned int', 32, False),
         ('ulong', 'unsigned long', 64, False)]
TEMPLATE = '# cython: language_level=3, cpow=True\n' + ''.join(
    'cdef %s p_%s(%s b, %s e) noexcept nogil: return b ** e\ndef w_%s(%s b, %s e): return p_%s(b, e)\n' % (ct, n, ct, ct, n, ct, ct, n) for n, ct, _, _ in TYPES) + '''
def two_pow(n): return 2 ** n
def two_ipow(n):
    x = 2
    x **= n
    return x
'''
TEMPLATE_F = '''# cython: language_level=3, cpow=%s
def fpow_half(double x): return x ** 0.5
def fpow_neg(double x): return x ** -1.5
def fpow_two(double x): return x ** 2
def fpow_twof(double x): return x ** 2.0
def ipow_half(int x): return x ** 0.5
'''


def T():
    return int(os.environ.get('VF_QTIMEOUT', '60'))


def _ob(out, prefix, pre, cexf):
    def ob(name, conds, kind_='unsat', mandatory=True):
        r, m, s = solve.check(pre + conds, T())
        d = dict(name='%s: %s' % (prefix, name), s=s, mandatory=mandatory)
        d['status'] = ({'unsat': 'proved', 'sat': 'refuted'} if kind_ == 'unsat' else {'sat': 'witness', 'unsat': 'vacuous'}).get(r, 'inconclusive')
        if r == 'sat' and kind_ == 'unsat':
            d['cex'] = cexf(m)
        out.append(d)
        return d
    return ob


def sval(m, v, signed):
    x = m.eval(v, model_completion=True)
    return x.as_signed_long() if signed else x.as_long()


def check_intpow(job):
    n, ct, W, signed, mode = job
    out = []
    fname = _B.cfunc('p_' + n)
    t0 = time.time()
    ext = z3.SignExt if signed else z3.ZeroExt
    lo, hi = (-(1 << (W - 1)), (1 << (W - 1)) - 1) if signed else (0, (1 << W) - 1)

    def run(bv, ev):
        ex, env = _B.new_exec(unroll=W + 2)
        ex.unit_mul_split = (mode == 'unit')
        ret, rg = ex.run(fname, [bv, ev])
        return ex, ret, rg
    try:
        if mode == 'unit':
            # |b| <= 1: every exponent >= 0 (the loop runs once per bit of e)
            for bc in ([-1, 0, 1] if signed else [0, 1]):
                e = z3.BitVec('e', W)
                ex, ret, rg = run(z3.BitVecVal(bc, W), e)
                pre = ([e >= 0] if signed else [])
                exp = {0: z3.If(e == 0, z3.BitVecVal(1, W), z3.BitVecVal(0, W)), 1: z3.BitVecVal(1, W),
                       -1: z3.If(z3.Extract(0, 0, e) == 0, z3.BitVecVal(1, W), z3.BitVecVal(-1, W))}[bc]
                ob = _ob(out, 'pow[%s] b=%d' % (ct, bc), pre, lambda m, bc=bc, e=e: dict(type=n, b=bc, e=sval(m, e, signed)))
                ob('b ** e exact for every %s' % 'e >= 0', [z3.Not(z3.And(rg, ret == exp))])
                if ex.unwind:
                    ob('loop unwinding bound %d suffices' % (W + 2), [z3.Or(*[u[0] for u in ex.unwind])])
        elif mode == 'sym':
            # W <= 16: b and e symbolic, oracle = sequential exact product in 2W bits with a fits test at every step
            b, e = z3.BitVec('b', W), z3.BitVec('e', W)
            ex, ret, rg = run(b, e)
            p = z3.BitVecVal(1, 2 * W)
            fits = z3.BoolVal(True)
            exp, ok = z3.BitVecVal(1, W), e == 0
            bb = ext(W, b)
            for k in range(1, W + 1):
                p = p * bb
                fits = z3.And(fits, p >= lo, p <= hi) if signed else z3.And(fits, z3.ULE(p, hi))
                # p is only meaningful while it fits (then the next 2W-bit product is exact)
                exp = z3.If(e == k, z3.Extract(W - 1, 0, p), exp)
                ok = z3.Or(ok, z3.And(e == k, fits))
                p = z3.If(fits, p, z3.BitVecVal(0, 2 * W))
            big = (z3.Or(b > 1, b < -1) if signed else z3.UGT(b, 1))
            pre = [big, (e >= 0) if signed else z3.BoolVal(True), ok]
            ob = _ob(out, 'pow[%s]' % ct, pre, lambda m: dict(type=n, b=sval(m, b, signed), e=sval(m, e, signed)))
            ob('|b| >= 2: b ** e exact whenever the mathematical result fits the type (all b, all 0 <= e <= %d)' % W, [z3.Not(z3.And(rg, ret == exp))])
            if ex.unwind:
                ob('loop unwinding bound suffices', [z3.Or(*[u[0] for u in ex.unwind])])
            ob('reach (e = 5)', [rg, e == 5], kind_='witness')
        else:
            # W >= 32: one query per exponent 0..W-1 (b symbolic): result == b * b * ... * b modulo 2^W, hence exact when it fits
            b = z3.BitVec('b', W)
            for k in range(0, W):
                ex, ret, rg = run(b, z3.BitVecVal(k, W))
                exp = z3.BitVecVal(1, W)
                for _ in range(k):
                    exp = exp * b
                ob = _ob(out, 'pow[%s] e=%d' % (ct, k), [], lambda m, k=k: dict(type=n, b=sval(m, b, signed), e=k))
                ob('b ** %d == the %d-fold product modulo 2^%d for every b (exact whenever the result fits)' % (k, k, W), [z3.Not(z3.And(rg, ret == exp))])
                if ex.unwind:
                    ob('loop unwinding bound suffices', [z3.Or(*[u[0] for u in ex.unwind])])
    except (symex.Unsupported, ir.ParseError, KeyError) as e:
        return out + [dict(name='pow[%s]:encode' % ct, status='inconclusive', s=time.time() - t0, detail='Unsupported: %s' % e, mandatory=True)]
    return out


def check_pow2(inplace):
    out = []
    t0 = time.time()
    fname = '__Pyx__PyNumber_PowerOf2'
    try:
        ex, env = _B.new_exec(unroll=4)
        delegated = []

        def deleg(name):
            def stub(ex_, g, args, rt, caller):
                r = env.new_object('delegated', dict(kind='delegated'))
                e = env.event(g, name, args, ex_.ptr_to(r))
                delegated.append(e)
                return ex_.ptr_to(r)
            return stub
        for nm in ('PyNumber_Power', 'PyNumber_InPlacePower', 'PyNumber_Lshift'):
            ex.stubs[nm] = deleg(nm)
        ex.stubs['<indirect>'] = lambda ex_, g, args, rt, caller: deleg('INDIRECT:%s' % (args[0],))(ex_, g, args[1:], rt, caller)
        x, V, inv = env.make_pylong('exp', 5)
        two, tinv = env.make_opaque('two')
        none = ex.global_ptr('_Py_NoneStruct')
        ret, rg = ex.run(fname, [two, x, none, z3.BitVecVal(inplace, 32)])
    except (symex.Unsupported, ir.ParseError, KeyError, IndexError) as e:
        return [dict(name='2**n:encode', status='inconclusive', s=time.time() - t0, detail='Unsupported: %s' % e, mandatory=True)]
    W = stubs.WIDE
    pre = [inv, tinv] + list(ex.assumptions)
    ob = _ob(out, '2 ** n [%s]' % ('inplace' if inplace else 'binary'), pre, lambda m: dict(kind='pow2', n=m.eval(V, model_completion=True).as_signed_long(), inplace=inplace))
    good = z3.BoolVal(False)
    wanted = 'PyNumber_InPlacePower' if inplace else 'PyNumber_Power'
    for e in delegated:
        if e.name == wanted or e.name.startswith('INDIRECT'):
            good = z3.Or(good, z3.And(e.guard, ret.bv == e.ret.bv, e.args[0].bv == two.bv, e.args[1].bv == x.bv, e.args[2].bv == none.bv))
        elif e.name == 'PyNumber_Lshift':
            gh = env.ghost_of(e.args[0])
            if gh and gh.get('kind') == 'int':
                good = z3.Or(good, z3.And(e.guard, ret.bv == e.ret.bv, gh['value'] == 1, e.args[1].bv == x.bv, V >= 0))
    one = z3.BitVecVal(1, W)
    for e in ex.events:
        if e.name.startswith('PyLong_From') and e.ret is not None:
            gh = env.ghost_of(e.ret)
            good = z3.Or(good, z3.And(e.guard, ret.bv == e.ret.bv, V >= 0, V < 200, gh['value'] == (one << V)))
    ob('the result is the int 2**n (fast path, n >= 0), or 1 << n / pow(2, n, None) is delegated to CPython with the original operands', [rg, env.no_error(), z3.Not(good)])
    ob('no exception is left set when a result is returned', [rg, ret.bv != 0, z3.Not(env.no_error())])
    seen = set()
    for c, desc, fn in ex.ub:
        if (fn, desc) in seen:
            continue
        seen.add((fn, desc))
        ob('no UB: %s' % desc[:80], [c])
    fast = z3.Or(*[e.guard for e in ex.events if e.name.startswith('PyLong_From')]) if ex.events else z3.BoolVal(False)
    ob('reach: fast path with n == 63', [rg, V == 63, fast], kind_='witness')
    return out


def check_fpow(job):
    """representation of float ** constant under cpow=False / True: negative base with a non-integral constant exponent must not come
    back as the C pow() double (CPython gives a complex number); cpow=True documents NaN there"""
    cpow, fn = job
    out = []
    t0 = time.time()
    B = _BF[cpow]
    try:
        cands = [f for f in B.module.functions if re.match(r'^__pyx_pf_\d+%s_\d*%s$' % (B.name, fn), f)]
        ex, env = B.new_exec(unroll=2)
        ex.stubs['__Pyx_AddTraceback'] = lambda ex_, g, a, rt, c: None
        calls = []

        def opaque(name):
            def stub(ex_, g, args, rt, caller):
                r = ex_.fresh_of(rt, 'ret_' + name) if rt.kind != 'ptr' else ex_.ptr_to(env.new_object('res:' + name, dict(kind=name)))
                calls.append(env.event(g, name, args, r))
                return r
            return stub
        for nm in ('pow', '__Pyx_c_pow_double', '__pyx_Py_FromSoftComplex', '__pyx_PyComplex_FromComplex', 'PyComplex_FromDoubles', '__Pyx_SoftComplexToDouble'):
            ex.stubs[nm] = opaque(nm)
        x = z3.FP('x', z3.Float64()) if fn.startswith('fpow') else z3.BitVec('x', 32)
        ret, rg = ex.run(cands[0], [symex.NULLPTR, x])
    except (symex.Unsupported, ir.ParseError, KeyError, IndexError) as e:
        return [dict(name='%s[cpow=%s]:encode' % (fn, cpow), status='inconclusive', s=time.time() - t0, detail='Unsupported: %s' % e, mandatory=True)]
    neg = z3.And(z3.fpLT(x, z3.FPVal(0.0, z3.Float64())), z3.Not(z3.fpIsInf(x))) if fn.startswith('fpow') else x < 0
    ob = _ob(out, '%s [cpow=%s]' % (fn, cpow), list(ex.assumptions), lambda m: dict(kind='fpow', fn=fn, cpow=cpow, x=-4.0 if fn.startswith('fpow') else -4))
    direct = z3.BoolVal(False)       # result object made directly from a C double
    soft = z3.BoolVal(False)
    for e in list(ex.events) + calls:
        if e.name == 'PyFloat_FromDouble':
            direct = z3.Or(direct, z3.And(e.guard, ret.bv == e.ret.bv))
        if e.name in ('__pyx_Py_FromSoftComplex', '__pyx_PyComplex_FromComplex', 'PyComplex_FromDoubles'):
            soft = z3.Or(soft, z3.And(e.guard, ret.bv == e.ret.bv))
    nonintegral = fn in ('fpow_half', 'fpow_neg', 'ipow_half')
    if nonintegral and cpow == 'False':
        ob('negative base, non-integral constant exponent: the result object comes from the complex-capable conversion, never directly from a C double',
           [rg, neg, env.no_error(), z3.Not(soft)])
    else:
        ob('result is a Python float made from the C double (cpow table: floating point result)', [rg, env.no_error(), z3.Not(direct)])
    ob('reach', [rg, neg, env.no_error()], kind_='witness')
    return out


_BF = {}
REPLAY = r'''
import sys
sys.path.insert(0, %(dir)r)
import %(mod)s as M
c = %(cex)r
if c.get('kind') == 'pow2':
    f = M.two_ipow if c['inplace'] else M.two_pow
    got = f(c['n']); want = 2 ** c['n']
elif c.get('kind') == 'fpow':
    got = getattr(M, c['fn'])(c['x']); want = eval({'fpow_half': 'x ** 0.5', 'fpow_neg': 'x ** -1.5', 'fpow_two': 'x ** 2', 'fpow_twof': 'x ** 2.0', 'ipow_half': 'x ** 0.5'}[c['fn']], {'x': c['x']})
    if c['cpow'] == 'True' and isinstance(want, complex): want = float('nan')
    if got != got and want != want: got = want = 'nan'
    close = (got == want) or (got == 'nan') or abs(complex(got) - complex(want)) <= 1e-9 * max(1.0, abs(complex(want)))
    got, want = (type(got).__name__, close), (type(want).__name__, True)
else:
    got = getattr(M, 'w_' + c['type'])(c['b'], c['e']); want = c['b'] ** c['e']
print('REPLAY', c, 'got', got, 'want', want)
print('REPLAY-REPRODUCED' if got != want else 'REPLAY-HOLDS')
'''
_NATIVE = {}


def replay(rep, cex):
    B = _BF[cex['cpow']] if cex.get('kind') == 'fpow' else _B
    try:
        if B.name not in _NATIVE:
            _NATIVE[B.name] = build.native(B.cfile)
    except build.BuildError as e:
        return None, 'native build failed: %s' % e
    p = subprocess.run(['/verif/.venv/bin/python', '-c', REPLAY % dict(dir=os.path.dirname(_NATIVE[B.name]), mod=B.name, cex=cex)], capture_output=True, text=True, timeout=60)
    txt = (p.stdout + p.stderr).strip()[-400:]
    rep.validated += 1
    if p.returncode < 0:
        return True, 'process died with signal %d' % (-p.returncode)
    return 'REPLAY-REPRODUCED' in txt, txt


def worker(job):
    kind, arg = job
    return dict(intpow=check_intpow, pow2=check_pow2, fpow=check_fpow)[kind](arg)


def run(rep, tier, only=None):
    global _B
    snapshot.activate()
    _B = harness.build_template('c07t', TEMPLATE)
    for cp in ('False', 'True'):
        _BF[cp] = harness.build_template('c07f%s' % cp[0].lower(), TEMPLATE_F % cp)
    jobs = []
    for n, ct, W, signed in TYPES:
        jobs.append(('intpow', (n, ct, W, signed, 'unit')))
        jobs.append(('intpow', (n, ct, W, signed, 'sym' if W <= (16 if tier == 'thorough' else 8) else 'perexp')))
    jobs += [('pow2', 0), ('pow2', 1)]
    for cp in ('False', 'True'):
        for fn in ('fpow_half', 'fpow_neg', 'fpow_two', 'fpow_twof', 'ipow_half'):
            jobs.append(('fpow', (cp, fn)))
    if only:
        jobs = [j for j in jobs if only in j[0] or only in str(j[1])]
    rep.functions += ['Cython/Utility/CMath.c: IntPow (__Pyx_pow_<type>) as instantiated for 8 C integer types and called from the generated code of `b ** e`; '
                      'Cython/Utility/Optimize.c: __Pyx__PyNumber_PowerOf2; generated code of x ** <constant> (ExprNodes.PowNode type selection) [%s]' % build.sha(_B.cfile)]
    rep.bounds += ['IntPow: b in {-1,0,1}: every exponent >= 0 of the type (loop unrolled width+2); |b| >= 2: exponents 0..width-1 (a larger exponent cannot fit): '
                   'both operands symbolic for 8-bit types (16-bit too in the thorough tier), one query per exponent with symbolic base for wider types',
                   '2 ** n: n any exact int up to 5 digits (150 bits), both the binary and the in-place form',
                   'float ** constant: the 5 template functions x both cpow settings, x any double / int',
                   'outside: negative exponents (no exactness claim in the property), C pow()/cpow() values themselves, complex operands, signed-overflow UB of the helper\'s last squaring (reported under C36 only if claimed there)']
    rep.assume('wrapping two\'s-complement multiplication (signed overflow inside IntPow is UB in C; compilers wrap)', 'CPython 3.12 PyLong layout; PyNumber_Power / PyNumber_Lshift are CPython\'s own')
    with mp.Pool(min(16, os.cpu_count() or 4)) as pool:
        results = pool.map(worker, jobs, chunksize=1)
    for job, res in zip(jobs, results):
        for d in res:
            if d['status'] == 'refuted':
                ok, txt = replay(rep, d['cex'])
                if ok:
                    rep.obligation(d['name'], 'refuted', d['s'], True, str(d['cex']))
                    rep.violation('%s fails for %s: %s' % (d['name'], d['cex'], txt), dict(cex=d['cex'], replay_output=txt))
                else:
                    rep.obligation(d['name'], 'inconclusive', d['s'], d.get('mandatory', True), 'counterexample %s did not reproduce: %s' % (d['cex'], txt))
            else:
                rep.obligation(d['name'], d['status'], d['s'], d.get('mandatory', True), d.get('detail'))
    rep.cov['states'] = sum(len(r) for r in results)
    rep.cov['transitions'] = sum(len(r) for r in results)
    rep.sample(dict(function='__Pyx_pow_long', inputs='b symbolic 64-bit, e = 0..63'))
