"""C47 source literal stripping is lossless and complete (PYSYM)."""
import os, shutil
from ..pysym import runner
from ..pysym.runner import Cond
from .. import snapshot

LEVEL = 'model_checking'
TOK = ['"""', "'''", '"', "'", '\\\\', '\\', 'f', '{', '}', '{{', '}}', '#', '\n', 'a', ' ', '=']   # must equal h_c47_base.TOKENS
FS = [7, 8, 9, 10, 13, 3, 2, 4]          # f-string middle alphabet: { } {{ }} a ' " \\
TQ = [2, 5, 4, 13, 3, 12, 11, 0]         # triple-quote middle alphabet: " \ \\ a ' newline # """


def gen(path, tier):
    L = ['import warnings', 'warnings.simplefilter("ignore")', 'import vf.pysym.chpatch', 'from h_c47_base import check_tokens, roundtrip, TOKENS', '']
    names = []

    def cond(name, nsym, ranges, expr, doc=''):
        params = ', '.join('s%d: int' % i for i in range(nsym))
        pre = ' and '.join('0 <= s%d < %d' % (i, ranges[i]) for i in range(nsym)) or 'True'
        L.extend(['def %s(%s) -> bool:' % (name, params), '    """', '    pre: ' + pre, '    post: _ == True', '    """',
                  '    return check_tokens(%s)' % expr, ''])
        names.append(name)
    nfree = 2 if tier == 'quick' else 3
    nt = len(TOK)
    # (A) unrestricted token sequences: first token enumerated, nfree symbolic, every shorter sequence via a 'stop' choice
    L.append('def _seq(first, rest):\n    out = [first]\n    for r in rest:\n        if r == %d:\n            break\n        out.append(r)\n    return out\n' % nt)
    for t in range(nt):
        cond('seq_%02d' % t, nfree, [nt + 1] * nfree, '_seq(%d, [%s])' % (t, ', '.join('s%d' % i for i in range(nfree))))
    cond('seq_empty', 0, [], '[]')
    # (B) f-string skeletons f' X1..Xk ' / f""" X1..Xk """ with the middle symbolic over the brace/quote/escape alphabet
    k = 4 if tier == 'quick' else 5
    L.append('FS = %r\nTQ = %r\n' % (FS, TQ))
    for q, qn in ((3, 'sq'), (0, 'tq')):
        for first in range(len(FS)):
            cond('fstr_%s_%d' % (qn, first), k - 1, [len(FS)] * (k - 1),
                 '[6, %d, FS[%d]] + [FS[s] for s in (%s,)] + [%d]' % (q, first, ', '.join('s%d' % i for i in range(k - 1)), q))
    # (C) triple-quoted skeletons """ X1..Xk """
    for first in range(len(TQ)):
        cond('triple_%d' % first, k - 1, [len(TQ)] * (k - 1),
             '[0, TQ[%d]] + [TQ[s] for s in (%s,)] + [0]' % (first, ', '.join('s%d' % i for i in range(k - 1))))
    # (D) all-symbolic characters: round trip only
    n = 3 if tier == 'quick' else 4
    L.extend(['def chars_roundtrip(code: str) -> bool:', '    """', '    pre: len(code) <= %d' % n,
              '    pre: all(c in "\'" + \'"\' + chr(92) + "#" + chr(10) + "fa{}" for c in code)', '    post: _ == True', '    """',
              '    return roundtrip(code)', ''])
    names.append('chars_roundtrip')
    L.extend(['def twin(s0: int, s1: int) -> bool:', '    """', '    pre: 0 <= s0 < 16 and 0 <= s1 < 16', '    post: _ == True', '    """',
              '    check_tokens([0, s0, s1, 0])', '    return False', ''])
    open(path, 'w').write('\n'.join(L))
    return names


def run(rep, tier, only=None):
    snapshot.activate()
    d = snapshot.scratch_dir('c47')
    shutil.copy('/verif/vf/pysym/h_c47_base.py', d)
    H = os.path.join(d, 'h_c47.py')
    names = gen(H, tier)
    T = 480 if tier == 'quick' else 2400
    rep.functions += ['Cython/Build/Dependencies.py: strip_string_literals (parse_code, parse_string, append_new_label), _FIND_TOKEN, '
                      '_FIND_STRING_TOKEN, _FIND_FSTRING_TOKEN']
    nfree, k, n = (2, 4, 3) if tier == 'quick' else (3, 5, 4)
    rep.bounds += ['(A) every text that is a concatenation of <= %d tokens from %r' % (nfree + 1, TOK),
                   '(B) f-strings  f\' X1..X%d \'  and  f""" X1..X%d """  with every Xi in { } {{ }} a \' " \\\\' % (k, k),
                   '(C) triple-quoted strings  """ X1..X%d """  with every Xi in " \\ \\\\ a \' newline # """' % k,
                   '(D) every text of <= %d characters over \' " \\ # newline f a { } (round trip only)' % n,
                   'outside: longer texts; string prefixes other than f (r, b, u behave like no prefix for the stripper); '
                   'parse_dependencies regexes on the stripped text']
    rep.assume('lossless: substituting every label back (descending label number) reproduces the text',
               'complete: for texts that CPython compiles, the positions inside labels are exactly the positions CPython\'s tokenizer '
               'classifies as STRING body / FSTRING_MIDDLE / COMMENT body (escaped {{ }} pairs may be attributed to either side)',
               'texts CPython rejects: only losslessness is required',
               'token selectors are symbolic ints; the text is concrete per path (regex search runs natively)')
    runner.run_twin(rep, H, 'twin', 60, extra_path=[d])
    runner.run_conditions(rep, H, [Cond(nm, T) for nm in names], extra_path=[d])
    rep.sample(dict(condition='fstr_sq_2', text="f'" + '{{' + 'X2 X3 X4' + "'", symbolic='X2..X4 over the f-string alphabet'))
