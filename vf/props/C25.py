"""C25 compiled functions report faithful names and signatures (narrow): the embedded-signature text.  Default-value expressions are
re-printed by CodeWriter.ExpressionWriter and the parameter list is laid out by EmbedSignature._fmt_arglist; both are executed under
CrossHair and the printed text is parsed back with CPython's own parser (PYSYM).  The __defaults__/__kwdefaults__ getters of the
function object are checked from an arbitrary cache state (GEN + CIR)."""
import os, re, shutil, subprocess, time
import z3
from ..cir import build, solve, symex, stubs, ir
from ..cir.symex import Ptr
from ..gen import harness
from ..pysym import runner
from ..pysym.runner import Cond
from .. import snapshot

LEVEL = 'model_checking'
H = '/verif/vf/pysym/h_c25.py'


def gen_conditions(d, tier):
    import importlib.util
    spec = importlib.util.spec_from_file_location('h_c25', H)
    B = importlib.util.module_from_spec(spec)
    spec.loader.exec_module(B)
    # one module per outermost context, so that each CrossHair process parses only its own texts when it imports the module
    files2, files3 = [], []
    for o in range(B.NO):
        nm = 'w2_%02d' % o
        M = ['import h_c25 as B', '', 'TAB = B.prepare([B.text2(%d, i) for i in range(B.NI)])' % o,
             'def %s(i: int) -> bool:' % nm, '    """', '    pre: 0 <= i < %d' % B.NI, '    post: _ == True', '    """', '    return B.check_prepared(TAB, i)', '']
        if o == 0:
            M += ['def twin2(i: int) -> bool:', '    """', '    pre: 0 <= i < %d' % B.NI, '    post: _ == True', '    """', '    return B.twin_prepared(TAB, i)', '']
        f2 = os.path.join(d, 'h_c25g2_%02d.py' % o)
        open(f2, 'w').write('\n'.join(M))
        files2.append((f2, nm))
    if tier == 'thorough':
        for o1 in range(B.NO - 1):
            nm = 'w3_%02d' % o1
            M = ['import h_c25 as B', '', 'TABS = [B.prepare([B.text3(%d, o2, i) for i in range(B.NI)]) for o2 in range(B.NO - 1)]' % o1,
                 'def %s(o2: int, i: int) -> bool:' % nm, '    """', '    pre: 0 <= o2 < %d and 0 <= i < %d' % (B.NO - 1, B.NI), '    post: _ == True', '    """',
                 '    return B.check_prepared2(TABS, o2, i)', '']
            f3 = os.path.join(d, 'h_c25g3_%02d.py' % o1)
            open(f3, 'w').write('\n'.join(M))
            files3.append((f3, nm))
    L = ['import h_c25 as B', '']
    L += ['def arglist(npo: int, npa: int, nk: int, star: bool, kw: bool, ndef: int) -> bool:', '    """',
          '    pre: 0 <= npo <= 3 and 0 <= npa <= 3 and 0 <= nk <= 3 and 0 <= ndef <= npo + npa', '    post: _ == True', '    """',
          '    return B.check_arglist(npo, npa, nk, star, kw, ndef)', '']
    L += ['def twin_arglist(npo: int, npa: int) -> bool:', '    """', '    pre: 0 <= npo <= 3 and 0 <= npa <= 3', '    post: _ == True', '    """',
          '    return B.twin_arglist(npo, npa)', '']
    G = os.path.join(d, 'h_c25g.py')
    open(G, 'w').write('\n'.join(L))
    return G, files2, files3, B


TEMPLATE = """# cython: language_level=3, binding=True
G = 5
L = [1, 2]
def f(a, b=1, *, c=G, d=L):
    return a
def g(a, b=G, *, c=2):
    return a
def h(a, b=1, *, c=2):
    return a
def n(a):
    return a
"""
OFFSETS_C = """
/* appended by the C25 check: struct offsets only, no behaviour */
size_t vf_off_defaults_tuple(void) { return offsetof(__pyx_CyFunctionObject, defaults_tuple); }
size_t vf_off_defaults_kwdict(void) { return offsetof(__pyx_CyFunctionObject, defaults_kwdict); }
size_t vf_off_defaults_getter(void) { return offsetof(__pyx_CyFunctionObject, defaults_getter); }
"""
_B = None


def T():
    return int(os.environ.get('VF_QTIMEOUT', '120'))


def build_getters():
    d = snapshot.scratch_dir('c25t')
    c = build.cythonize_template(TEMPLATE, 'c25t', d)
    c2 = os.path.join(d, 'c25k.c')
    open(c2, 'w').write(open(c).read() + OFFSETS_C)
    ll = build.lower(c2)
    return harness.Built('c25t', c, ll, ir.Module(open(ll).read()))


def check_getter(which):
    """one read of __defaults__ / __kwdefaults__ from an arbitrary state of the two cached fields"""
    out = []
    t0 = time.time()
    label = '__%s__ getter' % which
    try:
        ex, env = _B.new_exec(unroll=2)
        for nm in ('Py_INCREF', 'Py_DECREF', 'Py_XDECREF', 'Py_XINCREF'):
            ex.stubs[nm] = lambda ex_, g, a, rt, c: None
        off = {}
        for f in ('defaults_tuple', 'defaults_kwdict', 'defaults_getter'):
            v, _ = ex.run('vf_off_' + f, [])
            off[f] = z3.simplify(v).as_long()
        t_cached, k_cached, has_getter, getter_ok = z3.Bool('defaults_tuple_cached'), z3.Bool('defaults_kwdict_cached'), z3.Bool('has_defaults_getter'), z3.Bool('defaults_getter_ok')
        T0, K0, T1, K1 = [ex.new_region(n_, size=None, lazy=True) for n_ in ('cached_tuple', 'cached_kwdict', 'fresh_tuple', 'fresh_kwdict')]
        RES = ex.new_region('getter_result', size=None, lazy=True)
        RES.fields[24] = (8, ex.ptr_to(T1)); RES.fields[32] = (8, ex.ptr_to(K1))
        RES.fields[16] = (8, z3.BitVecVal(2, 64)); RES.fields[8] = (8, ex.global_ptr('PyTuple_Type'))
        FN = ex.new_region('defaults_getter_fn', size=None, lazy=True)
        OP = ex.new_region('cyfunction', size=None, lazy=True)
        null = z3.BitVecVal(0, 64)
        OP.fields[off['defaults_tuple']] = (8, Ptr(z3.If(t_cached, z3.BitVecVal(T0.base, 64), null), [T0.id, 0]))
        OP.fields[off['defaults_kwdict']] = (8, Ptr(z3.If(k_cached, z3.BitVecVal(K0.base, 64), null), [K0.id, 0]))
        OP.fields[off['defaults_getter']] = (8, Ptr(z3.If(has_getter, z3.BitVecVal(FN.base, 64), null), [FN.id, 0]))
        calls = []
        err = env.exc_type('PyExc_RuntimeError')

        def indirect(ex_, g, a, rt, caller):
            calls.append((g, a))
            env.set_error(z3.And(g, z3.Not(getter_ok)), ex_.ptr_to(err))
            return Ptr(z3.If(getter_ok, z3.BitVecVal(RES.base, 64), null), [RES.id, 0])
        ex.stubs['<indirect>'] = indirect
        fn_ir = '__Pyx_CyFunction_get_' + which
        ret, rg = ex.run(fn_ir, [ex.ptr_to(OP), Ptr(null, [0])])
    except (symex.Unsupported, ir.ParseError, KeyError, IndexError, AttributeError) as e:
        return [dict(name=label + ':encode', status='inconclusive', s=time.time() - t0, detail='Unsupported: %s' % str(e)[:300], mandatory=True)]
    pre = list(ex.assumptions)
    mine_cached, mine0, mine1 = (t_cached, T0, T1) if which == 'defaults' else (k_cached, K0, K1)
    called = z3.Or(*[g for g, _ in calls]) if calls else z3.BoolVal(False)
    called_with_op = z3.Or(*[z3.And(g, a[0].bv == z3.BitVecVal(FN.base, 64), a[1].bv == z3.BitVecVal(OP.base, 64)) for g, a in calls]) if calls else z3.BoolVal(False)
    none = ex.global_ptr('_Py_NoneStruct').bv
    rb = ret.bv if isinstance(ret, Ptr) else ret

    def fld(name):
        v = OP.fields[off[name]][1]
        return v.bv if isinstance(v, Ptr) else v

    def ob(name, conds, kind_='unsat'):
        r, m, s = solve.check(pre + conds, T())
        d = dict(name='%s: %s' % (label, name), s=s, mandatory=True)
        d['status'] = ({'unsat': 'proved', 'sat': 'refuted'} if kind_ == 'unsat' else {'sat': 'witness', 'unsat': 'vacuous'}).get(r, 'inconclusive')
        if r == 'sat' and kind_ == 'unsat':
            d['cex'] = dict(kind='getter', which=which, **{str(b): bool(m.eval(b, model_completion=True)) for b in (t_cached, k_cached, has_getter, getter_ok)})
        out.append(d)
    ob('a cached value is returned without calling the defaults getter', [mine_cached, z3.Not(z3.And(rg, rb == z3.BitVecVal(mine0.base, 64), z3.Not(called)))])
    ob('first read with dynamic defaults: the getter is called with the function and ITS %s is returned' % ('positional-defaults tuple (item 0)' if which == 'defaults' else 'keyword-defaults dict (item 1)'),
       [z3.Not(mine_cached), has_getter, getter_ok, z3.Not(z3.And(rg, called_with_op, rb == z3.BitVecVal(mine1.base, 64)))])
    ob('first read with dynamic defaults: both fields are filled from the getter result (tuple from item 0, dict from item 1)',
       [z3.Not(mine_cached), has_getter, getter_ok, z3.Not(z3.And(fld('defaults_tuple') == z3.BitVecVal(T1.base, 64), fld('defaults_kwdict') == z3.BitVecVal(K1.base, 64)))])
    ob('no cached value and no getter: None', [z3.Not(mine_cached), z3.Not(has_getter), z3.Not(z3.And(rg, rb == none))])
    ob('a failing getter gives NULL with the error set', [z3.Not(mine_cached), has_getter, z3.Not(getter_ok), z3.Not(z3.And(rg, rb == null, z3.Not(env.no_error())))])
    ob('reach: getter called', [rg, called, rb != null], kind_='witness')
    return out


REPLAY = r"""
import sys
sys.path.insert(0, %(dir)r)
import %(mod)s as M
bad = []
def expect(label, got, want):
    if got != want: bad.append((label, got, want))
expect('f.__kwdefaults__ (first read)', M.f.__kwdefaults__, {'c': 5, 'd': [1, 2]})
expect('f.__defaults__', M.f.__defaults__, (1,))
expect('f.__kwdefaults__ (second read)', M.f.__kwdefaults__, {'c': 5, 'd': [1, 2]})
expect('g.__defaults__ (first read)', M.g.__defaults__, (5,))
expect('g.__kwdefaults__', M.g.__kwdefaults__, {'c': 2})
expect('h.__kwdefaults__', M.h.__kwdefaults__, {'c': 2})
expect('h.__defaults__', M.h.__defaults__, (1,))
expect('n.__defaults__', M.n.__defaults__, None)
expect('n.__kwdefaults__', M.n.__kwdefaults__, None)
import inspect
expect('signature(f)', str(inspect.signature(M.f)), '(a, b=1, *, c=5, d=[1, 2])')
print('REPLAY', bad)
print('REPLAY-REPRODUCED' if bad else 'REPLAY-HOLDS')
"""
_NATIVE = None


def replay(rep, cex):
    global _NATIVE
    try:
        if _NATIVE is None:
            _NATIVE = build.native(_B.cfile)
    except build.BuildError as e:
        return None, 'native build failed: %s' % e
    p = subprocess.run(['/verif/.venv/bin/python', '-c', REPLAY % dict(dir=os.path.dirname(_NATIVE), mod=_B.name)], capture_output=True, text=True, timeout=120)
    txt = (p.stdout + p.stderr).strip()[-700:]
    rep.validated += 1
    if p.returncode < 0:
        return True, 'process died with signal %d' % (-p.returncode)
    return 'REPLAY-REPRODUCED' in txt, txt


def run_getters(rep):
    global _B
    _B = build_getters()
    rep.functions += ['Cython/Utility/CythonFunction.c: __Pyx_CyFunction_get_defaults(_locked), __Pyx_CyFunction_get_kwdefaults(_locked), __Pyx_CyFunction_init_defaults [%s]' % build.sha(_B.cfile)]
    res = []
    for which in ('defaults', 'kwdefaults'):
        res += check_getter(which)
    for d in res:
        if d['status'] == 'refuted':
            ok, txt = replay(rep, d['cex'])
            if ok:
                rep.obligation(d['name'], 'refuted', d['s'], True, str(d['cex']))
                rep.violation('%s fails for %s: %s' % (d['name'], d['cex'], txt), dict(cex=d['cex'], replay_output=txt))
            else:
                rep.obligation(d['name'], 'inconclusive', d['s'], True, 'counterexample %s did not reproduce: %s' % (d['cex'], txt))
        else:
            rep.obligation(d['name'], d['status'], d['s'], d.get('mandatory', True), d.get('detail'))
    return len(res)


def run_files(rep, files, timeout, d):
    """like runner.run_conditions, for conditions that live in one module each (all processes at once, 16 at a time)"""
    import concurrent.futures as cf
    if not files:
        return
    with cf.ThreadPoolExecutor(max_workers=16) as ex:
        list(ex.map(lambda fn: runner.run_conditions(rep, fn[0], [Cond(fn[1], timeout)], jobs=1, extra_path=[d]), files))


def run(rep, tier, only=None):
    snapshot.activate()
    rep.functions += ['Cython/CodeWriter.py: ExpressionWriter (operator_enter/operator_exit and every visit_* the expression grammar below reaches), fed by the real parser '
                      '(Cython/Compiler/Parsing.py through TreeFragment.parse_from_strings)',
                      'Cython/Compiler/AutoDocTransforms.py: EmbedSignature._fmt_arglist / _fmt_arg / _fmt_star_arg / _fmt_expr']
    d = snapshot.scratch_dir('c25')
    shutil.copy(H, os.path.join(d, 'h_c25.py'))
    G, files2, files3, B = gen_conditions(d, tier)
    rep.bounds += ['expression texts OUTER[INNER]: %d one-hole contexts (every binary/unary/boolean/comparison operator on either side, chained comparisons, subscript/attribute/call base, '
                   'subscript/slice/call/keyword argument, tuple/list/dict/set display, the three positions of a conditional expression) x %d inner expressions (the same operator '
                   'families, containers incl. the one-element tuple, negative and hex int literals, floats, imaginary, None/True/..., str and bytes literals with quotes/escapes); '
                   'the selectors are symbolic' % (B.NO, B.NI),
                   'thorough: OUTER[OUTER[INNER]] (three levels)' if tier == 'thorough' else 'quick: two levels only',
                   'oracle: CPython ast of the printed text == ast of the fully parenthesised source, modulo u-prefixes, flattening of nested and/or of the same operator and folding of -<number literal>',
                   'argument lists: 0..3 positional-only, 0..3 positional-or-keyword, 0..3 keyword-only parameters, *args and **kw present or not, 0..npo+npa trailing positional defaults',
                   'outside: lambda, comprehensions/generator expressions, f-strings, starred items, walrus, await/yield; annotations (AnnotationWriter) and the c/clinic signature formats; '
                   'the inspect.signature() side (the __signature__-relevant attributes __code__/co_varnames) beyond the two defaults getters; __name__/__qualname__/__module__/__doc__']
    rep.assume("CPython's own parser (ast.parse) defines what a signature text means", 'names stand for arbitrary sub-expressions that are atoms')
    todo = []
    if not only or 'arglist' in only:
        runner.run_twin(rep, G, 'twin_arglist', 120, extra_path=[d])
        todo.append((G, 'arglist'))
    if not only or 'writer' in only:
        runner.run_twin(rep, files2[0][0], 'twin2', 120, extra_path=[d])
        todo += files2 + files3
    run_files(rep, todo, 3000 if tier == 'thorough' else 900, d)
    ng = run_getters(rep) if not only or 'getters' in only else 0
    rep.cov['states'] = ng + B.NO * B.NI * (B.NO if tier == 'thorough' else 1)
    rep.cov['transitions'] = len(files2) + len(files3) + 1
    rep.sample(dict(function='ExpressionWriter.write', inputs='OUTER[INNER] texts selected by symbolic indices', example=B.text2(3, 1)))
