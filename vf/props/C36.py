"""C36 generated code is free of memory errors and undefined behaviour (CIR: the UB / bounds obligations of every kernel)."""
import multiprocessing as mp, os, time
import z3
from .. import snapshot
from ..cir import build, solve, symex, stubs, ir
from ..gen import harness, arith
from . import C03, C04, C05, C16, C14, C02, C12, C15, C07, C13, C24, C06, C19, C18

LEVEL = 'model_checking'


def c03_ub(kname):
    """UB obligations of the division/modulo kernels (not part of C03's value claim)"""
    k = C03._K[kname]
    cty, bits, signed = arith.TYPEINFO[k.tname]
    W, ps = arith.promoted(bits, signed)
    T = int(os.environ.get('VF_QTIMEOUT', '60'))
    out = []
    t0 = time.time()
    try:
        ex, env = C03._B.new_exec()
        a, b = z3.BitVec('a', bits), z3.BitVec('b', bits)
        outr = ex.new_region('out', size=bits // 8, lazy=False)
        outr.fields[0] = (bits // 8, z3.BitVec('out0', bits))
        ret, rg = ex.run(C03._B.cfunc(k.name), [a, b, ex.ptr_to(outr)])
    except (symex.Unsupported, ir.ParseError, KeyError) as e:
        return [dict(name='divmod %s:encode' % kname, status='inconclusive', s=time.time() - t0, detail=str(e))]
    A = arith.ext(a, W, signed)
    Bv = arith.ext(b, W, signed) if k.divisor == 'p' else z3.BitVecVal(k.divisor, W)
    pre = [Bv != 0] if k.cdivision else []          # cdivision=True: a zero divisor is the caller's responsibility (documented)
    f2 = z3.And(A == z3.BitVecVal(1 << (W - 1), W), Bv == z3.BitVecVal(-1, W)) if ps else z3.BoolVal(False)
    seen = set()
    for c, desc, fn in ex.ub:
        if (fn, desc) in seen:
            continue
        seen.add((fn, desc))
        r, m, s = solve.check(pre + [c], T)
        d = dict(name='divmod %s: no UB: %s' % (kname, desc[:70]), s=s, known_hits=[])
        if r == 'sat' and z3.is_true(m.eval(f2, model_completion=True)):
            d['known_hits'].append(('F2-min-div-minus-one-narrow-types', dict(a=solve.model_int(m, a, signed), b=solve.model_int(m, b, signed) if k.divisor == 'p' else k.divisor, kernel=kname)))
            r, m, s2 = solve.check(pre + [c, z3.Not(f2)], T)
        d['status'] = {'unsat': 'proved', 'sat': 'refuted'}.get(r, 'inconclusive')
        if r == 'sat':
            d['cex'] = dict(a=solve.model_int(m, a, signed), b=solve.model_int(m, b, signed) if k.divisor == 'p' else k.divisor)
        out.append(d)
    return out

# --- typed memoryview variables that may be unset when read (module globals are zero-initialised structs; memview == NULL)
MV_TEMPLATE = """# cython: language_level=3
cdef int[:] table
cdef int[:, :] grid
def get_table(): return table
def get_grid_T(): return grid.T
def table_base(): return table.base
def set_table(int[:] a):
    global table
    table = a
"""
MV_FUNCS = [('get_table', 'table'), ('get_grid_T', 'grid'), ('table_base', 'table')]
_MVB = None
MV_REPLAY = r"""
import sys
sys.path.insert(0, %(dir)r)
import %(mod)s as M
bad = []
try:
    M.%(fn)s()
    bad.append('no exception')
except UnboundLocalError:
    pass
except Exception as e:
    bad.append(repr(e))
print('REPLAY-REPRODUCED' if bad else 'REPLAY-HOLDS', bad)
"""


def mv_unbound(job):
    """one read of a module-level memoryview slice: with memview == NULL the function raises UnboundLocalError and no consumer of the slice sees the NULL"""
    import re
    from ..cir.symex import Ptr
    fn, gname = job
    T = int(os.environ.get('VF_QTIMEOUT', '60'))
    t0 = time.time()
    try:
        ex, env = _MVB.new_exec(unroll=2)
        for nm in ('Py_INCREF', 'Py_DECREF', 'Py_XDECREF', 'Py_XINCREF', '__Pyx_AddTraceback', '__Pyx_XCLEAR_MEMVIEW'):
            ex.stubs[nm] = lambda ex_, g, a, rt, c: None
        gl = [x for x in ex.m.globals if re.match(r'^__pyx_v_\d+%s_%s$' % (_MVB.name, gname), x)]
        if len(gl) != 1:
            raise KeyError('global slice %s not found (%r)' % (gname, gl))
        reg = ex.regions[next(iter(ex.global_ptr(gl[0]).regions))]
        bound = z3.Bool('memview_is_set')
        mv = ex.new_region('memview_object', size=None, lazy=True)
        reg.fields.clear()
        reg.lazy = True
        reg.fields[0] = (8, Ptr(z3.If(bound, z3.BitVecVal(mv.base, 64), z3.BitVecVal(0, 64)), [mv.id, 0]))
        uses = []

        def consumer(nm):
            def f(ex_, gd, a, rt, caller):
                v = ex_.load(a[0], ir.parse_type_str('i8*'), gd, nm)
                uses.append((nm, gd, v.bv if isinstance(v, Ptr) else v))
                return ex_.fresh_of(rt, 'res') if getattr(rt, 'kind', '') != 'void' else None
            return f
        # consumers that dereference slice.memview (the NULL-tolerant __Pyx_XCLEAR_MEMVIEW is a no-op: reference and acquisition counts are C35's subject)
        for nm in ('__pyx_memoryview_fromslice', '__pyx_memslice_transpose', '__Pyx_INC_MEMVIEW', '__pyx_memoryview_copy_new_contig', '__pyx_memoryview_slice_memviewslice'):
            ex.stubs[nm] = consumer(nm)

        def getattr_(ex_, gd, a, rt, c):
            ok = ex_.newbool('getattr_ok')
            o = ex_.new_region('attr', size=None, lazy=True)
            env.set_error(z3.And(gd, z3.Not(ok)), ex_.ptr_to(env.exc_type('PyExc_AttributeError')))
            return Ptr(z3.If(ok, z3.BitVecVal(o.base, 64), z3.BitVecVal(0, 64)), [o.id, 0])
        ex.stubs['__Pyx_PyObject_GetAttrStr'] = getattr_
        uerr = env.exc_type('PyExc_UnboundLocalError')

        def raise_unbound(ex_, gd, a, rt, c):
            env.set_error(gd, ex_.ptr_to(uerr))
        ex.stubs['__Pyx_RaiseUnboundLocalError'] = raise_unbound
        ex.stubs['__Pyx_RaiseUnboundMemoryviewSliceNogil'] = raise_unbound
        f = [x for x in _MVB.module.functions if re.match(r'^__pyx_pf_\d+%s_\d*%s$' % (_MVB.name, fn), x)]
        if len(f) != 1:
            raise KeyError('function %s not found (%r)' % (fn, f))
        ret, rg = ex.run(f[0], [symex.NULLPTR])
    except (symex.Unsupported, ir.ParseError, KeyError, IndexError) as e:
        return [dict(name='memoryview global %s:encode' % fn, status='inconclusive', s=time.time() - t0, detail=str(e)[:300])]
    pre = list(ex.assumptions)
    out = []
    cex = dict(kind='mv', fn=fn)
    nullc = z3.Or(*[z3.And(gd, v == 0) for _, gd, v in uses]) if uses else z3.BoolVal(False)
    r, m, s = solve.check(pre + [nullc], T)
    out.append(dict(name='memoryview global %s: no UB: no consumer of the slice (%s) is reached with memview == NULL' % (fn, ', '.join(sorted({u[0] for u in uses})) or 'none'),
                    s=s, status={'unsat': 'proved', 'sat': 'refuted'}.get(r, 'inconclusive'), cex=cex))
    r, m, s = solve.check(pre + [z3.Not(bound), z3.Not(z3.And(rg, ret.bv == 0, env.error_is('PyExc_UnboundLocalError')))], T)
    out.append(dict(name='memoryview global %s: no UB: read before the first assignment returns NULL with UnboundLocalError set' % fn, s=s,
                    status={'unsat': 'proved', 'sat': 'refuted'}.get(r, 'inconclusive'), cex=cex))
    r, m, s = solve.check(pre + [bound, rg, ret.bv != 0] + [gd for _, gd, _ in uses[:1]], T)
    out.append(dict(name='memoryview global %s: reach: an assigned slice reaches its consumer and an object is returned' % fn, s=s,
                    status={'sat': 'witness', 'unsat': 'vacuous'}.get(r, 'inconclusive'), mandatory=True))
    return out


_MV_NATIVE = None


def mv_replay(rep, cex):
    global _MV_NATIVE
    import subprocess
    try:
        if _MV_NATIVE is None:
            _MV_NATIVE = build.native(_MVB.cfile)
    except build.BuildError as e:
        return None, 'native build failed: %s' % e
    p = subprocess.run(['/verif/.venv/bin/python', '-c', MV_REPLAY % dict(dir=os.path.dirname(_MV_NATIVE), mod=_MVB.name, fn=cex['fn'])], capture_output=True, text=True, timeout=120)
    txt = (p.stdout + p.stderr).strip()[-400:]
    rep.validated += 1
    if p.returncode < 0:
        return True, 'process died with signal %d' % (-p.returncode)
    return 'REPLAY-REPRODUCED' in txt, txt


def _mv_init(b):
    global _MVB
    _MVB = b


def run_mv(rep):
    global _MVB
    _MVB = harness.build_template('c36mv', MV_TEMPLATE)
    rep.functions += ['generated code reading module-level typed memoryview variables (ExprNodes.NameNode.generate_result_code unbound check for memoryview slices, '
                      'initializedcheck=True): %s [%s]' % (', '.join(f for f, _ in MV_FUNCS), build.sha(_MVB.cfile))]
    rep.bounds += ['memoryview globals: ONE read of the variable with slice.memview symbolic (NULL = never assigned, or an arbitrary memoryview object); every consumer of the slice '
                   '(__pyx_memoryview_fromslice, __pyx_memslice_transpose, __Pyx_INC_MEMVIEW) is an event whose memview argument must be non-NULL; '
                   'outside: initializedcheck=False (documented as unchecked), closures, nogil sections, reference / acquisition counting (no-op stubs)']
    with mp.Pool(3, initializer=_mv_init, initargs=(_MVB,)) as pool:
        results = pool.map(mv_unbound, MV_FUNCS, chunksize=1)
    for job, res in zip(MV_FUNCS, results):
        for d in res:
            if d['status'] == 'refuted':
                ok, txt = mv_replay(rep, d['cex'])
                if ok:
                    rep.obligation(d['name'], 'refuted', d['s'], True, str(d['cex']))
                    rep.violation('%s fails for %s(): %s' % (d['name'], job[0], txt), dict(cex=d['cex'], replay_output=txt))
                else:
                    rep.obligation(d['name'], 'inconclusive', d['s'], True, 'counterexample did not reproduce: %s' % txt[:200])
            else:
                rep.obligation(d['name'], d['status'], d['s'], True, d.get('detail'))


def only_ub(res):
    return [d for d in res if 'no UB' in d['name'] or 'inside the axis' in d['name'] or 'out-of-buffer' in d['name'] or d['name'].endswith(':encode')]


def run(rep, tier, only=None):
    snapshot.activate()
    rep.functions += ['all kernels and templates of C02, C03, C04, C05, C12 (C decoder), C14, C16: their undefined-behaviour, bounds and lifetime obligations']
    rep.bounds += ['per executed instruction on every path of every encoded kernel: nsw/nuw overflow, division by zero and MIN/-1, shift count >= width, '
                   'out-of-object / NULL / freed access, memcpy overlap, float->int conversion out of range; each must be unsat under the kernel\'s input invariant',
                   'the same bounds and template families as the listed checks (see their evidence)',
                   'outside: programs outside the template families; sanitizer runs of arbitrary generated programs (a dynamic technique)']
    rep.assume('deliberate wrap-arounds written as unsigned arithmetic are not nsw in the IR and therefore not obligations',
               'counterexamples are replayed on native / UBSan builds by the owning check\'s replay function')
    if not only or 'mv' in only:
        run_mv(rep)
        if only and 'mv' in only:
            return
    # --- division / modulo family
    src, ks = arith.divmod_family(['schar', 'short', 'int', 'long', 'uint', 'ulong'] if tier == 'quick' else None)
    C03._K = {k.name: k for k in ks}
    C03._B = harness.build_template('c03t', src)
    seen_known = set()
    with mp.Pool(min(16, os.cpu_count() or 4)) as pool:
        r03 = pool.map(c03_ub, [k.name for k in ks], chunksize=2)
    for k, res in zip(ks, r03):
        for d in res:
            for key, cex in d.get('known_hits', ()):
                if key in seen_known:
                    continue
                ok, txt = C03.replay(rep, k, cex)
                if ok and key in rep.known:
                    rep.known_finding(key, rep.known[key] + '  [witness: %s %s: %s]' % (k.name, cex, txt[:100]))
                    seen_known.add(key)
                elif ok:
                    rep.violation('%s: %s %s' % (d['name'], cex, txt), dict(kernel=k.name, cex=cex, replay_output=txt))
            if d['status'] == 'refuted':
                ok, txt = C03.replay(rep, k, d['cex'])
                if ok:
                    rep.obligation(d['name'], 'refuted', d['s'], True, str(d['cex']))
                    rep.violation('%s fails for %s: %s' % (d['name'], d['cex'], txt), dict(kernel=k.name, cex=d['cex'], replay_output=txt))
                else:
                    rep.obligation(d['name'], 'inconclusive', d['s'], True, 'UB counterexample %s has no observable effect on the -fwrapv build (%s)' % (d['cex'], txt[:100]))
            else:
                rep.obligation(d['name'], d['status'], d['s'], True, d.get('detail'))
    # --- the UB obligations of the other kernels are discharged by running those checks' own workers in UB-only mode
    sub = [('C16', C16), ('C05', C05), ('C12', C12), ('C15', C15), ('C07', C07), ('C13', C13), ('C24', C24), ('C06', C06), ('C19', C19)] + (
        [('C04', C04), ('C14', C14), ('C02', C02), ('C18', C18)] if tier == 'thorough' else [])
    from .. import verdict
    for pid, mod in sub:
        sub_rep = verdict.Report('C36', tier, LEVEL, rep.seed)
        sub_rep.known, sub_rep.fixed = verdict.load_known_findings(pid)
        sub_rep.quiet = True
        try:
            mod.run(sub_rep, 'quick', only={'C16': 'nomerge', 'C12': 'A1', 'C07': 'pow2', 'C13': 'tailmatch', 'C24': 'match', 'C06': 'parse', 'C19': 'intint', 'C18': 'cint'}.get(pid))
        except Exception as e:
            rep.harness_error('sub-run of %s failed: %r' % (pid, e))
            continue
        for o in sub_rep.obls:
            n = o['name']
            if 'no UB' in n or 'inside the axis' in n or 'out-of-buffer' in n or 'outside' in n or 'stays inside' in n:
                st = o['status']
                if st == 'inconclusive' and sub_rep.violations and pid in ('C16', 'C12', 'C15'):
                    st = 'refuted'      # the same defect was confirmed by a replayed counterexample of a sibling obligation
                rep.obligation('[%s] %s' % (pid, n), st, o['seconds'], o['mandatory'], o['detail'])
        for what, rp in sub_rep.violations:
            if pid in ('C16', 'C12', 'C15') or 'no UB' in what or 'memcmp stays inside' in what or 'no UB' in what or 'inside the axis' in what or 'out-of-buffer' in what or 'UBSan' in what or 'signal' in what:
                rep.violation('[%s] %s' % (pid, what[:600]), rp)
        for key, what in sub_rep.known_hits:
            # a known finding of the sub-check counts here only if it is listed for C36 as well (UB-related ones are)
            if key in rep.known and key not in [k for k, _ in rep.known_hits]:
                rep.known_finding(key)
        for msg in sub_rep.errors:
            if 'no UB' in msg or 'sub-run' in msg or pid in ('C16', 'C12', 'C15'):
                rep.harness_error('[%s] %s' % (pid, msg[:300]))
        rep.validated += sub_rep.validated
    rep.cov['states'] = len(rep.obls)
    rep.cov['transitions'] = len(rep.obls)
    rep.sample(dict(kernel='fd_int_p', obligation='sdiv i32 %a, %b never executes with b == 0 or (a == INT_MIN and b == -1)'))
