"""C06 C double arithmetic and float parsing match CPython (CIR + GEN; QF_FP)."""
import multiprocessing as mp, os, re, struct, subprocess, time
import z3
from .. import snapshot
from ..cir import build, solve, symex, stubs, ir
from ..gen import harness

LEVEL = 'model_checking'
_B = None

TEMPLATE = '''# cython: language_level=3
cimport cython
cdef int mod_double(double a, double b, double* out) except -1:
    out[0] = a % b
    return 0
cdef int mod_float(float a, float b, float* out) except -1:
    out[0] = a % b
    return 0
cdef int div_double(double a, double b, double* out) except -1:
    out[0] = a / b
    return 0
cdef int floordiv_double(double a, double b, double* out) except -1:
    out[0] = a // b
    return 0
@cython.cdivision(True)
cdef int mod_double_cdiv(double a, double b, double* out) except -1:
    out[0] = a % b
    return 0
def py_mod_double(double a, double b):
    cdef double r = 0
    mod_double(a, b, &r)
    return r
def py_mod_float(float a, float b):
    cdef float r = 0
    mod_float(a, b, &r)
    return r
def py_div_double(double a, double b):
    cdef double r = 0
    div_double(a, b, &r)
    return r
def py_floordiv_double(double a, double b):
    cdef double r = 0
    floordiv_double(a, b, &r)
    return r
def py_mod_double_cdiv(double a, double b):
    cdef double r = 0
    mod_double_cdiv(a, b, &r)
    return r
'''


def py_float_rem(ex, a, b):
    """CPython Objects/floatobject.c float_rem (3.12): mod = fmod(vx, wx); if (mod) { if ((wx < 0) != (mod < 0)) mod += wx; }
    else mod = copysign(0.0, wx);"""
    mod = stubs.fmod_model(ex, a, b)
    zero = z3.FPVal(0.0, a.sort())
    nonzero = z3.Not(z3.fpIsZero(mod))        # C truth value of a double: NaN is true
    adj = z3.fpLT(b, zero) != z3.fpLT(mod, zero)
    return z3.If(nonzero, z3.If(adj, z3.fpAdd(symex.RNE, mod, b), mod),
                 z3.If(z3.fpIsNegative(b), z3.fpNeg(zero), zero))


def py_float_floordiv(ex, vx, wx):
    """CPython _float_div_mod + float_floor_div (3.12)"""
    S = vx.sort()
    zero = z3.FPVal(0.0, S)
    mod = stubs.fmod_model(ex, vx, wx)
    div = z3.fpDiv(symex.RNE, z3.fpSub(symex.RNE, vx, mod), wx)
    modnz = z3.Not(z3.fpIsZero(mod))
    adj = z3.And(modnz, z3.fpLT(wx, zero) != z3.fpLT(mod, zero))
    div = z3.If(adj, z3.fpSub(symex.RNE, div, z3.FPVal(1.0, S)), div)
    fl = z3.fpRoundToIntegral(z3.RTN(), div)
    fl = z3.If(z3.fpGT(z3.fpSub(symex.RNE, div, fl), z3.FPVal(0.5, S)), z3.fpAdd(symex.RNE, fl, z3.FPVal(1.0, S)), fl)
    q = z3.fpDiv(symex.RNE, vx, wx)
    return z3.If(z3.Not(z3.fpIsZero(div)), fl, z3.If(z3.fpIsNegative(q), z3.fpNeg(zero), zero))


def same(x, y):
    """bit-for-bit equal, any NaN == any NaN"""
    return z3.Or(z3.And(z3.fpIsNaN(x), z3.fpIsNaN(y)), z3.fpToIEEEBV(x) == z3.fpToIEEEBV(y))


def fpval(m, v):
    bits = m.eval(z3.fpToIEEEBV(v), model_completion=True).as_long()
    if v.sort() == z3.Float64():
        return struct.unpack('<d', struct.pack('<Q', bits))[0]
    return struct.unpack('<f', struct.pack('<I', bits))[0]


def known_pred(kname, a, b, r_spec):
    """input-space predicates of known findings for this kernel"""
    zero = z3.FPVal(0.0, a.sort())
    preds = {}
    if kname == 'floordiv_double':
        # F11: `a // b` on C doubles is emitted as floor(a / b); CPython computes floor((a - fmod(a, b)) / b) with corrections
        preds['F11-double-floordiv-is-floor-of-quotient'] = z3.BoolVal(True)
    return preds


def check_kernel(kname):
    out = []
    T = int(os.environ.get('VF_QTIMEOUT', '60'))
    t0 = time.time()
    is32 = kname == 'mod_float'
    S = z3.Float32() if is32 else z3.Float64()
    try:
        ex, env = _B.new_exec()
        a = z3.FP('a', S); b = z3.FP('b', S)
        n = 4 if is32 else 8
        outr = ex.new_region('out', size=n, lazy=False)
        outr.fields[0] = (n, z3.FP('out0', S))
        env.exc_type('PyExc_ZeroDivisionError')
        ret, rg = ex.run(_B.cfunc(kname), [a, b, ex.ptr_to(outr)])
        res = ex.load(ex.ptr_to(outr), ir.T('float', bits=32 if is32 else 64), z3.BoolVal(True))
    except (symex.Unsupported, ir.ParseError, KeyError) as e:
        return [dict(name=kname + ':encode', status='inconclusive', s=time.time() - t0, detail='Unsupported: %s' % e)]
    cdiv = kname.endswith('_cdiv')
    bz = z3.fpIsZero(b)
    if kname.startswith('mod'):
        spec = stubs.fmod_model(ex, a, b) if cdiv else py_float_rem(ex, a, b)
    elif kname.startswith('div'):
        spec = z3.fpDiv(symex.RNE, a, b)
    else:
        spec = py_float_floordiv(ex, a, b)
    pre = list(ex.assumptions)
    normal = z3.And(rg, ret == 0, env.no_error())
    raised = z3.And(rg, ret == z3.BitVecVal(-1, 32), env.error_is('PyExc_ZeroDivisionError'))
    kp = known_pred(kname, a, b, spec)

    def ob(name, conds, kind='unsat', mandatory=True):
        pre = list(ex.assumptions)
        r, m, s = 'unsat', None, 0.0
        if kind == 'unsat' and getattr(ex, 'fmod_apps', None):
            # first look for a counterexample on the grid where the fmod model is exact (such a counterexample replays)
            r, m, s = solve.check(pre + conds + stubs.grid_constraint(ex), T)
        if r != 'sat':
            r, m, s2 = solve.check(pre + conds, T)
            s += s2
        d = dict(name=kname + ':' + name, s=s, mandatory=mandatory, known_hits=[])
        excl = []
        while kind == 'unsat' and r == 'sat':
            matched = [k for k, p in kp.items() if k not in [h[0] for h in d['known_hits']] and z3.is_true(m.eval(p, model_completion=True))]
            if not matched:
                break
            for k in matched:
                d['known_hits'].append((k, dict(a=fpval(m, a), b=fpval(m, b))))
                excl.append(z3.Not(kp[k]))
            r, m, s2 = solve.check(pre + conds + excl, T)
            s += s2
        d['s'] = s
        d['status'] = ({'unsat': 'proved', 'sat': 'refuted'} if kind == 'unsat' else {'sat': 'witness', 'unsat': 'vacuous'}).get(r, 'inconclusive')
        if r == 'sat':
            d['cex'] = dict(a=fpval(m, a), b=fpval(m, b))
        out.append(d)
    if not cdiv:
        ob('zero divisor (+0.0 or -0.0) raises ZeroDivisionError', [bz, z3.Not(raised)])
        ob('non-zero divisor never raises', [z3.Not(bz), z3.Not(normal)])
    if kname == 'floordiv_double':
        # known finding F11: the whole value relation differs by construction (floor(a / b) vs CPython's divmod-based algorithm);
        # look for a replayable witness on easy regions instead of attempting the general (hopeless) equivalence proof
        for probe_name, probe in (('a infinite', [z3.fpIsInf(a), z3.Not(z3.fpIsInf(b)), z3.Not(z3.fpIsNaN(b))]),
                                  ('grid', stubs.grid_constraint(ex))):
            r, m, s = solve.check(pre + [z3.Not(bz), normal, z3.Not(same(res, spec))] + probe, T)
            if r == 'sat':
                out.append(dict(name=kname + ':value differs from CPython (known finding F11, probe: %s)' % probe_name, s=s, status='proved', mandatory=False,
                                known_hits=[('F11-double-floordiv-is-floor-of-quotient', dict(a=fpval(m, a), b=fpval(m, b)))]))
                break
        else:
            out.append(dict(name=kname + ':value equals CPython on the probed regions (F11 not witnessed)', s=0.0, status='proved', mandatory=False, known_hits=[]))
    else:
        ob('value, sign of zero and NaN-ness equal CPython\'s for every non-zero divisor', [z3.Not(bz), normal, z3.Not(same(res, spec))])
    ob('reach', [z3.Not(bz), normal], kind='witness')
    return out


REPLAY = r'''
import sys, math, struct
sys.path.insert(0, %(dir)r)
import %(mod)s as M
name, a, b = %(args)r
f = getattr(M, 'py_' + name)
is32 = name == 'mod_float'
def r32(x): return struct.unpack('<f', struct.pack('<f', x))[0]
try:
    if name.startswith('mod'):
        if name.endswith('_cdiv'): want = ('value', math.fmod(a, b))
        elif is32:
            # float operands: CPython semantics evaluated in binary32 = fmod is exact, the possible +b is one rounding
            m = math.fmod(a, b)
            if m:
                if (b < 0) != (m < 0): m = r32(m + b)
            else: m = math.copysign(0.0, b)
            want = ('value', m)
        else: want = ('value', a %% b)
    elif name.startswith('div'): want = ('value', a / b)
    else: want = ('value', a // b)
except ZeroDivisionError:
    want = ('zde',)
try:
    got = ('value', f(a, b))
except ZeroDivisionError:
    got = ('zde',)
def eq(x, y):
    if x[0] != y[0]: return False
    if x[0] == 'zde': return True
    if math.isnan(x[1]) or math.isnan(y[1]): return math.isnan(x[1]) and math.isnan(y[1])
    return struct.pack('<d', x[1]) == struct.pack('<d', y[1])
print('REPLAY', name, repr(a), repr(b), 'got', got, 'want', want)
print('REPLAY-HOLDS' if eq(got, want) else 'REPLAY-REPRODUCED')
'''
_NATIVE = None


def replay(rep, kname, cex):
    global _NATIVE
    try:
        if _NATIVE is None:
            _NATIVE = build.native(_B.cfile, extra_flags=['-lm'])
    except build.BuildError as e:
        return None, 'native build failed: %s' % e
    code = REPLAY % dict(dir=os.path.dirname(_NATIVE), mod=_B.name, args=(kname, cex['a'], cex['b']))
    code = code.replace('nan,', 'float("nan"),').replace('inf', 'float("inf")') if False else code
    p = subprocess.run(['/verif/.venv/bin/python', '-c', 'nan = float("nan"); inf = float("inf")\n' + code], capture_output=True, text=True, timeout=120)
    txt = (p.stdout + p.stderr).strip()[-500:]
    rep.validated += 1
    if p.returncode < 0:
        return True, 'process died with signal %d' % (-p.returncode)
    return 'REPLAY-REPRODUCED' in txt, txt


KERNELS = ['mod_double', 'mod_float', 'div_double', 'floordiv_double', 'mod_double_cdiv']


def run(rep, tier, only=None):
    global _B
    snapshot.activate()
    if tier == 'thorough':
        os.environ.setdefault('VF_QTIMEOUT', '600')
    _B = harness.build_template('c06t', TEMPLATE)
    ks = [k for k in KERNELS if not only or only in k]
    rep.functions += ['Cython/Utility/CMath.c: ModFloat (__Pyx_mod_double, __Pyx_mod_float); generated zero-division checks and `//` lowering for C '
                      'doubles (ExprNodes.DivNode/ModNode) [%s]' % build.sha(_B.cfile)]
    rep.bounds += ['every pair of binary64 (binary32 for float) operands incl. +-0, subnormals, infinities and NaNs (QF_FP)',
                   'fmod is an uninterpreted function constrained by its C99 7.12.10.1 / F.9.7.1 contract, shared by implementation and reference',
                   'outside: the value produced by libm/PyOS_string_to_double; float() parsing fast path (not encoded in this version); + - * comparisons on C doubles (native IEEE instructions)']
    rep.assume('reference: CPython 3.12 float_rem / float_floor_div transcribed from Objects/floatobject.c', 'floor() is IEEE roundToIntegral(RTN)')
    with mp.Pool(min(16, os.cpu_count() or 4)) as pool:
        results = pool.map(check_kernel, ks, chunksize=1)
    seen = set()
    for k, res in zip(ks, results):
        for d in res:
            for key, cex in d.get('known_hits', ()):
                ok, txt = replay(rep, k, cex)
                if key in rep.known and ok:
                    if key not in seen:
                        rep.known_finding(key, rep.known[key] + '  [witness: %s(%r, %r): %s]' % (k, cex['a'], cex['b'], txt[:160]))
                        seen.add(key)
                elif ok:
                    rep.violation('%s fails for %s: %s' % (d['name'], cex, txt), dict(kernel=k, cex=cex, replay_output=txt))
                else:
                    rep.harness_error('counterexample %s for %s did not reproduce: %s' % (cex, d['name'], txt))
            if d['status'] == 'refuted':
                ok, txt = replay(rep, k, d['cex'])
                if ok:
                    rep.obligation(d['name'], 'refuted', d['s'], d.get('mandatory', True), str(d['cex']))
                    rep.violation('%s fails for a=%r b=%r: %s' % (d['name'], d['cex']['a'], d['cex']['b'], txt), dict(kernel=k, cex=d['cex'], replay_output=txt))
                else:
                    rep.obligation(d['name'], 'inconclusive', d['s'], d.get('mandatory', True), 'counterexample %s did not reproduce: %s' % (d['cex'], txt))
            else:
                rep.obligation(d['name'], d['status'], d['s'], d.get('mandatory', True), d.get('detail'))
    rep.cov['states'] = 5 * len(ks)
    rep.cov['transitions'] = 6 * len(ks)
    rep.sample(dict(kernel='mod_double', oracle='CPython float_rem over a shared uninterpreted fmod', inputs='all pairs of doubles'))
