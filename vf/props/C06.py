"""C06 C double arithmetic and float parsing match CPython (CIR + GEN; QF_FP)."""
import multiprocessing as mp, os, re, struct, subprocess, time
import z3
from .. import snapshot
from ..cir import build, solve, symex, stubs, ir
from ..gen import harness

LEVEL = 'model_checking'
_B = None

TEMPLATE = '''# cython: language_level=3
cimport cython
cdef int mod_double(double a, double b, double* out) except -1:
    out[0] = a % b
    return 0
cdef int mod_float(float a, float b, float* out) except -1:
    out[0] = a % b
    return 0
cdef int div_double(double a, double b, double* out) except -1:
    out[0] = a / b
    return 0
cdef int floordiv_double(double a, double b, double* out) except -1:
    out[0] = a // b
    return 0
@cython.cdivision(True)
cdef int mod_double_cdiv(double a, double b, double* out) except -1:
    out[0] = a % b
    return 0
def to_float_b(bytes s): return float(s)
def to_float_u(str s): return float(s)
def py_mod_double(double a, double b):
    cdef double r = 0
    mod_double(a, b, &r)
    return r
def py_mod_float(float a, float b):
    cdef float r = 0
    mod_float(a, b, &r)
    return r
def py_div_double(double a, double b):
    cdef double r = 0
    div_double(a, b, &r)
    return r
def py_floordiv_double(double a, double b):
    cdef double r = 0
    floordiv_double(a, b, &r)
    return r
def py_mod_double_cdiv(double a, double b):
    cdef double r = 0
    mod_double_cdiv(a, b, &r)
    return r
'''


def py_float_rem(ex, a, b):
    """CPython Objects/floatobject.c float_rem (3.12): mod = fmod(vx, wx); if (mod) { if ((wx < 0) != (mod < 0)) mod += wx; }
    else mod = copysign(0.0, wx);"""
    mod = stubs.fmod_model(ex, a, b)
    zero = z3.FPVal(0.0, a.sort())
    nonzero = z3.Not(z3.fpIsZero(mod))        # C truth value of a double: NaN is true
    adj = z3.fpLT(b, zero) != z3.fpLT(mod, zero)
    return z3.If(nonzero, z3.If(adj, z3.fpAdd(symex.RNE, mod, b), mod),
                 z3.If(z3.fpIsNegative(b), z3.fpNeg(zero), zero))


def py_float_floordiv(ex, vx, wx):
    """CPython _float_div_mod + float_floor_div (3.12)"""
    S = vx.sort()
    zero = z3.FPVal(0.0, S)
    mod = stubs.fmod_model(ex, vx, wx)
    div = z3.fpDiv(symex.RNE, z3.fpSub(symex.RNE, vx, mod), wx)
    modnz = z3.Not(z3.fpIsZero(mod))
    adj = z3.And(modnz, z3.fpLT(wx, zero) != z3.fpLT(mod, zero))
    div = z3.If(adj, z3.fpSub(symex.RNE, div, z3.FPVal(1.0, S)), div)
    fl = z3.fpRoundToIntegral(z3.RTN(), div)
    fl = z3.If(z3.fpGT(z3.fpSub(symex.RNE, div, fl), z3.FPVal(0.5, S)), z3.fpAdd(symex.RNE, fl, z3.FPVal(1.0, S)), fl)
    q = z3.fpDiv(symex.RNE, vx, wx)
    return z3.If(z3.Not(z3.fpIsZero(div)), fl, z3.If(z3.fpIsNegative(q), z3.fpNeg(zero), zero))


def same(x, y):
    """bit-for-bit equal, any NaN == any NaN"""
    return z3.Or(z3.And(z3.fpIsNaN(x), z3.fpIsNaN(y)), z3.fpToIEEEBV(x) == z3.fpToIEEEBV(y))


def fpval(m, v):
    bits = m.eval(z3.fpToIEEEBV(v), model_completion=True).as_long()
    if v.sort() == z3.Float64():
        return struct.unpack('<d', struct.pack('<Q', bits))[0]
    return struct.unpack('<f', struct.pack('<I', bits))[0]


def known_pred(kname, a, b, r_spec):
    """input-space predicates of known findings for this kernel"""
    zero = z3.FPVal(0.0, a.sort())
    preds = {}
    if kname == 'floordiv_double':
        # F11: `a // b` on C doubles is emitted as floor(a / b); CPython computes floor((a - fmod(a, b)) / b) with corrections
        preds['F11-double-floordiv-is-floor-of-quotient'] = z3.BoolVal(True)
    return preds


def check_kernel(kname):
    out = []
    T = int(os.environ.get('VF_QTIMEOUT', '180'))
    t0 = time.time()
    is32 = kname == 'mod_float'
    S = z3.Float32() if is32 else z3.Float64()
    try:
        ex, env = _B.new_exec()
        a = z3.FP('a', S); b = z3.FP('b', S)
        n = 4 if is32 else 8
        outr = ex.new_region('out', size=n, lazy=False)
        outr.fields[0] = (n, z3.FP('out0', S))
        env.exc_type('PyExc_ZeroDivisionError')
        ret, rg = ex.run(_B.cfunc(kname), [a, b, ex.ptr_to(outr)])
        res = ex.load(ex.ptr_to(outr), ir.T('float', bits=32 if is32 else 64), z3.BoolVal(True))
    except (symex.Unsupported, ir.ParseError, KeyError) as e:
        return [dict(name=kname + ':encode', status='inconclusive', s=time.time() - t0, detail='Unsupported: %s' % e)]
    cdiv = kname.endswith('_cdiv')
    bz = z3.fpIsZero(b)
    if kname.startswith('mod'):
        spec = stubs.fmod_model(ex, a, b) if cdiv else py_float_rem(ex, a, b)
    elif kname.startswith('div'):
        spec = z3.fpDiv(symex.RNE, a, b)
    else:
        spec = py_float_floordiv(ex, a, b)
    pre = list(ex.assumptions)
    normal = z3.And(rg, ret == 0, env.no_error())
    raised = z3.And(rg, ret == z3.BitVecVal(-1, 32), env.error_is('PyExc_ZeroDivisionError'))
    kp = known_pred(kname, a, b, spec)

    def ob(name, conds, kind='unsat', mandatory=True):
        pre = list(ex.assumptions)
        r, m, s = 'unsat', None, 0.0
        if kind == 'unsat' and getattr(ex, 'fmod_apps', None):
            # first look for a counterexample on the grid where the fmod model is exact (such a counterexample replays)
            r, m, s = solve.check(pre + conds + stubs.grid_constraint(ex), T)
        if r != 'sat':
            r, m, s2 = solve.check(pre + conds, T)
            s += s2
        d = dict(name=kname + ':' + name, s=s, mandatory=mandatory, known_hits=[])
        excl = []
        while kind == 'unsat' and r == 'sat':
            matched = [k for k, p in kp.items() if k not in [h[0] for h in d['known_hits']] and z3.is_true(m.eval(p, model_completion=True))]
            if not matched:
                break
            for k in matched:
                d['known_hits'].append((k, dict(a=fpval(m, a), b=fpval(m, b))))
                excl.append(z3.Not(kp[k]))
            r, m, s2 = solve.check(pre + conds + excl, T)
            s += s2
        d['s'] = s
        d['status'] = ({'unsat': 'proved', 'sat': 'refuted'} if kind == 'unsat' else {'sat': 'witness', 'unsat': 'vacuous'}).get(r, 'inconclusive')
        if r == 'sat':
            d['cex'] = dict(a=fpval(m, a), b=fpval(m, b))
        out.append(d)
    if not cdiv:
        ob('zero divisor (+0.0 or -0.0) raises ZeroDivisionError', [bz, z3.Not(raised)])
        ob('non-zero divisor never raises', [z3.Not(bz), z3.Not(normal)])
    if kname == 'floordiv_double':
        # known finding F11: the whole value relation differs by construction (floor(a / b) vs CPython's divmod-based algorithm);
        # look for a replayable witness on easy regions instead of attempting the general (hopeless) equivalence proof
        for probe_name, probe in (('a infinite', [z3.fpIsInf(a), z3.Not(z3.fpIsInf(b)), z3.Not(z3.fpIsNaN(b))]),
                                  ('grid', stubs.grid_constraint(ex))):
            r, m, s = solve.check(pre + [z3.Not(bz), normal, z3.Not(same(res, spec))] + probe, T)
            if r == 'sat':
                out.append(dict(name=kname + ':value differs from CPython (known finding F11, probe: %s)' % probe_name, s=s, status='proved', mandatory=False,
                                known_hits=[('F11-double-floordiv-is-floor-of-quotient', dict(a=fpval(m, a), b=fpval(m, b)))]))
                break
        else:
            out.append(dict(name=kname + ':value equals CPython on the probed regions (F11 not witnessed)', s=0.0, status='proved', mandatory=False, known_hits=[]))
    else:
        ob('value, sign of zero and NaN-ness equal CPython\'s for every non-zero divisor', [z3.Not(bz), normal, z3.Not(same(res, spec))])
    ob('reach', [z3.Not(bz), normal], kind='witness')
    return out


REPLAY = r'''
import sys, math, struct
sys.path.insert(0, %(dir)r)
import %(mod)s as M
name, a, b = %(args)r
f = getattr(M, 'py_' + name)
is32 = name == 'mod_float'
def r32(x): return struct.unpack('<f', struct.pack('<f', x))[0]
try:
    if name.startswith('mod'):
        if name.endswith('_cdiv'): want = ('value', math.fmod(a, b))
        elif is32:
            # float operands: CPython semantics evaluated in binary32 = fmod is exact, the possible +b is one rounding
            m = math.fmod(a, b)
            if m:
                if (b < 0) != (m < 0): m = r32(m + b)
            else: m = math.copysign(0.0, b)
            want = ('value', m)
        else: want = ('value', a %% b)
    elif name.startswith('div'): want = ('value', a / b)
    else: want = ('value', a // b)
except ZeroDivisionError:
    want = ('zde',)
try:
    got = ('value', f(a, b))
except ZeroDivisionError:
    got = ('zde',)
def eq(x, y):
    if x[0] != y[0]: return False
    if x[0] == 'zde': return True
    if math.isnan(x[1]) or math.isnan(y[1]): return math.isnan(x[1]) and math.isnan(y[1])
    return struct.pack('<d', x[1]) == struct.pack('<d', y[1])
print('REPLAY', name, repr(a), repr(b), 'got', got, 'want', want)
print('REPLAY-HOLDS' if eq(got, want) else 'REPLAY-REPRODUCED')
'''
_NATIVE = None


def replay(rep, kname, cex):
    global _NATIVE
    try:
        if _NATIVE is None:
            _NATIVE = build.native(_B.cfile, extra_flags=['-lm'])
    except build.BuildError as e:
        return None, 'native build failed: %s' % e
    code = REPLAY % dict(dir=os.path.dirname(_NATIVE), mod=_B.name, args=(kname, cex['a'], cex['b']))
    code = code.replace('nan,', 'float("nan"),').replace('inf', 'float("inf")') if False else code
    p = subprocess.run(['/verif/.venv/bin/python', '-c', 'nan = float("nan"); inf = float("inf")\n' + code], capture_output=True, text=True, timeout=120)
    txt = (p.stdout + p.stderr).strip()[-500:]
    rep.validated += 1
    if p.returncode < 0:
        return True, 'process died with signal %d' % (-p.returncode)
    return 'REPLAY-REPRODUCED' in txt, txt


# ---- float(bytes) fast path: __Pyx__PyBytes_AsDouble over an arbitrary buffer --------------------------------------------------
MAXL = 7


def _isdigit(c):
    return z3.And(z3.UGE(c, 48), z3.ULE(c, 57))


def _trans(st, c):
    """one step of the float-literal DFA (digits [. digits] [e [sign] digits] with optional leading sign; '1.' and '.5' allowed)"""
    dig, sign, dot, e = _isdigit(c), z3.Or(c == 43, c == 45), c == 46, z3.Or(c == 101, c == 69)
    S = lambda v: z3.BitVecVal(v, 4)
    R = S(9)
    return z3.If(st == 0, z3.If(dig, S(2), z3.If(sign, S(1), z3.If(dot, S(4), R))),
           z3.If(st == 1, z3.If(dig, S(2), z3.If(dot, S(4), R)),
           z3.If(st == 2, z3.If(dig, S(2), z3.If(dot, S(3), z3.If(e, S(6), R))),
           z3.If(st == 3, z3.If(dig, S(5), z3.If(e, S(6), R)),
           z3.If(st == 4, z3.If(dig, S(5), R),
           z3.If(st == 5, z3.If(dig, S(5), z3.If(e, S(6), R)),
           z3.If(st == 6, z3.If(dig, S(8), z3.If(sign, S(7), R)),
           z3.If(st == 7, z3.If(dig, S(8), R),
           z3.If(st == 8, z3.If(dig, S(8), R), R)))))))))


def _accepting(st):
    return z3.Or(st == 2, st == 3, st == 5, st == 8)


def _dfa(chars, n, skip_underscore):
    st = z3.BitVecVal(0, 4)
    for k, c in enumerate(chars):
        step = _trans(st, c)
        if skip_underscore:
            step = z3.If(c == 95, st, step)
        st = z3.If(z3.BitVecVal(k, 64) < n, step, st)
    return _accepting(st)


def check_parse(_):
    out = []
    t0 = time.time()
    fname = '__Pyx__PyBytes_AsDouble'
    try:
        ex, env = _B.new_exec(unroll=MAXL + 2)
        L = z3.BitVec('length', 64)
        buf = ex.new_region('text', size=L + 1, kind='elems', elemsize=1)
        chars = [z3.Select(buf.array, z3.BitVecVal(k, 64)) for k in range(MAXL + 1)]
        obj, oinv = env.make_opaque('obj')
        calls = []
        i8 = ir.T('int', bits=8)
        verr = env.exc_type('PyExc_ValueError')

        def strtod(ex_, g, a, rt, caller):
            # PyOS_string_to_double(s, &end, NULL): the whole NUL-terminated string is a float literal -> end = its end;
            # otherwise end stops earlier, or (no valid prefix) -1.0 with ValueError and end = s
            sc = [ex_.load(symex.Ptr(a[0].bv + k, a[0].regions), i8, g, 'stub') for k in range(MAXL + 1)]
            n = z3.BitVecVal(MAXL + 1, 64)
            for k in reversed(range(MAXL + 1)):
                n = z3.If(sc[k] == 0, z3.BitVecVal(k, 64), n)
            full = z3.And(_dfa(sc[:MAXL], n, False), n <= MAXL)
            idx = len(calls)
            stop = z3.BitVec('strtod_stop_%d' % idx, 64)
            noprefix = z3.Bool('strtod_no_prefix_%d' % idx)
            val = z3.FP('strtod_value_%d' % idx, z3.Float64())
            ex_.assumptions.append(z3.And(stop >= 0, stop < n))
            endp = z3.If(full, a[0].bv + n, z3.If(noprefix, a[0].bv, a[0].bv + stop))
            ex_.store(a[1], symex.Ptr(endp, a[0].regions), ir.T('ptr', elem=i8), g, 'stub')
            env.set_error(z3.And(g, z3.Not(full), noprefix), ex_.ptr_to(verr))
            calls.append(dict(e=env.event(g, 'strtod', a, val), full=full, chars=sc, n=n))
            return z3.If(z3.And(z3.Not(full), noprefix), z3.FPVal(-1.0, z3.Float64()), val)
        ex.stubs['PyOS_string_to_double'] = strtod
        fb = []

        def fallback(ex_, g, a, rt, caller):
            r = z3.FP('fallback_value', z3.Float64())
            fb.append(env.event(g, 'fallback', a, r))
            return r
        ex.stubs['__Pyx_SlowPyString_AsDouble'] = fallback
        ret, rg = ex.run(fname, [obj, ex.ptr_to(buf), L])
    except (symex.Unsupported, ir.ParseError, KeyError, IndexError) as e:
        return [dict(name='float(bytes):encode', status='inconclusive', s=time.time() - t0, detail='Unsupported: %s' % str(e)[:300], mandatory=True)]
    isspace = lambda c: z3.Or(c == 32, z3.And(z3.UGE(c, 9), z3.ULE(c, 13)))
    text = chars[:MAXL]
    pre = [oinv, L >= 1, L <= MAXL, z3.Select(buf.array, L) == 0] + [z3.Implies(z3.BitVecVal(k, 64) < L, z3.And(c != 0, z3.Not(isspace(c)))) for k, c in enumerate(text)] + list(ex.assumptions)
    # CPython: underscores only between digits, the rest (underscores removed) a float literal; or [sign] inf / infinity / nan
    und_ok = z3.BoolVal(True)
    for k, c in enumerate(text):
        prev_d = _isdigit(text[k - 1]) if k > 0 else z3.BoolVal(False)
        next_d = z3.And(_isdigit(text[k + 1]), z3.BitVecVal(k + 1, 64) < L) if k + 1 < MAXL else z3.BoolVal(False)
        und_ok = z3.And(und_ok, z3.Implies(z3.And(z3.BitVecVal(k, 64) < L, c == 95), z3.And(prev_d, next_d)))
    lower = lambda c: z3.If(z3.And(z3.UGE(c, 65), z3.ULE(c, 90)), c + 32, c)

    def word_at(off, w):
        return z3.And(*[lower(text[off + i]) == ord(ch) for i, ch in enumerate(w)]) if off + len(w) <= MAXL else z3.BoolVal(False)
    infnan = z3.BoolVal(False)
    for off in (0, 1):
        signed_ok = z3.Or(text[0] == 43, text[0] == 45) if off else z3.BoolVal(True)
        for w in ('nan', 'inf'):
            infnan = z3.Or(infnan, z3.And(signed_ok, L == off + 3, word_at(off, w)))
    accept = z3.Or(z3.And(und_ok, _dfa(text, L, True)), infnan)
    fell_back = z3.Or(*[e.guard for e in fb]) if fb else z3.BoolVal(False)

    def cexf(m):
        n = m.eval(L, model_completion=True).as_long()
        return dict(kind='parse', text=bytes(m.eval(c, model_completion=True).as_long() for c in text[:n]).decode('latin-1'))

    def ob(name, conds, kind_='unsat'):
        r, m, s_ = solve.check(pre + conds, int(os.environ.get('VF_QTIMEOUT', '120')))
        d = dict(name='float(bytes) fast path: %s' % name, s=s_, mandatory=True)
        d['status'] = ({'unsat': 'proved', 'sat': 'refuted'} if kind_ == 'unsat' else {'sat': 'witness', 'unsat': 'vacuous'}).get(r, 'inconclusive')
        if r == 'sat' and kind_ == 'unsat':
            d['cex'] = cexf(m)
        out.append(d)
    ob('a value is returned without consulting CPython only for texts CPython accepts (underscores between digits only), for every text of 1..%d bytes' % MAXL,
       [rg, z3.Not(fell_back), env.no_error(), z3.Not(accept)])
    for c in calls:
        pass
    # the string handed to the number parser is the text with exactly the underscores removed
    if calls:
        bad = z3.BoolVal(False)
        for c in calls:
            # compaction check: count of non-underscore chars == n, and the j-th kept char equals c.chars[j]
            j = z3.BitVecVal(0, 64)
            okc = z3.BoolVal(True)
            for k, ch in enumerate(text):
                live = z3.And(z3.BitVecVal(k, 64) < L, ch != 95)
                for jj in range(MAXL):
                    okc = z3.And(okc, z3.Implies(z3.And(live, j == jj), c['chars'][jj] == ch))
                j = z3.If(live, j + 1, j)
            bad = z3.Or(bad, z3.And(c['e'].guard, z3.Not(z3.And(okc, c['n'] == j))))
        ob('the number parser receives the text with exactly its underscores removed, NUL-terminated', [bad])
    ubs = [c for c, d_, f_ in ex.ub if f_ != 'stub']
    if ubs:
        ob('no UB, no access outside the text or the 40-byte scratch buffer', [z3.Or(*ubs)])
    if ex.unwind:
        ob('loop unwinding bound suffices', [z3.Or(*[u[0] for u in ex.unwind])])
    ob('reach: a text with an underscore is parsed on the fast path', [rg, z3.Not(fell_back), env.no_error(), z3.Or(*[z3.And(z3.BitVecVal(k, 64) < L, c == 95) for k, c in enumerate(text)])], kind_='witness')
    return out


PARSE_REPLAY = r"""
import sys
sys.path.insert(0, %(dir)r)
import %(mod)s as M
t = %(text)r
bad = []
for f, a in ((M.to_float_b, t.encode('latin-1')), (M.to_float_u, t)):
    try: got = ('v', repr(f(a)))
    except ValueError: got = ('ValueError',)
    try: want = ('v', repr(float(a)))
    except ValueError: want = ('ValueError',)
    if got != want: bad.append((a, got, want))
print('REPLAY', bad)
print('REPLAY-REPRODUCED' if bad else 'REPLAY-HOLDS')
"""


KERNELS = ['mod_double', 'mod_float', 'div_double', 'floordiv_double', 'mod_double_cdiv']


def run(rep, tier, only=None):
    global _B
    snapshot.activate()
    global MAXL
    if tier == 'thorough':
        os.environ.setdefault('VF_QTIMEOUT', '600')
        MAXL = 9
    _B = harness.build_template('c06t', TEMPLATE)
    ks = [k for k in KERNELS if not only or only in k]
    rep.functions += ['Cython/Utility/CMath.c: ModFloat (__Pyx_mod_double, __Pyx_mod_float); generated zero-division checks and `//` lowering for C '
                      'doubles (ExprNodes.DivNode/ModNode) [%s]' % build.sha(_B.cfile)]
    rep.bounds += ['float(bytes) fast path (__Pyx__PyBytes_AsDouble): every text of 1..7 bytes without whitespace or NUL; PyOS_string_to_double replaced by a float-literal DFA (value arbitrary)',
                   'every pair of binary64 (binary32 for float) operands incl. +-0, subnormals, infinities and NaNs (QF_FP)',
                   'fmod is an uninterpreted function constrained by its C99 7.12.10.1 / F.9.7.1 contract, shared by implementation and reference',
                   'outside: the value produced by libm/PyOS_string_to_double; + - * comparisons on C doubles (native IEEE instructions)']
    rep.assume('reference: CPython 3.12 float_rem / float_floor_div transcribed from Objects/floatobject.c', 'floor() is IEEE roundToIntegral(RTN)')
    with mp.Pool(min(16, os.cpu_count() or 4)) as pool:
        results = pool.map(check_kernel, ks, chunksize=1)
    seen = set()
    for k, res in zip(ks, results):
        for d in res:
            for key, cex in d.get('known_hits', ()):
                ok, txt = replay(rep, k, cex)
                if key in rep.known and ok:
                    if key not in seen:
                        rep.known_finding(key, rep.known[key] + '  [witness: %s(%r, %r): %s]' % (k, cex['a'], cex['b'], txt[:160]))
                        seen.add(key)
                elif ok:
                    rep.violation('%s fails for %s: %s' % (d['name'], cex, txt), dict(kernel=k, cex=cex, replay_output=txt))
                else:
                    rep.harness_error('counterexample %s for %s did not reproduce: %s' % (cex, d['name'], txt))
            if d['status'] == 'refuted':
                ok, txt = replay(rep, k, d['cex'])
                if ok:
                    rep.obligation(d['name'], 'refuted', d['s'], d.get('mandatory', True), str(d['cex']))
                    rep.violation('%s fails for a=%r b=%r: %s' % (d['name'], d['cex']['a'], d['cex']['b'], txt), dict(kernel=k, cex=d['cex'], replay_output=txt))
                else:
                    rep.obligation(d['name'], 'inconclusive', d['s'], d.get('mandatory', True), 'counterexample %s did not reproduce: %s' % (d['cex'], txt))
            else:
                rep.obligation(d['name'], d['status'], d['s'], d.get('mandatory', True), d.get('detail'))
    if not only or 'parse' in only:
        for d in check_parse(None):
            if d['status'] == 'refuted':
                global _NATIVE
                if _NATIVE is None:
                    _NATIVE = build.native(_B.cfile, extra_flags=['-lm'])
                p = subprocess.run(['/verif/.venv/bin/python', '-c', PARSE_REPLAY % dict(dir=os.path.dirname(_NATIVE), mod=_B.name, text=d['cex']['text'])], capture_output=True, text=True, timeout=60)
                txt = (p.stdout + p.stderr).strip()[-400:]
                rep.validated += 1
                if 'REPLAY-REPRODUCED' in txt or p.returncode < 0:
                    rep.obligation(d['name'], 'refuted', d['s'], True, str(d['cex']))
                    rep.violation('%s fails for %r: %s' % (d['name'], d['cex']['text'], txt), dict(cex=d['cex'], replay_output=txt))
                else:
                    rep.obligation(d['name'], 'inconclusive', d['s'], True, 'counterexample %r did not reproduce: %s' % (d['cex'], txt))
            else:
                rep.obligation(d['name'], d['status'], d['s'], d.get('mandatory', True), d.get('detail'))
    rep.cov['states'] = 5 * len(ks)
    rep.cov['transitions'] = 6 * len(ks)
    rep.sample(dict(kernel='mod_double', oracle='CPython float_rem over a shared uninterpreted fmod', inputs='all pairs of doubles'))
