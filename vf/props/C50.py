"""C50 the lexer engine recognises exactly its rules (PYSYM: symbolic input text per enumerated lexicon)."""
import os, shutil
from ..pysym import runner
from ..pysym.runner import Cond
from .. import snapshot

LEVEL = 'model_checking'


def gen(path, lexicons, maxlens):
    lines = ['from h_c50_base import agree, agree_trie, build_trie, ref_tokens, real_tokens, make_lexicon', '']
    names = []
    for k, rules in enumerate(lexicons):
        maxlen = maxlens[k]
        alpha = "'abc' + chr(10)" + (" + 'AB'" if 'nocase' in repr(rules) else '')
        lines += ['RULES_%d = %r' % (k, rules), 'LEX_%d = make_lexicon(RULES_%d)' % (k, k), 'TRIE_%d = build_trie(RULES_%d, %d, %s)' % (k, k, maxlen, alpha), '',
                  'def lex_%d(text: str) -> bool:' % k, '    """', '    pre: len(text) <= %d' % maxlen,
                  '    pre: all(c in %s for c in text)' % alpha, '    post: _ == True', '    """',
                  '    return agree_trie(RULES_%d, text, LEX_%d, TRIE_%d)' % (k, k, k), '']
        names.append('lex_%d' % k)
    lines += ['def twin(text: str) -> bool:', '    """', '    pre: len(text) == 3', "    pre: all(c in 'ab' for c in text)", '    post: _ == True', '    """',
              '    real_tokens(RULES_0, text, lex=LEX_0)', '    return False', '']
    open(path, 'w').write('\n'.join(lines))
    return names


def run(rep, tier, only=None):
    snapshot.activate()
    import sys
    sys.path.insert(0, '/verif/vf/pysym')
    import c50_family as F
    d = snapshot.scratch_dir('c50')
    shutil.copy('/verif/vf/pysym/h_c50_base.py', d)
    nrand, maxlen, rlen, T = (10, 4, 3, 800) if tier == 'quick' else (60, 5, 4, 2400)
    lexicons = F.FIXED + F.random_lexicons(rep.seed, nrand)
    maxlens = [maxlen] * len(F.FIXED) + [rlen] * nrand
    H = os.path.join(d, 'h_c50.py')
    names = gen(H, lexicons, maxlens)
    rep.functions += ['Cython/Plex: Regexps (Str, Any, AnyBut, Range, Seq, Alt, Rep, Rep1, Opt, NoCase, Bol, Eol), Lexicons.Lexicon, '
                      'Machines.Machine/FastMachine, DFA.nfa_to_dfa, Transitions.TransitionMap, Scanners.Scanner.read/scan_a_token/run_machine_inlined']
    rep.bounds += ['%d lexicons (%d fixed + %d drawn with VERIF_SEED=%d; 2-4 non-nullable rules, combinator depth <= 3)' % (len(lexicons), len(F.FIXED), nrand, rep.seed),
                   'for each lexicon: EVERY input text of length <= %d (fixed lexicons) / <= %d (drawn lexicons) over the alphabet {a, b, c, newline} (symbolic string; whole token sequence compared)' % (maxlen, rlen),
                   'outside: symbolic lexicons, nullable rules (Plex loops on empty tokens), the Eof pseudo-rule and Eol in the middle of a rule '
                   '(their meaning depends on which rule consumed the EOL symbol), scanner states/actions other than returning the rule index']
    rep.assume('oracle: h_c50_base.ends/ref_tokens - set-of-end-positions semantics of the combinators, longest match, earliest rule on ties, '
               'error iff no rule matches before the end of input; Bol/Eol are zero-width assertions',
               'lexicon construction is concrete (enumerated); the symbolic value is the input text')
    runner.run_twin(rep, H, 'twin', 60, extra_path=[d])
    runner.run_conditions(rep, H, [Cond(n, T) for n in names], extra_path=[d])
    rep.cov['programs'] = len(lexicons)
    rep.sample(dict(lexicon=lexicons[3], condition='lex_3', text='all strings of length <= %d over abc\\n' % maxlen))
