"""C39 identical behaviour across build configurations (narrow): the helpers whose code is selected by C-level feature switches are re-checked
against the SAME specification with the switch flipped; both arms meeting one specification for all inputs means they agree on all inputs."""
import os
from .. import verdict
from . import C19, C07, C13, C05, C04, C12

LEVEL = 'model_checking'
SUBS = [('C19', C19, 'int'), ('C07', C07, 'pow2'), ('C13', C13, 'abs_o')]
ARMS = [('CYTHON_USE_PYLONG_INTERNALS=1', SUBS), ('CYTHON_USE_PYLONG_INTERNALS=0', SUBS)]


def run(rep, tier, only=None):
    rep.functions += ['the helpers of C19 (int/int, float/int, int/float comparison fast paths), C07 (2 ** n) and C13 (abs of int objects) lowered again with '
                      '-DCYTHON_USE_PYLONG_INTERNALS=0 (the arm used on PyPy / Limited API / when the switch is turned off); C05 (CIntFromPy / CIntToPy, both arms) and, in the '
                      'thorough tier, C04 (overflow helpers: compiler-builtin arm and portable arm) and C12 (compressed string-table arm round-trips to the uncompressed table)']
    rep.bounds += ['same bounds as the sub-checks; both arms of each helper are run here against the one specification',
                   'outside: C vs C++ compilation (no C++ IR translator for the generated module), compiler optimisation levels (the IR is taken at -O0 + mem2reg: the claim is about '
                   'the C source, the C compiler is trusted), CYTHON_ASSUME_SAFE_MACROS / CYTHON_ASSUME_SAFE_SIZE / CYTHON_AVOID_BORROWED_REFS arms (their C-API calls are not modelled), '
                   'freethreading, Limited API as a whole']
    rep.assume('argument: two implementations that each satisfy one deterministic specification for every input are observationally identical on every input')
    old = os.environ.get('VF_EXTRA_DEFINES')
    try:
        for defs, subs in ARMS:
            os.environ['VF_EXTRA_DEFINES'] = defs
            for pid, mod, sel in subs:
                if only and only not in pid:
                    continue
                _sub(rep, pid, mod, sel, '[%s, %s] ' % (pid, defs), tier)
    finally:
        if old is None:
            os.environ.pop('VF_EXTRA_DEFINES', None)
        else:
            os.environ['VF_EXTRA_DEFINES'] = old
    if not only or 'C05' in only:
        _sub(rep, 'C05', C05, None, '[C05, both arms] ', tier)
    if tier == 'thorough' and (not only or 'C04' in only):
        _sub(rep, 'C04', C04, None, '[C04, builtin and portable arms] ', tier)
    if tier == 'thorough' and (not only or 'C12' in only):
        # the default string-table arm (LZSS, CYTHON_COMPRESS_STRINGS) must reproduce the uncompressed table
        _sub(rep, 'C12', C12, None, '[C12, LZSS string-table arm] ', tier)
    rep.cov['states'] = len(rep.obls)
    rep.cov['transitions'] = len(rep.obls)
    rep.sample(dict(helper='__Pyx_PyObject_CompareIntIntLt', arms='CYTHON_USE_PYLONG_INTERNALS = 1 and 0', inputs='two symbolic valid PyLong objects up to 5 digits'))


def _sub(rep, pid, mod, sel, prefix, tier):
    sub_rep = verdict.Report('C39', tier, LEVEL, rep.seed)
    sub_rep.known, sub_rep.fixed = verdict.load_known_findings(pid)
    sub_rep.quiet = True
    # native replays of the sub-check must be built with the same configuration: module-level caches are reset
    for attr in ('_NATIVE',):
        if hasattr(mod, attr):
            setattr(mod, attr, {} if isinstance(getattr(mod, attr), dict) else None)
    try:
        mod.run(sub_rep, 'quick', only=sel)
    except Exception as e:
        rep.harness_error('sub-run of %s failed: %r' % (pid, e))
        return
    for o in sub_rep.obls:
        rep.obligation(prefix + o['name'], o['status'], o['seconds'], o['mandatory'], o['detail'])
    for what, rp in sub_rep.violations:
        rep.violation(prefix + what[:600], rp)
    for msg in sub_rep.errors:
        rep.harness_error(prefix + msg[:300])
    rep.validated += sub_rep.validated
    for attr in ('_NATIVE',):
        if hasattr(mod, attr):
            setattr(mod, attr, {} if isinstance(getattr(mod, attr), dict) else None)
