"""C02 object arithmetic with constant operands matches CPython (CIR on Optimize.c PyLongBinop / PyLongCompare / PyFloatBinop)."""
import multiprocessing as mp, os, re, subprocess, time
import z3
from .. import snapshot
from ..cir import build, solve, symex, stubs, ir
from ..cir.stubs import WIDE
from ..gen import harness

LEVEL = 'model_checking'
_B = None

TEMPLATE = '''# cython: language_level=3
def add_objc(x): return x + 7
def add_cobj(x): return 7 + x
def sub_objc(x): return x - 7
def sub_cobj(x): return 7 - x
def mul_objc(x): return x * 7
def floordiv_objc(x): return x // 7
def mod_objc(x): return x % 7
def truediv_objc(x): return x / 7
def and_objc(x): return x & 7
def or_objc(x): return x | 7
def xor_objc(x): return x ^ 7
def lshift_objc(x): return x << 7
def rshift_objc(x): return x >> 7
def eq_objc(x): return x == 7
def ne_objc(x): return x != 7
def eq_bool(x): return 1 if x == 7 else 0
def ne_bool(x): return 1 if x != 7 else 0
def iadd(x):
    x += 7
    return x
def fadd(x): return x + 7.5
def fsub_cobj(x): return 7.5 - x
def fmul(x): return x * 7.5
def fdiv_cobj(x): return 7.5 / x
def fdiv_objc(x): return x / 7.5
def fmod(x): return x % 2.5
def fmod_cobj(x): return 2.5 % x
def feq(x): return x == 7.5
'''
# op name -> python operator (for replays), kind
OPS = {'Add': '+', 'Subtract': '-', 'Multiply': '*', 'FloorDivide': '//', 'Remainder': '%', 'TrueDivide': '/', 'And': '&', 'Or': '|',
       'Xor': '^', 'Lshift': '<<', 'Rshift': '>>', 'Eq': '==', 'Ne': '!='}


def kernels(mod):
    out = []
    for n in sorted(mod.functions):
        m = re.match(r'^__Pyx_PyLong_(Bool)?(%s)(ObjC|CObj)$' % '|'.join(OPS), n)
        if m:
            out.append((n, m.group(2), m.group(3), bool(m.group(1))))
    return out


def BoolOp(b):
    return z3.BoolVal(bool(b))


def sx(v, bits=WIDE):
    return z3.SignExt(bits - v.size(), v) if v.size() < bits else v


def exact(op, A, Cc):
    """mathematical result of `A op C` at WIDE bits (both already WIDE)"""
    if op == 'Add': return A + Cc
    if op == 'Subtract': return A - Cc
    if op == 'And': return A & Cc
    if op == 'Or': return A | Cc
    if op == 'Xor': return A ^ Cc
    if op == 'Lshift': return A << Cc
    if op == 'Rshift': return A >> Cc
    raise KeyError(op)


def check_kernel(job):
    fname, op, order, boolret = job
    t0 = time.time()
    out = []
    T = int(os.environ.get('VF_QTIMEOUT', '60'))
    for xkind in ('int', 'float', 'other'):
        if xkind == 'float' and op not in ('Add', 'Subtract', 'Multiply', 'TrueDivide', 'Eq', 'Ne'):
            continue
        tagname = '%s[%s]' % (fname.replace('__Pyx_PyLong_', ''), xkind)
        try:
            ex, env = _B.new_exec(unroll=4)
            delegated = []

            def indirect(ex_, g, args, rt, caller):
                r = env.new_object('delegated', dict(kind='delegated'))
                e = env.event(g, 'DELEGATED', args[1:], ex_.ptr_to(r))
                delegated.append(e)
                return ex_.ptr_to(r) if rt.kind == 'ptr' else ex_.fresh_of(rt, 'delegated')
            ex.stubs['<indirect>'] = indirect
            for nm in ('PyObject_RichCompare', '__Pyx_PyObject_RichCompareBool', 'PyObject_RichCompareBool'):
                ex.stubs[nm] = (lambda n_: (lambda ex_, g, args, rt, caller: indirect(ex_, g, [None] + args[:2], rt, caller)))(nm)
            if xkind == 'int':
                x, V, inv = env.make_pylong('x', 5)
            elif xkind == 'float':
                x, D, inv = env.make_pyfloat('x')
            else:
                x, inv = env.make_opaque('x', tpflags=0)
            cobj, cinv = env.make_opaque('cobj', tpflags=0)
            c = z3.BitVec('c', 64)
            inplace = z3.BitVec('inplace', 32)
            zdc = z3.BitVec('zerodivision_check', 32)
            env.exc_type('PyExc_ZeroDivisionError')
            # True/False singletons
            tr = ex.global_ptr('_Py_TrueStruct'); fa = ex.global_ptr('_Py_FalseStruct')
            op1, op2 = (x, cobj) if order == 'ObjC' else (cobj, x)
            nparams = len(_B.module.functions[fname].params)
            args = [op1, op2, c, inplace, zdc][:nparams]
            if nparams == 4:
                args[3] = z3.SignExt(32, inplace)
            ret, rg = ex.run(fname, args)
        except (symex.Unsupported, ir.ParseError, KeyError, IndexError) as e:
            out.append(dict(name=tagname + ':encode', status='inconclusive', s=time.time() - t0, detail='Unsupported: %s' % e))
            continue
        stats = dict(blocks=ex.stats['blocks'], edges=ex.stats['edges'])
        # preconditions on the constant: what Optimize.optimise_numeric_binop passes
        pre = [inv, cinv, c >= -(1 << 30), c <= (1 << 30), z3.Or(inplace == 0, inplace == 1), z3.Or(zdc == 0, zdc == 1)] + list(ex.assumptions)
        if op in ('Lshift', 'Rshift'):
            pre += [c >= 1, c <= 63]
        if op in ('FloorDivide', 'Remainder', 'TrueDivide') and order == 'ObjC':
            pre += [c != 0]
        Cw = sx(c)
        deleg_ok = z3.BoolVal(False)
        for e in delegated:
            a_ok = z3.And(e.args[0].bv == op1.bv, e.args[1].bv == op2.bv) if len(e.args) >= 2 and e.args[0] is not None else z3.BoolVal(True)
            same = (ret.bv == e.ret.bv) if isinstance(ret, symex.Ptr) else z3.BoolVal(True)
            deleg_ok = z3.Or(deleg_ok, z3.And(e.guard, a_ok, same))
        for e in ex.events:
            if e.name.startswith('PyNumber_') or e.name.startswith('PyObject_RichCompare'):
                a_ok = z3.And(e.args[0].bv == op1.bv, e.args[1].bv == op2.bv)
                same = (ret.bv == e.ret.bv) if isinstance(ret, symex.Ptr) and isinstance(e.ret, symex.Ptr) else z3.BoolVal(True)
                deleg_ok = z3.Or(deleg_ok, z3.And(e.guard, a_ok, same))
        ctors = [e for e in ex.events if e.name.startswith('PyLong_From') or e.name in ('PyFloat_FromDouble', 'PyBool_FromLong')]

        def ob(name, conds, kind='unsat', mandatory=True, timeout=None):
            r, m, s = solve.check(pre + conds, timeout or T)
            d = dict(name=tagname + ':' + name, s=s, stats=stats, mandatory=mandatory)
            d['status'] = ({'unsat': 'proved', 'sat': 'refuted'} if kind == 'unsat' else {'sat': 'witness', 'unsat': 'vacuous'}).get(r, 'inconclusive')
            if r == 'sat' and kind == 'unsat':
                cex = dict(c=m.eval(c, model_completion=True).as_signed_long(), inplace=m.eval(inplace, model_completion=True).as_long(), kind=xkind)
                if xkind == 'int':
                    cex['x'] = m.eval(V, model_completion=True).as_signed_long()
                elif xkind == 'float':
                    cex['x_bits'] = m.eval(z3.fpToIEEEBV(D), model_completion=True).as_long()
                d['cex'] = cex
            out.append(d)
        if xkind == 'other':
            # anything that is neither an exact int nor an exact float must be delegated to CPython with the operands in order
            ob('non-int, non-float operand is delegated to CPython with (op1, op2) in order', [rg, z3.Not(deleg_ok)])
            ob('reach', [rg], kind='witness')
        elif xkind == 'int':
            A, Bw = (V, Cw) if order == 'ObjC' else (Cw, V)
            if boolret or op in ('Eq', 'Ne'):
                truth = (V == Cw) if op == 'Eq' else (V != Cw)
                if boolret:
                    good = z3.And(rg, ret == z3.If(truth, z3.BitVecVal(1, 32), z3.BitVecVal(0, 32)))
                else:
                    good = z3.And(rg, ret.bv == z3.If(truth, tr.bv, fa.bv))
                ob('result == (x %s c) for every int x' % OPS[op], [z3.Not(z3.Or(good, deleg_ok))])
            elif op in ('Add', 'Subtract', 'And', 'Or', 'Xor', 'Lshift', 'Rshift'):
                R = exact(op, A, Bw)
                okv = z3.BoolVal(False)
                for e in ctors:
                    okv = z3.Or(okv, z3.And(e.guard, ret.bv == e.ret.bv, env.ghost_of(e.ret)['value'] == R))
                okv = z3.Or(okv, z3.And(ret.bv == x.bv, V == R), z3.And(ret.bv == cobj.bv, Cw == R))
                ob('result value == x %s c exactly (or the operation is delegated to CPython in operand order)' % OPS[op],
                   [z3.Not(z3.And(rg, z3.Or(okv, deleg_ok)))])
            elif op in ('Multiply', 'FloorDivide', 'Remainder'):
                # operand lemma + syntactic result relation (DESIGN 2.2): every multiplication / division the helper executes
                # has operands equal to the mathematical values of x and c (which therefore fit the machine type), and the
                # object it returns carries the closed form over *that* operation (floor adjustment per the NIA lemmas)
                from ..gen import arith
                kind = {'Multiply': ('mul',), 'FloorDivide': ('sdiv',), 'Remainder': ('srem',)}[op]
                recs = [d for d in ex.arith_log if d['op'] in kind and d['fn'].startswith('__Pyx_Unpacked_')]
                lemma = []
                okv = z3.BoolVal(False)
                for d in recs:
                    w = d['x'].size()
                    xa, ya = (d['x'], d['y'])
                    lemma.append(z3.And(d['g'], z3.Not(z3.And(sx(xa) == A, sx(ya) == Bw))))
                    if op == 'Multiply':
                        Rw = sx(xa * ya)         # the mul nsw obligation (no UB) makes this the exact product
                    elif op == 'FloorDivide':
                        Rw = sx(arith.py_floordiv(xa, ya, True))
                    else:
                        Rw = sx(arith.py_mod(xa, ya, True))
                    for e in ctors:
                        okv = z3.Or(okv, z3.And(d['g'], e.guard, ret.bv == e.ret.bv, env.ghost_of(e.ret)['value'] == Rw))
                okv = z3.Or(okv, z3.And(ret.bv == x.bv, z3.Or(V == 0, z3.And(BoolOp(op == 'Multiply'), Cw == 1))),
                            z3.And(ret.bv == cobj.bv, BoolOp(op == 'Multiply'), z3.Or(Cw == 0, V == 1)))
                ob('operand lemma: every %s the helper executes is on exactly (x, c)' % '/'.join(kind), [z3.Or(*lemma)] if lemma else [z3.BoolVal(False)])
                ob('result == closed form over that operation (exact product / floor quotient / Python remainder), or x itself for 0, or delegated',
                   [z3.Not(z3.And(rg, z3.Or(okv, deleg_ok)))])
            elif op == 'TrueDivide':
                okv = z3.BoolVal(False)
                for e in ctors:
                    okv = z3.Or(okv, z3.And(e.guard, ret.bv == e.ret.bv, V >= -(1 << 53), V <= (1 << 53)))
                ob('float fast path only for |x| <= 2^53 (where (double)x / (double)c is the correctly rounded quotient), else delegated',
                   [z3.Not(z3.And(rg, z3.Or(okv, deleg_ok)))])
            ob('reach: a fast-path result exists', [rg, z3.Not(deleg_ok)], kind='witness')
            ob('large ints are delegated (>= 5 digits never take a fast path)', [env.ghost_of(x)['ndigits'] == 5, rg, z3.Not(deleg_ok),
               z3.BoolVal(op not in ('Eq', 'Ne', 'And'))])
        else:   # float operand
            Cd = z3.fpSignedToFP(symex.RNE, c, z3.Float64())
            a_, b_ = (D, Cd) if order == 'ObjC' else (Cd, D)
            if op in ('Eq', 'Ne'):
                truth = z3.fpEQ(D, Cd) if op == 'Eq' else z3.Not(z3.fpEQ(D, Cd))
                good = z3.And(rg, ret == z3.If(truth, z3.BitVecVal(1, 32), z3.BitVecVal(0, 32))) if boolret else z3.And(rg, ret.bv == z3.If(truth, tr.bv, fa.bv))
                ob('float x: result == (x %s c)' % OPS[op], [z3.Not(z3.Or(good, deleg_ok))])
            else:
                fop = {'Add': z3.fpAdd, 'Subtract': z3.fpSub, 'Multiply': z3.fpMul, 'TrueDivide': z3.fpDiv}[op]
                R = fop(symex.RNE, a_, b_)
                okv = z3.BoolVal(False)
                for e in ctors:
                    if e.name == 'PyFloat_FromDouble':
                        gv = env.ghost_of(e.ret)['value']
                        okv = z3.Or(okv, z3.And(e.guard, ret.bv == e.ret.bv, z3.fpToIEEEBV(gv) == z3.fpToIEEEBV(R)))
                zerr = z3.And(ret.bv == 0, env.error_is('PyExc_ZeroDivisionError'))
                if op == 'TrueDivide' and order == 'CObj':
                    # c / x with x == 0.0: CPython raises; the helper only checks when asked to (zerodivision_check is what the compiler passes)
                    ob('float x: c / x raises ZeroDivisionError when x == 0 and the check is requested',
                       [zdc == 1, z3.fpIsZero(D), z3.Not(z3.And(rg, zerr))])
                    ob('float x: result == IEEE c / x', [z3.Not(z3.fpIsZero(D)), z3.Not(z3.And(rg, z3.Or(okv, deleg_ok)))], mandatory=False)
                else:
                    ob('float x: result == IEEE x %s (double)c bit for bit' % OPS[op], [z3.Not(z3.And(rg, z3.Or(okv, deleg_ok)))],
                       mandatory=(op != 'TrueDivide'))
            ob('reach', [rg], kind='witness')
        seen = set()
        for cnd, desc, fn in ex.ub:
            if (fn, desc) in seen:
                continue
            seen.add((fn, desc))
            if 'no_sanitize' in desc:
                continue
            ob('no UB: %s in %s' % (desc[:80], fn), [cnd])
            out[-1]['ub'] = True
        if ex.unwind:
            ob('unwinding assertion', [z3.Or(*[u[0] for u in ex.unwind])])
    return out


REPLAY = r'''
import sys, struct
sys.path.insert(0, %(dir)r)
op, order, cex, src = %(args)r
import importlib, os, subprocess
x = cex.get('x')
if cex['kind'] == 'float':
    x = struct.unpack('<d', struct.pack('<Q', cex['x_bits']))[0]
c = cex['c']
expr = ('x %%s c' if order == 'ObjC' else 'c %%s x') %% op
try:
    want = ('value', eval(expr))
except ZeroDivisionError:
    want = ('zde',)
import %(mod)s as M
try:
    got = ('value', M.f(x))
except ZeroDivisionError:
    got = ('zde',)
same = (got == want) and (got[0] != 'value' or (type(got[1]) is type(want[1]) and repr(got[1]) == repr(want[1])))
print('REPLAY', expr, 'x =', x, 'c =', c, 'got', got, 'want', want)
print('REPLAY-HOLDS' if same else 'REPLAY-REPRODUCED')
'''


def replay(rep, op, order, cex):
    """build a one-function module with the counterexample's constant and call it"""
    d = snapshot.scratch_dir('c02r')
    c = cex['c']
    sym = OPS[op]
    lit = ('(%r)' % c) if cex.get('isfloatconst') else ('(%d)' % c)
    if cex.get('isfloatconst') and (c != c or c in (float('inf'), float('-inf'))):
        return None, 'non-finite float constant cannot be written as a literal'
    if cex.get('inplace'):
        body = 'def f(x):\n    x %s= %s\n    return x\n' % (sym, lit) if order == 'ObjC' else 'def f(x):\n    return %s %s x\n' % (lit, sym)
    else:
        body = 'def f(x):\n    return x %s %s\n' % (sym, lit) if order == 'ObjC' else 'def f(x):\n    return %s %s x\n' % (lit, sym)
    name = 'c02r%d' % (abs(hash((op, order, c, cex.get('inplace')))) % 100000)
    try:
        cfile = build.cythonize_template('# cython: language_level=3\n' + body, name, d)
        so = build.native(cfile)
    except build.BuildError as e:
        return None, 'replay build failed: %s' % e
    os.rename(so, os.path.join(d, name + build.EXT_SUFFIX)) if os.path.basename(so) != name + build.EXT_SUFFIX else None
    code = REPLAY % dict(dir=d, mod=name, args=(sym, order, cex, body))
    p = subprocess.run(['/verif/.venv/bin/python', '-c', code], capture_output=True, text=True, timeout=120)
    txt = (p.stdout + p.stderr).strip()[-500:]
    rep.validated += 1
    if p.returncode < 0:
        return True, 'process died with signal %d' % (-p.returncode)
    return 'REPLAY-REPRODUCED' in txt, txt


def run(rep, tier, only=None):
    global _B
    snapshot.activate()
    os.environ['VF_TIER'] = tier
    if tier == 'thorough':
        os.environ.setdefault('VF_QTIMEOUT', '600')
    _B = harness.build_template('c02t', TEMPLATE)
    ks = [k for k in kernels(_B.module) if not only or only in k[0]]
    rep.functions += ['Cython/Utility/Optimize.c: PyLongBinop (__Pyx_PyLong_<Op><Order>, __Pyx_Unpacked_*, __Pyx_Float_*, __Pyx_Fallback_*) for %d '
                      'op/order instantiations selected by Optimize.optimise_numeric_binop / CmpNode [%s]; Python.h inline helpers' % (len(ks), build.sha(_B.cfile))]
    rep.bounds += ['x: every valid int object of <= 5 digits (|x| < 2^150); every float (binary64 payload symbolic); an object of another type',
                   'constant: every c with |c| <= 2^30 (shift counts 1..63), inplace and zerodivision_check flags symbolic',
                   'Multiply / FloorDivide / Remainder compared at 128 bits after proving that fast paths only run for values that fit; '
                   'TrueDivide on ints: only the gate |x| <= 2^53 and the delegation are checked (the IEEE quotient is the C compiler\'s)',
                   'delegated arms (nb_* slots, PyNumber_*, PyObject_RichCompare): only arguments and their order are checked - the result is CPython\'s by definition',
                   'outside: int/float subclasses (delegated arm), PyPy / Limited API arms, PyFloatBinop with float constants (C06)']
    rep.assume('CPython 3.12 PyLong/PyFloat layouts and the PyLong representation invariant', 'PyLong_FromLong/LongLong, PyFloat_FromDouble contracts (stubs)',
               'allocation failure out of scope')
    fks = [k for k in fkernels(_B.module) if not only or only in k[0]]
    rep.functions += ['Cython/Utility/Optimize.c: PyFloatBinop (__Pyx_PyFloat_<Op><Order>) for %d instantiations; generated call sites of c / x and c %% x' % len(fks)]
    rep.bounds += ['PyFloatBinop: x any float (binary64), any int with |x| <= 2^53, or a foreign object; constant any non-NaN double; fmod under its C99 contract',
                   'call sites: the compiled def functions for `7.5 / x` and `2.5 % x` run with x == 0.0 / x == 0 must raise ZeroDivisionError']
    with mp.Pool(min(16, os.cpu_count() or 4)) as pool:
        results = pool.map(check_kernel, ks, chunksize=1)
        fresults = pool.map(check_fkernel, fks, chunksize=1)
        cresults = pool.map(check_callsite, [c for c in CALLSITES if not only or only in c[0]], chunksize=1)
    ks = list(ks) + list(fks) + [('callsite', 'TrueDivide' if '/' in c[1] else 'Remainder', 'CObj', False) for c in CALLSITES if not only or only in c[0]]
    results = list(results) + list(fresults) + list(cresults)
    states = trans = 0
    for k, res in zip(ks, results):
        fname, op, order, boolret = k
        for d in res:
            if d.get('stats'):
                states += d['stats']['blocks']; trans += d['stats']['edges']
            if d['status'] == 'refuted':
                ok, txt = replay(rep, op, order, d['cex'])
                if ok:
                    rep.obligation(d['name'], 'refuted', d['s'], d.get('mandatory', True), str(d['cex']))
                    rep.violation('%s fails for %s: %s' % (d['name'], d['cex'], txt), dict(function=fname, cex=d['cex'], replay_output=txt))
                else:
                    rep.obligation(d['name'], 'inconclusive', d['s'], d.get('mandatory', True),
                                   'counterexample %s did not reproduce on the real build: %s' % (d['cex'], txt))
            else:
                rep.obligation(d['name'], d['status'], d['s'], d.get('mandatory', True), d.get('detail'))
    rep.cov['states'] = states
    rep.cov['transitions'] = trans
    rep.sample(dict(function='__Pyx_PyLong_AddObjC', input='op1 = arbitrary valid PyLongObject, intval symbolic', oracle='V + c at 256 bits'))


# ---- PyFloatBinop: x op <float constant> / <float constant> op x ------------------------------------------------
def fkernels(mod):
    out = []
    for n in sorted(mod.functions):
        m = re.match(r'^__Pyx_PyFloat_(Bool)?(Add|Subtract|TrueDivide|Remainder|Eq|Ne)(ObjC|CObj)$', n)
        if m:
            out.append((n, m.group(2), m.group(3), bool(m.group(1))))
    return out


def check_fkernel(job):
    from .C06 import py_float_rem, same, fpval
    fname, op, order, boolret = job
    out = []
    T = int(os.environ.get('VF_QTIMEOUT', '60'))
    t0 = time.time()
    for xkind in ('float', 'int', 'other'):
        tagname = '%s[%s]' % (fname.replace('__Pyx_', ''), xkind)
        try:
            ex, env = _B.new_exec(unroll=4)
            delegated = []

            def indirect(ex_, g, args, rt, caller):
                r = env.new_object('delegated', dict(kind='delegated'))
                e = env.event(g, 'DELEGATED', args[1:], ex_.ptr_to(r))
                delegated.append(e)
                return ex_.ptr_to(r) if rt.kind == 'ptr' else ex_.fresh_of(rt, 'delegated')
            ex.stubs['<indirect>'] = indirect
            asd = {}

            def as_double(ex_, g, args, rt, caller):
                # PyLong_AsDouble contract: the correctly rounded double of the int (or -1.0 with OverflowError); modelled as
                # round-to-nearest conversion of the ghost value for |V| < 2^63, uninterpreted beyond
                gh = env.ghost_of(args[0])
                env.event(g, 'PyLong_AsDouble', args)
                v64 = z3.Extract(63, 0, gh['value'])
                small = z3.SignExt(stubs.WIDE - 64, v64) == gh['value']
                big = z3.FP('aslong_double_big', z3.Float64())
                return z3.If(small, z3.fpSignedToFP(symex.RNE, v64, z3.Float64()), big)
            ex.stubs['PyLong_AsDouble'] = as_double
            for nm in ('PyObject_RichCompare', '__Pyx_PyObject_RichCompareBool', 'PyObject_RichCompareBool'):
                ex.stubs[nm] = (lambda n_: (lambda ex_, g, args, rt, caller: indirect(ex_, g, [None] + args[:2], rt, caller)))(nm)
            D = None
            if xkind == 'float':
                x, D, inv = env.make_pyfloat('x')
            elif xkind == 'int':
                x, V, inv = env.make_pylong('x', 5)
                v64 = z3.Extract(63, 0, V)
                # the reference value of an int operand: exact for |V| <= 2^53 (every such int is a double)
                D = z3.fpSignedToFP(symex.RNE, v64, z3.Float64())
            else:
                x, inv = env.make_opaque('x', tpflags=0)
            cobj, cinv = env.make_opaque('cobj', tpflags=0)
            F = z3.FP('floatval', z3.Float64())
            inplace = z3.BitVec('inplace', 32); zdc = z3.BitVec('zerodivision_check', 32)
            env.exc_type('PyExc_ZeroDivisionError')
            tr = ex.global_ptr('_Py_TrueStruct'); fa = ex.global_ptr('_Py_FalseStruct')
            op1, op2 = (x, cobj) if order == 'ObjC' else (cobj, x)
            ret, rg = ex.run(fname, [op1, op2, F, inplace, zdc])
        except (symex.Unsupported, ir.ParseError, KeyError, IndexError) as e:
            out.append(dict(name=tagname + ':encode', status='inconclusive', s=time.time() - t0, detail='Unsupported: %s' % e))
            continue
        pre = [inv, cinv, z3.Or(inplace == 0, inplace == 1), z3.Or(zdc == 0, zdc == 1), z3.Not(z3.fpIsNaN(F))] + list(ex.assumptions)
        if order == 'ObjC' and op in ('TrueDivide', 'Remainder'):
            pre.append(z3.Not(z3.fpIsZero(F)))          # x / 0.0 with a literal zero is not routed here by the compiler
        if xkind == 'int':
            pre.append(z3.And(V >= -(1 << 53), V <= (1 << 53)))
        deleg_ok = z3.BoolVal(False)
        for e in delegated:
            a_ok = z3.And(e.args[0].bv == op1.bv, e.args[1].bv == op2.bv) if len(e.args) >= 2 and e.args[0] is not None else z3.BoolVal(True)
            samep = (ret.bv == e.ret.bv) if isinstance(ret, symex.Ptr) else z3.BoolVal(True)
            deleg_ok = z3.Or(deleg_ok, z3.And(e.guard, a_ok, samep))
        ctors = [e for e in ex.events if e.name == 'PyFloat_FromDouble']

        def ob(name, conds, kind='unsat', mandatory=True):
            if xkind == 'int' and kind == 'unsat' and ('value ==' in name or 'result ==' in name):
                # int operand through int->double conversion circuits: attempted in the thorough tier only, never mandatory
                mandatory = False
                if os.environ.get('VF_TIER') != 'thorough':
                    return
            r, m, s = 'unsat', None, 0.0
            if kind == 'unsat' and getattr(ex, 'fmod_apps', None):
                # first look for a counterexample on the grid where the fmod model is exact (such a counterexample replays)
                r, m, s = solve.check(pre + list(ex.assumptions) + conds + stubs.grid_constraint(ex), T)
            if r != 'sat':
                r, m, s2 = solve.check(pre + list(ex.assumptions) + conds, T)
                s += s2
            d = dict(name=tagname + ':' + name, s=s, mandatory=mandatory, fkernel=True)
            d['status'] = ({'unsat': 'proved', 'sat': 'refuted'} if kind == 'unsat' else {'sat': 'witness', 'unsat': 'vacuous'}).get(r, 'inconclusive')
            if r == 'sat' and kind == 'unsat':
                cex = dict(c=fpval(m, F), inplace=m.eval(inplace, model_completion=True).as_long(), kind=xkind, isfloatconst=True)
                if xkind == 'int':
                    cex['x'] = m.eval(V, model_completion=True).as_signed_long()
                elif xkind == 'float':
                    cex['x_bits'] = m.eval(z3.fpToIEEEBV(D), model_completion=True).as_long()
                d['cex'] = cex
            out.append(d)
        if xkind == 'other':
            ob('foreign operand is delegated to CPython with (op1, op2) in order', [rg, z3.Not(deleg_ok)])
            continue
        # int operand: operand lemma on the int -> double conversions the helper performs (each converts exactly the value
        # of x), then the reference is evaluated on the helper's own converted value (exact for |x| <= 2^53)
        if xkind == 'int':
            convs = [d for d in ex.arith_log if d['op'] in ('sitofp', 'uitofp') and d['fn'] == fname]
            lemma = []
            for d in convs:
                xv = sx(d['x']) if d['op'] == 'sitofp' else z3.ZeroExt(stubs.WIDE - d['x'].size(), d['x'])
                mag_ok = z3.Or(xv == V, z3.And(d['op'] == 'uitofp', xv == z3.If(V < 0, -V, V)))
                lemma.append(z3.And(d['g'], z3.Not(mag_ok)))
            ob('operand lemma: every int->double conversion converts exactly x (or |x|, negated afterwards)', [z3.Or(*lemma)] if lemma else [z3.BoolVal(False)])
            Ds = [(d['g'], d['r'] if d['op'] == 'sitofp' else z3.If(V < 0, z3.fpNeg(d['r']), d['r'])) for d in convs]
            Ds.append((V == 0, z3.FPVal(0.0, z3.Float64())))
        else:
            Ds = [(z3.BoolVal(True), D)]
        tr_, fa_ = tr, fa
        if op in ('Eq', 'Ne'):
            good = z3.BoolVal(False)
            for gd, Dv in Ds:
                a_, b_ = (Dv, F) if order == 'ObjC' else (F, Dv)
                truth = z3.fpEQ(a_, b_) if op == 'Eq' else z3.Not(z3.fpEQ(a_, b_))
                gg = z3.And(rg, ret == z3.If(truth, z3.BitVecVal(1, 32), z3.BitVecVal(0, 32))) if boolret else z3.And(rg, ret.bv == z3.If(truth, tr.bv, fa.bv))
                good = z3.Or(good, z3.And(gd, gg))
            ob('result == (x %s c)' % OPS[op], [z3.Not(z3.Or(good, deleg_ok))])
            continue
        zerr = z3.And(rg, ret.bv == 0, env.error_is('PyExc_ZeroDivisionError'))
        okv = z3.BoolVal(False)
        divisor_zero = z3.fpIsZero(F) if order == 'ObjC' else (z3.fpIsZero(D) if xkind == 'float' else V == 0)
        for gd, Dv in Ds:
            a_, b_ = (Dv, F) if order == 'ObjC' else (F, Dv)
            if op == 'Remainder':
                R = py_float_rem(ex, a_, b_)
            else:
                R = {'Add': z3.fpAdd, 'Subtract': z3.fpSub, 'TrueDivide': z3.fpDiv}[op](symex.RNE, a_, b_)
            for e in ctors:
                okv = z3.Or(okv, z3.And(gd, e.guard, ret.bv == e.ret.bv, same(env.ghost_of(e.ret)['value'], R)))
        pre2 = list(ex.assumptions)
        if op in ('TrueDivide', 'Remainder'):
            ob('zero divisor raises ZeroDivisionError when the compiler requests the check', [zdc == 1, divisor_zero, z3.Not(zerr)] + pre2)
            ob('value == CPython (IEEE / float_rem) for a non-zero divisor, bit for bit', [z3.Not(divisor_zero), z3.Not(z3.And(rg, z3.Or(okv, deleg_ok)))] + pre2)
        else:
            ob('value == IEEE x %s c bit for bit' % OPS[op], [z3.Not(z3.And(rg, z3.Or(okv, deleg_ok)))] + pre2)
        ob('reach', [rg, z3.Not(divisor_zero)], kind='witness')
    return out


CALLSITES = [('fdiv_cobj', '7.5 / x'), ('fmod_cobj', '2.5 % x')]


def check_callsite(job):
    """the def function the compiler generated for `c / x` / `c %% x`: with x == 0.0 or x == 0 it must raise ZeroDivisionError
    (this covers the zerodivision_check flag that Optimize.optimise_numeric_binop passes to the helper)"""
    fn, expr = job
    out = []
    T = int(os.environ.get('VF_QTIMEOUT', '60'))
    for xkind in ('float', 'int'):
        name = 'callsite %s [%s zero]' % (expr, xkind)
        t0 = time.time()
        try:
            ex, env = _B.new_exec(unroll=4)
            ex.stubs['<indirect>'] = lambda ex_, g, args, rt, caller: ex_.fresh_of(rt, 'indirect')
            if xkind == 'float':
                x, D, inv = env.make_pyfloat('x')
                zero = z3.fpIsZero(D)
            else:
                x, V, inv = env.make_pylong('x', 5)
                zero = V == 0
            selfp, sinv = env.make_opaque('self', 0)
            env.exc_type('PyExc_ZeroDivisionError')
            pf = [n for n in _B.module.functions if re.match(r'^__pyx_pf_\d+c02t_\d*%s$' % fn, n)]
            ret, rg = ex.run(pf[0], [selfp, x])
        except (symex.Unsupported, ir.ParseError, KeyError, IndexError) as e:
            out.append(dict(name=name + ':encode', status='inconclusive', s=time.time() - t0, detail='Unsupported: %s' % e))
            continue
        pre = [inv, sinv] + list(ex.assumptions)
        r, m, s = solve.check(pre + [zero, z3.Not(z3.And(rg, ret.bv == 0, env.error_is('PyExc_ZeroDivisionError')))], T)
        d = dict(name=name + ': raises ZeroDivisionError', s=s, status={'unsat': 'proved', 'sat': 'refuted'}.get(r, 'inconclusive'), mandatory=True)
        if r == 'sat':
            d['cex'] = dict(c=float(expr.split()[0]), kind=xkind, x=0, x_bits=0, inplace=0, isfloatconst=True, expr=expr)
            d['callsite'] = expr
        out.append(d)
        r, m, s = solve.check(pre + [z3.Not(zero), rg], T)
        out.append(dict(name=name + ': reach (non-zero x returns)', s=s, status={'sat': 'witness', 'unsat': 'vacuous'}.get(r, 'inconclusive'), mandatory=True))
    return out
