"""C10 string and bytes literals keep their exact values: escape sequences (PYSYM)."""
from ..pysym import runner
from ..pysym.runner import Cond
from .. import snapshot

LEVEL = 'model_checking'
H = '/verif/vf/pysym/h_c10.py'


def run(rep, tier, only=None):
    snapshot.activate()
    T = 400 if tier == 'quick' else 1200
    rep.functions += ['Cython/Compiler/Parsing.py: _append_escape_sequence; Cython/Compiler/StringEncoding.py: UnicodeLiteralBuilder, BytesLiteralBuilder '
                      '(append, append_charval, append_uescape, getstring), char_from_escape_sequence']
    rep.bounds += ['literal kinds \'\', u, b, c, f x one escape token: all octal escapes of 1-3 digits; \\x with 0-2 hex digits (all 22 hex characters); '
                   '\\u with 0-4 and \\U with 5/8 digits over the class digits 0 1 8 d F; \\N{...} for 5 names (valid, NULL, unknown, empty); '
                   'backslash + every printable ASCII character, newline, tab',
                   'outside: the tokeniser and p_string_literal driver (prefix handling, raw strings, implicit concatenation, source encodings), '
                   'non-ASCII characters in bytes literals (Cython deliberately accepts them), emission (C11) and compression (C12) of the values']
    rep.assume('oracle: CPython itself evaluating the one-escape literal (eval of the literal text); CPython rejecting the literal <=> Cython reports an error through the scanner',
               'an internal exception (anything but a reported error) is a violation')
    import os, shutil
    d = snapshot.scratch_dir('c10')
    shutil.copy(H, os.path.join(d, 'h_c10.py'))
    G = os.path.join(d, 'h_c10g.py')
    L = ['import h_c10 as B', '']
    names = []
    specs = [('octal', 'n: int, d0: int, d1: int, d2: int', '1 <= n <= 3 and 0 <= d0 < 8 and 0 <= d1 < 8 and 0 <= d2 < 8', 'n, d0, d1, d2'),
             ('hexesc', 'n: int, d0: int, d1: int', '0 <= n <= 2 and 0 <= d0 < 22 and 0 <= d1 < 22', 'n, d0, d1'),
             ('uesc4', 'n: int, d0: int, d1: int, d2: int, d3: int', '0 <= n <= 4 and 0 <= d0 < 5 and 0 <= d1 < 5 and 0 <= d2 < 5 and 0 <= d3 < 5', 'n, d0, d1, d2, d3'),
             ('uesc8', 'short: int, d0: int, d1: int, d2: int, d3: int', '0 <= short <= 1 and 0 <= d0 < 3 and 0 <= d1 < 5 and 0 <= d2 < 5 and 0 <= d3 < 5', 'short, d0, d1, d2, d3'),
             ('named', 'which: int', '0 <= which < 5', 'which'), ('single', 'which: int', '0 <= which < 97', 'which')]
    for k in range(5):
        for fn, params, pre, args in specs:
            nm = '%s_kind%d' % (fn, k)
            L += ['def %s(%s) -> bool:' % (nm, params), '    """', '    pre: ' + pre, '    post: _ == True', '    """', '    return B.%s(%d, %s)' % (fn, k, args), '']
            names.append(nm)
    L += ['def twin(d0: int) -> bool:', '    """', '    pre: 0 <= d0 < 8', '    post: _ == True', '    """', "    B.check(2, chr(92) + B.OCT[B.pin(d0, 8)])", '    return False', '']
    open(G, 'w').write('\n'.join(L))
    if not only or 'escapes' in only:
        runner.run_twin(rep, G, 'twin', 60, extra_path=[d])
        runner.run_conditions(rep, G, [Cond(n, T) for n in names], extra_path=[d])
    if not only or 'strtab' in only:
        from . import strtab
        strtab.run(rep, tier, 'values')
    rep.sample(dict(condition='octal', token='backslash + 1..3 symbolic octal digits', kinds=['', 'u', 'b', 'c', 'f']))
