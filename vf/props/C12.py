"""C12 module string-table compression round-trips (PYAST encoder step + PYSYM whole compressor + CIR decoder step)."""
import ast, os, re, subprocess, time
import z3
from .. import snapshot
from ..cir import build, solve, symex, stubs, ir
from ..pyast import symex as pysym
from ..pysym import runner
from ..pysym.runner import Cond

LEVEL = 'model_checking'
H = '/verif/vf/pysym/h_c12.py'


# ---------------------------------------------------------------------------------------------------------------
# A2: token-emission block of LZSS.lzss_compress, sliced from the AST of the working tree
def slice_encoder_block(src):
    tree = ast.parse(src)
    fn = [n for n in tree.body if isinstance(n, ast.FunctionDef) and n.name == 'lzss_compress'][0]
    loop = [n for n in fn.body if isinstance(n, ast.While)][-1]
    body = loop.body
    start = [i for i, s in enumerate(body) if isinstance(s, ast.Assign) and isinstance(s.targets[0], ast.Name) and s.targets[0].id == 'flag'][0]
    end = [i for i, s in enumerate(body) if isinstance(s, ast.AugAssign) and isinstance(s.target, ast.Name) and s.target.id == 'pos'][0]
    stmts = body[start:end]

    class Rw(ast.NodeTransformer):
        def visit_Subscript(self, node):
            if isinstance(node.value, ast.Name) and node.value.id == 'data':
                return ast.copy_location(ast.Name(id='byte', ctx=ast.Load()), node)
            return self.generic_visit(node)

        def visit_AugAssign(self, node):
            if isinstance(node.target, ast.Subscript) and isinstance(node.target.value, ast.Name) and node.target.value.id == 'stats':
                return ast.copy_location(ast.Pass(), node)
            return self.generic_visit(node)
    stmts = [Rw().visit(s) for s in stmts]
    mod = ast.parse('def emit_block(offset, length, byte):\n    output = []\n    pass\n    return (output, flag, length)\n')
    f = mod.body[0]
    f.body = [f.body[0]] + stmts + [f.body[-1]]
    ast.fix_missing_locations(mod)
    return ast.unparse(mod), len(stmts)


def dec_token(lo, hi, b3):
    c1 = (lo & 0x80) == 0
    c2 = (hi & 0x80) == 0
    eo = z3.If(c1, lo, z3.If(c2, 0x80 + (((hi << 2) & 0x180) | (lo & 0x7F)), 0x80 + (((hi & 0x7F) << 7) | (lo & 0x7F))))
    ml = z3.If(c1, hi + 3, z3.If(c2, (hi & 0x1F) + 3, b3 + 3))
    used = z3.If(z3.Or(c1, c2), z3.BitVecVal(2, 64), z3.BitVecVal(3, 64))
    return eo, ml, used


def part_A2(rep, root):
    src = open(os.path.join(root, 'Cython/LZSS.py')).read()
    t0 = time.time()
    try:
        block, nst = slice_encoder_block(src)
        it = pysym.Interp({'blk': block}, loop_bound=4)
        offset, length, byte = [z3.BitVec(n, 64) for n in ('offset', 'length', 'byte')]
        # contract of find_longest_match (checked on small inputs by A3): no match, or 3 <= length <= 258 <= ... and the
        # distance between the end of the earlier occurrence and the current position fits the window
        pre = [byte >= 0, byte <= 255,
               z3.Or(z3.And(length == 0, offset == 0),
                     z3.And(length >= 3, length <= 258, offset >= length, offset - length < (1 << 14) + 128))]
        paths = 0
        bad = None
        for p in it.explore('emit_block', [offset, length, byte], pre):
            paths += 1
            it.pc = p['pc']
            if 'raised' in p:
                bad = ('raised ' + p['raised'], it.check()[1]); break
            out, flag, ln = p['result']
            out = [pysym.bv(x) for x in out]
            flag, ln = pysym.bv(flag), pysym.bv(ln)
            if len(out) == 1:
                good = z3.And(flag == 1, out[0] == byte, ln == 1)
            elif len(out) in (2, 3):
                eo, ml, used = dec_token(out[0], out[1], out[2] if len(out) == 3 else z3.BitVecVal(0, 64))
                good = z3.And(flag == 0, *[z3.And(b >= 0, b <= 255) for b in out], used == len(out), ml == length,
                              eo + ml == offset, ln == length)
            else:
                good = z3.BoolVal(False)
            for cond, what in p['side']:
                if not isinstance(cond, bool):
                    good = z3.And(good, cond)
            r, m = it.check(z3.Not(good))
            if r != 'unsat':
                bad = ('token of %d bytes does not decode to (offset, length)' % len(out), m if r == 'sat' else None, r)
                break
        secs = time.time() - t0
        name = 'A2 encoder block (%d statements, %d paths): every token decodes to the match it encodes, for every (offset, length) find_longest_match may return' % (nst, paths)
        if bad is None:
            rep.obligation(name, 'proved', secs)
            rep.cov['states'] = rep.cov.get('states', 0) + paths
            rep.cov['transitions'] = rep.cov.get('transitions', 0) + it.queries
        elif bad[1] is None:
            rep.obligation(name, 'inconclusive', secs, True, str(bad[0]))
        else:
            m = bad[1]
            cex = {n: m.eval(v, model_completion=True).as_signed_long() for n, v in (('offset', offset), ('length', length), ('byte', byte))}
            ok, txt = replay_encoder(cex)
            rep.validated += 1
            if ok:
                rep.obligation(name, 'refuted', secs, True, str(cex))
                rep.violation('LZSS encoder block emits a token that does not decode to the match: %s (%s): %s' % (cex, bad[0], txt), dict(cex=cex, replay_output=txt))
            else:
                rep.obligation(name, 'inconclusive', secs, True, 'counterexample %s did not reproduce: %s' % (cex, txt))
    except (pysym.Unsupported, IndexError, SyntaxError) as e:
        rep.obligation('A2 encoder block', 'inconclusive', time.time() - t0, True, 'Unsupported: %s' % e)


def replay_encoder(cex):
    """build a real input whose longest match has exactly this (offset, length) and round-trip it through the real compressor
    and the reference decoder"""
    off, ln = cex['offset'], cex['length']
    code = r'''
import sys, random
import Cython.LZSS as LZ
assert LZ.__file__.endswith('.py')
from vf.pysym.ref_lzss import decompress
off, ln = %d, %d
rnd = random.Random(1)
def uniq(n, base):
    # bytes without repeated 3-grams (so that the only long match is the planted one)
    return bytes((base + (i * 7 + (i // 13) * 3)) %% 251 for i in range(n))
bad = 0
for trial in range(6):
    phrase = bytes(rnd.randrange(200, 256) for _ in range(ln)) if ln else b''
    gap = max(0, off - ln)
    data = bytes([trial]) * 2 + phrase + bytes((i * 11 + trial) %% 199 for i in range(gap)) + phrase + b'\x01\x02'
    comp = LZ.lzss_compress(data)
    try:
        out, used = decompress(comp, len(data))
        ok = out == data and used == len(comp)
    except Exception as e:
        ok = False
    if not ok: bad += 1
print('REPLAY planted match offset', off, 'length', ln, 'bad', bad)
print('REPLAY-REPRODUCED' if bad else 'REPLAY-HOLDS')
''' % (off, ln)
    p = subprocess.run(['/verif/.venv/bin/python', '-c', code], env=snapshot.child_env(), capture_output=True, text=True, timeout=300)
    txt = (p.stdout + p.stderr).strip()[-400:]
    return 'REPLAY-REPRODUCED' in txt, txt


# ---------------------------------------------------------------------------------------------------------------
# A1: one token of the C decoder from an arbitrary position (pointer offsets symbolic)
def extract_decoder(root, workdir):
    text = open(os.path.join(root, 'Cython/Utility/StringTools.c')).read()
    m = re.search(r'static CYTHON_SMALL_CODE size_t __pyx_lzss_decompress\(.*?\n}\n', text, re.S)
    if not m:
        raise build.BuildError('__pyx_lzss_decompress not found in StringTools.c')
    c = ('#include <stdint.h>\n#include <string.h>\n#include <stddef.h>\n#define CYTHON_SMALL_CODE\n#define CYTHON_UNUSED\n'
         '/* verbatim from Cython/Utility/StringTools.c */\n' + m.group(0).replace('static CYTHON_SMALL_CODE', 'CYTHON_SMALL_CODE') + '\n')
    os.makedirs(workdir, exist_ok=True)
    path = os.path.join(workdir, 'lzssdec.c')
    open(path, 'w').write(c)
    return path


def part_A1(rep, root, T):
    t0 = time.time()
    try:
        d = snapshot.scratch_dir('c12')
        cfile = extract_decoder(root, d)
        ll = build.lower(cfile)
        mod = ir.Module(open(ll).read())
        ex = symex.Exec(mod, unroll=1)
        env = stubs.Env(ex)
        srclen, dstlen = z3.BitVec('src_size', 64), z3.BitVec('dst_size', 64)
        src = ex.new_region('src', size=srclen, kind='elems', elemsize=1)
        dst = ex.new_region('dst', size=dstlen, kind='elems', elemsize=1)
        dst0 = dst.array
        S, P, n = z3.BitVec('S', 64), z3.BitVec('P', 64), z3.BitVec('n', 64)      # src/dst positions already consumed/produced, bytes wanted
        sp = symex.Ptr(z3.BitVecVal(src.base, 64) + S, [src.id])
        dp = symex.Ptr(z3.BitVecVal(dst.base, 64) + P, [dst.id])
        ret, rg = ex.run('__pyx_lzss_decompress', [sp, dp, n])
    except (symex.Unsupported, ir.ParseError, build.BuildError, KeyError) as e:
        rep.obligation('A1 decoder step: encode', 'inconclusive', time.time() - t0, True, 'Unsupported: %s' % e)
        return
    rd = lambda arr, i: z3.ZeroExt(56, z3.Select(arr, i))
    flags = rd(src.array, S)
    lo, hi, b3 = rd(src.array, S + 1), rd(src.array, S + 2), rd(src.array, S + 3)
    literal = (flags & 1) == 1
    eo, ml, used = dec_token(lo, hi, b3)
    B = 1 << 40
    pre = [z3.ULE(S, B), z3.ULE(P, B), z3.ULE(srclen, B), z3.ULE(dstlen, B), z3.ULE(n, B)]
    # well-formed final token (W): it produces exactly the n bytes still wanted, its reference lies inside what was produced,
    # the bytes it reads exist, and the output fits the destination buffer
    W_lit = z3.And(literal, n == 1, z3.ULE(S + 2, srclen), z3.ULE(P + 1, dstlen))
    W_ref = z3.And(z3.Not(literal), n == ml, z3.ULE(S + 1 + used, srclen), z3.ULE(P + ml, dstlen), z3.ULE(eo + ml, P))
    stats = dict(blocks=ex.stats['blocks'], edges=ex.stats['edges'])
    rep.cov['states'] = rep.cov.get('states', 0) + stats['blocks']
    rep.cov['transitions'] = rep.cov.get('transitions', 0) + stats['edges']
    final = dst.array
    k = z3.BitVec('k', 64)

    def ob(name, conds, kind='unsat'):
        r, m, s = solve.check(pre + conds, T)
        st = ({'unsat': 'proved', 'sat': 'refuted'} if kind == 'unsat' else {'sat': 'witness', 'unsat': 'vacuous'}).get(r, 'inconclusive')
        if st == 'refuted':
            vals = {nm: m.eval(v, model_completion=True).as_long() for nm, v in (('flags', flags), ('lo', lo), ('hi', hi), ('b3', b3), ('P', P), ('n', n))}
            ok, txt = replay_decoder(root, vals)
            rep.validated += 1
            if ok:
                rep.obligation('A1 decoder step: ' + name, 'refuted', s, True, str(vals))
                rep.violation('C decoder: %s fails for token %s: %s' % (name, vals, txt), dict(cex=vals, replay_output=txt))
            else:
                rep.obligation('A1 decoder step: ' + name, 'inconclusive', s, True, 'counterexample %s did not reproduce: %s' % (vals, txt))
            return
        rep.obligation('A1 decoder step: ' + name, st, s)
    ob('literal token: returns after consuming flag byte + 1 byte, appends that byte', [W_lit, z3.Not(z3.And(rg, ret == 2, z3.Select(final, P) == z3.Select(src.array, S + 1)))])
    ob('back-reference token: consumes 1 + token size bytes', [W_ref, z3.Not(z3.And(rg, ret == 1 + used))])
    ob('back-reference token: copies dst[P - off - len + k] to dst[P + k] for every k < len',
       [W_ref, z3.ULT(k, ml), z3.Select(final, P + k) != z3.Select(dst0, P - eo - ml + k)])
    ob('nothing outside [P, P + len) is written', [z3.Or(W_lit, W_ref), z3.Or(z3.ULT(k, P), z3.UGE(k, P + n)), z3.Select(final, k) != z3.Select(dst0, k)])
    seen = set()
    for c, desc, fn in ex.ub:
        if (fn, desc) in seen:
            continue
        seen.add((fn, desc))
        ob('no out-of-buffer access / UB on a well-formed token: %s' % desc[:70], [z3.Or(W_lit, W_ref), c])
    ob('reach: literal', [W_lit, rg], kind='witness')
    ob('reach: 3-byte back reference', [W_ref, (lo & 0x80) != 0, (hi & 0x80) != 0, rg], kind='witness')


DEC_REPLAY = r'''
import ctypes, sys
lib = ctypes.CDLL(%(so)r)
lib.__pyx_lzss_decompress.restype = ctypes.c_size_t
lib.__pyx_lzss_decompress.argtypes = [ctypes.c_char_p, ctypes.c_char_p, ctypes.c_size_t]
v = %(vals)r
flags, lo, hi, b3 = v['flags'] & 0xFF, v['lo'] & 0xFF, v['hi'] & 0xFF, v['b3'] & 0xFF
sys.path.insert(0, '/verif')
from vf.pysym.ref_lzss import decode_token
if flags & 1:
    print('REPLAY literal token: nothing to compare'); print('REPLAY-HOLDS'); raise SystemExit
eo, ml, used = decode_token(lo, hi, b3)
P = eo + ml + 5
prefix = bytes((i * 37 + 11) %% 251 for i in range(P))
buf = ctypes.create_string_buffer(prefix + b'\xAA' * (ml + 64), P + ml + 64)
src = bytes([flags, lo, hi, b3, 0, 0, 0, 0])
p = ctypes.cast(buf, ctypes.c_void_p).value + P
consumed = lib.__pyx_lzss_decompress(src, ctypes.cast(p, ctypes.c_char_p), ml)
got = buf.raw[P:P + ml]
want = prefix[P - eo - ml:P - eo]
want = (want * (ml // max(1, len(want)) + 1))[:ml] if len(want) < ml else want
print('REPLAY token', (lo, hi, b3), 'offset', eo, 'len', ml, 'consumed', consumed, 'want', 1 + used, 'copy ok', got == want, 'tail untouched', buf.raw[P + ml:P + ml + 8] == b'\xAA' * 8)
bad = consumed != 1 + used or got != want or buf.raw[P + ml:P + ml + 8] != b'\xAA' * 8
print('REPLAY-REPRODUCED' if bad else 'REPLAY-HOLDS')
'''


def replay_decoder(root, vals):
    d = snapshot.scratch_dir('c12r')
    cfile = extract_decoder(root, d)
    so = os.path.join(d, 'lzssdec.so')
    try:
        build._run(['gcc', '-shared', '-fPIC', '-O1', '-w', cfile, '-o', so])
    except build.BuildError as e:
        return None, str(e)
    p = subprocess.run(['/verif/.venv/bin/python', '-c', DEC_REPLAY % dict(so=so, vals=vals)], capture_output=True, text=True, timeout=120)
    txt = (p.stdout + p.stderr).strip()[-400:]
    if p.returncode < 0:
        return True, 'process died with signal %d' % (-p.returncode)
    return 'REPLAY-REPRODUCED' in txt, txt


def run(rep, tier, only=None):
    root = snapshot.activate()
    T = 60 if tier == 'quick' else 600
    rep.functions += ['Cython/LZSS.py: lzss_compress (token-emission block sliced from the AST; whole function on small inputs)',
                      'Cython/Utility/StringTools.c: __pyx_lzss_decompress (verbatim text, clang IR)']
    rep.bounds += ['A2: every (offset, length) with length == 0 or 3 <= length <= 258, length <= offset, offset - length < 2^14 + 128; every literal byte; all syntactic paths of the block',
                   'A1: one (final) token of the decoder from ANY position: src/dst offsets and sizes symbolic up to 2^40, token bytes symbolic, byte buffers as z3 arrays, memcpy as a lambda array; well-formedness W assumed',
                   'A3: whole compressor + reference decoder: all strings of length <= 10 over 2 letters, <= 6 over 3 letters, runs of <= 600 equal bytes (match length limits)',
                   'composition: A2 (encoder emits tokens that mean the match) + A1 (C decoder implements the token meaning, inside its buffers) + A3 (match finder / flag bytes / padding on small inputs)',
                   'outside: zlib/bz2/zstd arms (CPython modules); the choice between arms in Code.generate_string_constants; inter-token loop control of the C decoder beyond one token (flag-byte refill)']
    rep.assume('format reference: vf/pysym/ref_lzss.py', 'memcpy contract: copies n bytes, UB on overlap (obligation)')
    if not only or 'A2' in only:
        part_A2(rep, root)
    if not only or 'A1' in only:
        part_A1(rep, root, T)
    if not only or 'A3' in only:
        runner.run_twin(rep, H, 'twin', 60)
        conds = [Cond(n_, 300 if tier == 'quick' else 1200) for n_ in ('check_rt2_a', 'check_rt2_b0', 'check_rt2_b1', 'check_rt2_c0', 'check_rt2_c1', 'check_rt2_c2', 'check_rt2_c3')] + [
                 Cond('check_rt3', 300 if tier == 'quick' else 1200),
                 Cond('check_runs', 300 if tier == 'quick' else 1200)]
        runner.run_conditions(rep, H, conds)
    if not only or 'strtab' in only:
        from . import strtab
        strtab.run(rep, tier, 'compressed')
    rep.sample(dict(part='A2', inputs='offset, length, byte symbolic', oracle='ref_lzss.decode_token'))
