"""C21 unbound local variables: generated code of functions whose locals may be unbound (conditional binding, del, try/finally entered by an
exception, except-as unbinding with continue), executed with every fallible call failing or succeeding (GEN + CIR; machinery shared with C35)."""
import multiprocessing as mp, os, re, subprocess, time
import z3
from .. import snapshot
from ..cir import build, solve, symex, stubs, ir
from ..cir.symex import Ptr
from ..gen import harness
from . import C35

LEVEL = 'model_checking'
TEMPLATE = '''# cython: language_level=3
def cond_bind(c, f):
    if c:
        x = f()
    return x
def del_read(c, f):
    x = f()
    if c:
        del x
    return x
def use_fin(acquire):
    try:
        r = acquire()
    finally:
        r.close()
    return r
def read_in_finally(acquire, out):
    try:
        x = acquire()
    finally:
        out(x)
    return x
def del_in_finally(acquire):
    tmp = acquire
    try:
        del tmp
        y = acquire()
        tmp = y
    finally:
        del tmp
    return y
def except_as(items, check):
    err = None
    seen = None
    for it in items:
        seen = err
        try:
            check(it)
        except ValueError as err:
            continue
    return seen
def explicit_loop(items, f):
    x = f
    seen = None
    for i in items:
        seen = x
        try:
            if f(i):
                del x
                continue
        finally:
            f(seen)
        x = i
    return seen
def after_loop(items, check):
    err = check
    for it in items:
        try:
            check(it)
        except ValueError as err:
            continue
    return err
def cell_read(c, f):
    def inner():
        nonlocal x
        x = f()
    if c:
        inner()
    r = x
    x = None
    return r
'''
KERNELS = ['cond_bind', 'del_read', 'use_fin', 'read_in_finally', 'del_in_finally', 'except_as', 'explicit_loop', 'after_loop', 'cell_read']
NARGS = dict(cond_bind=2, del_read=2, use_fin=1, read_in_finally=2, del_in_finally=1, except_as=2, explicit_loop=2, after_loop=2, cell_read=2)

REPLAY = r'''
import sys
sys.path.insert(0, %(dir)r)
import %(mod)s as M
c = %(cex)r
SRC = %(src)r
ns = {}
exec(SRC.replace('# cython: language_level=3', ''), ns)
class Boom(Exception): pass
class R:
    def close(s): pass
def outcome(f, *a):
    try: return ('v', repr(f(*a)))
    except BaseException as e: return ('e', type(e).__name__)
bad = []
def cmp(label, mk_args):
    got = outcome(getattr(M, c['fn']), *mk_args())
    want = outcome(ns[c['fn']], *mk_args())
    if got != want: bad.append((label, got, want))
fn = c['fn']
def acq(mode):
    def f(*a):
        if mode == 'raise': raise Boom()
        if mode == 'value': raise ValueError()
        return 7
    return f
if fn in ('cond_bind', 'del_read', 'cell_read'):
    for cflag in (0, 1):
        for mode in ('ok', 'raise'):
            cmp((cflag, mode), lambda: (cflag, acq(mode)))
elif fn in ('use_fin', 'del_in_finally'):
    for mode in ('ok', 'raise'):
        cmp(mode, lambda: ((lambda: R.__new__(R)) if mode == 'ok' else acq('raise'),))
elif fn == 'read_in_finally':
    for mode in ('ok', 'raise'):
        for omode in ('ok', 'raise'):
            cmp((mode, omode), lambda: (acq(mode), acq(omode)))
else:
    for items in ([], [1], [-1], [1, -1], [-1, 2], [-1, -1, 3], [1, 2, 3]):
        def check(v):
            if isinstance(v, int) and v < 0: raise ValueError(v)
            return 0
        def flag(v):
            return isinstance(v, int) and v < 0
        cmp(tuple(items), lambda: (list(items), flag if fn == 'explicit_loop' else check))
print('REPLAY', c['fn'], bad[:5])
print('REPLAY-REPRODUCED' if bad else 'REPLAY-HOLDS')
'''
_NATIVE = None
_B = None


def replay(rep, cex):
    global _NATIVE
    try:
        if _NATIVE is None:
            _NATIVE = build.native(_B.cfile)
    except build.BuildError as e:
        return None, 'native build failed: %s' % e
    p = subprocess.run(['/verif/.venv/bin/python', '-c', REPLAY % dict(dir=os.path.dirname(_NATIVE), mod=_B.name, cex=cex, src=TEMPLATE)], capture_output=True, text=True, timeout=120)
    txt = (p.stdout + p.stderr).strip()[-700:]
    rep.validated += 1
    if p.returncode < 0:
        return True, 'process died with signal %d' % (-p.returncode)
    return 'REPLAY-REPRODUCED' in txt, txt


def closure_stubs(ex, env, tr):
    """closure scope objects: a new object whose cell slots start as NULL (tp_new zero-fills); the inner function object is an opaque new reference"""
    def scope_new(ex_, g, a, rt, caller):
        p = tr.new_object(g, 'scope')
        r = ex_.regions[[i for i in p.regions if i][0]]
        # every cell slot: NULL (unbound) or some live object - over-approximates whatever the inner function bound through `nonlocal` before the read
        for k, off in enumerate(range(16, 16 + 8 * 4, 8)):
            o = tr.arg('cell%d' % k)
            b = z3.Bool('cell%d_is_bound' % k)
            r.fields[off] = (8, Ptr(z3.If(b, o.bv, z3.BitVecVal(0, 64)), list(o.regions) + [0]))
        return p
    for f in _B.module.functions:
        if re.match(r'^__pyx_tp_new_.*___pyx_scope_struct', f):
            ex.stubs[f] = scope_new
    ex.stubs['__Pyx_CyFunction_New'] = lambda ex_, g, a, rt, c: tr.new_object(g, 'CyFunction_New')


def worker(fn):
    C35._B = _B
    C35.EXTRA = closure_stubs
    C35.NARGS.update(NARGS)
    res = C35.check_kernel(fn)
    # C21 keeps the NULL-safety / error-protocol obligations (reference counts are C35's subject)
    return [d for d in res if 'references it is owed' not in d['name']]


def run(rep, tier, only=None):
    global _B
    snapshot.activate()
    C35.UNROLL = 3          # unrolling 4 times already costs 13 minutes and leaves two loop kernels undecided within the query timeout; both tiers use 3
    _B = harness.build_template('c21t', TEMPLATE)
    jobs = [k for k in KERNELS if not only or only in k]
    rep.functions += ['generated code of %d def functions whose locals may be unbound when read or deleted (FlowControl.ControlFlowAnalysis facts cf_maybe_null / cf_is_null -> '
                      'ExprNodes.NameNode unbound checks, Nodes.TryFinallyStatNode exception copy of the finally clause, except-as unbinding) [%s]' % (len(KERNELS), build.sha(_B.cfile))]
    rep.bounds += ['every combination of success / failure of every fallible call in the kernel, loops unrolled %d times (longer iterations are outside)' % C35.UNROLL,
                   'claim: a local that is unbound when read never reaches the C-API or a dereference as NULL, and NULL is returned exactly when an exception is set; '
                   'the native replay compares value / exception class with the same source run by CPython',
                   'closure kernel cell_read: the scope object is a new object whose cell slots each hold NULL or an arbitrary live object (over-approximates every inner-function history); '
                   'outside: other closure shapes (from_closure reads in inner functions), lenient-mode compilation, class and module scope, generators, NameError for globals (C26)']
    rep.assume('ownership and failure contracts of the C-API as in C35', 'UnboundLocalError is raised by __Pyx_RaiseUnboundLocalError (sets the exception)')
    with mp.Pool(min(16, os.cpu_count() or 4), initializer=_init, initargs=(_B,)) as pool:
        results = pool.map(worker, jobs, chunksize=1)
    for job, res in zip(jobs, results):
        for d in res:
            if d['status'] == 'refuted':
                ok, txt = replay(rep, d['cex'])
                if ok:
                    rep.obligation(d['name'], 'refuted', d['s'], True, str(d['cex'])[:600])
                    rep.violation('%s fails for %s: %s' % (d['name'], str(d['cex'])[:500], txt), dict(cex=d['cex'], replay_output=txt))
                else:
                    rep.obligation(d['name'], 'inconclusive', d['s'], d.get('mandatory', True), 'counterexample %s did not reproduce: %s' % (str(d['cex'])[:400], txt))
            else:
                rep.obligation(d['name'], d['status'], d['s'], d.get('mandatory', True), d.get('detail'))
    rep.cov['states'] = sum(len(r) for r in results)
    rep.cov['transitions'] = sum(len(r) for r in results)
    rep.sample(dict(function='use_fin', inputs='acquire() failing or succeeding, r.close lookup / call failing or succeeding'))


def _init(B):
    global _B
    _B = B
