"""String table emission, shared by C10 (values arrive at their table position, length index bit-fields) and C12 (every compressed
variant of the table decompresses to the uncompressed one and is passed its own length): CrossHair on the real
Code.GlobalState.generate_pystring_constants with a recording stand-in for the GlobalState (vf/pysym/h_strtab.py)."""
import os, shutil
import concurrent.futures as cf
from ..pysym import runner
from ..pysym.runner import Cond
from .. import snapshot

H = '/verif/vf/pysym/h_strtab.py'
COMBOS = [(0, 1, 2), (1, 1, 0), (0, 0, 1), (1, 0, 2)]          # (first interned, second interned, number of bytes strings)


def run(rep, tier, focus):
    """focus 'values' (C10): every length; focus 'compressed' (C12): only tables long enough to get compressed variants"""
    import importlib.util
    spec = importlib.util.spec_from_file_location('h_strtab_probe', H)
    d = snapshot.scratch_dir('strtab')
    shutil.copy(H, os.path.join(d, 'h_strtab.py'))
    LENGTHS = [int(x) for x in open(H).read().split('LENGTHS = [')[1].split(']')[0].split(',')]
    NU = open(H).read().split('UNITS = [')[1].split(']')[0].count(',') + 1
    first_long = min(k for k, v in enumerate(LENGTHS) if v >= 255)
    files = []

    def module(name, params, pre, call, twin=False):
        M = ['import h_strtab as B', '', 'def %s(%s) -> bool:' % (name, params), '    """', '    pre: ' + pre, '    post: _ == True', '    """', '    return ' + call, '']
        if twin:
            M += ['def twin(n1: int, u1: int) -> bool:', '    """', '    pre: 0 <= n1 < 4 and 0 <= u1 < 2', '    post: _ == True', '    """', '    return B.twin(n1, u1)', '']
        f = os.path.join(d, 'g_%s.py' % name)
        open(f, 'w').write('\n'.join(M))
        files.append((f, name))
        return f
    lo = first_long if focus == 'compressed' else 0
    for u in range(NU):
        module('strtab_one_unit%d' % u, 'n1: int, i1: int', '%d <= n1 < %d and 0 <= i1 < 2' % (lo, len(LENGTHS)), 'B.check(n1, %d, 0, 0, 0, i1, 0, 0)' % u, twin=(u == 0))
    for n1 in range(lo, len(LENGTHS)):
        if tier == 'thorough':
            module('strtab_two_len%d' % LENGTHS[n1], 'n2: int, i1: int, i2: int, nb: int', '0 <= n2 < %d and 0 <= i1 < 2 and 0 <= i2 < 2 and 0 <= nb < 3' % len(LENGTHS),
                   'B.check(%d, 1, n2, 2, n2, i1, i2, nb)' % n1)
        else:
            module('strtab_two_len%d' % LENGTHS[n1], 'n2: int, c: int', '0 <= n2 < %d and 0 <= c < %d' % (len(LENGTHS), len(COMBOS)), 'B.check_combo(%d, n2, c)' % n1)
    rep.functions += ['Cython/Compiler/Code.py: GlobalState.generate_pystring_constants (sorting, #define positions, length index bit-fields, choice and emission of the compressed '
                      'variants, the uncompressed variant), compression_algorithms (lzss via Cython/LZSS.py, zlib, bz2)']
    rep.bounds += ['string tables of 1..2 text strings (lengths %s characters of 9 repeated units incl. 2- and 3-byte UTF-8, quotes, backslash, NUL; interned or not) and 0..2 bytes strings; '
                   'lengths and flags symbolic%s' % (LENGTHS, '; only tables with a string of >= 255 characters' if focus == 'compressed' else ''),
                   'read back as the emitted C reads it: index values through their declared bit-field width, each variant decompressed with the length it is passed (zlib/bz2 by CPython, lzss by '
                   'vf/pysym/ref_lzss.py), cut by the index, compared at the #defined table position',
                   'outside: the C text of the literals (escaping/splitting: C11), the emitted unpacking loops themselves (read, not executed), zstd (not available before Python 3.14), '
                   'tables of more than 4 strings, strings longer than 513']
    rep.assume('every emitted length index has at least one entry (otherwise it is not emitted)')
    runner.run_twin(rep, files[0][0], 'twin', 120, extra_path=[d])
    T = 1500 if tier == 'quick' else 4000
    with cf.ThreadPoolExecutor(max_workers=16) as ex:
        list(ex.map(lambda fn: runner.run_conditions(rep, fn[0], [Cond(fn[1], T)], jobs=1, extra_path=[d]), files))
    return len(files)
