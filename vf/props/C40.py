"""C40 safe type inference never changes pure-Python results (narrow): the two decisions safe inference rests on.  (A) the type chosen for a
name from the types of the values assigned to it: CrossHair on the real TypeInference.safe_spanning_type / find_spanning_type;
(B) which names may stay C integers: the real MarkOverflowingArithmetic transform run on analysed trees of small functions, against an
exactness oracle for each operator that z3 decides over all 64-bit operands (PYSYM + SMT)."""
import os, shutil, time
import concurrent.futures as cf
import z3
from ..pysym import runner
from ..pysym.runner import Cond
from .. import snapshot

LEVEL = 'model_checking'
H = '/verif/vf/pysym/h_c40.py'
W = 64
WIDE = 200            # Python ints, modelled wide enough for every result of one operation on two 64-bit operands (a << 63 needs 127 bits)


def exactness(rep):
    """For each operator: is the C operation on int64 operands defined and equal to Python's result for ALL operand values?
    unsat of (undefined or different) = exact."""
    a, b = z3.BitVec('a', W), z3.BitVec('b', W)
    A, B_ = z3.SignExt(WIDE - W, a), z3.SignExt(WIDE - W, b)
    ext = lambda x: z3.SignExt(WIDE - W, x)
    zero = z3.BitVecVal(0, WIDE)

    def floordiv(x, y):
        q = x / y                        # bvsdiv truncates
        return z3.If(z3.And(z3.SRem(x, y) != 0, (x < 0) != (y < 0)), q - 1, q)

    def pymod(x, y):
        r = z3.SRem(x, y)
        return z3.If(z3.And(r != 0, (r < 0) != (y < 0)), r + y, r)
    MIN = z3.BitVecVal(-(1 << (W - 1)), W)
    # operator -> (python result (wide) , C result (64 bit), C undefined / Python raises differently)
    ops = {
        '+': (A + B_, a + b, z3.Or(z3.Not(z3.BVAddNoOverflow(a, b, True)), z3.Not(z3.BVAddNoUnderflow(a, b)))),
        '-': (A - B_, a - b, z3.Or(z3.Not(z3.BVSubNoOverflow(a, b)), z3.Not(z3.BVSubNoUnderflow(a, b, True)))),
        '*': (A * B_, a * b, z3.Or(z3.Not(z3.BVMulNoOverflow(a, b, True)), z3.Not(z3.BVMulNoUnderflow(a, b)))),
        '//': (floordiv(A, B_), floordiv(a, b), z3.And(a == MIN, b == -1)),
        '%': (pymod(A, B_), pymod(a, b), z3.And(a == MIN, b == -1)),
        '<<': (A << B_, a << b, z3.Or(b < 0, b >= W, ext(a << b) != (A << B_))),
        '>>': (A >> B_, a >> b, z3.Or(b < 0, b >= W)),
        '&': (A & B_, a & b, z3.BoolVal(False)),
        '|': (A | B_, a | b, z3.BoolVal(False)),
        '^': (A ^ B_, a ^ b, z3.BoolVal(False)),
        'neg': (-A, -a, a == MIN),
        'inv': (~A, ~a, z3.BoolVal(False)),
        'abs': (z3.If(A < 0, -A, A), z3.If(a < 0, -a, a), a == MIN),
    }
    exact = {}
    for op, (py, c, undefined) in ops.items():
        s = z3.Solver()
        s.set('timeout', 120000)
        if op in ('//', '%'):
            s.add(b != 0)                 # division by zero raises ZeroDivisionError in both
        t0 = time.time()
        s.push()
        s.add(undefined)                  # cheap first: is the C operation undefined for some operands?
        r = str(s.check())
        if r != 'sat':
            s.pop()
            s.add(z3.Or(undefined, ext(c) != py))
            r = str(s.check())
        secs = time.time() - t0
        if r == 'unknown':
            rep.obligation('exactness of C %s on 64-bit operands' % op, 'inconclusive', secs, True, 'z3 unknown')
            exact[op] = False
            continue
        exact[op] = (r == 'unsat')
        detail = None
        if r == 'sat':
            m = s.model()
            detail = 'differs e.g. for a=%d b=%d' % (m.eval(a, model_completion=True).as_signed_long(), m.eval(b, model_completion=True).as_signed_long())
        rep.obligation('oracle: C %s on 64-bit operands is %s' % (op, 'exact for all operands' if exact[op] else 'not exact'), 'proved' if exact[op] else 'witness', secs, True, detail)
    return exact


def known_classifier(call, func):
    if func.startswith('span_f15'):
        return 'F15-numbers-of-different-python-classes-inferred-as-one-c-floating-type'
    return None


def run(rep, tier, only=None):
    snapshot.activate()
    d = snapshot.scratch_dir('c40')
    shutil.copy(H, os.path.join(d, 'h_c40.py'))
    rep.functions += ['Cython/Compiler/TypeInference.py: safe_spanning_type, find_spanning_type, simply_type; Cython/Compiler/PyrexTypes.py: spanning_type and what it calls',
                      'Cython/Compiler/TypeInference.py: MarkOverflowingArithmetic (all visit_* methods), run on trees analysed by the real pipeline']
    rep.bounds += ['(A) lists of 1..3 assigned-value types out of 18 (bint, long, int, Py_ssize_t, Py_hash_t, size_t, long long, double, float, double complex, Py_UCS4, object, and the '
                   'builtin types int/float/str/bytes/list/bool), in every order, might_overflow on/off; selectors symbolic' + ('; lists of 4 over the 11 C types' if tier == 'thorough' else ''),
                   '(B) functions `h = hash(o); k = len(o); r = k OP h` for OP in + - * // % << >> & | ^ (binary and in-place), -k, ~k, abs(k), alone or with a nested def+lambda / lambda / '
                   'generator expression / two-level nested def placed before or after the arithmetic; whenever z3 finds the C operation on 64-bit operands not exact, both operand names '
                   'must be flagged might_overflow',
                   'oracle (B): z3 over ALL pairs of 64-bit operands, Python ints modelled as %d-bit bit-vectors; an operation that is undefined in C (shift count out of range, MIN / -1, '
                   '-MIN) counts as not exact' % WIDE,
                   'outside: the flow analysis that collects the assignments (MarkParallelAssignments, FlowControl), the iteration of the inferer to a fixed point, '
                   'true division / power / matrix multiplication, C types narrower than 64 bits, the generated C of the inferred arithmetic (C04, C05, C13, C36)']
    rep.assume('Python class of a value of each listed type (bint -> bool, C integers -> int, C floats -> float, Py_UCS4 -> str, builtin types -> themselves)',
               'a value stored in a Python-object variable is kept as it is')
    files = []

    def module(name, head, params, pre, call, twin=None):
        M = ['import h_c40 as B', ''] + head + ['def %s(%s) -> bool:' % (name, params), '    """', '    pre: ' + pre, '    post: _ == True', '    """', '    return ' + call, '']
        if twin:
            M += twin
        f = os.path.join(d, 'g_%s.py' % name)
        open(f, 'w').write('\n'.join(M))
        files.append((f, name))
        return f
    twinA = twinB = None
    if not only or 'span' in only:
        for n in (1, 2, 3):
            for mo in (0, 1):
                for kind in ('span', 'span_f15'):
                    fn = 'check_not_f15' if kind == 'span' else 'check_f15'
                    if n < 3:
                        module('%s_n%d_mo%d' % (kind, n, mo), [], 't0: int, t1: int', '0 <= t0 < 18 and 0 <= t1 < %d' % (18 if n > 1 else 1), 'B.%s(%d, t0, t1, 0, %d)' % (fn, n - 1, mo))
                    else:
                        for t0 in range(18):
                            module('%s_n3_mo%d_t%02d' % (kind, mo, t0), [], 't1: int, t2: int', '0 <= t1 < 18 and 0 <= t2 < 18', 'B.%s(2, %d, t1, t2, %d)' % (fn, t0, mo))
        if tier == 'thorough':
            for t0 in range(11):
                for t1 in range(11):
                    for f15 in (0, 1):
                        module('%s_n4_t%02d_%02d' % ('span_f15' if f15 else 'span', t0, t1), [], 't2: int, t3: int, mo: int', '0 <= t2 < 11 and 0 <= t3 < 11 and 0 <= mo < 2',
                               'B.check4(%d, %d, %d, t2, t3, mo)' % (f15, t0, t1))
        twinA = module('span_twin_host', [], 't0: int', '0 <= t0 < 18', 'B.check_not_f15(0, t0, 0, 0, 0)',
                       twin=['def twin(t0: int) -> bool:', '    """', '    pre: 0 <= t0 < 18', '    post: _ == True', '    """', '    return B.twin(t0)', ''])
    if not only or 'overflow' in only:
        exact = exactness(rep)
        for nest in range(5):
            for after in (0, 1):
                if nest == 0 and after:
                    continue
                nm = 'overflow_nest%d_%s' % (nest, 'after' if after else 'before')
                head = ['TAB = B.prepare_overflow(%d, %d)' % (nest, after), 'EXACT = %r' % exact, '']
                tw = None
                if nest == 0:
                    tw = ['def twin(j: int) -> bool:', '    """', '    pre: 0 <= j < 23', '    post: _ == True', '    """', '    return not B.twin_overflow(TAB, EXACT, j)', '']
                f = module(nm, head, 'j: int', '0 <= j < 23', 'B.check_overflow(TAB, EXACT, j)', twin=tw)
                if nest == 0:
                    twinB = f
    if twinA:
        runner.run_twin(rep, twinA, 'twin', 120, extra_path=[d])
    if twinB:
        runner.run_twin(rep, twinB, 'twin', 120, extra_path=[d])
    with cf.ThreadPoolExecutor(max_workers=16) as ex:
        list(ex.map(lambda fn: runner.run_conditions(rep, fn[0], [Cond(fn[1], 900)], jobs=1, extra_path=[d], known_classifier=known_classifier), files))
    rep.cov['states'] = len(files)
    rep.cov['transitions'] = len(files)
    rep.sample(dict(function='safe_spanning_type', inputs='type lists selected by symbolic indices', example="['long', 'Py_UCS4'] -> Python object"))
