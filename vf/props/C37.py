"""C37 prange (narrow): the sequential projection of prange loops - trip count, index values, lastprivate index and sum reduction of the
generated loop (Nodes.ParallelRangeNode) equal those of range(); schedules and threads are outside (GEN + CIR, event traces)."""
import multiprocessing as mp, os, subprocess, time
import z3
from .. import snapshot
from ..cir import build, solve, symex, stubs, ir
from ..gen import harness, arith, loops, trace
from . import C14

LEVEL = 'model_checking'
_B = None
_K = {}
MAXTRIP = C14.MAXTRIP
W = C14.W
LIM = 1 << 20
INIT = -77


def family(types=('int', 'long', 'short')):
    src = [loops.PRELUDE, 'from cython.parallel import prange']
    ks = []
    for tname in types:
        cty, bits, signed = arith.TYPEINFO[tname]
        for s in (1, 2, 3, -1, -2, -7):
            name = 'pr_%s_%s' % (tname, str(s).replace('-', 'm'))
            body = ['cdef long %s(%s a, %s b, %s* last, long* total) noexcept nogil:' % (name, cty, cty, cty),
                    '    cdef %s i = %d' % (cty, INIT), '    cdef long s = 0', '    cdef long n = 0',
                    '    for i in prange(a, b, %d):' % s, '        ev(i)', '        s += i', '        n += 1',
                    '    last[0] = i', '    total[0] = s', '    return n',
                    'def py_%s(a, b):' % name, '    global vf_n', '    cdef %s last = 0' % cty, '    cdef long total = 0', '    vf_n = 0',
                    '    n = %s(a, b, &last, &total)' % name, '    return [vf_trace[k] for k in range(vf_n)], last, total, n', '']
            src.extend(body)
            ks.append(loops.Loop(name, tname, 'range3', s, INIT, '\n'.join(body)))
    return '\n'.join(src), ks


def check_kernel(kname):
    k = _K[kname]
    cty, bits, signed = arith.TYPEINFO[k.tname]
    T = int(os.environ.get('VF_QTIMEOUT', '60'))
    t0 = time.time()
    out = []
    try:
        ex, env = _B.new_exec(unroll=MAXTRIP + 1)
        ex.stubs['ev'] = lambda ex_, g, args, rt, caller: (env.event(g, 'ev', args), z3.BitVecVal(0, 64))[1]
        a, b = z3.BitVec('a', bits), z3.BitVec('b', bits)
        lastr = ex.new_region('last', size=bits // 8, lazy=False)
        lastr.fields[0] = (bits // 8, z3.BitVecVal(0, bits))
        totr = ex.new_region('total', size=8, lazy=False)
        totr.fields[0] = (8, z3.BitVecVal(0, 64))
        ret, rg = ex.run(_B.cfunc(k.name), [a, b, ex.ptr_to(lastr), ex.ptr_to(totr)])
        last = ex.load(ex.ptr_to(lastr), ir.T('int', bits=bits), z3.BoolVal(True))
        total = ex.load(ex.ptr_to(totr), ir.T('int', bits=64), z3.BoolVal(True))
    except (symex.Unsupported, ir.ParseError, KeyError) as e:
        return [dict(name=kname + ':encode', status='inconclusive', s=time.time() - t0, detail='Unsupported: %s' % e)]
    A, Bv = C14.sxw(a, signed), C14.sxw(b, signed)
    items, n, toolong = C14.py_range(k, A, Bv)
    lim = min(LIM, (1 << (bits - 1)) // 4)
    pre = [z3.Not(toolong), A >= -lim, A <= lim, Bv >= -lim, Bv <= lim]
    spec = [(pres, z3.Extract(63, 0, v)) for pres, v in items]
    lastv = z3.BitVecVal(INIT, W)
    tot = z3.BitVecVal(0, W)
    for pres, v in items:
        lastv = z3.If(pres, v, lastv)
        tot = tot + z3.If(pres, v, z3.BitVecVal(0, W))
    impl = trace.impl_trace(ex, 'ev')

    def cexf(m):
        return dict(kernel=kname, a=solve.model_int(m, a, signed), b=solve.model_int(m, b, signed))

    def ob(name, conds, kind='unsat'):
        r, m, s = solve.check(pre + conds, T)
        d = dict(name=kname + ': ' + name, s=s)
        d['status'] = ({'unsat': 'proved', 'sat': 'refuted'} if kind == 'unsat' else {'sat': 'witness', 'unsat': 'vacuous'}).get(r, 'inconclusive')
        if r == 'sat' and kind == 'unsat':
            d['cex'] = cexf(m)
        out.append(d)
    ob('executed sequentially, the body runs for exactly the indices of range(a, b, %d), in order' % k.step, [rg, trace.trace_differs(impl, spec)])
    ob('trip count equals len(range(a, b, %d))' % k.step, [rg, ret != z3.ZeroExt(56, n)])
    ob('the index variable ends at the last index (non-empty range)', [rg, n >= 1, C14.sxw(last, signed) != lastv])
    ob('the sum reduction equals the sequential sum', [rg, z3.SignExt(W - 64, total) != tot])
    ob('returns', [z3.Not(rg)])
    if ex.unwind:
        ob('unwinding assertion (trip count <= %d under the precondition)' % MAXTRIP, [z3.Or(*[u[0] for u in ex.unwind])])
    ubs = [c for c, desc, fn in ex.ub]
    if ubs:
        ob('no UB within |a|, |b| <= %d' % lim, [z3.Or(*ubs)])
    ob('reach: 3 iterations', [rg, n == 3], kind='witness')
    return out


REPLAY = r'''
import sys
sys.path.insert(0, %(dir)r)
import %(mod)s as M
c = %(cex)r
step = %(step)d
bad = []
for a, b in [(c['a'], c['b'])] + [(x, y) for x in range(-9, 10) for y in range(-9, 10)]:
    tr, last, total, n = getattr(M, 'py_' + c['kernel'])(a, b)
    want = list(range(a, b, step))
    got = (tr, n, total) + ((last,) if want else ())
    exp = (want, len(want), sum(want)) + ((want[-1],) if want else ())
    if got != exp: bad.append((a, b, got, exp))
print('REPLAY', bad[:3])
print('REPLAY-REPRODUCED' if bad else 'REPLAY-HOLDS')
'''
_NATIVE = None


def replay(rep, kname, cex):
    global _NATIVE
    try:
        if _NATIVE is None:
            _NATIVE = build.native(_B.cfile)
    except build.BuildError as e:
        return None, 'native build failed: %s' % e
    p = subprocess.run(['/verif/.venv/bin/python', '-c', REPLAY % dict(dir=os.path.dirname(_NATIVE), mod=_B.name, cex=cex, step=_K[kname].step)], capture_output=True, text=True, timeout=120)
    txt = (p.stdout + p.stderr).strip()[-500:]
    rep.validated += 1
    if p.returncode < 0:
        return True, 'process died with signal %d' % (-p.returncode)
    return 'REPLAY-REPRODUCED' in txt, txt


def _init(B, K):
    global _B, _K
    _B, _K = B, K


def run(rep, tier, only=None):
    global _B, _K
    snapshot.activate()
    global MAXTRIP
    if tier == 'thorough':
        C14.MAXTRIP = MAXTRIP = 10
        os.environ.setdefault('VF_QTIMEOUT', '300')
    src, ks = family(('int', 'long', 'short') if tier == 'quick' else ('int', 'long', 'short', 'ssize_t', 'longlong'))
    _B = harness.build_template('c37t', src)
    _K = {k.name: k for k in ks}
    names = [k.name for k in ks if not only or only in k.name]
    rep.functions += ['generated code of `for i in prange(a, b, step)` (Nodes.ParallelRangeNode.generate_execution_code / generate_loop: trip-count formula, index reconstruction, '
                      'lastprivate index, += reduction) for int / long / short and steps 1, 2, 3, -1, -2, -7, compiled without OpenMP (the pragmas are inactive) [%s]' % build.sha(_B.cfile)]
    rep.bounds += ['sequential projection only: one thread, no OpenMP; |a|, |b| <= 2^20 (short: 2^13), trip count <= %d (unwinding assertion), every such a, b' % MAXTRIP,
                   'outside: every schedule / thread count / chunk size (the pragmas and the OpenMP runtime are not encodable with what is installed), exits from the loop body '
                   '(break / return / exceptions across threads), reductions other than +, nested prange']
    rep.assume('the OpenMP `for` construct distributes exactly the iterations 0..nsteps-1 of the canonical loop (its specification); what is checked is that this canonical loop is the right one')
    with mp.Pool(min(16, os.cpu_count() or 4), initializer=_init, initargs=(_B, _K)) as pool:
        results = pool.map(check_kernel, names, chunksize=1)
    for kname, res in zip(names, results):
        for d in res:
            if d['status'] == 'refuted':
                ok, txt = replay(rep, kname, d['cex'])
                if ok:
                    rep.obligation(d['name'], 'refuted', d['s'], True, str(d['cex']))
                    rep.violation('%s fails for %s: %s' % (d['name'], d['cex'], txt), dict(cex=d['cex'], replay_output=txt))
                else:
                    rep.obligation(d['name'], 'inconclusive', d['s'], True, 'counterexample %s did not reproduce: %s' % (d['cex'], txt))
            else:
                rep.obligation(d['name'], d['status'], d['s'], True, d.get('detail'))
    rep.cov['states'] = sum(len(r) for r in results)
    rep.cov['transitions'] = sum(len(r) for r in results)
    rep.sample(dict(kernel='pr_int_m7', inputs='a, b symbolic ints within +-2^20'))
