"""C28 extension-type operators (narrow): the synthesised tp_richcompare functions of cdef classes (inherited methods, the derived `!=`,
cython.total_ordering) against the rules of an equivalent Python class (GEN + CIR).  Arithmetic slots are not claimed."""
import multiprocessing as mp, os, re, subprocess, time
import z3
from .. import snapshot
from ..cir import build, solve, symex, stubs, ir
from ..cir.symex import Ptr
from ..gen import harness

LEVEL = 'model_checking'
_B = None
TEMPLATE = '''# cython: language_level=3
cimport cython
LOG = []
cdef out(name, kind):
    LOG.append(name)
    if kind == 0: return NotImplemented
    if kind == 3: raise ValueError(name)
    return Truth(kind == 1)
class Truth:
    def __init__(self, t): self.t = t
    def __bool__(self): return self.t
    def __eq__(self, o): return isinstance(o, Truth) and o.t == self.t
    def __hash__(self): return hash(self.t)
    def __repr__(self): return 'Truth(%r)' % self.t
cdef class E:
    cdef public object k
    def __init__(self, k): self.k = k
    def __eq__(self, other): return out('E.eq', self.k['eq'])
cdef class S(E):
    def __le__(self, other): return out('S.le', self.k['le'])
@cython.total_ordering
cdef class T:
    cdef public object k
    def __init__(self, k): self.k = k
    def __le__(self, other): return out('T.le', self.k['le'])
    def __gt__(self, other): return out('T.gt', self.k['gt'])
    def __eq__(self, other): return out('T.eq', self.k['eq'])
cdef class N:
    cdef public object k
    def __init__(self, k): self.k = k
    def __eq__(self, other): return out('N.eq', self.k['eq'])
    def __ne__(self, other): return out('N.ne', self.k['ne'])
@cython.total_ordering
cdef class G:
    cdef public object k
    def __init__(self, k): self.k = k
    def __ge__(self, other): return out('G.ge', self.k['ge'])
    def __eq__(self, other): return out('G.eq', self.k['eq'])
'''
# class -> {op name: (class that defines it, method)} following the MRO, and the total_ordering root
CLASSES = {
    'E': dict(methods={'eq': 'E'}, total=False),
    'S': dict(methods={'eq': 'E', 'le': 'S'}, total=False),
    'T': dict(methods={'le': 'T', 'gt': 'T', 'eq': 'T'}, total=True),
    'N': dict(methods={'eq': 'N', 'ne': 'N'}, total=False),
    'G': dict(methods={'ge': 'G', 'eq': 'G'}, total=True),
}
OPNAMES = {0: 'lt', 1: 'le', 2: 'eq', 3: 'ne', 4: 'gt', 5: 'ge'}


def T_():
    return int(os.environ.get('VF_QTIMEOUT', '60'))


def check_richcmp(job):
    cls, op = job
    spec = CLASSES[cls]
    out = []
    t0 = time.time()
    fname = '__pyx_tp_richcompare_%d%s_%s' % (len(_B.name), _B.name, cls)
    try:
        ex, env = _B.new_exec(unroll=2)
        for nm in ('Py_INCREF', 'Py_DECREF', 'Py_XDECREF', 'Py_XINCREF'):
            ex.stubs[nm] = lambda ex_, g, a, rt, c: None
        for nm in ('__Pyx_NewRef', 'Py_NewRef', '_Py_NewRef'):
            ex.stubs[nm] = lambda ex_, g, a, rt, c: a[0]
        NI = ex.global_ptr('_Py_NotImplementedStruct')
        TR, FA, NO = ex.global_ptr('_Py_TrueStruct'), ex.global_ptr('_Py_FalseStruct'), ex.global_ptr('_Py_NoneStruct')
        o1, i1 = env.make_opaque('o1')
        o2, i2 = env.make_opaque('o2')
        meth = {}        # method name -> dict(kind, truth, obj region, events)
        for m in spec['methods']:
            r = ex.new_region('result_of_%s' % m, size=None, lazy=True)
            meth[m] = dict(kind=z3.BitVec('kind_%s' % m, 2), truth=z3.BitVec('truth_%s' % m, 32), obj=r, events=[])
        verr = env.exc_type('PyExc_ValueError')

        def mk(m):
            def stub(ex_, g, a, rt, caller):
                d = meth[m]
                d['events'].append(env.event(g, m, a))
                env.set_error(z3.And(g, d['kind'] == 2), ex_.ptr_to(verr))
                return Ptr(z3.If(d['kind'] == 0, NI.bv, z3.If(d['kind'] == 1, z3.BitVecVal(d['obj'].base, 64), z3.BitVecVal(0, 64))), [d['obj'].id, 0] + list(NI.regions))
            return stub
        for f in _B.module.functions:
            mm = re.match(r'^__pyx_pw_\d+%s_\d+(\w)_\d+__(\w+)__$' % _B.name, f)
            if mm and mm.group(2) in spec['methods'] and spec['methods'][mm.group(2)] == mm.group(1):
                ex.stubs[f] = mk(mm.group(2))

        def istrue(ex_, g, a, rt, caller):
            res = z3.BitVecVal(1, 32)
            for m, d in meth.items():
                res = z3.If(a[0].bv == z3.BitVecVal(d['obj'].base, 64), d['truth'], res)
            env.set_error(z3.And(g, res < 0), ex_.ptr_to(verr))
            return res
        ex.stubs['PyObject_IsTrue'] = istrue
        ret, rg = ex.run(fname, [o1, o2, z3.BitVecVal(op, 32)])
    except (symex.Unsupported, ir.ParseError, KeyError, IndexError) as e:
        return [dict(name='%s %s:encode' % (cls, OPNAMES[op]), status='inconclusive', s=time.time() - t0, detail='Unsupported: %s' % str(e)[:300], mandatory=True)]
    pre = [i1, i2] + list(ex.assumptions)
    for d in meth.values():
        pre += [z3.ULE(d['kind'], 2), z3.And(d['truth'] >= -1, d['truth'] <= 1)]
    res_ptr = lambda m: z3.If(meth[m]['kind'] == 0, NI.bv, z3.If(meth[m]['kind'] == 1, z3.BitVecVal(meth[m]['obj'].base, 64), z3.BitVecVal(0, 64)))
    boolp = lambda c: z3.If(c, TR.bv, FA.bv)
    called = lambda m: z3.Or(*[e.guard for e in meth[m]['events']]) if meth[m]['events'] else z3.BoolVal(False)
    opn = OPNAMES[op]
    ms = spec['methods']
    # ---- the rules of an equivalent Python class
    want_calls = {m: z3.BoolVal(False) for m in ms}
    if opn in ms:
        want = res_ptr(opn)
        want_calls[opn] = z3.BoolVal(True)
        rule = 'the method found along the MRO is called and its result returned unchanged'
    elif opn == 'ne' and 'eq' in ms:
        k, t = meth['eq']['kind'], meth['eq']['truth']
        want = z3.If(k == 0, NI.bv, z3.If(k == 2, z3.BitVecVal(0, 64), z3.If(t < 0, z3.BitVecVal(0, 64), boolp(t == 0))))
        want_calls['eq'] = z3.BoolVal(True)
        rule = '`!=` without __ne__ is the inverted truth of __eq__ (NotImplemented and errors pass through), as object.__ne__ does'
    elif spec['total'] and opn in ('lt', 'le', 'gt', 'ge'):
        # functools.total_ordering: root = the first defined of lt, le, gt, ge; derived result from root and __eq__
        root = [r for r in ('lt', 'le', 'gt', 'ge') if r in ms][0]
        kr, tr_ = meth[root]['kind'], meth[root]['truth']
        ke, te = meth['eq']['kind'], meth['eq']['truth']
        # truth table of `opn` in terms of (root result, eq result):  value = f(root_true, eq_true)
        table = {('le', 'lt'): lambda r, e: z3.And(r, z3.Not(e)), ('le', 'ge'): lambda r, e: z3.Or(z3.Not(r), e), ('le', 'gt'): lambda r, e: z3.Not(r),
                 ('ge', 'gt'): lambda r, e: z3.And(r, z3.Not(e)), ('ge', 'le'): lambda r, e: z3.Or(z3.Not(r), e), ('ge', 'lt'): lambda r, e: z3.Not(r),
                 ('lt', 'le'): lambda r, e: z3.Or(r, e), ('lt', 'gt'): lambda r, e: z3.And(z3.Not(r), z3.Not(e)), ('lt', 'ge'): lambda r, e: z3.Not(r),
                 ('gt', 'ge'): lambda r, e: z3.Or(r, e), ('gt', 'lt'): lambda r, e: z3.And(z3.Not(r), z3.Not(e)), ('gt', 'le'): lambda r, e: z3.Not(r)}
        f = table[(root, opn)]
        # does the value depend on eq for this root truth?  (short-circuit exactly when it does not)
        r_true = tr_ == 1
        val_e1, val_e0 = f(r_true, z3.BoolVal(True)), f(r_true, z3.BoolVal(False))
        needs_eq = z3.simplify(val_e1 != val_e0)
        eq_part = z3.If(ke == 0, NI.bv, z3.If(ke == 2, z3.BitVecVal(0, 64), z3.If(te < 0, z3.BitVecVal(0, 64), boolp(f(r_true, te == 1)))))
        want = z3.If(kr == 0, NI.bv, z3.If(kr == 2, z3.BitVecVal(0, 64), z3.If(tr_ < 0, z3.BitVecVal(0, 64), z3.If(needs_eq, eq_part, boolp(val_e0)))))
        want_calls[root] = z3.BoolVal(True)
        want_calls['eq'] = z3.And(kr == 1, tr_ >= 0, needs_eq)
        rule = 'total_ordering derives it from __%s__ (the first defined of lt, le, gt, ge) and __eq__, consulting __eq__ only when the result depends on it' % root
    else:
        want = NI.bv
        rule = 'no method along the MRO: NotImplemented, no user code runs'

    def cexf(m):
        return dict(kind='richcmp', cls=cls, op=opn, outcomes={k: (m.eval(d['kind'], model_completion=True).as_long(), m.eval(d['truth'], model_completion=True).as_signed_long()) for k, d in meth.items()})

    def ob(name, conds, kind_='unsat'):
        r, m, s = solve.check(pre + conds, T_())
        d = dict(name='%s %s: %s' % (cls, {'lt': '<', 'le': '<=', 'eq': '==', 'ne': '!=', 'gt': '>', 'ge': '>='}[opn], name), s=s, mandatory=True)
        d['status'] = ({'unsat': 'proved', 'sat': 'refuted'} if kind_ == 'unsat' else {'sat': 'witness', 'unsat': 'vacuous'}).get(r, 'inconclusive')
        if r == 'sat' and kind_ == 'unsat':
            d['cex'] = cexf(m)
        out.append(d)
    ob(rule, [z3.Not(z3.And(rg, ret.bv == want))])
    bad_calls = z3.BoolVal(False)
    for m_ in ms:
        bad_calls = z3.Or(bad_calls, called(m_) != want_calls[m_])
        for e in meth[m_]['events']:
            bad_calls = z3.Or(bad_calls, z3.And(e.guard, z3.Not(z3.And(e.args[0].bv == o1.bv, e.args[1].bv == o2.bv))))
        evs = meth[m_]['events']
        for i in range(len(evs)):
            for j in range(i + 1, len(evs)):
                bad_calls = z3.Or(bad_calls, z3.And(evs[i].guard, evs[j].guard))
    ob('exactly the methods an equivalent Python class would call are called, once, with (self, other)', [rg, bad_calls])
    ob('NULL exactly when an exception is set', [rg, (ret.bv == 0) != z3.Not(env.no_error())])
    allc = [want_calls[m_] for m_ in ms]
    ob('reach: a comparison that runs user code and returns a bool or the method result', [rg, ret.bv != 0, ret.bv != NI.bv] + ([z3.Or(*[called(m_) for m_ in ms])] if opn in ms or opn == 'ne' or spec['total'] else []), kind_='witness' if (opn in ms or (opn == 'ne' and 'eq' in ms) or (spec['total'] and opn in ('lt', 'le', 'gt', 'ge'))) else 'unsat')
    return out


REPLAY = r'''
import sys, functools, itertools
sys.path.insert(0, %(dir)r)
import %(mod)s as M
c = %(cex)r
import operator
OPF = {'lt': operator.lt, 'le': operator.le, 'eq': operator.eq, 'ne': operator.ne, 'gt': operator.gt, 'ge': operator.ge}
PLOG = []
def pout(name, kind):
    PLOG.append(name)
    if kind == 0: return NotImplemented
    if kind == 3: raise ValueError(name)
    return M.Truth(kind == 1)
class PE:
    def __init__(s, k): s.k = k
    def __eq__(s, o): return pout('E.eq', s.k['eq'])
    __hash__ = None
class PS(PE):
    def __le__(s, o): return pout('S.le', s.k['le'])
@functools.total_ordering
class PT:
    def __init__(s, k): s.k = k
    def __le__(s, o): return pout('T.le', s.k['le'])
    def __gt__(s, o): return pout('T.gt', s.k['gt'])
    def __eq__(s, o): return pout('T.eq', s.k['eq'])
    __hash__ = None
class PN:
    def __init__(s, k): s.k = k
    def __eq__(s, o): return pout('N.eq', s.k['eq'])
    def __ne__(s, o): return pout('N.ne', s.k['ne'])
    __hash__ = None
@functools.total_ordering
class PG:
    def __init__(s, k): s.k = k
    def __ge__(s, o): return pout('G.ge', s.k['ge'])
    def __eq__(s, o): return pout('G.eq', s.k['eq'])
    __hash__ = None
PY = dict(E=PE, S=PS, T=PT, N=PN, G=PG)
cls, op = c['cls'], c['op']
names = {'E': ['eq'], 'S': ['eq', 'le'], 'T': ['le', 'gt', 'eq'], 'N': ['eq', 'ne'], 'G': ['ge', 'eq']}[cls]
bad = []
# kinds: 0 NotImplemented, 1 true object, 2 false object, 3 raises.  NotImplemented from __eq__ inside a derived comparison is excluded
# (functools falls back to identity there, the documented cython.total_ordering returns NotImplemented)
for combo in itertools.product((0, 1, 2, 3), repeat=len(names)):
    k = dict(zip(names, combo))
    if op not in names and k.get('eq') == 0 and op != 'ne': continue
    def run(C, LOG):
        del LOG[:]
        a, b = C(dict(k)), C({n: 0 for n in names})      # the right operand answers NotImplemented to everything (reflected calls are CPython's)
        try: r = OPF[op](a, b)
        except ValueError as e: r = 'ValueError'
        except TypeError as e: r = 'TypeError'
        return (repr(r) if not isinstance(r, bool) else r, [x for x in LOG])
    got = run(getattr(M, cls), M.LOG)
    want = run(PY[cls], PLOG)
    # compare only the calls made on the left operand before the reflected attempt: the first len(...) entries that belong to the forward operation
    if got != want: bad.append((k, got, want))
print('REPLAY', c, bad[:3])
print('REPLAY-REPRODUCED' if bad else 'REPLAY-HOLDS')
'''
_NATIVE = None


def replay(rep, cex):
    global _NATIVE
    try:
        if _NATIVE is None:
            _NATIVE = build.native(_B.cfile)
    except build.BuildError as e:
        return None, 'native build failed: %s' % e
    p = subprocess.run(['/verif/.venv/bin/python', '-c', REPLAY % dict(dir=os.path.dirname(_NATIVE), mod=_B.name, cex=cex)], capture_output=True, text=True, timeout=120)
    txt = (p.stdout + p.stderr).strip()[-700:]
    rep.validated += 1
    if p.returncode < 0:
        return True, 'process died with signal %d' % (-p.returncode)
    return 'REPLAY-REPRODUCED' in txt, txt


def _init(B):
    global _B
    _B = B


def run(rep, tier, only=None):
    global _B
    snapshot.activate()
    _B = harness.build_template('c28t', TEMPLATE)
    jobs = [(cls, op) for cls in CLASSES for op in range(6)]
    if only:
        jobs = [j for j in jobs if only in j[0] or only == OPNAMES[j[1]]]
    rep.functions += ['generated tp_richcompare functions of 5 cdef classes (ModuleNode.generate_richcmp_function: inherited comparison methods, synthesised `!=`, '
                      'cython.total_ordering with roots __le__ and __ge__) [%s]' % build.sha(_B.cfile)]
    rep.bounds += ['every comparison operator x every outcome of every user method (NotImplemented / an object whose truth value is true, false or raises / an exception)',
                   'claim at the level of the type\'s slot function: which user methods run, in which order, with which arguments, and what is returned; the reflected attempt and the '
                   'TypeError are CPython\'s own do_richcompare',
                   'outside: arithmetic, reflected and in-place operator slots (BinopSlot: a probe on the pristine tree shows `B() + B()` trying __radd__ after __add__ returned '
                   'NotImplemented, which a Python class does not do - recorded in DESIGN.md, not claimed), __hash__ interplay, subclasses written in Python']
    rep.assume('reference: the data model rules (method lookup along the MRO, object.__ne__, functools.total_ordering root preference lt > le > gt > ge)', 'reference counts ignored (C35)')
    with mp.Pool(min(16, os.cpu_count() or 4), initializer=_init, initargs=(_B,)) as pool:
        results = pool.map(check_richcmp, jobs, chunksize=1)
    for job, res in zip(jobs, results):
        for d in res:
            if d['status'] == 'refuted':
                ok, txt = replay(rep, d['cex'])
                if ok:
                    rep.obligation(d['name'], 'refuted', d['s'], True, str(d['cex'])[:600])
                    rep.violation('%s fails for %s: %s' % (d['name'], str(d['cex'])[:500], txt), dict(cex=d['cex'], replay_output=txt))
                else:
                    rep.obligation(d['name'], 'inconclusive', d['s'], d.get('mandatory', True), 'counterexample %s did not reproduce: %s' % (str(d['cex'])[:400], txt))
            else:
                rep.obligation(d['name'], d['status'], d['s'], d.get('mandatory', True), d.get('detail'))
    rep.cov['states'] = sum(len(r) for r in results)
    rep.cov['transitions'] = sum(len(r) for r in results)
    rep.sample(dict(function='__pyx_tp_richcompare_T', inputs='op = Py_LT, outcomes of __le__ and __eq__ symbolic'))
