"""C05 Python int <-> C integer conversion is exact or raises (CIR on the real TypeConversion.c instantiations)."""
import multiprocessing as mp, os, re, subprocess, time
import z3
from .. import snapshot
from ..cir import build, solve, symex, stubs, ir
from ..cir.stubs import WIDE
from ..gen import harness

LEVEL = 'model_checking'
# name, C spelling, signed
TYPES = [('char', 'char', True), ('schar', 'signed char', True), ('uchar', 'unsigned char', False), ('short', 'short', True),
         ('ushort', 'unsigned short', False), ('int', 'int', True), ('uint', 'unsigned int', False), ('long', 'long', True),
         ('ulong', 'unsigned long', False), ('longlong', 'long long', True), ('ulonglong', 'unsigned long long', False),
         ('size_t', 'size_t', False), ('vf_narrow_t', 'vf_narrow_t', True), ('vf_wide_t', 'vf_wide_t', True),
         ('vf_uwide_t', 'vf_uwide_t', False)]
HEADER = '''# cython: language_level=3
ctypedef int myint
cdef extern from *:
    """
    typedef signed char vf_narrow_t;
    typedef long long vf_wide_t;
    typedef unsigned long vf_uwide_t;
    """
    ctypedef int vf_narrow_t
    ctypedef int vf_wide_t
    ctypedef unsigned short vf_uwide_t
'''
REAL_BITS = dict(char=8, schar=8, uchar=8, short=16, ushort=16, int=32, uint=32, long=64, ulong=64, longlong=64, ulonglong=64,
                 size_t=64, vf_narrow_t=8, vf_wide_t=64, vf_uwide_t=64)
_BS = {}
_SIGNED = {}


def template():
    src = [HEADER]
    for n, c, s in TYPES:
        src.append('def conv_%s(x):\n    cdef %s v = x\n    return v\n' % (n, c))
    return '\n'.join(src)


def c_suffix(cty):
    return cty.replace('long long', 'PY_LONG_LONG').replace(' ', '_')


def find_as(mod, cty):
    name = '__Pyx_PyLong_As_' + c_suffix(cty)
    return name if name in mod.functions else None


def find_from(mod, cty):
    for name in ('__Pyx_PyLong_From_' + c_suffix(cty), '__Pyx_PyLong_FromSize_t' if cty == 'size_t' else None):
        if name and name in mod.functions:
            return name
    return None


def _number_long_stub(env, y_ptr, fail):
    def stub(ex, g, args, rt, caller):
        env.used.add('__Pyx_PyNumber_Long (contract: NULL + TypeError, or a new reference to an int object)')
        env.set_error(z3.And(g, fail), ex.ptr_to(env.exc_type('PyExc_TypeError')))
        env.event(g, '__Pyx_PyNumber_Long', args)
        return symex.Ptr(z3.If(fail, z3.BitVecVal(0, 64), y_ptr.bv), y_ptr.regions | {0})
    return stub


def check_as(job):
    arm, tname, cty, signed = job
    B = _BS[arm]
    fname = find_as(B.module, cty)
    out = []
    t0 = time.time()
    T = int(os.environ.get('VF_QTIMEOUT', '60'))
    if fname is None:
        return [dict(name='As_%s[%s]:encode' % (tname, arm), status='inconclusive', s=0, detail='conversion function not found')]
    bits = B.module.functions[fname].ret.bits          # width of the value the helper returns
    rbits = REAL_BITS[tname]                            # width of the real C type (LP64 ABI / the typedefs in HEADER)
    lo, hi = (-(1 << (rbits - 1)), (1 << (rbits - 1)) - 1) if signed else (0, (1 << rbits) - 1)
    for mode in ('int', 'other'):
        try:
            ex, env = B.new_exec(unroll=6)
            x, V, inv = env.make_pylong('x', 5)
            env.exc_type('PyExc_OverflowError'); env.exc_type('PyExc_TypeError')
            if mode == 'other':
                obj, oinv = env.make_opaque('obj', tpflags=0)
                fail = z3.Bool('number_long_fails')
                ex.stubs['__Pyx_PyNumber_Long'] = _number_long_stub(env, x, fail)
                ret, rg = ex.run(fname, [obj])
                pre = z3.And(inv, oinv)
            else:
                fail = z3.BoolVal(False)
                ret, rg = ex.run(fname, [x])
                pre = inv
        except (symex.Unsupported, ir.ParseError, KeyError, IndexError) as e:
            out.append(dict(name='As_%s[%s,%s]:encode' % (tname, arm, mode), status='inconclusive', s=time.time() - t0, detail='Unsupported: %s' % e))
            continue
        fits = z3.And(V >= z3.BitVecVal(lo, WIDE), V <= z3.BitVecVal(hi, WIDE))
        want = z3.Extract(bits - 1, 0, V)      # (a helper returning a wider type than T must still return the exact value)
        stats = dict(blocks=ex.stats['blocks'], edges=ex.stats['edges'])
        digits = env.ghost_of(x)['digits']
        tag = env.ghost_of(x)['tag']

        def ob(name, conds, kind='unsat'):
            r, m, s = solve.check([pre] + conds, T)
            d = dict(name='As_%s[%s,%s]:%s' % (tname, arm, mode, name), s=s, stats=stats)
            d['status'] = ({'unsat': 'proved', 'sat': 'refuted'} if kind == 'unsat' else {'sat': 'witness', 'unsat': 'vacuous'}).get(r, 'inconclusive')
            if r == 'sat':
                v = m.eval(V, model_completion=True).as_signed_long()
                d['cex'] = dict(value=v, mode=mode, fail=str(m.eval(fail, model_completion=True)))
            out.append(d)
        ok_val = z3.And(rg, ret == want, env.no_error())
        ok_ovf = z3.And(rg, ret == z3.BitVecVal(-1, bits), env.error_is('PyExc_OverflowError'))
        ob('fits => exact value, no error', [z3.Not(fail), fits, z3.Not(ok_val)])
        ob('does not fit => OverflowError and -1', [z3.Not(fail), z3.Not(fits), z3.Not(ok_ovf)])
        if mode == 'other':
            ob('__index__/__int__ failure propagates (TypeError, -1)', [fail, z3.Not(z3.And(rg, ret == z3.BitVecVal(-1, bits), env.error_is('PyExc_TypeError')))])
        ob('reach: fitting value', [z3.Not(fail), fits, rg], kind='witness')
        ob('reach: overflowing value', [z3.Not(fail), z3.Not(fits), rg], kind='witness')
        seen = set()
        for c, desc, fn in ex.ub:
            if (fn, desc) in seen:
                continue
            seen.add((fn, desc))
            ob('no UB: %s in %s' % (desc[:80], fn), [c])
        if ex.unwind:
            ob('unwinding assertion', [z3.Or(*[u[0] for u in ex.unwind])])
    return out


def check_from(job):
    arm, tname, cty, signed = job
    B = _BS[arm]
    fname = find_from(B.module, cty)
    T = int(os.environ.get('VF_QTIMEOUT', '60'))
    if fname is None:
        return [dict(name='From_%s[%s]:encode' % (tname, arm), status='inconclusive', s=0, detail='conversion function not found')]
    t0 = time.time()
    out = []
    try:
        ex, env = B.new_exec()
        bits = B.module.functions[fname].params[0][0].bits
        v = z3.BitVec('v', bits)
        ret, rg = ex.run(fname, [v])
    except (symex.Unsupported, ir.ParseError, KeyError) as e:
        return [dict(name='From_%s[%s]:encode' % (tname, arm), status='inconclusive', s=time.time() - t0, detail='Unsupported: %s' % e)]
    want = z3.SignExt(WIDE - bits, v) if signed else z3.ZeroExt(WIDE - bits, v)
    ctor = [e for e in ex.events if e.name.startswith('PyLong_From')]
    other = [e for e in ex.events if not e.name.startswith('PyLong_From')]
    # exactly one constructor call on every path, its mathematical value equals the C value, and its result is returned
    good = z3.BoolVal(False)
    for e in ctor:
        gv = env.ghost_of(e.ret)['value']
        good = z3.Or(good, z3.And(e.guard, gv == want, ret.bv == e.ret.bv))
    stats = dict(blocks=ex.stats['blocks'], edges=ex.stats['edges'])

    def ob(name, conds, kind='unsat'):
        r, m, s = solve.check(conds, T)
        d = dict(name='From_%s[%s]:%s' % (tname, arm, name), s=s, stats=stats)
        d['status'] = ({'unsat': 'proved', 'sat': 'refuted'} if kind == 'unsat' else {'sat': 'witness', 'unsat': 'vacuous'}).get(r, 'inconclusive')
        if r == 'sat':
            d['cex'] = dict(value=m.eval(v, model_completion=True).as_signed_long() if signed else m.eval(v, model_completion=True).as_long(), mode='from')
        out.append(d)
    ob('the Python int created has exactly the C value', [rg, z3.Not(good)])
    ob('no other API call (e.g. byte-array fallback) for <= 64-bit types', [z3.Or(*[e.guard for e in other])] if other else [z3.BoolVal(False)])
    ob('reach', [rg], kind='witness')
    for c, desc, fn in ex.ub:
        ob('no UB: %s in %s' % (desc[:80], fn), [c])
    return out


REPLAY = r'''
import sys
sys.path.insert(0, %(dir)r)
import %(mod)s as M
tname, value, lo, hi, mode = %(args)r
class Idx:
    def __init__(self, v): self.v = v
    def __index__(self): return self.v
    def __int__(self): return self.v
x = value if mode != 'other' else Idx(value)
try:
    got = ('value', getattr(M, 'conv_' + tname)(x))
except OverflowError:
    got = ('overflow',)
want = ('value', value) if lo <= value <= hi else ('overflow',)
print('REPLAY got', got, 'want', want)
print('REPLAY-REPRODUCED' if got != want else 'REPLAY-HOLDS')
'''
_NATIVE = {}


def replay(rep, arm, tname, cty, signed, cex):
    B = _BS[arm]
    try:
        if arm not in _NATIVE:
            defs = ['CYTHON_USE_PYLONG_INTERNALS=0'] if arm == 'api' else []
            so = build.native(B.cfile, defines=defs, tag=arm)
            d = os.path.join(os.path.dirname(so), 'replay_' + arm)
            os.makedirs(d, exist_ok=True)
            tgt = os.path.join(d, B.name + build.EXT_SUFFIX)
            if not os.path.exists(tgt):
                os.link(so, tgt)
            _NATIVE[arm] = d
    except build.BuildError as e:
        return None, 'native build failed: %s' % e
    f = find_as(B.module, cty) or find_from(B.module, cty)
    fn = B.module.functions[f]
    bits = REAL_BITS[tname]
    lo, hi = (-(1 << (bits - 1)), (1 << (bits - 1)) - 1) if signed else (0, (1 << bits) - 1)
    code = REPLAY % dict(dir=_NATIVE[arm], mod=B.name, args=(tname, cex['value'], lo, hi, cex.get('mode', 'int')))
    p = subprocess.run(['/verif/.venv/bin/python', '-c', code], capture_output=True, text=True, timeout=120)
    txt = (p.stdout + p.stderr).strip()[-400:]
    rep.validated += 1
    if p.returncode < 0:
        return True, 'process died with signal %d' % (-p.returncode)
    return 'REPLAY-REPRODUCED' in txt, txt


def run(rep, tier, only=None):
    snapshot.activate()
    B = harness.build_template('c05t', template())
    _BS['internals'] = B
    arms = ['internals']
    try:
        ll = build.lower(B.cfile, defines=['CYTHON_USE_PYLONG_INTERNALS=0'], tag='api')
        _BS['api'] = harness.Built(B.name, B.cfile, ll, ir.Module(open(ll).read()))
        arms.append('api')
    except build.BuildError as e:
        rep.harness_error('could not lower the CYTHON_USE_PYLONG_INTERNALS=0 arm: %s' % e)
    types = [t for t in TYPES if not only or only in t[0]]
    rep.functions += ['Cython/Utility/TypeConversion.c: CIntFromPy (__Pyx_PyLong_As_<T>, __Pyx_PyLong_<T>, __Pyx_PySLong_/__Pyx_PyULong_, '
                      '__Pyx_NonPyLong_, raise_overflow helpers, CIntFromPyVerify macros), CIntToPy (__Pyx_PyLong_From_<T>) instantiated by '
                      'PyrexTypes for %d C types [%s]; CPython inline helpers from Python.h (_PyLong_IsCompact, _PyLong_CompactValue, ...)' % (len(types), build.sha(B.cfile))]
    rep.bounds += ['As_<T>: every valid CPython 3.12 int object of <= 5 digits (|V| < 2^150; symbolic lv_tag and digits under the representation invariant); '
                   'larger ints take the same generic arm as 5-digit ones',
                   'non-int argument: an object whose type lacks Py_TPFLAGS_LONG_SUBCLASS; __Pyx_PyNumber_Long is a contract stub (fails with TypeError or returns an int object)',
                   'From_<T>: every value of T', 'arms: CYTHON_USE_PYLONG_INTERNALS = 1 (default) and 0',
                   'types: %s (incl. extern typedefs whose declared base differs from the real C type)' % [t[0] for t in types],
                   'loops unrolled 6 (digit loops), unwinding assertions discharged', 'outside: float arguments, __int128, Limited API']
    rep.assume('CPython 3.12 PyLongObject layout and representation invariant (zero <=> ndigits == 0, top digit non-zero, digits < 2^30)',
               'PyLong_As*/PyLong_From* stubs follow the documented C-API contracts (stubs.py); allocation failure is out of scope')
    jobs_as = [(arm, n, c, s) for arm in arms for n, c, s in types]
    jobs_from = [(arm, n, c, s) for arm in arms for n, c, s in types]
    with mp.Pool(min(16, os.cpu_count() or 4)) as pool:
        r1 = pool.map(check_as, jobs_as, chunksize=1)
        r2 = pool.map(check_from, jobs_from, chunksize=1)
    states = trans = 0
    for job, res in list(zip(jobs_as, r1)) + list(zip(jobs_from, r2)):
        arm, tname, cty, signed = job
        for d in res:
            if d.get('stats'):
                states += d['stats']['blocks']; trans += d['stats']['edges']
            if d['status'] == 'refuted':
                ok, txt = replay(rep, arm, tname, cty, signed, d['cex'])
                if ok:
                    rep.obligation(d['name'], 'refuted', d['s'], True, str(d['cex']))
                    rep.violation('%s fails for %s: %s' % (d['name'], d['cex'], txt), dict(type=cty, arm=arm, cex=d['cex'], replay_output=txt))
                else:
                    rep.obligation(d['name'], 'inconclusive', d['s'], True, 'counterexample %s did not reproduce on the real build: %s' % (d['cex'], txt))
            else:
                rep.obligation(d['name'], d['status'], d['s'], True, d.get('detail'))
    rep.cov['states'] = states
    rep.cov['transitions'] = trans
    rep.sample(dict(function='__Pyx_PyLong_As_int', input='arbitrary valid PyLongObject (lv_tag, ob_digit[0..4] symbolic)', oracle='V in [INT_MIN, INT_MAX] ? (int)V : OverflowError'))
