"""C46 cythonize rebuilds exactly the modules whose inputs changed (PYSYM graph closure + PYAST rebuild predicate)."""
import ast, os, time
import z3
from ..pysym import runner
from ..pysym.runner import Cond
from ..pyast import symex as pysym
from .. import snapshot

LEVEL = 'model_checking'
H = '/verif/vf/pysym/h_c46.py'


def slice_decision(src):
    """the statements of cythonize() that decide whether a module is recompiled, as a function of the timestamps"""
    tree = ast.parse(src)
    fn = [n for n in ast.walk(tree) if isinstance(n, ast.FunctionDef) and n.name == 'cythonize'][0]
    target = None
    for node in ast.walk(fn):
        if isinstance(node, ast.If) and isinstance(node.test, ast.Compare) and isinstance(node.test.left, ast.Name) and node.test.left.id == 'c_timestamp':
            target = node
            break
    if target is None:
        raise pysym.Unsupported('rebuild decision not found in cythonize()')
    # the statement list that contains it, to find the following `if force or c_timestamp < dep_timestamp`
    nxt = None
    for n in ast.walk(fn):
        for field in ('body', 'orelse', 'finalbody'):
            lst = getattr(n, field, None)
            if isinstance(lst, list) and any(target is c for c in lst):
                nxt = lst[lst.index(target) + 1]
    if nxt is None:
        raise pysym.Unsupported('statement list of the rebuild decision not found')
    if not isinstance(nxt, ast.If):
        raise pysym.Unsupported('statement after the timestamp comparison is not the rebuild `if`')

    class Rw(ast.NodeTransformer):
        def visit_Call(self, node):
            if isinstance(node.func, ast.Attribute) and isinstance(node.func.value, ast.Name) and node.func.value.id == 'deps':
                if node.func.attr == 'timestamp':
                    return ast.Name(id='ts_source', ctx=ast.Load())
                if node.func.attr == 'newest_dependency':
                    return ast.Tuple(elts=[ast.Name(id='newest_ts', ctx=ast.Load()), ast.Constant(value=1)], ctx=ast.Load())
                if node.func.attr == 'immediate_dependencies':
                    return ast.List(elts=[], ctx=ast.Load())
            return self.generic_visit(node)

        def visit_Assign(self, node):
            if any(isinstance(t, ast.Name) and t.id == 'priority' for t in node.targets):
                return ast.Pass()
            return self.generic_visit(node)
    ifstmt = Rw().visit(target)
    cond = Rw().visit(nxt.test)
    mod = ast.parse('def decide(c_timestamp, ts_source, newest_ts, force, source):\n    pass\n    return x\n')
    f = mod.body[0]
    f.body = [ifstmt, ast.Return(value=cond)]
    ast.fix_missing_locations(mod)
    return ast.unparse(mod)


def part_decision(rep, root):
    t0 = time.time()
    try:
        code = slice_decision(open(os.path.join(root, 'Cython/Build/Dependencies.py')).read())
        it = pysym.Interp({'d': code})
        c_ts, ts_src, newest = [z3.BitVec(n, 64) for n in ('c_timestamp', 'ts_source', 'newest_ts')]
        force = z3.Bool('force')
        B = 1 << 40
        # the source itself is in its dependency closure, so the newest timestamp is >= the source's; a missing/foreign C file has -1
        pre = [c_ts >= -1, c_ts < B, ts_src >= 0, ts_src < B, newest >= ts_src, newest < B]
        bad = None
        paths = 0
        for p in it.explore('decide', [c_ts, ts_src, newest, force, 7], pre):
            paths += 1
            it.pc = p['pc']
            if 'raised' in p:
                bad = ('raised ' + p['raised'], it.check()[1]); break
            res = p['result']
            want = z3.Or(force, c_ts < newest)          # recompile iff forced or something in the closure is newer than the C file
            got = pysym.to_bool(res)
            got = z3.BoolVal(got) if isinstance(got, bool) else got
            r, m = it.check(got != want)
            if r != 'unsat':
                bad = ('decision differs from "closure newer than C file"', m if r == 'sat' else None)
                break
        name = 'rebuild decision of cythonize() (AST slice, %d paths): recompile <=> forced or some file of the closure is newer than the C file' % paths
        if bad is None:
            rep.obligation(name, 'proved', time.time() - t0)
        elif bad[1] is None:
            rep.obligation(name, 'inconclusive', time.time() - t0, True, bad[0])
        else:
            m = bad[1]
            cex = dict(c_timestamp=m.eval(c_ts, model_completion=True).as_signed_long(), ts_source=m.eval(ts_src, model_completion=True).as_signed_long(),
                       newest=m.eval(newest, model_completion=True).as_signed_long(), force=str(m.eval(force, model_completion=True)))
            ok, txt = replay_decision(cex)
            rep.validated += 1
            if ok:
                rep.obligation(name, 'refuted', time.time() - t0, True, str(cex))
                rep.violation('cythonize() rebuild decision wrong for %s: %s' % (cex, txt), dict(cex=cex, replay_output=txt))
            else:
                rep.obligation(name, 'inconclusive', time.time() - t0, True, 'counterexample %s did not reproduce: %s' % (cex, txt))
    except (pysym.Unsupported, IndexError, SyntaxError) as e:
        rep.obligation('rebuild decision of cythonize()', 'inconclusive', time.time() - t0, True, 'Unsupported: %s' % e)


def replay_decision(cex):
    """real cythonize() on a real directory: mod.pyx + dep.pxd with the counterexample's mtimes"""
    import subprocess
    code = r'''
import os, sys, tempfile, shutil
d = tempfile.mkdtemp(prefix='vf_c46_')
os.chdir(d)
cex = %r
open('dep.pxd', 'w').write('cdef int x\n')
open('mod.pyx', 'w').write('cimport dep\ndef f(): return 1\n')
from Cython.Build.Dependencies import cythonize
import Cython.Build.Dependencies as D
assert D.__file__.endswith('.py')
cythonize('mod.pyx', quiet=True, language_level=3)          # creates mod.c
base = 1000000000
def setm(f, t): os.utime(f, (base + t, base + t))
setm('mod.pyx', cex['ts_source']); setm('dep.pxd', cex['newest']); 
if cex['c_timestamp'] >= 0: setm('mod.c', cex['c_timestamp'])
else: os.unlink('mod.c')
before = os.stat('mod.c').st_mtime_ns if os.path.exists('mod.c') else None
D._dep_tree = None
cythonize('mod.pyx', quiet=True, language_level=3, force=(cex['force'] == 'True'))
after = os.stat('mod.c').st_mtime_ns
rebuilt = before != after
want = cex['force'] == 'True' or cex['c_timestamp'] < max(cex['newest'], cex['ts_source'])
print('REPLAY rebuilt', rebuilt, 'want', want)
print('REPLAY-REPRODUCED' if rebuilt != want else 'REPLAY-HOLDS')
shutil.rmtree(d, True)
''' % (cex,)
    p = subprocess.run(['/verif/.venv/bin/python', '-c', code], env=snapshot.child_env(), capture_output=True, text=True, timeout=300)
    txt = (p.stdout + p.stderr).strip()[-400:]
    return 'REPLAY-REPRODUCED' in txt, txt


def run(rep, tier, only=None):
    root = snapshot.activate()
    T = 600 if tier == 'quick' else 1800
    rep.functions += ['Cython/Build/Dependencies.py: DependencyTree.transitive_merge, transitive_merge_helper (real _transitive_cache), all_dependencies, '
                      'immediate_dependencies, newest_dependency, extract_timestamp; cythonize(): the rebuild decision statements (AST slice)']
    rep.bounds += ['3 files: every graph (9 symbolic edges incl. self loops), every sequence of 3 queries on one tree (cache reuse), 3 timestamp orders',
                   '5 files: skeleton a->b->c, a->d->e plus every subset of 8 extra edges (overlapping cycles, chords), every sequence of 2 queries',
                   'rebuild decision: all timestamps symbolic (C file -1..2^40, closure newest >= source), force flag symbolic',
                   'outside: that the computed set equals the files the compiler actually reads (needs compiler runs); file-system timestamp granularity; parse_dependencies regexes (C47 covers literal stripping)']
    rep.assume('oracle: graph reachability (incl. the file itself); newest_dependency = max timestamp over the closure',
               'timestamps are totally ordered numbers (ints in the encoding)')
    part_decision(rep, root)
    runner.run_twin(rep, H, 'twin', 60)
    runner.run_conditions(rep, H, [Cond('g5_q%d' % q, T) for q in range(5)] + [Cond('g3_q%d%d' % (a, b), T) for a in range(3) for b in range(3)])
    rep.sample(dict(condition='graph5', graph='a->b->c, a->d->e + symbolic subset of %d extra edges' % 8, queries='2 symbolic'))
