"""C27 cpdef calls reach the most-derived override (narrow): the dispatch prologue of a cpdef method, in the default build and with the
type/instance dict-version cache forced on (-DCYTHON_USE_DICT_VERSIONS=1): one inductive step from an arbitrary valid cache state (GEN + CIR)."""
import multiprocessing as mp, os, re, subprocess, time
import z3
from .. import snapshot
from ..cir import build, solve, symex, stubs, ir
from ..cir.symex import Ptr
from ..gen import harness

LEVEL = 'model_checking'
TEMPLATE = '''# cython: language_level=3
cdef class A:
    cpdef int f(self, int x):
        return x + 1
    def g(self, x):
        return self.f(x)
cdef class B(A):
    cpdef int f(self, int x):
        return x + 2
def call_f(A a, int x):
    return a.f(x)
'''
TP_DICT, TP_DICTOFFSET, MA_VERSION_TAG = 264, 288, 24
HEAPTYPE, ABSTRACT = 1 << 9, 1 << 20
INIT = (1 << 64) - 1
_BC = _BU = None


def T():
    return int(os.environ.get('VF_QTIMEOUT', '120'))


def check(job):
    arm, doff = job
    B = _BC if arm == 'cache' else _BU
    out = []
    t0 = time.time()
    try:
        ex, env = B.new_exec(unroll=2)
        for nm in ('Py_INCREF', 'Py_DECREF', 'Py_XDECREF', 'Py_XINCREF'):
            ex.stubs[nm] = lambda ex_, g, a, rt, c: None
        ex.stubs['__Pyx_AddTraceback'] = lambda ex_, g, a, rt, c: None
        ex.stubs['__Pyx_WriteUnraisable'] = lambda ex_, g, a, rt, c: None
        ms = ex.global_ptr('__pyx_mstate_global_static')
        msr = ex.regions[next(iter(ms.regions))]
        msr.fields.clear()
        msr.lazy = True
        # the type of self and its dicts
        flags = z3.BitVec('tp_flags', 64)
        dictoffset = z3.BitVecVal(doff, 64)        # concrete per run: 0 (no instance dict) or 24
        tpv, objv = z3.BitVec('type_dict_version', 64), z3.BitVec('instance_dict_version', 64)
        has_idict = z3.Bool('instance_has_dict')
        TD = ex.new_region('type_dict', size=None, lazy=True); TD.fields[MA_VERSION_TAG] = (8, tpv)
        OD = ex.new_region('instance_dict', size=None, lazy=True); OD.fields[MA_VERSION_TAG] = (8, objv)
        TY = ex.new_region('type_of_self', size=None, lazy=True)
        TY.fields[stubs.TP_FLAGS] = (8, flags); TY.fields[TP_DICT] = (8, ex.ptr_to(TD)); TY.fields[TP_DICTOFFSET] = (8, dictoffset)
        S = ex.new_region('self', size=None, lazy=True)
        S.fields[0] = (8, z3.BitVec('self.refcnt', 64)); S.fields[8] = (8, ex.ptr_to(TY))
        S.fields[24] = (8, Ptr(z3.If(has_idict, z3.BitVecVal(OD.base, 64), z3.BitVecVal(0, 64)), [OD.id, 0]))
        x = z3.BitVec('x', 32)
        # "is f overridden?" is a function of the two dict versions (CPython changes a dict's version whenever it is mutated)
        ov = z3.Function('overridden_at', z3.BitVecSort(64), z3.BitVecSort(64), z3.BoolSort())
        eff_objv = z3.If(z3.And(dictoffset != 0, has_idict), objv, z3.BitVecVal(0, 64))
        overridden = ov(tpv, eff_objv)
        M = ex.new_region('looked_up_attribute', size=None, lazy=True)
        R = ex.new_region('override_result', size=None, lazy=True)
        get_ok, call_ok, conv_ok = z3.Bool('getattr_ok'), z3.Bool('call_ok'), z3.Bool('conversion_ok')
        rv = z3.BitVec('override_value', 32)
        err = env.exc_type('PyExc_RuntimeError')
        evs = dict(get=[], call=[])

        def getattr_(ex_, g, a, rt, caller):
            evs['get'].append(env.event(g, 'getattr', a))
            env.set_error(z3.And(g, z3.Not(get_ok)), ex_.ptr_to(err))
            return Ptr(z3.If(get_ok, z3.BitVecVal(M.base, 64), z3.BitVecVal(0, 64)), [M.id, 0])
        ex.stubs['__Pyx_PyObject_GetAttrStr'] = getattr_
        for nm in ('__Pyx_IsSameCFunction', '__Pyx__IsSameCFunction', '__Pyx__IsSameCyOrCFunction'):
            ex.stubs[nm] = lambda ex_, g, a, rt, c: z3.If(overridden, z3.BitVecVal(0, rt.bits), z3.BitVecVal(1, rt.bits))

        def call(ex_, g, a, rt, caller):
            n = z3.simplify(a[2] & z3.BitVecVal((1 << 62) - 1, a[2].size()))
            args = []
            if z3.is_bv_value(n):
                pt = ir.T('ptr', elem=ir.T('int', bits=8))
                args = [ex_.load(Ptr(a[1].bv + 8 * i, a[1].regions), pt, g, 'stub') for i in range(n.as_long())]
            evs['call'].append((env.event(g, 'call', a), args))
            env.set_error(z3.And(g, z3.Not(call_ok)), ex_.ptr_to(err))
            return Ptr(z3.If(call_ok, z3.BitVecVal(R.base, 64), z3.BitVecVal(0, 64)), [R.id, 0])
        for nm in ('__Pyx_PyObject_FastCallDict', '__Pyx_PyObject_FastCall'):
            ex.stubs[nm] = call

        def as_int(ex_, g, a, rt, caller):
            env.set_error(z3.And(g, z3.Not(conv_ok)), ex_.ptr_to(err))
            return z3.If(conv_ok, rv, z3.BitVecVal(-1, 32))
        ex.stubs['__Pyx_PyLong_As_int'] = as_int
        fn_ir = [f for f in B.module.functions if re.match(r'^__pyx_f_\d+%s_\d+A_f$' % B.name, f)][0]
        cached = None
        if arm == 'cache':
            vs = [g for g in ex.m.globals if fn_ir in g and '__pyx_tp_dict_version' in g]
            os_ = [g for g in ex.m.globals if fn_ir in g and '__pyx_obj_dict_version' in g]
            if len(vs) != 1 or len(os_) != 1:
                raise KeyError('cache variables not found (%r %r)' % (vs, os_))
            vreg = ex.regions[next(iter(ex.global_ptr(vs[0]).regions))]
            oreg = ex.regions[next(iter(ex.global_ptr(os_[0]).regions))]
            ctv, cov = z3.BitVec('cached_type_dict_version', 64), z3.BitVec('cached_instance_dict_version', 64)
            vreg.fields.clear(); oreg.fields.clear()
            vreg.fields[0] = (8, ctv); oreg.fields[0] = (8, cov)
            cached = (vreg, oreg, ctv, cov)
        ex.stubs['_PyObject_GetDictPtr'] = lambda ex_, g, a, rt, c: Ptr(a[0].bv + 24, a[0].regions)
        ret, rg = ex.run(fn_ir, [ex.ptr_to(S), x, z3.BitVecVal(0, 32)])
    except (symex.Unsupported, ir.ParseError, KeyError, IndexError) as e:
        return [dict(name='cpdef dispatch [%s, tp_dictoffset=%d]:encode' % (arm, doff), status='inconclusive', s=time.time() - t0, detail='Unsupported: %s' % str(e)[:300], mandatory=True)]
    may_override = z3.Or(dictoffset != 0, (flags & (HEAPTYPE | ABSTRACT)) != 0)
    pre = [z3.Implies(z3.Not(may_override), z3.Not(overridden)), tpv != INIT, objv != INIT, tpv != 0] + list(ex.assumptions)
    if cached:
        vreg, oreg, ctv, cov = cached
        # invariant of the cache: a recorded version pair is one at which no override exists
        pre.append(z3.Implies(z3.Not(z3.And(ctv == INIT, cov == INIT)), z3.Not(ov(ctv, cov))))
    called = z3.Or(*[e.guard for e, _ in evs['call']]) if evs['call'] else z3.BoolVal(False)
    call_ok_args = z3.BoolVal(False)
    for e, args in evs['call']:
        if args:
            gh = env.ghost_of(args[-1])
            argok = gh['value'] == z3.SignExt(stubs.WIDE - 32, x) if gh and gh.get('kind') == 'int' else z3.BoolVal(False)
            call_ok_args = z3.Or(call_ok_args, z3.And(e.guard, e.args[0].bv == z3.BitVecVal(M.base, 64), argok))

    def cexf(m):
        return dict(kind='cpdef', arm=arm, overridden=bool(m.eval(overridden, model_completion=True)), dictoffset=doff)

    def ob(name, conds, kind_='unsat'):
        r, m, s = solve.check(pre + conds, T())
        d = dict(name='cpdef dispatch [%s, tp_dictoffset=%d]: %s' % ('default build' if arm != 'cache' else 'dict-version cache', doff, name), s=s, mandatory=True)
        d['status'] = ({'unsat': 'proved', 'sat': 'refuted'} if kind_ == 'unsat' else {'sat': 'witness', 'unsat': 'vacuous'}).get(r, 'inconclusive')
        if r == 'sat' and kind_ == 'unsat':
            d['cex'] = cexf(m)
        out.append(d)
    allok = z3.And(get_ok, call_ok, conv_ok)
    ob('an override that Python attribute lookup finds is called with the argument and its converted result returned', [overridden, allok, z3.Not(z3.And(rg, called, call_ok_args, ret == rv))])
    ob('without an override the C implementation runs and no Python call is made', [z3.Not(overridden), get_ok, z3.Not(z3.And(rg, z3.Not(called), ret == x + 1))])
    if cached:
        nv, no = vreg.fields[0][1], oreg.fields[0][1]
        ob('the cache invariant is re-established (a recorded version pair is one without an override): with CPython changing dict versions on every mutation this covers '
           'every history of adding, replacing and deleting overrides on classes and instances', [rg, get_ok, z3.Not(z3.Implies(z3.Not(z3.And(nv == INIT, no == INIT)), z3.Not(ov(nv, no))))])
        ob('reach: cache hit skips the lookup', [rg, ctv == tpv, cov == eff_objv, (flags & HEAPTYPE) != 0, z3.Not(z3.Or(*[e.guard for e in evs['get']]) if evs['get'] else z3.BoolVal(False))], kind_='witness')
    ob('reach: override called', [rg, overridden, called], kind_='witness')
    return out


REPLAY = r'''
import sys
sys.path.insert(0, %(dir)r)
import %(mod)s as M
bad = []
class P(M.A):
    pass
a, p = M.A(), P()
def expect(label, obj, want):
    got = M.call_f(obj, 10)
    if got != want: bad.append((label, got, want))
expect('A', a, 11); expect('P', p, 11); expect('B', M.B(), 12)
P.f = lambda self, x: 100 + x
expect('class override', p, 110)
p2 = P(); expect('class override other instance', p2, 110)
del P.f
expect('override deleted', p, 11)
p.f = lambda x: 200 + x
expect('instance override', p, 210); expect('other instance', p2, 11)
del p.f
expect('instance override deleted', p, 11)
P.f = lambda self, x: 300 + x
expect('class override again', p, 310)
class Q(P): pass
q = Q(); expect('subclass', q, 310)
Q.f = lambda self, x: 400 + x
expect('most derived', q, 410); expect('parent', p, 310)
print('REPLAY', bad)
print('REPLAY-REPRODUCED' if bad else 'REPLAY-HOLDS')
'''
_NATIVE = {}


def replay(rep, cex):
    B = _BC if cex.get('arm') == 'cache' else _BU
    try:
        if B.name not in _NATIVE:
            _NATIVE[B.name] = build.native(B.cfile, extra_flags=(['-DCYTHON_USE_DICT_VERSIONS=1', '-Wno-deprecated-declarations'] if B is _BC else []))
    except build.BuildError as e:
        return None, 'native build failed: %s' % e
    p = subprocess.run(['/verif/.venv/bin/python', '-c', REPLAY % dict(dir=os.path.dirname(_NATIVE[B.name]), mod=B.name)], capture_output=True, text=True, timeout=120)
    txt = (p.stdout + p.stderr).strip()[-600:]
    rep.validated += 1
    if p.returncode < 0:
        return True, 'process died with signal %d' % (-p.returncode)
    return 'REPLAY-REPRODUCED' in txt, txt


def run(rep, tier, only=None):
    global _BC, _BU
    snapshot.activate()
    _BU = harness.build_template('c27u', TEMPLATE)
    _BC = harness.build_template('c27c', TEMPLATE, defines=['CYTHON_USE_DICT_VERSIONS=1'])
    rep.functions += ['generated dispatch prologue of a cpdef method (Nodes.OverrideCheckNode / CFuncDefNode override check) with __Pyx_object_dict_version_matches, '
                      '__Pyx_get_tp_dict_version, __Pyx_get_object_dict_version (ObjectHandling.c PyDictVersioning), default build and -DCYTHON_USE_DICT_VERSIONS=1 [%s]' % build.sha(_BU.cfile)]
    rep.bounds += ['ONE call from an arbitrary state of the per-method cache that satisfies its invariant, any type flags, instance dict present or not, any dict versions, override present '
                   'or not (a function of the two versions), attribute lookup / call / result conversion failing or not',
                   'outside: what Python attribute lookup itself returns (CPython), the def wrapper calling with skip_dispatch=1, cpdef methods with optional arguments, '
                   'fused / final / inline cpdef methods']
    rep.assume('CPython changes ma_version_tag of a dict on every mutation; a static type without instance dict cannot be overridden (no subclass instance reaches this code without a heap type)',
               'PyTypeObject layout of CPython 3.12 (tp_dict at 264, tp_dictoffset at 288)')
    res = []
    for arm in ('default', 'cache'):
        if only and only not in arm:
            continue
        for doff in (0, 24):
            res.append((arm, check((arm, doff))))
    for arm, rs in res:
        for d in rs:
            if d['status'] == 'refuted':
                ok, txt = replay(rep, d['cex'])
                if ok:
                    rep.obligation(d['name'], 'refuted', d['s'], True, str(d['cex']))
                    rep.violation('%s fails for %s: %s' % (d['name'], d['cex'], txt), dict(cex=d['cex'], replay_output=txt))
                else:
                    rep.obligation(d['name'], 'inconclusive', d['s'], True, 'counterexample %s did not reproduce: %s' % (d['cex'], txt))
            else:
                rep.obligation(d['name'], d['status'], d['s'], d.get('mandatory', True), d.get('detail'))
    rep.cov['states'] = sum(len(r) for _, r in res)
    rep.cov['transitions'] = sum(len(r) for _, r in res)
    rep.sample(dict(function='A.f dispatch prologue', inputs='cache state, dict versions, type flags, override status symbolic'))
