"""C35 reference counts stay balanced on every path, including errors: generated functions executed symbolically with every fallible C-API call
failing or succeeding under a symbolic flag and ownership contracts for the API (GEN + CIR)."""
import multiprocessing as mp, os, re, subprocess, time
import z3
from .. import snapshot
from ..cir import build, solve, symex, stubs, ir
from ..cir.symex import Ptr
from ..gen import harness

LEVEL = 'model_checking'
_B = None
TEMPLATE = '''# cython: language_level=3
def attr_call(o, a):
    return o.meth(a)
def two_calls(f, g, a):
    x = f(a)
    y = g(x)
    return y
def run_with(mgr, body):
    with mgr:
        body()
def unpack2(it):
    a, b = it
    return b
def tryfin(f, g):
    try:
        x = f()
    finally:
        g()
    return x
def tryexc(f, g):
    try:
        x = f()
    except ValueError:
        x = g()
    return x
def cond_attr(o, flag):
    if flag:
        v = o.a
    else:
        v = o.b
    return v
def loop_sum(it, f):
    t = None
    for x in it:
        t = f(x, t)
    return t
def f_both(int n, *a, **kw): return (n, len(a), len(kw))
def f_star(n, *a): return (n, a)
def f_kw(n, **kw): return (n, kw)
'''
KERNELS = ['attr_call', 'two_calls', 'run_with', 'unpack2', 'tryfin', 'tryexc', 'cond_attr', 'loop_sum', 'pw:f_both', 'pw:f_star', 'pw:f_kw']
NARGS = dict(attr_call=2, two_calls=3, run_with=2, unpack2=1, tryfin=2, tryexc=2, cond_attr=2, loop_sum=2)

# ---- ownership contracts of the C-API / utility functions the kernels call -------------------------------------------------
NEWREF = ['PyObject_GetIter', 'PyObject_GetAttr', '__Pyx_PyObject_GetAttrStr', '__Pyx_PyObject_GetAttrStrNoError', '__Pyx_PyObject_Call', '__Pyx_PyObject_FastCallDict',
          '__Pyx_PyObject_FastCall', '__Pyx_PyObject_CallOneArg', '__Pyx_PyObject_CallNoArg', '__Pyx_PyObject_Call2Args', 'PyObject_Call', 'PyObject_CallObject',
          '__Pyx_PySequence_ITEM', '__Pyx_PyList_GET_ITEM_REF', '__Pyx_PyObject_LookupSpecial', '__Pyx__PyObject_LookupSpecial', '__Pyx_PyObject_LookupSpecialNoError', 'PyTuple_New', 'PyTuple_Pack',
          'PyObject_VectorcallMethod', 'PyObject_Vectorcall', 'PyObject_VectorcallDict', '__Pyx_PyObject_CallMethod0', '__Pyx_PyObject_CallMethod1', '__Pyx__PyObject_CallMethod1',
          '__Pyx_PyObject_FastCallMethod', '__Pyx_GetItemInt_Fast', '__Pyx_GetItemInt_Generic', 'PySequence_GetItem', 'PyNumber_Add', 'PyObject_GetItem',
          '__Pyx_PyVectorcall_FastCallDict', '__Pyx_PyObject_FastCall_fallback', '__Pyx_PyFunction_FastCallDict', '__Pyx_PyObject_CallMethO', '__Pyx_PyCFunction_FastCall',
          '__Pyx_PyObject_GetMethod_Result',
          # containers built from borrowed items: the container takes its own references and drops them when it dies (net zero while it is not returned)
          '__Pyx_PyTuple_FromArray', '__Pyx_PyList_FromArray']
INTFAIL = {'PyObject_IsTrue': (0, 1, -1), '__Pyx_PyObject_IsTrue_slow': (0, 1, -1),
           'PyErr_ExceptionMatches': (0, 1), '__Pyx_PyErr_ExceptionMatches': (0, 1), '__Pyx_PyErr_ExceptionMatchesInState': (0, 1),
           '__Pyx_PyErr_GivenExceptionMatches': (0, 1), 'PyErr_GivenExceptionMatches': (0, 1), '__Pyx_HasAttr': (0, 1, -1)}
SETS_ERROR = ['__Pyx_RaiseNeedMoreValuesError', '__Pyx_RaiseTooManyValuesError', '__Pyx_RaiseNoneNotIterableError', '__Pyx_UnpackTupleError', 'PyErr_SetString', 'PyErr_SetObject',
              'PyErr_Format', '__Pyx_RaiseUnboundLocalError']
NEUTRAL = ['_PyThreadState_UncheckedGet', 'PyThreadState_Get', '_PyType_Lookup', 'PyErr_Occurred', '_PyErr_Occurred', 'PyThreadState_GetUnchecked']      # return borrowed / non-object pointers
NOOP = ['__Pyx_AddTraceback', '__Pyx_RefNannySetupContext', '__Pyx_RefNannyFinishContext', 'PyErr_Clear', '__Pyx_PyErr_Clear']
# (name, out-parameter indices that receive new references)
OUTREFS = {'__Pyx_ErrFetch': (0, 1, 2), '__Pyx_ErrFetchInState': (1, 2, 3), '__Pyx_ExceptionSave': (0, 1, 2), '__Pyx__ExceptionSave': (1, 2, 3),
           '__Pyx_ExceptionSwap': (0, 1, 2), '__Pyx__ExceptionSwap': (1, 2, 3)}
OUTREFS_FALLIBLE = {'__Pyx_GetException': (0, 1, 2), '__Pyx__GetException': (1, 2, 3)}
STEALS = {'__Pyx_ErrRestore': (0, 1, 2), '__Pyx_ErrRestoreInState': (1, 2, 3), '__Pyx_ExceptionReset': (0, 1, 2), '__Pyx__ExceptionReset': (1, 2, 3),
          '__Pyx_ErrRestoreWithState': (0, 1, 2)}


UNROLL = 3


def T():
    return int(os.environ.get('VF_QTIMEOUT', '120'))


class Tracker:
    """ownership accounting: for every object, final ob_refcnt == initial ob_refcnt (+1 for ours if created here) - 1 (if created) + returned + escaped"""

    def __init__(self, ex, env):
        self.ex, self.env = ex, env
        self.objs = []         # dict(region, created (guard or True for arguments), initial (BV64), ours (0/1), escapes [BV64 terms], name)
        self.flags = []        # symbolic failure flags (for counterexample printing)
        self.unknown = set()
        self.n = 0
        self.nullargs = []     # (condition, description): a NULL object pointer handed to a C-API function that requires an object

    def arg(self, name):
        p, inv = self.env.make_opaque(name)
        r = self.ex.regions[next(iter(p.regions))]
        rc = r.fields[stubs.OB_REFCNT][1]
        self.objs.append(dict(region=r, created=z3.BoolVal(True), initial=rc, ours=0, escapes=[], name=name))
        self.ex.assumptions.append(inv)
        return p

    def new_object(self, g, name, may_fail=True, fail_sets_error=True):
        """a new reference handed to the caller (or NULL when the call fails)"""
        ex, env = self.ex, self.env
        self.n += 1
        nm = '%s#%d' % (name, self.n)
        r = ex.new_region(nm, size=None, lazy=True)
        others = z3.BitVec('others_%s' % nm, 64)
        ex.assumptions.append(z3.And(others >= 0, others < (1 << 20)))
        r.fields[stubs.OB_REFCNT] = (8, others + 1)
        tp = ex.new_region(nm + '.type', size=None, lazy=True)
        tp.fields[stubs.TP_FLAGS] = (8, z3.BitVecVal(0, 64))
        r.fields[stubs.OB_TYPE] = (8, ex.ptr_to(tp))
        env.ghost[r.id] = dict(kind='tracked', name=nm)
        if may_fail:
            ok = z3.Bool('ok_%s' % nm)
            self.flags.append(ok)
        else:
            ok = z3.BoolVal(True)
        self.objs.append(dict(region=r, created=z3.And(g, ok), initial=others + 1, ours=1, escapes=[], name=nm))
        if may_fail and fail_sets_error:
            env.set_error(z3.And(g, z3.Not(ok)), ex.ptr_to(env.exc_type('PyExc_RuntimeError')))
        return Ptr(z3.If(ok, z3.BitVecVal(r.base, 64), z3.BitVecVal(0, 64)), [r.id, 0]) if may_fail else ex.ptr_to(r)

    def check_args(self, ex_, g, name, a):
        """the callee (first argument) and, for vectorcall-style helpers, every element of the argument array must be real objects"""
        if a and isinstance(a[0], Ptr):
            self.nullargs.append((z3.And(g, a[0].bv == 0), '%s called on NULL' % name))
        if name in ('PyObject_GetAttr', '__Pyx_PyObject_GetAttrStr', 'PyObject_GetItem', 'PyNumber_Add') and len(a) > 1 and isinstance(a[1], Ptr):
            self.nullargs.append((z3.And(g, a[1].bv == 0), '%s with a NULL operand' % name))
        if 'FastCall' in name and len(a) >= 3 and isinstance(a[1], Ptr) and not isinstance(a[2], Ptr):
            n = z3.simplify(a[2] & z3.BitVecVal((1 << 62) - 1, a[2].size()))
            if z3.is_bv_value(n) and n.as_long() <= 4:
                pt = ir.T('ptr', elem=ir.T('int', bits=8))
                for i in range(n.as_long()):
                    v = ex_.load(Ptr(a[1].bv + 8 * i, a[1].regions), pt, g, 'stub')
                    self.nullargs.append((z3.And(g, v.bv == 0), '%s: argument %d is NULL' % (name, i)))

    def escape(self, g, p):
        """reference to the object(s) p may point to is given away (stolen by the callee) under guard g"""
        for o in self.objs:
            if o['region'].id in p.regions:
                o['escapes'].append(z3.If(z3.And(g, p.bv == z3.BitVecVal(o['region'].base, 64)), z3.BitVecVal(1, 64), z3.BitVecVal(0, 64)))

    def install(self):
        ex, env, tr = self.ex, self.env, self
        ptr_t = ir.T('ptr', elem=ir.T('int', bits=8))

        def newref(name):
            def stub(ex_, g, a, rt, caller):
                env.event(g, name, a)
                tr.check_args(ex_, g, name, a)
                return tr.new_object(g, name)
            return stub
        for nm in NEWREF:
            ex.stubs[nm] = newref(nm)

        def indirect(ex_, g, a, rt, caller):
            # tp_iternext & co: new reference or NULL (NULL with or without an exception set)
            env.event(g, 'indirect', a[1:])
            if rt.kind == 'ptr':
                p = tr.new_object(g, 'indirect', fail_sets_error=False)
                e = z3.Bool('indirect_err_%d' % tr.n)
                tr.flags.append(e)
                env.set_error(z3.And(g, p.bv == 0, e), ex_.ptr_to(env.exc_type('PyExc_RuntimeError')))
                return p
            return ex_.fresh_of(rt, 'indirect') if rt.kind != 'void' else None
        ex.stubs['<indirect>'] = indirect

        def intfail(name, vals):
            def stub(ex_, g, a, rt, caller):
                tr.check_args(ex_, g, name, a)
                tr.n += 1
                r = z3.BitVec('ret_%s_%d' % (name, tr.n), rt.bits)
                tr.flags.append(r)
                ex_.assumptions.append(z3.Or(*[r == v for v in vals]))
                if -1 in vals:
                    env.set_error(z3.And(g, r == -1), ex_.ptr_to(env.exc_type('PyExc_RuntimeError')))
                env.event(g, name, a, r)
                return r
            return stub
        for nm, vals in INTFAIL.items():
            ex.stubs[nm] = intfail(nm, vals)
        for nm in SETS_ERROR:
            ex.stubs[nm] = (lambda n_: lambda ex_, g, a, rt, c: env.set_error(g, ex_.ptr_to(env.exc_type('PyExc_ValueError'))) or None)(nm)
        for nm in NOOP:
            ex.stubs[nm] = (lambda n_: lambda ex_, g, a, rt, c: (env.set_error(g, symex.NULLPTR) if 'Clear' in n_ else None) and None)(nm)

        def outrefs(name, idxs, fallible):
            def stub(ex_, g, a, rt, caller):
                ok = z3.BoolVal(True)
                if fallible:
                    tr.n += 1
                    ok = z3.Bool('ok_%s_%d' % (name, tr.n))
                    tr.flags.append(ok)
                for i in idxs:
                    # which slots may come back NULL: GetException: only the traceback; ErrFetch: value and traceback; ExceptionSave/Swap: all
                    nullable = (i == idxs[2]) if 'GetException' in name else (i != idxs[0]) if 'Fetch' in name else True
                    p = tr.new_object(z3.And(g, ok), '%s.out%d' % (name, i), may_fail=nullable, fail_sets_error=False)
                    ex_.store(a[i], p, ptr_t, z3.And(g, ok), 'stub')
                if 'Fetch' in name:
                    env.set_error(g, symex.NULLPTR)
                if 'GetException' in name:
                    env.set_error(z3.And(g, ok), symex.NULLPTR)
                    env.set_error(z3.And(g, z3.Not(ok)), ex_.ptr_to(env.exc_type('PyExc_RuntimeError')))
                env.event(g, name, a)
                if rt.kind == 'int':
                    return z3.If(ok, z3.BitVecVal(0, rt.bits), z3.BitVecVal(-1, rt.bits))
                return None
            return stub
        for nm, idxs in OUTREFS.items():
            ex.stubs[nm] = outrefs(nm, idxs, False)
        for nm, idxs in OUTREFS_FALLIBLE.items():
            ex.stubs[nm] = outrefs(nm, idxs, True)

        def steals(name, idxs):
            def stub(ex_, g, a, rt, caller):
                for i in idxs:
                    tr.escape(g, a[i])
                if 'ErrRestore' in name:
                    env.set_error(z3.And(g, a[idxs[0]].bv != 0), ex_.ptr_to(env.exc_type('PyExc_RuntimeError')))
                env.event(g, name, a)
                return None
            return stub
        for nm, idxs in STEALS.items():
            ex.stubs[nm] = steals(nm, idxs)
        def iterfinish(ex_, g, a, rt, caller):
            # 0 and the error cleared if no exception or StopIteration is set; -1 with any other exception left in place
            tr.n += 1
            stop = z3.Bool('pending_error_is_StopIteration_%d' % tr.n)
            tr.flags.append(stop)
            err = z3.Not(env.no_error())
            res = z3.If(z3.And(err, z3.Not(stop)), z3.BitVecVal(-1, rt.bits), z3.BitVecVal(0, rt.bits))
            env.set_error(z3.And(g, err, stop), symex.NULLPTR)
            env.event(g, '__Pyx_IterFinish', a, res)
            return res
        ex.stubs['__Pyx_IterFinish'] = iterfinish
        # __Pyx_Raise(type, value, tb, cause): borrows its arguments
        ex.stubs['__Pyx_Raise'] = lambda ex_, g, a, rt, c: env.set_error(g, ex_.ptr_to(env.exc_type('PyExc_ValueError'))) or None
        ex.stubs['_Py_Dealloc'] = self._dealloc

    def _dealloc(self, ex_, g, a, rt, caller):
        for rid in a[0].regions:
            if rid in ex_.regions and rid != 0:
                r = ex_.regions[rid]
                c = z3.And(g, z3.Extract(63, symex.REGION_SHIFT, a[0].bv) == rid)
                r.freed = z3.simplify(z3.Or(r.freed, c))
        self.env.event(g, '_Py_Dealloc', a)
        return None

    def balance(self, ret, rg):
        """[(name, violation condition)]"""
        out = []
        for o in self.objs:
            r = o['region']
            f = r.fields.get(stubs.OB_REFCNT)
            final = f[1] if f is not None else o['initial']
            final = final.bv if isinstance(final, Ptr) else final
            if final.size() != 64:
                continue
            returned = z3.If(z3.And(rg, ret.bv == z3.BitVecVal(r.base, 64)), z3.BitVecVal(1, 64), z3.BitVecVal(0, 64)) if isinstance(ret, Ptr) else z3.BitVecVal(0, 64)
            esc = z3.BitVecVal(0, 64)
            for e in o['escapes']:
                esc = esc + e
            want = o['initial'] - o['ours'] + returned + esc
            out.append((o['name'], z3.And(o['created'], rg, final != want), final, want))
        return out


def fname_of(B, prefix, fn):
    c = [f for f in B.module.functions if re.match(r'^__pyx_%s_\d+%s_\d*%s$' % (prefix, B.name, fn), f)]
    if len(c) != 1:
        raise KeyError('function %s not found (%r)' % (fn, c))
    return c[0]


EXTRA = None      # optional hook(ex, env, tracker): further stubs of a reusing check (C21: closure scope objects)


def check_kernel(fn):
    out = []
    t0 = time.time()
    try:
        ex, env = _B.new_exec(unroll=UNROLL)
        tr = Tracker(ex, env)
        tr.install()
        if EXTRA:
            EXTRA(ex, env, tr)
        for g in ('_Py_NoneStruct', '_Py_TrueStruct', '_Py_FalseStruct'):
            p = ex.global_ptr(g)
            r = ex.regions[next(iter(p.regions))]
            r.fields[stubs.OB_REFCNT] = (8, z3.BitVecVal(0xFFFFFFFF, 64))     # immortal
        ms = ex.global_ptr('__pyx_mstate_global_static')
        msr = ex.regions[next(iter(ms.regions))]
        msr.fields.clear()
        msr.lazy = True
        if fn.startswith('pw:'):
            # the argument-unpacking wrapper (vectorcall convention): args array with up to 2 positional arguments, optional keyword-name tuple;
            # the wrapped function itself is replaced by "returns a new reference or fails"
            name = fn[3:]
            a0, a1 = tr.arg('arg0'), tr.arg('arg1')
            arr = ex.new_region('args', size=24, lazy=False)
            arr.fields[0] = (8, a0); arr.fields[8] = (8, a1); arr.fields[16] = (8, tr.arg('kwvalue0'))
            nargs = z3.BitVec('nargs', 64)
            kw, kwinv = env.make_opaque('kwnames')
            has_kw = z3.Bool('has_kwnames')
            nkw = z3.BitVec('n_kwnames', 64)
            ex.regions[next(iter(kw.regions))].fields[16] = (8, nkw)
            ex.assumptions.append(z3.And(nkw >= 0, nkw <= 1))
            ex.assumptions += [kwinv, z3.Or(nargs == 0, nargs == 1, nargs == 2)]
            kwp = Ptr(z3.If(has_kw, kw.bv, z3.BitVecVal(0, 64)), kw.regions | {0})
            ex.stubs[fname_of(_B, 'pf', name)] = lambda ex_, g, a, rt, c: (env.event(g, 'body', a), tr.new_object(g, 'body'))[1]

            def parsekw(ex_, g, a, rt, caller):
                tr.n += 1
                r = z3.BitVec('ret_ParseKeywords_%d' % tr.n, rt.bits)
                tr.flags.append(r)
                ex_.assumptions.append(z3.Or(r == 0, r == -1))
                env.set_error(z3.And(g, r == -1), ex_.ptr_to(env.exc_type('PyExc_TypeError')))
                return r
            for nm in ('__Pyx_ParseKeywords', '__Pyx_ParseOptionalKeywords', '__Pyx_ParseKeywordsTuple', '__Pyx_ParseKeywordDict', '__Pyx_ParseKeywordDictToDict', '__Pyx_ParseKeywordsTupleToDict'):
                ex.stubs[nm] = parsekw

            def as_int(ex_, g, a, rt, caller):
                tr.n += 1
                r = z3.BitVec('ret_As_int_%d' % tr.n, rt.bits)
                bad = z3.Bool('As_int_fails_%d' % tr.n)
                tr.flags.append(bad)
                env.set_error(z3.And(g, bad), ex_.ptr_to(env.exc_type('PyExc_TypeError')))
                return z3.If(bad, z3.BitVecVal(-1, rt.bits), r)
            ex.stubs['__Pyx_PyLong_As_int'] = as_int
            ex.stubs['PyDict_New'] = lambda ex_, g, a, rt, c: tr.new_object(g, 'PyDict_New')
            ex.stubs['__Pyx_RaiseArgtupleInvalid'] = lambda ex_, g, a, rt, c: env.set_error(g, ex_.ptr_to(env.exc_type('PyExc_TypeError'))) or None
            ex.stubs['__Pyx_RaiseKeywordRequired'] = ex.stubs['__Pyx_RaiseArgtupleInvalid']
            ex.stubs['__Pyx_RejectKeywords'] = ex.stubs['__Pyx_RaiseArgtupleInvalid']
            ret, rg = ex.run(fname_of(_B, 'pw', name), [symex.NULLPTR, ex.ptr_to(arr), nargs, kwp])
        else:
            args = [tr.arg('arg%d' % i) for i in range(NARGS[fn])]
            ret, rg = ex.run(fname_of(_B, 'pf', fn), [symex.NULLPTR] + args)
    except (symex.Unsupported, ir.ParseError, KeyError, IndexError) as e:
        return [dict(name='%s:encode' % fn, status='inconclusive', s=time.time() - t0, detail='Unsupported: %s' % str(e)[:300], mandatory=True)]
    known = set(ex.stubs)
    unknown = sorted(set(e.name for e in ex.events if e.name not in known and not e.name.startswith(('indirect', 'PyLong_From')) and e.name not in NEUTRAL and e.name in _B.module.declares))
    pre = list(ex.assumptions)
    bal = tr.balance(ret, rg)

    def cexf(m):
        fl = {}
        for f in tr.flags:
            v = m.eval(f, model_completion=True)
            fl[str(f)] = (bool(v) if z3.is_bool(v) else v.as_signed_long())
        return dict(kind='refcount', fn=fn, flags=fl)
    viol = z3.Or(*[c for _, c, _, _ in bal]) if bal else z3.BoolVal(False)
    r, m, s = solve.check(pre + [viol], T())
    d = dict(name='%s: every object keeps exactly the references it is owed on every path (each fallible call failing or succeeding): %d objects, %d failure points'
                  % (fn, len(bal), len(tr.flags)), s=s, mandatory=True, status={'unsat': 'proved', 'sat': 'refuted'}.get(r, 'inconclusive'))
    if r == 'sat':
        bad = [(n, m.eval(f, model_completion=True).as_signed_long(), m.eval(w, model_completion=True).as_signed_long()) for n, c, f, w in bal if z3.is_true(m.eval(c, model_completion=True))]
        d['cex'] = dict(cexf(m), objects=bad[:4])
    out.append(d)
    # the error protocol: NULL result <=> exception set
    r2, m2, s2 = solve.check(pre + [rg, (ret.bv == 0) != z3.Not(env.no_error())], T())
    d2 = dict(name='%s: NULL is returned exactly when an exception is set' % fn, s=s2, mandatory=True, status={'unsat': 'proved', 'sat': 'refuted'}.get(r2, 'inconclusive'))
    if r2 == 'sat':
        d2['cex'] = cexf(m2)
    out.append(d2)
    # use after free / double free
    ubs = [c for c, desc, f_ in ex.ub if 'freed' in desc]
    if ubs:
        r3, m3, s3 = solve.check(pre + [z3.Or(*ubs)], T())
        d3 = dict(name='%s: no access to an object after its last reference was released' % fn, s=s3, mandatory=True, status={'unsat': 'proved', 'sat': 'refuted'}.get(r3, 'inconclusive'))
        if r3 == 'sat':
            d3['cex'] = cexf(m3)
        out.append(d3)
    if ex.unwind:
        r4, _, s4 = solve.check(pre + [z3.Or(*[u[0] for u in ex.unwind])], T())
        out.append(dict(name='%s: paths beyond the loop unrolling bound %d exist (bounded claim)' % (fn, UNROLL), s=s4, mandatory=False, status='witness' if r4 == 'sat' else 'proved'))
    r5, _, s5 = solve.check(pre + [rg, ret.bv != 0], T())
    out.append(dict(name='%s: reach: a successful return' % fn, s=s5, mandatory=True, status={'sat': 'witness', 'unsat': 'vacuous'}.get(r5, 'inconclusive')))
    r6, _, s6 = solve.check(pre + [rg, ret.bv == 0], T())
    out.append(dict(name='%s: reach: an error return' % fn, s=s6, mandatory=True, status={'sat': 'witness', 'unsat': 'vacuous'}.get(r6, 'inconclusive')))
    if tr.nullargs or any('NULL' in desc for c, desc, f_ in ex.ub):
        conds = [c for c, _ in tr.nullargs] + [c for c, desc, f_ in ex.ub if 'NULL' in desc and f_ != 'stub']
        r7, m7, s7 = solve.check(pre + [z3.Or(*conds)], T())
        d7 = dict(name='%s: no NULL (unbound) object reaches the C-API or is dereferenced (%d sites)' % (fn, len(conds)), s=s7, mandatory=True,
                  status={'unsat': 'proved', 'sat': 'refuted'}.get(r7, 'inconclusive'))
        if r7 == 'sat':
            which = [d_ for c, d_ in tr.nullargs if z3.is_true(m7.eval(c, model_completion=True))][:3]
            d7['cex'] = dict(cexf(m7), null_sites=which)
        out.append(d7)
    if unknown:
        out.append(dict(name='%s: external functions without an ownership contract: %s' % (fn, ', '.join(unknown)[:300]), s=0.0, mandatory=True, status='inconclusive'))
    return out


REPLAY = r'''
import sys, gc, weakref
sys.path.insert(0, %(dir)r)
import %(mod)s as M
c = %(cex)r
# native replay: drive the kernel with objects that fail at every point in turn and watch weak references / reference counts
class Boom(Exception): pass
leaks = []
import ctypes, os
try:
    INJ = ctypes.CDLL(None)
    INJ.vf_fail_arm
except (OSError, AttributeError):
    INJ = None
def probe(label, thunk, keep):
    """keep: objects the test itself holds (their refcount must be unchanged); everything else created inside must die"""
    before = [sys.getrefcount(k) for k in keep]
    created = []
    if INJ is not None: INJ.vf_fail_arm()
    try: thunk(created)
    except BaseException: pass
    finally:
        if INJ is not None: INJ.vf_fail_disarm()
    gc.collect()
    after = [sys.getrefcount(k) for k in keep]
    if before != after: leaks.append((label, 'refcount', before, after))
    for w in created:
        if w() is not None: leaks.append((label, 'alive'))
class Obj:
    pass
def mk(created):
    o = Obj(); created.append(weakref.ref(o)); return o
fn = c['fn']
if fn.startswith('pw:'):
    f = getattr(M, fn[3:])
    class Num:
        def __init__(s, bad): s.bad = bad
        def __index__(s):
            if s.bad: raise Boom()
            return 3
        __int__ = __index__
    for bad in (False, True):
        for npos in (0, 1, 2, 3):
            for nkw in (0, 1, 2):
                def thunk(created, bad=bad, npos=npos, nkw=nkw):
                    pos = [Num(bad)] + [mk(created) for _ in range(npos)]
                    kw = {'k%%d' %% i: mk(created) for i in range(nkw)}
                    f(*pos[:npos + 1] if npos else pos[:1], **kw)
                probe((bad, npos, nkw), thunk, [])
                def thunk2(created, nkw=nkw):
                    kw = {'k%%d' %% i: mk(created) for i in range(nkw)}
                    f(**kw)              # missing positional argument
                probe(('missing', nkw), thunk2, [])
elif fn == 'run_with':
    for exit_mode in ('false', 'true', 'boolraise', 'raise'):
        for body_raises in (False, True):
            for enter_raises in (False, True):
                def thunk(created, exit_mode=exit_mode, body_raises=body_raises, enter_raises=enter_raises):
                    class V(Obj):
                        def __bool__(s):
                            if exit_mode == 'boolraise': raise Boom()
                            return exit_mode == 'true'
                    class Mgr(Obj):
                        def __enter__(s):
                            if enter_raises: raise Boom()
                            return mk(created)
                        def __exit__(s, *a):
                            if exit_mode == 'raise': raise Boom()
                            v = V(); created.append(weakref.ref(v)); return v
                    m = Mgr(); created.append(weakref.ref(m))
                    def body():
                        if body_raises: raise Boom()
                    M.run_with(m, body)
                probe((exit_mode, body_raises, enter_raises), thunk, [])
elif fn == 'unpack2':
    for n in (0, 1, 2, 3):
        for raise_at in (None, 0, 1, 2):
            class It:
                def __init__(s, created): s.i = 0; s.created = created
                def __iter__(s): return s
                def __next__(s):
                    if raise_at == s.i: raise Boom()
                    if s.i >= n: raise StopIteration
                    s.i += 1; return mk(s.created)
            holder = []
            it = It(holder)
            probe((n, raise_at), lambda created: (M.unpack2(it), created.extend(holder)), [it])
            holder2 = []
            def gen(created):
                for i in range(n):
                    if raise_at == i: raise Boom()
                    yield mk(created)
            probe(('gen', n, raise_at), lambda created: M.unpack2(gen(created)), [])
else:
    def failing(k, created):
        def f(*a):
            if k == 0: raise Boom()
            return mk(created)
        return f
    for k1 in (0, 1):
        for k2 in (0, 1):
            if fn in ('tryfin', 'tryexc'):
                def thunk(created, k1=k1, k2=k2):
                    def f():
                        if k1 == 0: raise (ValueError() if fn == 'tryexc' else Boom())
                        return mk(created)
                    getattr(M, fn)(f, failing(k2, created))
                probe((k1, k2), thunk, [])
            elif fn == 'two_calls':
                probe((k1, k2), lambda created, k1=k1, k2=k2: M.two_calls(failing(k1, created), failing(k2, created), mk(created)), [])
            elif fn == 'attr_call':
                def thunk(created, k1=k1, k2=k2):
                    class O(Obj):
                        def __getattr__(s, n):
                            if k1 == 0: raise Boom()
                            return failing(k2, created)
                    o = O(); created.append(weakref.ref(o)); M.attr_call(o, mk(created))
                probe((k1, k2), thunk, [])
            elif fn == 'cond_attr':
                def thunk(created, k1=k1, k2=k2):
                    class O(Obj):
                        def __getattr__(s, n):
                            if k1 == 0: raise Boom()
                            return mk(created)
                    o = O(); created.append(weakref.ref(o)); M.cond_attr(o, k2)
                probe((k1, k2), thunk, [])
            elif fn == 'loop_sum':
                def thunk(created, k1=k1, k2=k2):
                    def g():
                        yield mk(created)
                        if k1 == 0: raise Boom()
                        yield mk(created)
                    M.loop_sum(g(), failing(k2, created))
                probe((k1, k2), thunk, [])
print('REPLAY', c['fn'], leaks[:6])
print('REPLAY-REPRODUCED' if leaks else 'REPLAY-HOLDS')
'''
_NATIVE = None


def replay(rep, cex):
    global _NATIVE
    try:
        if _NATIVE is None:
            _NATIVE = build.native(_B.cfile)
    except build.BuildError as e:
        return None, 'native build failed: %s' % e
    script = REPLAY % dict(dir=os.path.dirname(_NATIVE), mod=_B.name, cex=cex)
    p = subprocess.run(['/verif/.venv/bin/python', '-c', script], capture_output=True, text=True, timeout=120)
    txt = (p.stdout + p.stderr).strip()[-700:]
    rep.validated += 1
    if p.returncode < 0:
        return True, 'process died with signal %d' % (-p.returncode)
    if 'REPLAY-REPRODUCED' in txt:
        return True, txt
    # failure points that Python-level objects cannot trigger (allocation failures inside the C-API): replay with the
    # LD_PRELOAD fault injector, failing the k-th call the module makes to one C-API function
    lib = os.path.join(os.path.dirname(_NATIVE), 'libvffail.so')
    if not os.path.exists(lib):
        c = subprocess.run(['gcc', '-shared', '-fPIC', '-O1', '-o', lib, os.path.join(os.path.dirname(__file__), '..', 'native', 'failinject.c'), '-ldl'], capture_output=True, text=True)
        if c.returncode != 0:
            return False, txt + ' (fault injector did not build: %s)' % c.stderr[-200:]
    for api in ('PyTuple_New', 'PyObject_Call', 'PyObject_GetIter', 'PyObject_GetAttr', 'PyList_New'):
        for k in range(1, 7):
            env = dict(os.environ, LD_PRELOAD=lib, VF_FAIL='%s:%d' % (api, k))
            p = subprocess.run(['/verif/.venv/bin/python', '-c', script], capture_output=True, text=True, timeout=120, env=env)
            rep.validated += 1
            t2 = (p.stdout + p.stderr).strip()[-500:]
            if p.returncode >= 0 and 'REPLAY-REPRODUCED' in t2:
                return True, 'with fault injection %s:%d (the %d-th call of %s made by the module fails): %s' % (api, k, k, api, t2)
    return False, txt


def run(rep, tier, only=None):
    global _B, UNROLL
    snapshot.activate()
    UNROLL = 3 if tier == 'quick' else 6
    _B = harness.build_template('c35t', TEMPLATE)
    jobs = [k for k in KERNELS if not only or only in k]
    rep.functions += ['generated code of %d def functions (attribute access and calls, with statement, iterator unpacking, try/finally, try/except, conditional binding, for loop) as emitted by the '
                      'real Cython, with the real Py_INCREF/Py_DECREF/Py_XDECREF/__Pyx_*DECREF* code acting on ob_refcnt [%s]' % (len(KERNELS), build.sha(_B.cfile))]
    rep.bounds += ['every combination of success/failure of every fallible C-API call in the kernel (symbolic flags), any initial reference counts, loops unrolled %d times' % UNROLL,
                   'ownership contracts: %d functions returning a new reference or NULL, indirect slot calls (tp_iternext) returning a new reference or NULL with/without an exception, '
                   'out-parameter functions (__Pyx_ErrFetch, __Pyx_ExceptionSave, __Pyx_GetException), stealing functions (__Pyx_ErrRestore, __Pyx_ExceptionReset)' % len(NEWREF),
                   'outside: container-building code (tuple/list/dict stealing item references), argument-parsing wrappers, generators, cdef classes, closures, memoryviews']
    rep.assume('CPython 3.12 object header; None/True/False immortal', 'a call that fails returns NULL and owns nothing; a call that succeeds returns exactly one new reference')
    with mp.Pool(min(16, os.cpu_count() or 4)) as pool:
        results = pool.map(check_kernel, jobs, chunksize=1)
    for job, res in zip(jobs, results):
        for d in res:
            if d['status'] == 'refuted':
                ok, txt = replay(rep, d['cex'])
                if ok:
                    rep.obligation(d['name'], 'refuted', d['s'], True, str(d['cex'])[:600])
                    rep.violation('%s fails for %s: %s' % (d['name'], str(d['cex'])[:500], txt), dict(cex=d['cex'], replay_output=txt))
                else:
                    rep.obligation(d['name'], 'inconclusive', d['s'], d.get('mandatory', True), 'counterexample %s did not reproduce: %s' % (str(d['cex'])[:400], txt))
            else:
                rep.obligation(d['name'], d['status'], d['s'], d.get('mandatory', True), d.get('detail'))
    rep.cov['states'] = sum(len(r) for r in results)
    rep.cov['transitions'] = sum(len(r) for r in results)
    rep.sample(dict(function='run_with', inputs='__enter__/__exit__ lookup, both calls, the body call, the truth test of the __exit__ result: each failing or succeeding'))
