"""C19 comparisons: int/int and float/int fast paths of PyObjectCompare, cascaded comparison evaluation order, if-chains rewritten to C switch (GEN + CIR)."""
import ast, multiprocessing as mp, os, re, subprocess, time
import z3
from .. import snapshot
from ..cir import build, solve, symex, stubs, ir
from ..cir.symex import Ptr
from ..gen import harness

LEVEL = 'model_checking'
_B = None
OPS = [('Lt', 0), ('Le', 1), ('Eq', 2), ('Ne', 3), ('Gt', 4), ('Ge', 5)]
PYOP = {'Lt': '<', 'Le': '<=', 'Eq': '==', 'Ne': '!=', 'Gt': '>', 'Ge': '>='}
# if/elif chains, or-chains, `in` tuples, and-of-!= chains and conditional expressions over C ints (candidates for SwitchTransform),
# written as Python-semantics reference = the source itself (evaluated over z3 by the small interpreter below)
SWITCH_SRC = '''
cdef int s1(int x) noexcept:
    if x == 1: return 10
    elif x == 2 or x == 3: return 20
    elif x in (4, 5, 1): return 30
    return 40
cdef int s2(int x) noexcept:
    if x == 1: return 10
    elif x == 1: return 20
    elif x == 2: return 30
    elif x in (2, 3, 3): return 40
    else: return 50
cdef int s3(long x) noexcept:
    if x != 1 and x != 2 and x != 7: return 10
    elif x == 2: return 20
    return 30
cdef int s4(int x, int y) noexcept:
    if x == 1: return 10
    elif y == 2: return 20
    elif x == 3: return 30
    return 40
cdef int s5(int x) noexcept:
    return 10 if x == 5 or x == 6 else (20 if x in (6, 7) else 30)
cdef int s6(unsigned char x) noexcept:
    if x == 255: return 10
    elif x == 0 or x == 128: return 20
    elif x in (1, 2, 255): return 30
    return 40
cdef int s7(int x) noexcept:
    if x == -1: return 10
    elif x == 2147483647: return 20
    elif x == -2147483648 or x == 0: return 30
    return 40
cdef int s8(int x, int y) noexcept:
    if x == 1 and y == 1: return 10
    elif x == 2: return 20
    elif x == 1: return 30
    return 40
cdef int s9(int x) noexcept:
    if x not in (1, 2, 3): return 10
    elif x == 2: return 20
    return 30
cdef int a1(P a, P b) noexcept:
    if a.x == 1: return 10
    elif b.x == 2: return 20
    elif a.x == 3 or b.x == 3: return 30
    return 40
cdef int a2(P a, P b) noexcept:
    return 10 if a.x == 5 or b.x == 6 else 20
'''
TEMPLATE = '''# cython: language_level=3
cdef class P:
    cdef int x
    def __init__(self, x): self.x = x
''' + SWITCH_SRC + '''
def w_s(int k, long x, long y):
    if k == 1: return s1(x)
    if k == 2: return s2(x)
    if k == 3: return s3(x)
    if k == 4: return s4(x, y)
    if k == 5: return s5(x)
    if k == 6: return s6(x)
    if k == 7: return s7(x)
    if k == 8: return s8(x, y)
    return s9(x)
def w_a(int k, int x, int y):
    if k == 1: return a1(P(x), P(y))
    return a2(P(x), P(y))
def lt(a, b): return a < b
def le(a, b): return a <= b
def gt(a, b): return a > b
def ge(a, b): return a >= b
def eq(a, b): return a == b
def ne(a, b): return a != b
def blt(a, b):
    if a < b: return 1
    return 0
def ceq(o):
    if 'x' == o: return 1
    return 0
def ceq_r(o):
    if o == 'x': return 1
    return 0
def cne(o):
    if 'x' != o: return 1
    return 0
def chain3(a, b, c): return a < b <= c
def chain4(a, b, c, d): return a < b <= c > d
'''
WIDE = stubs.WIDE


def T():
    return int(os.environ.get('VF_QTIMEOUT', '240'))


def _ob(out, prefix, pre, cexf):
    def ob(name, conds, kind_='unsat', mandatory=True):
        r, m, s = solve.check(pre + conds, T())
        d = dict(name='%s: %s' % (prefix, name), s=s, mandatory=mandatory)
        d['status'] = ({'unsat': 'proved', 'sat': 'refuted'} if kind_ == 'unsat' else {'sat': 'witness', 'unsat': 'vacuous'}).get(r, 'inconclusive')
        if r == 'sat' and kind_ == 'unsat':
            d['cex'] = cexf(m)
        out.append(d)
        return d
    return ob


def quiet_refs(ex):
    for nm in ('Py_INCREF', 'Py_DECREF', 'Py_XDECREF', 'Py_XINCREF'):
        ex.stubs[nm] = lambda ex_, g, a, rt, c: None
    for nm in ('__Pyx_NewRef', 'Py_NewRef', '_Py_NewRef'):
        ex.stubs[nm] = lambda ex_, g, a, rt, c: a[0]
    ex.stubs['__Pyx_AddTraceback'] = lambda ex_, g, a, rt, c: None


def pf_name(B, fn):
    c = [f for f in B.module.functions if re.match(r'^__pyx_pf_\d+%s_\d*%s$' % (B.name, fn), f)]
    if len(c) != 1:
        raise KeyError('python function %s not found (%r)' % (fn, c))
    return c[0]


def truth_of(ex, ret, rg_unused=None):
    """(is_true, is_false) conditions for a returned bool object / C int"""
    if isinstance(ret, Ptr):
        tr, fa = ex.global_ptr('_Py_TrueStruct'), ex.global_ptr('_Py_FalseStruct')
        return ret.bv == tr.bv, ret.bv == fa.bv
    return ret == 1, ret == 0


def cmp_expr(op, x, y):
    return {'Lt': x < y, 'Le': x <= y, 'Eq': x == y, 'Ne': x != y, 'Gt': x > y, 'Ge': x >= y}[op]


def check_intint(job):
    op, variant = job
    fname = '__Pyx_PyObject_CompareIntInt%s%s' % ('Bool' if variant == 'bool' else '', op)
    out = []
    t0 = time.time()
    try:
        if fname not in _B.module.functions:
            return []
        ex, env = _B.new_exec(unroll=6)
        quiet_refs(ex)
        a, VA, ia = env.make_pylong('a', 5)
        b, VB, ib = env.make_pylong('b', 5)
        ex.global_ptr('_Py_TrueStruct'); ex.global_ptr('_Py_FalseStruct')
        deleg = []

        def rich(ex_, g, args, rt, caller):
            r = ex_.ptr_to(env.new_object('res:rich', dict(kind='rich'))) if rt.kind == 'ptr' else ex_.fresh_of(rt, 'rich')
            deleg.append(env.event(g, 'rich', args, r))
            return r
        for nm in ('PyObject_RichCompare', '__Pyx_PyObject_RichCompareBool', 'PyObject_RichCompareBool'):
            ex.stubs[nm] = rich
        ret, rg = ex.run(fname, [a, b])
    except (symex.Unsupported, ir.ParseError, KeyError, IndexError) as e:
        return [dict(name='%s:encode' % fname, status='inconclusive', s=time.time() - t0, detail='Unsupported: %s' % e, mandatory=True)]
    pre = [ia, ib] + list(ex.assumptions)
    it, if_ = truth_of(ex, ret)
    want = cmp_expr(op, VA, VB)
    delegated = z3.BoolVal(False)
    for e in deleg:
        if isinstance(ret, Ptr) != isinstance(e.ret, Ptr):
            same = z3.BoolVal(True)
        else:
            same = (ret.bv == e.ret.bv) if isinstance(ret, Ptr) else (ret == e.ret)
        delegated = z3.Or(delegated, z3.And(e.guard, e.args[0].bv == a.bv, e.args[1].bv == b.bv, e.args[2] == dict(OPS)[op], same))

    def cexf(m):
        return dict(kind='intint', op=op, a=m.eval(VA, model_completion=True).as_signed_long(), b=m.eval(VB, model_completion=True).as_signed_long(), variant=variant)
    ob = _ob(out, 'int %s int [%s]' % (PYOP[op], variant), pre, cexf)
    ob('True/False exactly as the mathematical comparison (or handed to CPython unchanged), for all ints up to 5 digits (150 bits)', [z3.Not(z3.And(rg, z3.Or(z3.If(want, it, if_), delegated)))])
    if ex.unwind:
        ob('loop unwinding bound suffices', [z3.Or(*[u[0] for u in ex.unwind])])
    ubs = [c for c, d_, f_ in ex.ub]
    if ubs:
        ob('no UB, digit reads inside the objects', [z3.Or(*ubs)])
    gh = env.ghost_of(a)
    ob('reach: equal sign and 3 digits each', [rg, gh['ndigits'] == 3, env.ghost_of(b)['ndigits'] == 3, VA > 0, VB > 0, VA != VB], kind_='witness')
    return out


def check_floatint(job):
    op, order, variant = job          # order: 'FloatInt' | 'IntFloat'
    fname = '__Pyx_PyObject_Compare%s%s%s' % (order, 'Bool' if variant == 'bool' else '', op)
    out = []
    t0 = time.time()
    try:
        if fname not in _B.module.functions:
            return []
        ex, env = _B.new_exec(unroll=6)
        quiet_refs(ex)
        f, D, inf_ = env.make_pyfloat('f')
        n, V, inn = env.make_pylong('n', 5)
        ex.global_ptr('_Py_TrueStruct'); ex.global_ptr('_Py_FalseStruct')
        deleg = []

        def rich(ex_, g, a, rt, caller):
            r = ex_.ptr_to(env.new_object('res:rich', dict(kind='rich'))) if rt.kind == 'ptr' else ex_.fresh_of(rt, 'rich')
            deleg.append(env.event(g, 'rich', a, r))
            return r
        for nm in ('PyObject_RichCompare', '__Pyx_PyObject_RichCompareBool', 'PyObject_RichCompareBool'):
            ex.stubs[nm] = rich
        ex.stubs['<indirect>'] = lambda ex_, g, a, rt, c: rich(ex_, g, a[1:], rt, c)
        args = [f, n] if order == 'FloatInt' else [n, f]
        ret, rg = ex.run(fname, args)
    except (symex.Unsupported, ir.ParseError, KeyError, IndexError) as e:
        return [dict(name='%s:encode' % fname, status='inconclusive', s=time.time() - t0, detail='Unsupported: %s' % e, mandatory=True)]
    pre = [inf_, inn] + list(ex.assumptions)
    it, if_ = truth_of(ex, ret)
    F64 = z3.Float64()
    B53 = z3.BitVecVal(1 << 53, WIDE)
    small = z3.And(V > -B53, V < B53)
    Vd = z3.fpSignedToFP(z3.RNE(), V, F64)                 # exact when small
    nan = z3.fpIsNaN(D)
    fcmp = {'Lt': z3.fpLT, 'Le': z3.fpLEQ, 'Eq': z3.fpEQ, 'Ne': lambda x, y: z3.Not(z3.fpEQ(x, y)), 'Gt': z3.fpGT, 'Ge': z3.fpGEQ}[op]
    x, y = (D, Vd) if order == 'FloatInt' else (Vd, D)
    want_small = fcmp(x, y)
    # |V| >= 2^53 and |D| < 2^53 (finite): the int dominates; infinities dominate everything; NaN compares false (Ne: true)
    two53 = z3.FPVal(float(1 << 53), F64)
    fsmall = z3.And(z3.Not(nan), z3.Not(z3.fpIsInf(D)), z3.fpLT(z3.fpAbs(D), two53))
    Vpos = V > 0
    # value of (float ? int) when the int dominates: float < int iff int > 0
    f_lt_i = Vpos
    dom = {'Lt': f_lt_i, 'Le': f_lt_i, 'Gt': z3.Not(f_lt_i), 'Ge': z3.Not(f_lt_i), 'Eq': z3.BoolVal(False), 'Ne': z3.BoolVal(True)}[op]
    if order == 'IntFloat':
        dom = {'Lt': z3.Not(f_lt_i), 'Le': z3.Not(f_lt_i), 'Gt': f_lt_i, 'Ge': f_lt_i, 'Eq': z3.BoolVal(False), 'Ne': z3.BoolVal(True)}[op]
    fneg = z3.fpIsNegative(D)
    infdom = {'Lt': fneg, 'Le': fneg, 'Gt': z3.Not(fneg), 'Ge': z3.Not(fneg), 'Eq': z3.BoolVal(False), 'Ne': z3.BoolVal(True)}[op]
    if order == 'IntFloat':
        infdom = {'Lt': z3.Not(fneg), 'Le': z3.Not(fneg), 'Gt': fneg, 'Ge': fneg, 'Eq': z3.BoolVal(False), 'Ne': z3.BoolVal(True)}[op]
    delegated = z3.BoolVal(False)
    for e in deleg:
        okargs = z3.And(e.args[0].bv == args[0].bv, e.args[1].bv == args[1].bv, e.args[2] == dict(OPS)[op]) if len(e.args) >= 3 else z3.BoolVal(True)
        if isinstance(ret, Ptr) != isinstance(e.ret, Ptr):
            same = z3.BoolVal(True)          # result object converted by a further (stubbed) truth test: only the call is checked
        else:
            same = (ret.bv == e.ret.bv) if isinstance(ret, Ptr) else (ret == e.ret)
        delegated = z3.Or(delegated, z3.And(e.guard, okargs, same))

    def cexf(m):
        import struct
        bits = m.eval(z3.fpToIEEEBV(D), model_completion=True).as_long()
        return dict(kind='floatint', op=op, order=order, variant=variant, f=struct.unpack('<d', struct.pack('<Q', bits))[0], n=m.eval(V, model_completion=True).as_signed_long())
    ob = _ob(out, '%s %s %s [%s]' % ('float' if order == 'FloatInt' else 'int', PYOP[op], 'int' if order == 'FloatInt' else 'float', variant), pre, cexf)
    res = lambda c: z3.And(rg, z3.If(c, it, if_))
    ob('|int| < 2^53: exactly the IEEE comparison with the (exactly converted) int, NaN included', [small, z3.Not(z3.Or(res(want_small), delegated))])
    ob('|int| >= 2^53, finite |float| < 2^53: decided by the sign of the int (or handed to CPython)', [z3.Not(small), fsmall, z3.Not(z3.Or(res(dom), delegated))])
    ob('|int| >= 2^53, infinite float: decided by the sign of the float; NaN: unordered', [z3.Not(small), z3.fpIsInf(D), z3.Not(z3.Or(res(infdom), delegated))])
    ob('|int| >= 2^53, NaN', [z3.Not(small), nan, z3.Not(z3.Or(res(z3.BoolVal(op == 'Ne')), delegated))])
    sgn_differs = z3.Or(z3.And(z3.Not(fneg), V < 0), z3.And(fneg, V > 0))
    ob('both beyond 2^53: handed to CPython with (op1, op2, op) unchanged unless the signs already decide', [z3.Not(small), z3.Not(fsmall), z3.Not(nan), z3.Not(z3.fpIsInf(D)),
                                                                                                        z3.Not(z3.Or(delegated, z3.And(sgn_differs, res(dom))))])
    ubs = [c for c, d_, f_ in ex.ub]
    if ubs:
        ob('no UB', [z3.Or(*ubs)])
    ob('reach: fast path decides a compact int', [rg, small, z3.Not(delegated), z3.Not(nan), V == 7], kind_='witness')
    return out


def check_chain(job):
    fn, ops = job
    out = []
    t0 = time.time()
    nargs = len(ops) + 1
    try:
        ex, env = _B.new_exec(unroll=2)
        quiet_refs(ex)
        objs, invs = [], []
        for k in range(nargs):
            p, inv = env.make_opaque('abcd'[k])
            objs.append(p)
            invs.append(inv)
        cmps, truths = [], []

        def cmpstub(ex_, g, a, rt, caller):
            k = len(cmps)
            okv = z3.Bool('cmp%d_ok' % k)
            r = env.new_object('cmpres%d' % k, dict(kind='cmpres', idx=k))
            p = Ptr(z3.If(okv, z3.BitVecVal(r.base, 64), z3.BitVecVal(0, 64)), [r.id, 0])
            cmps.append(env.event(g, 'cmp', a, p))
            env.set_error(z3.And(g, z3.Not(okv)), ex_.ptr_to(env.exc_type('PyExc_TypeError')))
            return p
        for f in _B.module.functions:
            if re.match(r'^__Pyx_PyObject_Compare(Lt|Le|Gt|Ge|Eq|Ne)_object_object$', f):
                ex.stubs[f] = cmpstub

        def istrue(ex_, g, a, rt, caller):
            k = len(truths)
            r = z3.BitVec('truth%d' % k, 32)
            truths.append(env.event(g, 'istrue', a, r))
            env.set_error(z3.And(g, r < 0), ex_.ptr_to(env.exc_type('PyExc_ValueError')))
            return r
        ex.stubs['PyObject_IsTrue'] = istrue
        ex.global_ptr('_Py_TrueStruct'); ex.global_ptr('_Py_FalseStruct'); ex.global_ptr('_Py_NoneStruct')
        ret, rg = ex.run(pf_name(_B, fn), [symex.NULLPTR] + objs)
    except (symex.Unsupported, ir.ParseError, KeyError, IndexError) as e:
        return [dict(name='%s:encode' % fn, status='inconclusive', s=time.time() - t0, detail='Unsupported: %s' % e, mandatory=True)]
    pre = invs + [z3.And(t.ret >= -1, t.ret <= 1) for t in truths] + list(ex.assumptions)
    # CPython: r = a op1 b; if not r: return r; r = b op2 c; ...  each operand evaluated once, left to right, errors propagate
    ok = z3.BoolVal(len(cmps) == len(ops) and len(truths) >= len(ops) - 1)
    alive = z3.BoolVal(True)
    result = None
    for k, op in enumerate(ops):
        if k >= len(cmps):
            break
        c = cmps[k]
        ok = z3.And(ok, z3.Implies(alive, z3.And(c.guard, c.args[0].bv == objs[k].bv, c.args[1].bv == objs[k + 1].bv, c.args[2] == dict(OPS)[op])),
                    z3.Implies(z3.Not(alive), z3.Not(c.guard)))
        cok = c.ret.bv != 0
        # result so far
        result = c.ret.bv if result is None else z3.If(alive, c.ret.bv, result)
        if k < len(ops) - 1 and k < len(truths):
            t = truths[k]
            ok = z3.And(ok, z3.Implies(z3.And(alive, cok), z3.And(t.guard, t.args[0].bv == c.ret.bv)))
            # error in the comparison or in the truth test: NULL; false: stop with this result
            err_here = z3.And(alive, z3.Or(z3.Not(cok), t.ret < 0))
            result = z3.If(err_here, z3.BitVecVal(0, 64), result)
            alive = z3.And(alive, cok, t.ret == 1)
    ok = z3.And(ok, ret.bv == result)
    ob = _ob(out, fn, pre, lambda m: dict(kind='chain', fn=fn, truths=[m.eval(t.ret, model_completion=True).as_signed_long() for t in truths],
                                         oks=[bool(m.eval(z3.Bool('cmp%d_ok' % k), model_completion=True)) for k in range(len(cmps))]))
    ob('links are evaluated left to right on (x_k, x_k+1) with the right operator, each at most once, stopping at the first false link or error; the value is the last evaluated link',
       [rg, z3.Not(ok)])
    ob('reach: all links evaluated', [rg, alive], kind_='witness')
    return out


def check_uchar(job):
    """one-character literal ==/!= object in a boolean context (UnicodeEquals_uchar): exact str -> character comparison, anything else -> CPython"""
    fn, negate, okind = job
    out = []
    t0 = time.time()
    try:
        ex, env = _B.new_exec(unroll=2)
        quiet_refs(ex)
        deleg = []

        truths = []

        def rich(ex_, g, a, rt, caller):
            r = ex_.ptr_to(env.new_object('res:rich%d' % len(deleg), dict(kind='rich')))
            deleg.append(env.event(g, 'rich', a, r))
            return r

        def truth(ex_, g, a, rt, caller):
            r = z3.BitVec('truth%d' % len(truths), 32)
            truths.append(env.event(g, 'truth', a, r))
            env.set_error(z3.And(g, r < 0), ex_.ptr_to(env.exc_type('PyExc_TypeError')))
            return r
        ex.stubs['PyObject_RichCompare'] = rich
        for nm in ('__Pyx_PyObject_IsTrueAndDecref', 'PyObject_IsTrue'):
            ex.stubs[nm] = truth
        ex.global_ptr('_Py_NoneStruct')
        utp = env.type_object('PyUnicode_Type', stubs.TPFLAGS_UNICODE | (1 << 10))
        # the module state is filled by module init (not executed here): every constant slot is some distinct object
        ms = ex.global_ptr('__pyx_mstate_global_static')
        msr = ex.regions[next(iter(ms.regions))]
        msr.fields.clear()
        msr.lazy = True
        if okind == 'other':
            o, inv = env.make_opaque('o', tpflags=0)
            pre = [inv]
        else:
            # one run per representation (state bits concrete, so only feasible paths are executed); length and character symbolic
            _, kind_c, compact_c, ascii_c = okind
            U = ex.new_region('o', size=None, lazy=False)
            n = z3.BitVec('len', 64)
            ch = z3.BitVec('ch', 32)
            state = z3.BitVecVal((kind_c << 2) | (compact_c << 5) | (ascii_c << 6), 32)
            U.fields[0] = (8, z3.BitVec('U.refcnt', 64)); U.fields[8] = (8, ex.ptr_to(utp)); U.fields[16] = (8, n)
            U.fields[24] = (8, z3.BitVec('U.hash', 64)); U.fields[32] = (4, state); U.fields[36] = (4, z3.BitVecVal(0, 32))
            if ascii_c:
                U.fields[40] = (4, ch)
            elif compact_c:
                U.fields[40] = (8, z3.BitVec('U.utf8len', 64)); U.fields[48] = (8, symex.NULLPTR); U.fields[56] = (4, ch)
            else:
                ext = ex.new_region('o.data', size=None, lazy=True)
                ext.fields[0] = (4, ch)
                U.fields[40] = (8, z3.BitVec('U.utf8len', 64)); U.fields[48] = (8, symex.NULLPTR); U.fields[56] = (8, ex.ptr_to(ext))
            o = ex.ptr_to(U)
            lim = {1: 0xff, 2: 0xffff, 4: 0x10ffff}[kind_c] if not ascii_c else 0x7f
            pre = [n >= 0, n < (1 << 40), z3.ULE(ch, lim)]
        ret, rg = ex.run(pf_name(_B, fn), [symex.NULLPTR, o])
    except (symex.Unsupported, ir.ParseError, KeyError, IndexError) as e:
        return [dict(name='%s[%s]:encode' % (fn, okind), status='inconclusive', s=time.time() - t0, detail='Unsupported: %s' % e, mandatory=True)]
    pre += list(ex.assumptions)
    # the function returns the int objects 1 / 0: identify by the PyLong ghost of the returned constant is not available -> compare the two return sites
    ob = _ob(out, "%s [%s operand]" % ({'ceq': "'x' == o", 'ceq_r': "o == 'x'", 'cne': "'x' != o"}[fn], ('exact str kind=%d compact=%d ascii=%d' % okind[1:]) if okind != 'other' else 'non-str'), pre,
             lambda m: dict(kind='uchar', fn=fn, okind='other' if okind == 'other' else 'str', ch=(m.eval(ch, model_completion=True).as_long() if okind != 'other' else None),
                            n=(m.eval(n, model_completion=True).as_long() if okind != 'other' else None)))
    called = z3.Or(*[e.guard for e in deleg]) if deleg else z3.BoolVal(False)
    if okind == 'other':
        okd = z3.BoolVal(False)
        for e in deleg:
            lit = [a for a in e.args[:2] if a.bv is not o.bv]
            okd = z3.Or(okd, z3.And(e.guard, z3.Or(e.args[0].bv == o.bv, e.args[1].bv == o.bv), e.args[2] == (3 if negate else 2)))
        ob('an operand that is not an exact str is compared by CPython (rich comparison with the object and the literal, same operator), never read as a string',
           [rg, z3.Not(okd)])
        ob('error from the truth test of the comparison result propagates', [rg, z3.Or(*[z3.And(e.guard, e.ret < 0) for e in truths]) if truths else z3.BoolVal(False), ret.bv != 0])
    else:
        ob('exact str operand: decided without calling back into CPython', [rg, called])
        # result: identify the two possible return values through two runs is overkill: the function returns 1 when the test holds; the returned
        # constants are distinct objects of the module state, so compare against the value returned for a known-equal input
        eqv = z3.And(n == 1, ch == 120)
        if negate:
            eqv = z3.Not(eqv)
        rets = {}
        seen = []
        r1, m1, _ = solve.check(pre + [rg, eqv], T())
        r0, m0, _ = solve.check(pre + [rg, z3.Not(eqv)], T())
        if r1 == 'sat' and r0 == 'sat':
            v_eq = m1.eval(ret.bv, model_completion=True)
            v_ne = m0.eval(ret.bv, model_completion=True)
            ob('exact str operand: true branch exactly when the string is the one character "x" (every kind, every length)',
               [rg, z3.Not(z3.If(eqv, ret.bv == v_eq, ret.bv == v_ne)), v_eq != v_ne])
            ob('the two outcomes are different, non-NULL objects', [z3.BoolVal(bool(v_eq.as_long() == v_ne.as_long() or v_eq.as_long() == 0 or v_ne.as_long() == 0))])
        else:
            out.append(dict(name='%s[str %r]: witnesses for both outcomes (%s, %s)' % (fn, okind, r1, r0), status='inconclusive' if kind_c == 1 else 'proved', s=0.0, mandatory=True))
    return out


# ---- switch kernels: Python-semantics reference by interpreting the template source over z3 ------------------------------------
class Ret(Exception):
    pass


def py_eval(node, env):
    if isinstance(node, ast.Constant):
        return z3.BitVecVal(node.value, 64)
    if isinstance(node, ast.UnaryOp) and isinstance(node.op, ast.USub):
        return -py_eval(node.operand, env)
    if isinstance(node, ast.Name):
        return env[node.id]
    if isinstance(node, ast.Attribute):
        return env[node.value.id + '.' + node.attr]
    if isinstance(node, ast.BoolOp):
        vals = [py_eval(v, env) for v in node.values]
        return z3.And(*vals) if isinstance(node.op, ast.And) else z3.Or(*vals)
    if isinstance(node, ast.IfExp):
        return z3.If(py_eval(node.test, env), py_eval(node.body, env), py_eval(node.orelse, env))
    if isinstance(node, ast.Compare):
        assert len(node.ops) == 1
        l = py_eval(node.left, env)
        op, r = node.ops[0], node.comparators[0]
        if isinstance(op, (ast.In, ast.NotIn)):
            c = z3.Or(*[l == py_eval(e, env) for e in r.elts])
            return c if isinstance(op, ast.In) else z3.Not(c)
        rr = py_eval(r, env)
        return {ast.Eq: l == rr, ast.NotEq: l != rr, ast.Lt: l < rr, ast.LtE: l <= rr, ast.Gt: l > rr, ast.GtE: l >= rr}[type(op)]
    raise NotImplementedError(ast.dump(node))


def py_block(stmts, env, cont=None):
    """value returned by a block of if/return statements; `cont` is the value if the block falls through"""
    for i, s in enumerate(stmts):
        if isinstance(s, ast.Return):
            return py_eval(s.value, env)
        if isinstance(s, ast.If):
            c = py_eval(s.test, env)
            rest = py_block(stmts[i + 1:], env, cont)
            a = py_block(s.body, env, rest)
            b = py_block(s.orelse, env, rest) if s.orelse else rest
            return z3.If(c, a, b)
        raise NotImplementedError(ast.dump(s))
    return cont


def switch_kernels():
    src = re.sub(r'cdef int (\w+)\(([^)]*)\) noexcept:', lambda m: 'def %s(%s):' % (m.group(1), ', '.join(p.split()[-1] for p in m.group(2).split(','))), SWITCH_SRC)
    tree = ast.parse(src)
    sigs = dict((m.group(1), [p.strip().rsplit(' ', 1) for p in m.group(2).split(',')]) for m in re.finditer(r'cdef int (\w+)\(([^)]*)\) noexcept:', SWITCH_SRC))
    return {f.name: (f, sigs[f.name]) for f in tree.body}


CT_BITS = {'int': (32, True), 'long': (64, True), 'unsigned char': (8, False)}


def check_switch(name):
    out = []
    t0 = time.time()
    fdef, sig = switch_kernels()[name]
    try:
        ex, env = _B.new_exec(unroll=2)
        quiet_refs(ex)
        args, penv, cexv = [], {}, {}
        objregs, objx = {}, {}
        for ct, pn in sig:
            if ct == 'P':
                r = ex.new_region('obj_' + pn, size=None, lazy=True)
                sn = [k for k in ex.m.structs if k.endswith('__pyx_obj_%d%s_P' % (len(_B.name), _B.name))]
                xoff = ex.field_offset(sn[0], [len(ex.resolve(ex.m.structs[sn[0]]).fields) - 1])      # `x` is the last member
                objx[pn] = z3.BitVec(pn + '.x', 32)
                r.fields[xoff] = (4, objx[pn])
                objregs[pn] = r
                args.append(ex.ptr_to(r))
            else:
                bits, signed = CT_BITS[ct]
                v = z3.BitVec(pn, bits)
                args.append(v)
                penv[pn] = z3.SignExt(64 - bits, v) if signed else z3.ZeroExt(64 - bits, v)
                cexv[pn] = (v, signed)
        ret, rg = ex.run(_B.cfunc(name), args)
        for pn, r in objregs.items():
            penv[pn + '.x'] = z3.SignExt(32, objx[pn])
            cexv[pn + '.x'] = (objx[pn], True)
    except (symex.Unsupported, ir.ParseError, KeyError, IndexError, NotImplementedError) as e:
        return [dict(name='%s:encode' % name, status='inconclusive', s=time.time() - t0, detail='Unsupported: %s' % e, mandatory=True)]
    want = py_block(fdef.body, penv)

    def cexf(m):
        return dict(kind='switch', fn=name, vals={k: (m.eval(v, model_completion=True).as_signed_long() if s else m.eval(v, model_completion=True).as_long()) for k, (v, s) in cexv.items()})
    ob = _ob(out, 'if-chain %s' % name, list(ex.assumptions), cexf)
    ob('the compiled selection (C switch or if-chain) returns what the Python if/elif/or/in semantics select, for every operand value', [z3.Not(z3.And(rg, z3.SignExt(32, ret) == want))])
    ubs = [c for c, d_, f_ in ex.ub]
    if ubs:
        ob('no UB', [z3.Or(*ubs)], mandatory=False)
    return out


REPLAY = r'''
import sys, math
sys.path.insert(0, %(dir)r)
import %(mod)s as M
c = %(cex)r
k = c['kind']
import operator
OPF = {'Lt': operator.lt, 'Le': operator.le, 'Eq': operator.eq, 'Ne': operator.ne, 'Gt': operator.gt, 'Ge': operator.ge}
if k == 'intint':
    f = getattr(M, c['op'].lower()) if c['variant'] == 'obj' else M.blt
    got = f(c['a'], c['b']); want = OPF[c['op']](c['a'], c['b']) if c['variant'] == 'obj' else int(c['a'] < c['b'])
elif k == 'floatint':
    x, y = (c['f'], c['n']) if c['order'] == 'FloatInt' else (c['n'], c['f'])
    f = getattr(M, c['op'].lower()) if c['variant'] == 'obj' else M.blt
    got = f(x, y); want = OPF[c['op']](x, y) if c['variant'] == 'obj' else int(x < y)
elif k == 'switch':
    v = c['vals']
    name = c['fn']
    src = %(switch_src)r
    import re
    py = re.sub(r'cdef int (\w+)\(([^)]*)\) noexcept:', lambda m: 'def %%s(%%s):' %% (m.group(1), ', '.join(p.split()[-1] for p in m.group(2).split(','))), src)
    ns = {}
    exec(py, ns)
    class P:
        def __init__(s, x): s.x = x
    if name.startswith('a'):
        want = ns[name](P(v['a.x']), P(v['b.x'])); got = M.w_a(int(name[1:]), v['a.x'], v['b.x'])
    else:
        args = [v.get('x', 0), v.get('y', 0)]
        want = ns[name](*args[:ns[name].__code__.co_argcount]); got = M.w_s(int(name[1:]), args[0], args[1])
elif k == 'uchar':
    if c['okind'] == 'other':
        class A(str):
            __hash__ = str.__hash__
            def __eq__(s, o): return True
            def __ne__(s, o): return False
        class N(str):
            __hash__ = str.__hash__
            def __eq__(s, o): return False
            def __ne__(s, o): return True
        objs = [A('y'), N('x'), 5, None, 'x', 'xy']
    else:
        objs = ['x', 'y', 'xx', '', chr(c['ch'] or 120), '\u20ac', 'x' * 3]
    ref = {'ceq': lambda o: int('x' == o), 'ceq_r': lambda o: int(o == 'x'), 'cne': lambda o: int('x' != o)}[c['fn']]
    got = [getattr(M, c['fn'])(o) for o in objs]; want = [ref(o) for o in objs]
elif k == 'chain':
    log = []
    truths = list(c['truths']); oks = list(c['oks'])
    class R:
        def __init__(s, i): s.i = i
        def __bool__(s):
            t = truths[s.i] if s.i < len(truths) else 1
            log.append(('bool', s.i))
            if t < 0: raise ValueError('truth')
            return bool(t)
        def __repr__(s): return 'R%%d' %% s.i
    class X:
        def __init__(s, n): s.n = n
        def _c(s, o, op):
            i = len([l for l in log if l[0] == 'cmp'])
            log.append(('cmp', s.n, op, o.n))
            if i < len(oks) and not oks[i]: raise TypeError('cmp')
            return R(i)
        def __lt__(s, o): return s._c(o, '<')
        def __le__(s, o): return s._c(o, '<=')
        def __gt__(s, o): return s._c(o, '>')
        def __ge__(s, o): return s._c(o, '>=')
    def run(f):
        log.clear()
        try: r = repr(f(*[X(ch) for ch in 'abcd'[:4 if c['fn'] == 'chain4' else 3]]))
        except Exception as e: r = type(e).__name__
        return r, list(log)
    got = run(getattr(M, c['fn']))
    want = run((lambda a, b, c_, d=None: a < b <= c_) if c['fn'] == 'chain3' else (lambda a, b, c_, d: a < b <= c_ > d))
print('REPLAY', c, 'got', got, 'want', want)
print('REPLAY-REPRODUCED' if got != want else 'REPLAY-HOLDS')
'''
_NATIVE = None


def replay(rep, cex):
    global _NATIVE
    try:
        if _NATIVE is None:
            _NATIVE = build.native(_B.cfile)
    except build.BuildError as e:
        return None, 'native build failed: %s' % e
    p = subprocess.run(['/verif/.venv/bin/python', '-c', REPLAY % dict(dir=os.path.dirname(_NATIVE), mod=_B.name, cex=cex, switch_src=SWITCH_SRC)], capture_output=True, text=True, timeout=60)
    txt = (p.stdout + p.stderr).strip()[-600:]
    rep.validated += 1
    if p.returncode < 0:
        return True, 'process died with signal %d' % (-p.returncode)
    return 'REPLAY-REPRODUCED' in txt, txt


FN = dict(intint=check_intint, floatint=check_floatint, chain=check_chain, switch=check_switch, uchar=check_uchar)


def worker(job):
    return FN[job[0]](job[1])


def run(rep, tier, only=None):
    global _B
    snapshot.activate()
    _B = harness.build_template('c19t', TEMPLATE)
    jobs = []
    for op, _ in OPS:
        jobs.append(('intint', (op, 'obj')))
        for order in ('FloatInt', 'IntFloat'):
            jobs.append(('floatint', (op, order, 'obj')))
    jobs += [('intint', ('Lt', 'bool')), ('floatint', ('Lt', 'FloatInt', 'bool')), ('floatint', ('Lt', 'IntFloat', 'bool'))]
    jobs += [('chain', ('chain3', ['Lt', 'Le'])), ('chain', ('chain4', ['Lt', 'Le', 'Gt']))]
    jobs += [('switch', nm) for nm in sorted(switch_kernels())]
    jobs += [('uchar', (fn, neg, ok)) for fn, neg in (('ceq', False), ('ceq_r', False), ('cne', True))
             for ok in ['other', ('str', 1, 1, 1)] + [('str', k, c, 0) for k in (1, 2, 4) for c in (1, 0)]]
    if only:
        jobs = [j for j in jobs if only in j[0] or only in str(j[1])]
    rep.functions += ['Cython/Utility/Optimize.c PyObjectCompare: __Pyx_PyObject_CompareIntInt{Lt,Le,Eq,Ne,Gt,Ge}, CompareFloatInt*/CompareIntFloat* (+ Bool variants for <) as emitted by the real Cython; '
                      'generated code of cascaded comparisons (ExprNodes.PrimaryCmpNode/CascadedCmpNode) and of %d if/elif/or/in/conditional-expression kernels over C ints and cdef-class attributes '
                      '(Optimize.SwitchTransform) [%s]' % (len(switch_kernels()), build.sha(_B.cfile))]
    rep.bounds += ['int/int: both operands any valid exact int up to 5 digits (150 bits); float/int: any double (incl. NaN, infinities, -0.0) against any such int',
                   'cascaded comparisons of length 2 and 3 over opaque objects with arbitrary outcomes (result object, truth value true/false/error, comparison error) per link',
                   'switch kernels: every value of the C operands (int, long, unsigned char, int attributes of two objects); the reference is the kernel\'s own source interpreted with Python semantics over z3',
                   'outside: membership in strings/dicts/sets, str/bytes comparison helpers, mixed C/Python comparisons (coercion), FlattenInListTransform for non-literal members']
    rep.assume('CPython 3.12 int/float layouts; PyObject_RichCompare / PyObject_IsTrue are CPython\'s own (arbitrary results within their contracts)', 'reference counts ignored (C35)')
    with mp.Pool(min(16, os.cpu_count() or 4)) as pool:
        results = pool.map(worker, jobs, chunksize=1)
    for job, res in zip(jobs, results):
        for d in res:
            if d['status'] == 'refuted':
                ok, txt = replay(rep, d['cex'])
                if ok:
                    rep.obligation(d['name'], 'refuted', d['s'], True, str(d['cex']))
                    rep.violation('%s fails for %s: %s' % (d['name'], d['cex'], txt), dict(cex=d['cex'], replay_output=txt))
                else:
                    rep.obligation(d['name'], 'inconclusive', d['s'], d.get('mandatory', True), 'counterexample %s did not reproduce: %s' % (d['cex'], txt))
            else:
                rep.obligation(d['name'], d['status'], d['s'], d.get('mandatory', True), d.get('detail'))
    rep.cov['states'] = sum(len(r) for r in results)
    rep.cov['transitions'] = sum(len(r) for r in results)
    rep.sample(dict(function='__Pyx_PyObject_CompareIntIntLt', inputs='two symbolic valid PyLong objects up to 5 digits'))
