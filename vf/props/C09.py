"""C09 compile-time constants keep their exact Python values (PYSYM)."""
from ..pysym import runner
from ..pysym.runner import Cond
from .. import snapshot

LEVEL = 'model_checking'
H = '/verif/vf/pysym/h_c09.py'


def run(rep, tier, only=None):
    snapshot.activate()
    T = 300 if tier == 'quick' else 900
    TS = 60 if tier == 'quick' else 450        # the unbounded searches are expected to stay inconclusive
    rep.functions += ['Cython/Compiler/ExprNodes.py: make_dedup_key (with real IntNode/FloatNode/BoolNode/NoneNode/TupleNode objects)',
                      'Cython/Compiler/Optimize.py: ConstantFolding (visit_BinopNode, _calculate_const, literal promotion) via binop_node',
                      'Cython/Compiler/Code.py: GlobalState.new_num_const_cname; Cython/Utils.py: str_to_number']
    rep.bounds += ['dedup keys: two constant tuples (leaf, 1), ((leaf, None), 1), (1, (None, leaf)) with leaf in {int (unbounded), float (any binary64 incl. +-0, nan, inf), bool, None}: '
                   'equal keys only if CPython cannot distinguish the constants (type, value, sign of zero); confirmed over value classes (8 ints incl. 2^70, 8 floats incl. +-0, nan, inf), searched over unbounded ints / all floats',
                   'constant folding: IntNode op IntNode for + - * // % & | ^ << >> with unbounded operands (shift counts < 200), BoolNode op BoolNode (all 40 cases), '
                   'FloatNode op FloatNode for + - *: folded node has CPython\'s type and value and a literal text denoting it; non-foldable cases stay unfolded',
                   'C names of numeric constants: two different float literal texts sign x mantissa x exponent (2 x 7 x 6 spellings) never share a C name',
                   'outside: string/bytes constants in containers, slices/frozensets, constant pooling across the whole pipeline, the C compiler\'s reading of the emitted literal']
    rep.assume('CrossHair models int as mathematical integers and float precisely enough to find sign-of-zero counterexamples; every counterexample is replayed concretely',
               'the scanner removes underscores from numeric literals before they reach the constant tables')
    runner.run_twin(rep, H, 'twin', 60)
    runner.run_conditions(rep, H, [Cond('dedup_cls_%d_%d' % (k, sh), T) for k in range(4) for sh in range(3)] + [Cond('dedup_flat', TS, mandatory=False), Cond('dedup_nested', TS, mandatory=False), Cond('fold_bool', T), Cond('cnames_distinct', T * 2),
                                   Cond('fold_int', TS * 2, mandatory=False), Cond('fold_float', TS * 2, mandatory=False)])
    rep.sample(dict(condition='dedup_flat', inputs='kinds k1,k2 in {int,float,bool,None}, i1,i2:int, f1,f2:float', oracle='distinguishable()'))
