"""C18 string formatting of C integers: CIntToPyUnicode / BuildPyUnicode / COrdinalToPyUnicode as emitted for f-strings (GEN + CIR; cvc5 integer encoding for the decimal arithmetic core)."""
import multiprocessing as mp, os, re, subprocess, tempfile, time
import z3
from .. import snapshot
from ..cir import build, solve, symex, stubs, ir
from ..cir.symex import Ptr
from ..gen import harness

LEVEL = 'model_checking'
_B = None
TYPES = [('schar', 'signed char', 'signed_char', 8, True), ('short', 'short', 'short', 16, True), ('int', 'int', 'int', 32, True), ('long', 'long', 'long', 64, True),
         ('uchar', 'unsigned char', 'unsigned_char', 8, False), ('ushort', 'unsigned short', 'unsigned_short', 16, False),
         ('uint', 'unsigned int', 'unsigned_int', 32, False), ('ulong', 'unsigned long', 'unsigned_long', 64, False)]
TEMPLATE = '# cython: language_level=3\n' + ''.join(
    'def f_%s(%s v): return f"{v:5d}|{v:05d}|{v:x}|{v:08X}|{v:o}|{v}|{v:12d}|{v:012d}|{v:3x}"\n'
    'def g_%s(%s v, int sel):\n'
    '    if sel == 0: return f"{v:d}"\n    if sel == 1: return f"{v:x}"\n    if sel == 2: return f"{v:X}"\n    if sel == 3: return f"{v:o}"\n'
    '    if sel == 4: return f"{v:7d}"\n    if sel == 5: return f"{v:07d}"\n    if sel == 6: return f"{v:7x}"\n    if sel == 7: return f"{v:07X}"\n'
    '    if sel == 8: return f"{v:07o}"\n    if sel == 9: return f"{v:2d}"\n    if sel == 10: return f"{v:02d}"\n    if sel == 11: return f"{v:25d}"\n    return f"{v:025x}"\n'
    % (n, ct, n, ct) for n, ct, _, _, _ in TYPES) + 'def f_c(int v): return f"{v:c}|{v:3c}"\ndef f_cl(long v): return f"{v:c}|{v:4c}"\n'
SPECS = ['d', 'x', 'X', 'o', '7d', '07d', '7x', '07X', '07o', '2d', '02d', '25d', '025x']
I64 = lambda n: z3.BitVec(n, 64)


def T():
    return int(os.environ.get('VF_QTIMEOUT', '240'))


def cvc5_unsat(conds, timeout_s):
    """decide a QF_BV query with cvc5's integer encoding (--solve-bv-as-int=sum); returns ('unsat'|'sat'|'unknown', seconds)"""
    s = z3.Solver()
    for c in conds:
        s.add(c)
    txt = '(set-logic QF_BV)\n' + s.sexpr() + '\n(check-sat)\n'
    for op in ('bvsdiv', 'bvsrem', 'bvudiv', 'bvurem', 'bvsmod'):      # z3-internal names for a divisor known to be non-zero
        txt = txt.replace(op + '_i', op)
    d = snapshot.scratch_dir('cvc5')
    path = os.path.join(d, 'q.smt2')
    open(path, 'w').write(txt)
    t0 = time.time()
    try:
        p = subprocess.run(['cvc5', '--solve-bv-as-int=sum', '--tlimit=%d' % (timeout_s * 1000), path], capture_output=True, text=True, timeout=timeout_s + 30)
        out = p.stdout.strip().splitlines()
        res = out[0] if out and out[0] in ('sat', 'unsat') and '(error' not in p.stdout + p.stderr else 'unknown'
    except subprocess.TimeoutExpired:
        res = 'unknown'
    return res, time.time() - t0


def _ob(out, prefix, pre, cexf):
    def ob(name, conds, kind_='unsat', mandatory=True, solver='z3'):
        if solver == 'cvc5':
            r, s = cvc5_unsat(pre + conds, T() * 3)
            m = None
            if r == 'sat':       # get a model from z3 for the replay (cvc5's verdict stands; z3 only supplies values)
                r2, m, _ = solve.check(pre + conds, T())
                if r2 != 'sat':
                    r = 'unknown'
        else:
            r, m, s = solve.check(pre + conds, T())
        d = dict(name='%s: %s' % (prefix, name), s=s, mandatory=mandatory)
        d['status'] = ({'unsat': 'proved', 'sat': 'refuted'} if kind_ == 'unsat' else {'sat': 'witness', 'unsat': 'vacuous'}).get(r, 'inconclusive')
        if r == 'sat' and kind_ == 'unsat' and m is not None:
            d['cex'] = cexf(m)
        out.append(d)
        return d
    return ob


def sval(m, v, signed):
    x = m.eval(v, model_completion=True)
    return x.as_signed_long() if signed else x.as_long()


def digit_char(d, upper):
    """ASCII of a digit value 0..15 (8-bit BV)"""
    a = ord('A') if upper else ord('a')
    return z3.If(z3.ULT(d, 10), d + 48, d + (a - 10))


def check_cint(job):
    n, ct, suffix, W, signed, fmt = job
    out = []
    t0 = time.time()
    fname = '__Pyx____Pyx_PyUnicode_From_' + suffix
    base = {'d': 10, 'o': 8, 'x': 16, 'X': 16}[fmt]
    per_iter = {'d': 2, 'o': 2, 'x': 1, 'X': 1}[fmt]
    import math
    ndig_max = len({10: str, 8: lambda x: '%o' % x, 16: lambda x: '%x' % x}[base]((1 << W) - 1 if not signed else (1 << (W - 1))))
    nit = (ndig_max + per_iter - 1) // per_iter
    MAXC = ndig_max + 2
    try:
        ex, env = _B.new_exec(unroll=nit + 1)

        def buildstub(ex_, g, a, rt, caller):
            chars = [ex_.load(Ptr(a[1].bv + k, a[1].regions), ir.T('int', bits=8), g, 'stub') for k in range(MAXC)]
            r = ex_.ptr_to(env.new_object('res', dict(kind='u')))
            env.event(g, 'build', a + [chars], r)
            return r
        ex.stubs['__Pyx_PyUnicode_BuildFromAscii'] = buildstub

        def fromord(ex_, g, a, rt, caller):
            r = ex_.ptr_to(env.new_object('res1', dict(kind='u1')))
            env.event(g, 'fromord', a, r)
            return r
        ex.stubs['PyUnicode_FromOrdinal'] = fromord
        v = z3.BitVec('v', W)
        width, pad = I64('width'), z3.BitVec('pad', 8)
        ret, rg = ex.run(fname, [v, width, pad, z3.BitVecVal(ord(fmt), 8)])
    except (symex.Unsupported, ir.ParseError, KeyError, IndexError) as e:
        return [dict(name='format[%s,%s]:encode' % (ct, fmt), status='inconclusive', s=time.time() - t0, detail='Unsupported: %s' % e, mandatory=True)]
    pre = [width >= 0, width <= 40, z3.Or(pad == 32, pad == 48)] + list(ex.assumptions)
    neg = (v < 0) if signed else z3.BoolVal(False)
    heavy = (fmt == 'd' and W >= 32)
    E = W + 8
    M = z3.If(v < 0, -z3.SignExt(8, v), z3.SignExt(8, v)) if signed else z3.ZeroExt(8, v)
    subst = []
    extra = []
    if not heavy:
        # oracle digits by repeated unsigned division of |v|
        digs, q = [], M
        nd = z3.BitVecVal(1, 32)
        for k in range(MAXC):
            digs.append(z3.Extract(7, 0, z3.URem(q, base)))
            q = z3.UDiv(q, base)
            nd = z3.If(q != 0, z3.BitVecVal(k + 2, 32), nd)
    else:
        # decimal on >= 32-bit types: (O1, cvc5 integer encoding) the implementation's own remainders are the base-100 digits of |v|;
        # (O2, z3) with quotients/remainders abstracted to fresh variables the characters are the rendering of those base-100 digits
        rems = [a for a in ex.arith_log if a['op'] in ('srem', 'urem')]
        divs = [a for a in ex.arith_log if a['op'] in ('sdiv', 'udiv')]
        if len(rems) != len(divs) or not rems:
            return [dict(name='format[%s,%s]:encode' % (ct, fmt), status='inconclusive', s=time.time() - t0, detail='unexpected division structure', mandatory=True)]
        wv = rems[0]['r'].size()
        pairs = [z3.If(a['r'] < 0, -a['r'], a['r']) if signed else a['r'] for a in rems]
        live = [a['g'] for a in rems]
        Ew = wv + 8
        Mw = (z3.If(v < 0, -z3.SignExt(Ew - W, v), z3.SignExt(Ew - W, v)) if signed else z3.ZeroExt(Ew - W, v))
        tot = z3.BitVecVal(0, Ew)
        for k in reversed(range(len(pairs))):
            tot = z3.If(live[k], tot * 100 + z3.ZeroExt(8, pairs[k]), tot)
        top_nz = z3.BoolVal(True)
        for k in range(len(pairs)):
            is_top = z3.And(live[k], z3.Not(live[k + 1])) if k + 1 < len(pairs) else live[k]
            top_nz = z3.And(top_nz, z3.Implies(z3.And(is_top, k > 0), pairs[k] != 0))
        facts = z3.And(tot == Mw, top_nz, *[z3.Not(live[k]) for k in range(nit, len(live))], *[z3.Implies(live[k], z3.And(z3.ULT(pairs[k], 100), z3.Implies(neg, rems[k]['r'] <= 0) if signed else z3.BoolVal(True),
                                                                         z3.Implies(z3.Not(neg), rems[k]['r'] >= 0) if signed else z3.BoolVal(True)))
                                            for k in range(len(pairs))])
        ob1 = _ob(out, 'format(%s, %r)' % (ct, fmt), [], lambda m: dict(type=n, v=sval(m, v, signed), spec='d'))
        ob1('O1 arithmetic core: the remainders the loop extracts are < 100, carry the sign of v and are exactly the base-100 digits of |v| (most significant one non-zero), at most %d of them' % nit,
            [z3.Not(facts)], solver='cvc5')
        # abstraction for O2
        Q = [z3.BitVec('Q%d' % k, wv) for k in range(len(divs))]
        R = [z3.BitVec('R%d' % k, wv) for k in range(len(rems))]
        for k in range(len(divs)):
            subst.append((divs[k]['r'], Q[k]))
            subst.append((z3.simplify(divs[k]['r']), Q[k]))
            subst.append((rems[k]['r'], R[k]))
            subst.append((z3.simplify(rems[k]['r']), R[k]))
        P = [z3.Extract(7, 0, z3.If(r < 0, -r, r) if signed else r) for r in R]
        for k in range(len(R)):
            extra.append(z3.And(R[k] > -100, R[k] < 100) if signed else z3.ULT(R[k], 100))
            if signed:
                extra.append(z3.Implies(neg, R[k] <= 0))
                extra.append(z3.Implies(z3.Not(neg), R[k] >= 0))
        # liveness after abstraction: iteration k+1 runs iff Q_k != 0; most significant pair non-zero
        lv = [z3.BoolVal(True)]
        for k in range(len(Q) - 1):
            lv.append(z3.And(lv[-1], Q[k] != 0))
        for k in range(nit - 1, len(Q)):
            extra.append(z3.Implies(lv[k], Q[k] == 0))      # at most nit iterations (part of O1)
        for k in range(1, len(R)):
            is_top = z3.And(lv[k], z3.Not(lv[k + 1])) if k + 1 < len(R) else lv[k]
            extra.append(z3.Implies(is_top, P[k] != 0))
        extra.append(z3.Implies(z3.Not(neg), z3.BoolVal(True)))
        # digits from pairs
        digs = []
        nd = z3.BitVecVal(1, 32)
        for k in range(len(R)):
            lo, hi = z3.URem(P[k], 10), z3.UDiv(P[k], 10)
            digs += [lo, hi]
            nd = z3.If(lv[k], z3.If(z3.ULT(P[k], 10), z3.BitVecVal(2 * k + 1, 32), z3.BitVecVal(2 * k + 2, 32)), nd)
        while len(digs) < MAXC:
            digs.append(z3.BitVecVal(0, 8))
    L = z3.ZeroExt(32, nd)
    signin = z3.And(neg, z3.Or(pad == 32, width <= L + 1))
    totlen = z3.If(neg, L + 1, L)
    good = z3.BoolVal(False)
    for e in ex.events:
        if e.name == 'build':
            ul, cp, cl, ps, pc, chars = e.args
            expcl = z3.If(signin, nd + 1, nd)
            c_ok = [cl == expcl, ps == z3.If(z3.And(neg, z3.Not(signin)), z3.BitVecVal(1, 32), z3.BitVecVal(0, 32)), pc == pad,
                    ul == z3.If(width > totlen, width, totlen), z3.UGT(ul, 1)]
            for i in range(MAXC):
                iv = z3.BitVecVal(i, 32)
                expect = z3.BitVecVal(0, 8)
                for k in range(min(MAXC, len(digs))):
                    expect = z3.If(expcl - 1 - iv == k, digit_char(digs[k], fmt == 'X'), expect)
                expect = z3.If(z3.And(signin, iv == 0), z3.BitVecVal(45, 8), expect)
                c_ok.append(z3.Implies(z3.ULT(iv, expcl), chars[i] == expect))
            good = z3.Or(good, z3.And(e.guard, ret.bv == e.ret.bv, *c_ok))
        if e.name == 'fromord':
            good = z3.Or(good, z3.And(e.guard, ret.bv == e.ret.bv, z3.Not(neg), nd == 1, width <= 1, e.args[0] == z3.ZeroExt(24, digit_char(digs[0], fmt == 'X'))))
    goal = [rg, z3.Not(good)]
    if subst:
        goal = [z3.substitute(z3.simplify(c), *subst) if not isinstance(c, bool) else z3.BoolVal(c) for c in goal]
        goal = [z3.substitute(c, *subst) for c in goal]
        pre2 = [z3.substitute(z3.substitute(z3.simplify(c), *subst), *subst) for c in pre] + extra
        left = [c for c in goal if any(op in c.sexpr() for op in ('bvsdiv', 'bvsrem', 'bvudiv_i', 'bvurem_i', 'bvsdiv_i', 'bvsrem_i'))]
    else:
        pre2 = pre

    def cexf(m):
        return dict(type=n, v=sval(m, v, signed), width=sval(m, width, True), pad=chr(sval(m, pad, False)), spec=fmt)
    ob = _ob(out, 'format(%s, %r)' % (ct, fmt), pre2, cexf)
    ob(('O2 rendering (quotients/remainders abstracted): ' if heavy else '') +
       'sign, digits (no leading zero), length, padding request and sign placement equal CPython\'s format(v, "[0]<width>%s") for every value, width 0..40, pad " " or "0"' % fmt, goal)
    unw = [u[0] for u in ex.unwind]
    if unw:
        ob0 = _ob(out, 'format(%s, %r)' % (ct, fmt), pre, cexf)
        ob0('loop unwinding bound %d suffices' % (nit + 1), [z3.Or(*unw)])
    seen = set()
    nub = 0
    ob0 = _ob(out, 'format(%s, %r)' % (ct, fmt), pre, cexf)
    ubs = []
    for c, desc, fn in ex.ub:
        if 'abs()' in desc or fn == 'stub':      # the harness' own snapshot loads may read past the characters
            continue
        ubs.append(c)
    if ubs:
        ob0('no UB and every access inside the digit buffer / digit tables (%d obligations, disjunction)' % len(ubs), [z3.Or(*ubs)], mandatory=not heavy)
    if not heavy:
        ob('reach: zero padding to width 9' + (', negative value, sign prepended separately' if signed else ''), [rg, neg if signed else z3.BoolVal(True), pad == 48, width == 9, good], kind_='witness')
    return out


def check_build(_):
    """__Pyx_PyUnicode_BuildFromAscii: layout of sign, padding and characters"""
    out = []
    t0 = time.time()
    MAXU = 26
    try:
        ex, env = _B.new_exec(unroll=MAXU + 1)
        ul, cl, ps = I64('ulength'), z3.BitVec('clength', 32), z3.BitVec('prepend_sign', 32)
        pad = z3.BitVec('pad', 8)
        chars = ex.new_region('chars', size=z3.SignExt(32, cl), kind='elems', elemsize=1)
        src = chars.array
        udata = ex.new_region('udata', size=ul, kind='elems', elemsize=1)
        U = ex.new_region('uval', size=None, lazy=False)
        tp = env.type_object('PyUnicode_Type', stubs.TPFLAGS_UNICODE | (1 << 10))
        U.fields[0] = (8, z3.BitVec('U.refcnt', 64)); U.fields[8] = (8, ex.ptr_to(tp)); U.fields[16] = (8, ul)
        U.fields[24] = (8, z3.BitVec('U.hash', 64)); U.fields[32] = (4, z3.BitVecVal(1 << 2, 32)); U.fields[36] = (4, z3.BitVecVal(0, 32))    # kind 1, not compact
        U.fields[40] = (8, z3.BitVec('U.utf8len', 64)); U.fields[48] = (8, symex.NULLPTR); U.fields[56] = (8, ex.ptr_to(udata))
        news = []

        def unew(ex_, g, a, rt, caller):
            news.append(env.event(g, 'PyUnicode_New', a))
            return ex_.ptr_to(U)
        ex.stubs['PyUnicode_New'] = unew
        ret, rg = ex.run('__Pyx_PyUnicode_BuildFromAscii', [ul, ex.ptr_to(chars), cl, ps, pad])
    except (symex.Unsupported, ir.ParseError, KeyError, IndexError) as e:
        return [dict(name='BuildFromAscii:encode', status='inconclusive', s=time.time() - t0, detail='Unsupported: %s' % e, mandatory=True)]
    cl64 = z3.SignExt(32, cl)
    uoff = ul - cl64
    pre = [cl >= 1, cl64 <= ul, ul <= MAXU, z3.Or(ps == 0, ps == 1), z3.Implies(ps == 1, uoff >= 1)] + list(ex.assumptions)
    i = I64('i')
    exp = z3.If(i >= uoff, z3.Select(src, i - uoff), z3.If(z3.And(ps == 1, i == 0), z3.BitVecVal(45, 8), pad))
    ob = _ob(out, 'BuildFromAscii', pre, lambda m: dict(kind='build', ul=sval(m, ul, True), cl=sval(m, cl, True), ps=sval(m, ps, True)))
    ob('result = ["-"] + padding + characters, exactly ulength code points, for every ulength <= %d' % MAXU,
       [z3.Not(z3.And(rg, ret.bv == z3.BitVecVal(U.base, 64), z3.Or(*[z3.And(e.guard, e.args[0] == ul, e.args[1] == 127) for e in news]),
                      z3.Implies(z3.And(i >= 0, i < ul), z3.Select(udata.array, i) == exp)))])
    if ex.unwind:
        ob('loop unwinding bound suffices', [z3.Or(*[u[0] for u in ex.unwind])])
    ubs = [c for c, desc, fn in ex.ub]
    if ubs:
        ob('no UB, all writes inside the new string', [z3.Or(*ubs)])
    ob('reach', [rg, ps == 1, ul == 9, cl == 3], kind_='witness')
    return out


def check_uchar(job):
    """{v:c}: range check and conversion"""
    suffix, W = job
    out = []
    t0 = time.time()
    try:
        ex, env = _B.new_exec(unroll=2)
        evs = []

        def mk(name):
            def stub(ex_, g, a, rt, caller):
                r = ex_.ptr_to(env.new_object('res:' + name, dict(kind=name)))
                evs.append(env.event(g, name, a, r))
                return r
            return stub
        ex.stubs['PyUnicode_FromOrdinal'] = mk('fromord')
        ex.stubs['__Pyx_PyUnicode_FromOrdinal_Padded'] = mk('padded')
        v = z3.BitVec('v', W)
        width, pad = I64('width'), z3.BitVec('pad', 8)
        env.exc_type('PyExc_OverflowError')
        ret, rg = ex.run('__Pyx_uchar___Pyx_PyUnicode_From_' + suffix, [v, width, pad])
    except (symex.Unsupported, ir.ParseError, KeyError, IndexError) as e:
        return [dict(name='format(%s, "c"):encode' % suffix, status='inconclusive', s=time.time() - t0, detail='Unsupported: %s' % e, mandatory=True)]
    pre = [width >= 0, width <= 40] + list(ex.assumptions)
    inr = z3.And(v >= 0, v <= 0x10FFFF)
    v32 = z3.Extract(31, 0, v) if W > 32 else v
    good = z3.BoolVal(False)
    for e in evs:
        if e.name == 'fromord':
            good = z3.Or(good, z3.And(e.guard, ret.bv == e.ret.bv, width <= 1, e.args[0] == v32))
        else:
            good = z3.Or(good, z3.And(e.guard, ret.bv == e.ret.bv, width > 1, e.args[0] == v32, e.args[1] == width, e.args[2] == pad))
    ob = _ob(out, 'format(%s, "c")' % suffix, pre, lambda m: dict(type=suffix, v=sval(m, v, True), width=sval(m, width, True), spec='c'))
    ob('0 <= v <= 0x10FFFF: the character chr(v), padded to the width', [inr, z3.Not(z3.And(rg, env.no_error(), good))])
    ob('otherwise OverflowError', [z3.Not(inr), z3.Not(z3.And(rg, ret.bv == 0, env.error_is('PyExc_OverflowError')))])
    return out


# ---- f-strings over Python objects: which conversion of which operand lands at which position of the join ---------------------------
FS_TEMPLATE = """# cython: language_level=3
def fs(x): return f"{x!s}|{x!r}|{x!a}|{x}"
def fs2(x, y): return f"{x!r}{y}{x!r}{x}{y!s}"
def fs3(x, y): return f"<{x}{x!s}{y!a}{x!a}>"
def fs4(str s): return f"{s!a}|{s!r}|{s!s}|{s}"
def fs5(str s, str t): return f"{s}{t!r}{s!r}{t}"
def fs6(str s): return f"{s!r}, {s!r} is not {s} -> {s!a}"
"""
FS_KERNELS = {'fs': 1, 'fs2': 2, 'fs3': 2, 'fs4': 1, 'fs5': 2, 'fs6': 1}
_BF = None


def check_fstring(fn):
    import ast
    out = []
    t0 = time.time()
    nargs = FS_KERNELS[fn]
    # expected substitutions from the source itself
    tree = ast.parse(FS_TEMPLATE.replace('# cython: language_level=3', '').replace('(str s, str t)', '(s, t)').replace('(str s)', '(s)'))
    fdef = [f for f in tree.body if f.name == fn][0]
    js = fdef.body[0].value
    argnames = [a.arg for a in fdef.args.args]
    subs = [(argnames.index(v.value.id), {115: 's', 114: 'r', 97: 'a', -1: 'f'}[v.conversion]) for v in js.values if isinstance(v, ast.FormattedValue)]
    try:
        ex, env = _BF.new_exec(unroll=12)
        for nm in ('Py_INCREF', 'Py_DECREF', 'Py_XDECREF', 'Py_XINCREF'):
            ex.stubs[nm] = lambda ex_, g, a, rt, c: None
        ex.stubs['__Pyx_AddTraceback'] = lambda ex_, g, a, rt, c: None
        ms = ex.global_ptr('__pyx_mstate_global_static')
        msr = ex.regions[next(iter(ms.regions))]
        msr.fields.clear()
        msr.lazy = True
        args = []
        for k in range(nargs):
            p_, inv = env.make_opaque('arg%d' % k)
            ex.assumptions.append(inv)
            args.append(p_)
        convs = []       # (event, kind, result region)

        def conv(kind):
            def stub(ex_, g, a, rt, caller):
                r = ex_.new_region('%s_result_%d' % (kind, len(convs)), size=None, lazy=True)
                e = env.event(g, kind, a, ex_.ptr_to(r))
                convs.append((e, kind, r))
                return ex_.ptr_to(r)
            return stub
        ex.stubs['PyObject_Str'] = conv('s')
        ex.stubs['PyObject_Repr'] = conv('r')
        ex.stubs['PyObject_ASCII'] = conv('a')
        ex.stubs['__Pyx_PyObject_FormatSimple'] = conv('f')
        ex.stubs['__Pyx_PyObject_Format'] = conv('f')
        ex.stubs['PyObject_Format'] = conv('f')
        ex.stubs['__Pyx_PyUnicode_Unicode'] = conv('u')          # str-typed operand: the string itself ('None' for None)
        ex.stubs['__Pyx_PyObject_FormatSimpleAndDecref'] = lambda ex_, g, a, rt, c: a[0]       # str(x) / repr(x) / ascii(x) are already strings: identity
        ex.stubs['__Pyx_PyObject_FormatAndDecref'] = lambda ex_, g, a, rt, c: a[0]
        joins = []
        pt = ir.T('ptr', elem=ir.T('int', bits=8))

        def join(ex_, g, a, rt, caller):
            n = z3.simplify(a[1])
            cnt = n.as_long() if z3.is_bv_value(n) else 0
            items = [ex_.load(symex.Ptr(a[0].bv + 8 * i, a[0].regions), pt, g, 'stub') for i in range(cnt)]
            r = ex_.ptr_to(ex_.new_region('joined', size=None, lazy=True))
            joins.append((env.event(g, 'join', a, r), cnt, items))
            return r
        ex.stubs['__Pyx_PyUnicode_Join'] = join
        ret, rg = ex.run(fname_pf(_BF, fn), [symex.NULLPTR] + args)
    except (symex.Unsupported, ir.ParseError, KeyError, IndexError) as e:
        return [dict(name='f-string %s:encode' % fn, status='inconclusive', s=time.time() - t0, detail='Unsupported: %s' % str(e)[:300], mandatory=True)]
    pre = list(ex.assumptions)
    res = []
    ntotal = len(js.values)
    good = z3.BoolVal(False)
    for (je, cnt, items) in joins:
        if cnt != ntotal:
            continue
        ok = [je.guard, ret.bv == je.ret.bv]
        for pos, v in enumerate(js.values):
            if not isinstance(v, ast.FormattedValue):
                continue
            k, kind = subs[[i for i, vv in enumerate([w for w in js.values if isinstance(w, ast.FormattedValue)]) if vv is v][0]]
            kinds = (kind, 'u') if kind in ('s', 'f') else (kind,)
            alts = [z3.And(e.guard, e.args[0].bv == args[k].bv, items[pos].bv == z3.BitVecVal(r.base, 64)) for (e, kd, r) in convs if kd in kinds]
            ok.append(z3.Or(*alts) if alts else z3.BoolVal(False))
        good = z3.Or(good, z3.And(*ok))
    r1, m1, s1 = solve.check(pre + [rg, ret.bv != 0, z3.Not(good)], T())
    d = dict(name='f-string %s: every substitution position of the join receives the result of the conversion (!s / !r / !a / format) written at that position, applied to the operand '
                  'written there (%d substitutions)' % (fn, len(subs)), s=s1, mandatory=True, status={'unsat': 'proved', 'sat': 'refuted'}.get(r1, 'inconclusive'))
    if r1 == 'sat':
        d['cex'] = dict(kind='fstring', fn=fn)
    res.append(d)
    r2, _, s2 = solve.check(pre + [rg, ret.bv != 0], T())
    res.append(dict(name='f-string %s: reach' % fn, s=s2, mandatory=True, status={'sat': 'witness', 'unsat': 'vacuous'}.get(r2, 'inconclusive')))
    return res


def fname_pf(B, fn):
    c = [f for f in B.module.functions if re.match(r'^__pyx_pf_\d+%s_\d*%s$' % (B.name, fn), f)]
    if len(c) != 1:
        raise KeyError('python function %s not found (%r)' % (fn, c))
    return c[0]


FS_REPLAY = r"""
import sys
sys.path.insert(0, %(dir)r)
import %(mod)s as M
class X:
    def __init__(s, n): s.n = n
    def __str__(s): return 'str(%%s)' %% s.n
    def __repr__(s): return 'repr(%%s\xe9)' %% s.n
    def __format__(s, spec): return 'fmt(%%s)' %% s.n
x, y = X('x'), X('y')
bad = []
s, t = 'a\xe9"b', "q'"
for got, want in ((M.fs(x), f"{x!s}|{x!r}|{x!a}|{x}"), (M.fs2(x, y), f"{x!r}{y}{x!r}{x}{y!s}"), (M.fs3(x, y), f"<{x}{x!s}{y!a}{x!a}>"),
                  (M.fs4(s), f"{s!a}|{s!r}|{s!s}|{s}"), (M.fs5(s, t), f"{s}{t!r}{s!r}{t}"), (M.fs6(s), f"{s!r}, {s!r} is not {s} -> {s!a}")):
    if got != want: bad.append((got, want))
print('REPLAY', bad)
print('REPLAY-REPRODUCED' if bad else 'REPLAY-HOLDS')
"""


REPLAY = r'''
import sys
sys.path.insert(0, %(dir)r)
import %(mod)s as M
c = %(cex)r
specs = %(specs)r
bad = None
if c.get('kind') == 'build':
    print('REPLAY-HOLDS (internal helper, no direct replay)'); sys.exit(0)
if c['spec'] == 'c':
    f = M.f_c if c['type'] == 'int' else M.f_cl
    try: got = f(c['v'])
    except (OverflowError, ValueError) as e: got = type(e).__name__
    try: want = "%%c|%%3c" %% (c['v'], c['v']) if c['type'] == 'int' else "%%c|%%4c" %% (c['v'], c['v'])
    except (OverflowError, ValueError) as e: want = 'OverflowError'
    bad = (got, want) if got != want else None
else:
    g = getattr(M, 'g_' + c['type'])
    for sel, sp in enumerate(specs):
        if sp[-1] != c['spec']: continue
        got, want = g(c['v'], sel), format(c['v'], sp)
        if got != want: bad = (sp, got, want); break
print('REPLAY', c, bad)
print('REPLAY-REPRODUCED' if bad else 'REPLAY-HOLDS')
'''
_NATIVE = None


def replay(rep, cex):
    global _NATIVE
    try:
        if _NATIVE is None:
            _NATIVE = build.native(_B.cfile)
    except build.BuildError as e:
        return None, 'native build failed: %s' % e
    p = subprocess.run(['/verif/.venv/bin/python', '-c', REPLAY % dict(dir=os.path.dirname(_NATIVE), mod=_B.name, cex=cex, specs=SPECS)], capture_output=True, text=True, timeout=60)
    txt = (p.stdout + p.stderr).strip()[-500:]
    rep.validated += 1
    if p.returncode < 0:
        return True, 'process died with signal %d' % (-p.returncode)
    return 'REPLAY-REPRODUCED' in txt, txt


def worker(job):
    return dict(cint=check_cint, build=check_build, uchar=check_uchar)[job[0]](job[1])


def run(rep, tier, only=None):
    global _B
    snapshot.activate()
    _B = harness.build_template('c18t', TEMPLATE)
    quick_types = ('schar', 'int', 'long', 'ushort', 'ulong')
    jobs = []
    for n, ct, suffix, W, signed in TYPES:
        if tier != 'thorough' and n not in quick_types:
            continue
        for fmt in ('d', 'x', 'X', 'o'):
            if tier != 'thorough' and fmt == 'X' and n != 'int':
                continue
            jobs.append(('cint', (n, ct, suffix, W, signed, fmt)))
    jobs += [('build', None), ('uchar', ('int', 32)), ('uchar', ('long', 64))]
    if only:
        jobs = [j for j in jobs if only in j[0] or only in str(j[1])]
    # heavy jobs first
    jobs.sort(key=lambda j: -(j[1][3] if j[0] == 'cint' else 0))
    rep.functions += ['Cython/Utility/TypeConversion.c: CIntToPyUnicode (__Pyx____Pyx_PyUnicode_From_<type>, __Pyx_uchar_...) as instantiated by the real Cython for f-strings over '
                      '%d C integer types; Cython/Utility/StringTools.c: __Pyx_PyUnicode_BuildFromAscii [%s]' % (len(TYPES), build.sha(_B.cfile))]
    rep.bounds += ['every value of the type, width 0..40, padding " " or "0", format d / x / X / o (quick tier: 5 of the 8 types, X for int only)',
                   'decimal on 32/64-bit types is split: O1 (cvc5 --solve-bv-as-int=sum) arithmetic of the remainder loop over the implementation\'s own terms, O2 (z3) rendering with the '
                   'quotients/remainders abstracted to fresh variables constrained by what O1 proves; the composition (unique base-100 expansion) is an argument, not mechanised',
                   'BuildFromAscii: every ulength <= 26, every clength <= ulength, characters as a z3 array; result object modelled as a non-compact 1-byte-kind string',
                   'outside: float formatting (PyOS_double_to_string), object operands (format() of CPython itself), %-format rewriting and f-string node handling in the compiler, '
                   'grouping / precision / alignment other than right-aligned padding (not generated for C integers)']
    rep.assume('CPython 3.12 unicode object layout; PyUnicode_FromOrdinal / PyUnicode_New are CPython\'s own', 'abs() on the remainder (never INT_MIN) is defined')
    with mp.Pool(min(16, os.cpu_count() or 4)) as pool:
        results = pool.map(worker, jobs, chunksize=1)
    for job, res in zip(jobs, results):
        for d in res:
            if d['status'] == 'refuted':
                ok, txt = replay(rep, d['cex'])
                if ok:
                    rep.obligation(d['name'], 'refuted', d['s'], True, str(d['cex']))
                    rep.violation('%s fails for %s: %s' % (d['name'], d['cex'], txt), dict(cex=d['cex'], replay_output=txt))
                else:
                    rep.obligation(d['name'], 'inconclusive', d['s'], d.get('mandatory', True), 'counterexample %s did not reproduce: %s' % (d['cex'], txt))
            else:
                rep.obligation(d['name'], d['status'], d['s'], d.get('mandatory', True), d.get('detail'))
    if not only or 'fstring' in only:
        global _BF
        _BF = harness.build_template('c18f', FS_TEMPLATE)
        fnat = None
        for fn in FS_KERNELS:
            for d in check_fstring(fn):
                if d['status'] == 'refuted':
                    if fnat is None:
                        fnat = build.native(_BF.cfile)
                    p = subprocess.run(['/verif/.venv/bin/python', '-c', FS_REPLAY % dict(dir=os.path.dirname(fnat), mod=_BF.name)], capture_output=True, text=True, timeout=60)
                    txt = (p.stdout + p.stderr).strip()[-400:]
                    rep.validated += 1
                    if 'REPLAY-REPRODUCED' in txt or p.returncode < 0:
                        rep.obligation(d['name'], 'refuted', d['s'], True, str(d['cex']))
                        rep.violation('%s: %s' % (d['name'], txt), dict(cex=d['cex'], replay_output=txt))
                    else:
                        rep.obligation(d['name'], 'inconclusive', d['s'], True, 'counterexample did not reproduce: %s' % txt)
                else:
                    rep.obligation(d['name'], d['status'], d['s'], d.get('mandatory', True), d.get('detail'))
        rep.functions.append('generated code of 3 f-strings over Python objects with !s / !r / !a / no conversion and repeated operands (ExprNodes.JoinedStrNode / FormattedValueNode, '
                             'Optimize.FinalOptimizePhase.visit_JoinedStrNode de-duplication)')
        rep.bounds.append('f-strings over objects: which conversion of which operand reaches which join position; the text produced by str/repr/ascii/format and by the join is CPython\'s')
    if not only or 'pct' in only:
        # '%' formatting with a literal template: the rewriting into f-string nodes (pure Python, CrossHair over selectors)
        from ..pysym import runner
        from ..pysym.runner import Cond
        import shutil
        dpct = snapshot.scratch_dir('c18pct')
        shutil.copy('/verif/vf/pysym/h_c18_pct.py', os.path.join(dpct, 'h_c18_pct.py'))
        G = os.path.join(dpct, 'h_c18g.py')
        L = ['import h_c18_pct as B', '']
        names = []
        for ti in range(8):
            for half in range(2):
                nm = 'pct_type%d_%d' % (ti, half)
                L += ['def %s(pi: int, qi: int, vi: int) -> bool:' % nm, '    """', '    pre: %d <= pi < %d and 0 <= qi < 4 and 0 <= vi < 6' % (half * 9, half * 9 + 9),
                      '    post: _ == True', '    """', '    return B.check(pi, qi, %d, vi)' % ti, '']
                names.append(nm)
        badnames = []
        for ti in range(3, 8):
            nm = 'pctbad_type%d' % ti
            L += ['def %s(pi: int, qi: int, vi: int) -> bool:' % nm, '    """', '    pre: 0 <= pi < 18 and 0 <= qi < 4 and 0 <= vi < 2',
                  '    post: _ == True', '    """', '    return B.check_bad(pi, qi, %d, vi)' % ti, '']
            badnames.append(nm)
        L += ['def twin(pi: int) -> bool:', '    """', '    pre: 0 <= pi < 18', '    post: _ == True', '    """', '    return B.twin_check(pi)', '']
        open(G, 'w').write('\n'.join(L))
        runner.run_twin(rep, G, 'twin', 60, extra_path=[dpct])
        runner.run_conditions(rep, G, [Cond(n, 300 if tier == 'quick' else 1200) for n in names], extra_path=[dpct])

        def classifier(call, func):
            # known finding F14 only for the exact pattern: the rewritten code raises ValueError where '%' raises TypeError
            nums = re.findall(r'-?\d+', call[call.index('('):])
            m_ = re.match(r'pctbad_type(\d)', call)
            if not m_ or len(nums) != 3:
                return None
            a_, b_, c_ = map(int, nums)
            p_ = subprocess.run(['/verif/.venv/bin/python', '-c', 'import h_c18_pct as B; print(B.is_known_exception_class_difference(%d, %d, %d, %d))' % (a_, b_, int(m_.group(1)), c_)],
                                capture_output=True, text=True, env=snapshot.child_env([dpct]), timeout=120)
            return 'F14-pct-format-wrong-operand-type-raises-valueerror' if p_.stdout.strip().endswith('True') else None
        runner.run_conditions(rep, G, [Cond(n, 300 if tier == 'quick' else 1200, mandatory=False) for n in badnames], extra_path=[dpct], known_classifier=classifier)
        rep.functions.append('Cython/Compiler/Optimize.py: ConstantFolding._build_fstring (rewriting of "<literal>" % (tuple) into f-string nodes)')
        rep.bounds.append('%-format rewriting: one placeholder "%[flags/width][.precision]type" over 18 flag/width prefixes x 4 precisions x types a s r f d o x X x up to 6 sample values per type; '
                          'the rewritten conversion + format() must equal the % operator (value or exception class); templates the rewriting declines are left to CPython')
    rep.cov['states'] = sum(len(r) for r in results)
    rep.cov['transitions'] = sum(len(r) for r in results)
    rep.sample(dict(function='__Pyx____Pyx_PyUnicode_From_long', inputs='v symbolic 64-bit, width 0..40, pad in {" ", "0"}, format "d"'))
