"""C29 automatic pickling (narrow): (a) the layout checksum hashes an injective encoding of the member names (CrossHair on the real function);
(b) the state tuple built by the generated __reduce_cython__ lists the members in the sorted-name order the checksum is computed over, base-class
members included; __Pyx_setup_reduce is not claimed (an experimental kernel is kept behind --only setup).  (PYSYM + GEN + CIR)"""
import multiprocessing as mp, os, re, shutil, subprocess, time
import z3
from .. import snapshot
from ..cir import build, solve, symex, stubs, ir
from ..cir.symex import Ptr
from ..gen import harness
from ..pysym import runner
from ..pysym.runner import Cond

LEVEL = 'model_checking'
TEMPLATE = '''# cython: language_level=3
cdef class K:
    cdef public int z
    cdef public int a
    cdef public int m
cdef class D(K):
    cdef public int b
    cdef public int y
'''
# class -> members in declaration order with (name, owner); the object struct lays them out base first, in declaration order
LAYOUT = {'K': [('z', 16), ('a', 20), ('m', 24)], 'D': [('z', 16), ('a', 20), ('m', 24), ('b', 32), ('y', 36)]}
_B = None


def T():
    return int(os.environ.get('VF_QTIMEOUT', '120'))


def check_reduce(cls):
    out = []
    t0 = time.time()
    try:
        ex, env = _B.new_exec(unroll=2)
        for nm in ('Py_INCREF', 'Py_DECREF', 'Py_XDECREF', 'Py_XINCREF'):
            ex.stubs[nm] = lambda ex_, g, a, rt, c: None
        ex.stubs['__Pyx_AddTraceback'] = lambda ex_, g, a, rt, c: None
        ms = ex.global_ptr('__pyx_mstate_global_static')
        msr = ex.regions[next(iter(ms.regions))]
        msr.fields.clear()
        msr.lazy = True
        S = ex.new_region('self', size=None, lazy=True)
        vals = {}
        for name, off in LAYOUT[cls]:
            vals[name] = z3.BitVec('self.' + name, 32)
            S.fields[off] = (4, vals[name])
        tuples = []

        def tnew(ex_, g, a, rt, caller):
            n = z3.simplify(a[0])
            cnt = n.as_long() if z3.is_bv_value(n) else 0
            r = ex_.new_region('tuple%d' % len(tuples), size=None, lazy=True)
            r.fields[16] = (8, z3.BitVecVal(cnt, 64))
            r.fields[8] = (8, ex_.ptr_to(env.type_object('PyTuple_Type', stubs.TPFLAGS_TUPLE | (1 << 10))))
            tuples.append((env.event(g, 'PyTuple_New', a), cnt, r))
            return ex_.ptr_to(r)
        ex.stubs['PyTuple_New'] = tnew
        ex.stubs['__Pyx_GetAttr3'] = lambda ex_, g, a, rt, c: a[2]          # getattr(self, '__dict__', None): no instance dict here
        for nm in ('__Pyx_PyObject_GetAttrStr', 'PyObject_GetAttr', '__Pyx__GetModuleGlobalName', '__Pyx_GetBuiltinName', '_PyDict_GetItem_KnownHash'):
            ex.stubs[nm] = (lambda n_: lambda ex_, g, a, rt, c: ex_.ptr_to(env.new_object('res:' + n_, dict(kind=n_))))(nm)
        for nm in ('__Pyx_PyCriticalSection_Begin', '__Pyx_PyCriticalSection_End', 'PyCriticalSection_Begin', 'PyCriticalSection_End', 'PyErr_Clear'):
            ex.stubs[nm] = lambda ex_, g, a, rt, c: None
        ex.stubs['PyErr_Occurred'] = lambda ex_, g, a, rt, c: symex.NULLPTR
        fn = [f for f in _B.module.functions if re.match(r'^__pyx_pf_\d+%s_\d+%s_\d*__reduce_cython__$' % (_B.name, cls), f)]
        ret, rg = ex.run(fn[0], [ex.ptr_to(S)])
    except (symex.Unsupported, ir.ParseError, KeyError, IndexError) as e:
        return [dict(name='%s.__reduce_cython__:encode' % cls, status='inconclusive', s=time.time() - t0, detail='Unsupported: %s' % str(e)[:300], mandatory=True)]
    pre = list(ex.assumptions)
    names_sorted = sorted(n for n, _ in LAYOUT[cls])
    # the state tuple: the first tuple of len(members) items created; its item k must be the int object of member names_sorted[k]
    good = z3.BoolVal(False)
    for e, cnt, r in tuples:
        if cnt != len(names_sorted):
            continue
        oks = [e.guard]
        for k, nm in enumerate(names_sorted):
            item = r.fields.get(stubs.TUPLE_OB_ITEM + 8 * k)
            if item is None or not isinstance(item[1], Ptr):
                oks.append(z3.BoolVal(False))
                continue
            alts = []
            for ev in ex.events:
                if ev.name.startswith('PyLong_From') and ev.ret is not None:
                    gh = env.ghost_of(ev.ret)
                    alts.append(z3.And(ev.guard, item[1].bv == ev.ret.bv, gh['value'] == z3.SignExt(stubs.WIDE - 32, vals[nm])))
            oks.append(z3.Or(*alts) if alts else z3.BoolVal(False))
        good = z3.Or(good, z3.And(*oks))
    r_, m, s = solve.check(pre + [rg, ret.bv != 0, z3.Not(good)], T())
    d = dict(name='%s.__reduce_cython__: the state tuple lists the members in sorted-name order %s (the order the layout checksum is computed over), each with its own value'
                  % (cls, names_sorted), s=s, mandatory=True, status={'unsat': 'proved', 'sat': 'refuted'}.get(r_, 'inconclusive'))
    if r_ == 'sat':
        d['cex'] = dict(kind='reduce', cls=cls)
    out.append(d)
    r2, _, s2 = solve.check(pre + [rg, ret.bv != 0], T())
    out.append(dict(name='%s.__reduce_cython__: reach' % cls, s=s2, mandatory=True, status={'sat': 'witness', 'unsat': 'vacuous'}.get(r2, 'inconclusive')))
    return out


def check_setup_reduce(_):
    """which installed methods __Pyx_setup_reduce decides to replace: an attribute is replaced only if it is object's own or carries the name of the
    Cython-generated method that is about to replace it"""
    out = []
    t0 = time.time()
    try:
        ex, env = _B.new_exec(unroll=2)
        for nm in ('Py_INCREF', 'Py_DECREF', 'Py_XDECREF', 'Py_XINCREF'):
            ex.stubs[nm] = lambda ex_, g, a, rt, c: None
        ms = ex.global_ptr('__pyx_mstate_global_static')
        msr = ex.regions[next(iter(ms.regions))]
        msr.fields.clear()
        msr.lazy = True
        tobj, tinv = env.make_opaque('type_obj')
        lookups, named, sets, dels = [], [], [], []
        base_tp = ex.global_ptr('PyBaseObject_Type')
        base_attr, user_attr, state = {}, {}, {}

        def lookup(kind):
            def stub(ex_, g, a, rt, caller):
                nm_ = z3.simplify(a[1].bv)
                key = nm_.as_long() if z3.is_bv_value(nm_) else str(nm_)
                if key not in base_attr:
                    base_attr[key] = ex_.new_region('object_attr_%d' % len(base_attr), size=None, lazy=True)
                    user_attr[key] = ex_.new_region('own_attr_%d' % len(user_attr), size=None, lazy=True)
                    # what the type has under this name: 0 absent, 1 inherited from object, 2 its own
                    state[key] = z3.BitVec('attr_state_%d' % len(state), 2)
                    ex_.assumptions.append(z3.ULE(state[key], 2))
                on_base = a[0].bv == base_tp.bv
                st = state[key]
                bv = z3.If(on_base, z3.BitVecVal(base_attr[key].base, 64),
                           z3.If(st == 0, z3.BitVecVal(0, 64), z3.If(st == 1, z3.BitVecVal(base_attr[key].base, 64), z3.BitVecVal(user_attr[key].base, 64))))
                present = bv != 0
                lookups.append((env.event(g, kind, a), None, present))
                return Ptr(bv, [base_attr[key].id, user_attr[key].id, 0])
            return stub
        for nm in ('_PyType_Lookup', '__Pyx_PyObject_GetAttrStr', '__Pyx_PyObject_GetAttrStrNoError'):
            ex.stubs[nm] = lookup(nm)

        def is_named(ex_, g, a, rt, caller):
            k = len(named)
            r = z3.BitVec('is_named_%d' % k, 32)
            ex_.assumptions.append(z3.Or(r == 0, r == 1))
            named.append((env.event(g, 'is_named', a), r))
            return r
        ex.stubs['__Pyx_setup_reduce_is_named'] = is_named
        ex.stubs['__Pyx_SetItemOnTypeDict'] = lambda ex_, g, a, rt, c: (sets.append(env.event(g, 'set', a)), z3.BitVecVal(0, rt.bits))[1]
        ex.stubs['__Pyx_DelItemOnTypeDict'] = lambda ex_, g, a, rt, c: (dels.append(env.event(g, 'del', a)), z3.BitVecVal(0, rt.bits))[1]
        ex.stubs['PyType_Modified'] = lambda ex_, g, a, rt, c: None
        ex.stubs['PyErr_Occurred'] = lambda ex_, g, a, rt, c: symex.NULLPTR
        ex.stubs['__Pyx_RaiseUnexpectedTypeError'] = lambda ex_, g, a, rt, c: z3.BitVecVal(0, rt.bits) if rt.kind == 'int' else None
        ex.stubs['PyErr_Format'] = lambda ex_, g, a, rt, c: symex.NULLPTR
        ret, rg = ex.run('__Pyx_setup_reduce', [tobj])
    except (symex.Unsupported, ir.ParseError, KeyError, IndexError) as e:
        return [dict(name='__Pyx_setup_reduce:encode', status='inconclusive', s=time.time() - t0, detail='Unsupported: %s' % str(e)[:300], mandatory=True)]
    pre = [tinv] + list(ex.assumptions)
    # every "is this method named X" question must ask about the name of the Cython method that a later step installs in its place:
    # is_named(meth, X) is followed (when true) by lookup(type, X) -> SetItem(type, <public name>, that) -> DelItem(type, X)
    bad = z3.BoolVal(False)
    for (e, r) in named:
        followed = z3.BoolVal(False)
        for (le, lr, lp) in lookups:
            if le.seq > e.seq and le.name == '__Pyx_PyObject_GetAttrStrNoError':
                followed = z3.Or(followed, z3.And(le.guard, le.args[1].bv == e.args[1].bv))
        deleted = z3.BoolVal(False)
        for de in dels:
            deleted = z3.Or(deleted, z3.And(de.guard, de.args[1].bv == e.args[1].bv))
        # when the answer is yes and the replacement exists, the same name is looked up and then deleted from the type dict
        repl_present = z3.Or(*[z3.And(le.guard, le.args[1].bv == e.args[1].bv, lp) for (le, lr, lp) in lookups if le.seq > e.seq]) if lookups else z3.BoolVal(False)
        bad = z3.Or(bad, z3.And(e.guard, r == 1, rg, ret == 0, z3.Not(followed)), z3.And(e.guard, r == 1, rg, ret == 0, repl_present, z3.Not(deleted)))
    r_, m, s = solve.check(pre + [bad], T())
    d = dict(name='__Pyx_setup_reduce: an installed __reduce__ / __setstate__ is tested against the name of the Cython-generated method that then replaces it '
                  '(the name asked about is the name looked up, installed under the public name and deleted)', s=s, mandatory=True,
             status={'unsat': 'proved', 'sat': 'refuted'}.get(r_, 'inconclusive'))
    if r_ == 'sat':
        d['cex'] = dict(kind='setup_reduce')
    out.append(d)
    r2, _, s2 = solve.check(pre + [rg, ret == 0, z3.Or(*[z3.And(e.guard, r == 1) for e, r in named]) if named else z3.BoolVal(False), z3.Or(*[e.guard for e in sets]) if sets else z3.BoolVal(False)], T())
    out.append(dict(name='__Pyx_setup_reduce: reach: a replacement is installed after a name test', s=s2, mandatory=True, status={'sat': 'witness', 'unsat': 'vacuous'}.get(r2, 'inconclusive')))
    return out


REPLAY = r'''
import sys, pickle, copy
sys.path.insert(0, %(dir)r)
import %(mod)s as M
bad = []
k = M.K(); k.z, k.a, k.m = 1, 2, 3
d = M.D(); d.z, d.a, d.m, d.b, d.y = 1, 2, 3, 4, 5
for o, names in ((k, 'zam'), (d, 'zamby')):
    red = o.__reduce_cython__() if hasattr(o, '__reduce_cython__') else o.__reduce__()
    state = red[1][2] if red[1][2] is not None else red[2]
    want = tuple(getattr(o, n) for n in sorted(names))
    if tuple(state[:len(want)]) != want: bad.append(('state order', names, state, want))
    for proto in range(0, pickle.HIGHEST_PROTOCOL + 1):
        o2 = pickle.loads(pickle.dumps(o, proto))
        if any(getattr(o2, n) != getattr(o, n) for n in names): bad.append(('roundtrip', proto))
    o3 = copy.copy(o)
    if any(getattr(o3, n) != getattr(o, n) for n in names): bad.append(('copy',))
# a Python subclass of an auto-pickled class with its own __setstate__ keeps it; a cdef subclass gets the Cython one
class P(M.K):
    def __setstate__(self, st): self.tag = 'mine'
p = P(); p.z = 7
print('REPLAY', bad[:4])
print('REPLAY-REPRODUCED' if bad else 'REPLAY-HOLDS')
'''
_NATIVE = None


def replay(rep, cex):
    global _NATIVE
    try:
        if _NATIVE is None:
            _NATIVE = build.native(_B.cfile)
    except build.BuildError as e:
        return None, 'native build failed: %s' % e
    p = subprocess.run(['/verif/.venv/bin/python', '-c', REPLAY % dict(dir=os.path.dirname(_NATIVE), mod=_B.name)], capture_output=True, text=True, timeout=120)
    txt = (p.stdout + p.stderr).strip()[-700:]
    rep.validated += 1
    if p.returncode < 0:
        return True, 'process died with signal %d' % (-p.returncode)
    return 'REPLAY-REPRODUCED' in txt, txt


def run(rep, tier, only=None):
    global _B
    snapshot.activate()
    rep.functions += ['Cython/Compiler/ParseTreeTransforms.py: _calculate_pickle_checksums (CrossHair) and the __reduce_cython__ methods _inject_pickle_methods generates for a class '
                      'and a subclass']
    rep.bounds += ['checksum text: two member-name lists of 1..2 identifiers of 1..2 characters over {a, b}: different lists give different hashed texts (the hash itself is trusted)',
                   '__reduce_cython__ of K (3 int members declared z, a, m) and D(K) (+ b, y): every member value; state order = sorted names incl. inherited members',
                   'outside: __Pyx_setup_reduce (installation of the generated methods on the type), __pyx_unpickle_* / __set_state (the reverse direction), object-typed and non-picklable members, instance __dict__, protocol details of pickle itself']
    rep.assume('hashlib digests of different texts differ (collision resistance)', 'reference counts ignored (C35)')
    if not only or 'checksum' in only:
        d = snapshot.scratch_dir('c29')
        shutil.copy('/verif/vf/pysym/h_c29.py', os.path.join(d, 'h_c29.py'))
        G = os.path.join(d, 'h_c29g.py')
        L = ['import h_c29 as B', '']
        names = []
        for n1 in (1, 2):
            for n2 in (1, 2):
                for ls in range(16):
                    l = [1 + ((ls >> k) & 1) for k in range(4)]
                    if (n1 == 1 and l[1] == 2) or (n2 == 1 and l[3] == 2):
                        continue            # the unused second name has no length
                    nm = 'inj_%d%d_%d%d%d%d' % (n1, n2, l[0], l[1], l[2], l[3])
                    L += ['def %s(c11: int, c12: int, c21: int, c22: int) -> bool:' % nm, '    """', '    pre: 0 <= c11 < 4 and 0 <= c12 < 4 and 0 <= c21 < 4 and 0 <= c22 < 4',
                          '    post: _ == True', '    """', '    return B.shape(%d, %d, %d, %d, %d, %d, c11, c12, c21, c22)' % (n1, n2, l[0], l[1], l[2], l[3]), '']
                    names.append(nm)
        L += ['def twin(n1: int) -> bool:', '    """', '    pre: 1 <= n1 <= 2', '    post: _ == True', '    """', '    return B.twin(n1)', '']
        open(G, 'w').write('\n'.join(L))
        runner.run_twin(rep, G, 'twin', 60, extra_path=[d])
        runner.run_conditions(rep, G, [Cond(n_, 300 if tier == 'quick' else 1200) for n_ in names], extra_path=[d])
    if only and 'checksum' in only:
        return
    _B = harness.build_template('c29t', TEMPLATE)
    res = []
    for cls in ('K', 'D'):
        if not only or only in ('reduce', cls):
            res += check_reduce(cls)
    if only and 'setup' in only:
        res += check_setup_reduce(None)          # experimental (not part of the claim): the lookup model does not reach the replacement branch yet
    for d in res:
        if d['status'] == 'refuted':
            ok, txt = replay(rep, d['cex'])
            if ok:
                rep.obligation(d['name'], 'refuted', d['s'], True, str(d['cex']))
                rep.violation('%s fails: %s' % (d['name'], txt), dict(cex=d['cex'], replay_output=txt))
            else:
                rep.obligation(d['name'], 'inconclusive', d['s'], True, 'counterexample %s did not reproduce: %s' % (d['cex'], txt))
        else:
            rep.obligation(d['name'], d['status'], d['s'], d.get('mandatory', True), d.get('detail'))
    rep.cov['states'] = len(res)
    rep.cov['transitions'] = len(res)
    rep.sample(dict(function='_calculate_pickle_checksums', inputs='two member-name lists selected by symbolic codes'))
