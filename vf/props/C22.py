"""C22 exception handling (narrow): (a) the raise statement helper __Pyx_Raise against CPython's do_raise rules for every kind of type / value /
cause operand; (b) the handled-exception state (sys.exc_info) is restored on every exit of try/except kernels, and a bare `raise` inside a
finally clause re-raises the exception that is propagating (GEN + CIR, machinery of C35)."""
import multiprocessing as mp, os, re, subprocess, time
import z3
from .. import snapshot
from ..cir import build, solve, symex, stubs, ir
from ..cir.symex import Ptr
from ..gen import harness
from . import C35

LEVEL = 'model_checking'
TEMPLATE = '''# cython: language_level=3
def raise1(t): raise t
def raise_from(t, c): raise t from c
def raise_from_none(t): raise t from None
def exc_continue(items, f):
    n = 0
    for i in items:
        try:
            f(i)
        except ValueError:
            continue
        n = i
    return n
def exc_break(items, f):
    for i in items:
        try:
            f(i)
        except ValueError:
            break
    return items
def exc_return(f, g):
    try:
        f()
    except ValueError:
        return g
    return f
def exc_pass(f, g):
    try:
        f()
    except ValueError:
        g()
    return f
def reraise_in_finally(f):
    try:
        f()
    finally:
        raise
def reraise_nested(f, g):
    try:
        f()
    except ValueError:
        try:
            g()
        finally:
            raise
'''
_B = None
BASE_EXC, TYPE_SUB = 1 << 30, 1 << 31


def T():
    return int(os.environ.get('VF_QTIMEOUT', '300'))


# ---------------------------------------------------------------------------------------------------------------------------
def check_raise(_):
    out = []
    t0 = time.time()
    try:
        ex, env = _B.new_exec(unroll=2)
        for nm in ('Py_INCREF', 'Py_DECREF', 'Py_XDECREF', 'Py_XINCREF'):
            ex.stubs[nm] = lambda ex_, g, a, rt, c: None
        none = ex.global_ptr('_Py_NoneStruct')
        terr = env.exc_type('PyExc_TypeError')

        def mkobj(name):
            """an object whose type's tp_flags and whose own tp_flags (if it is a class) are symbolic"""
            r = ex.new_region(name, size=None, lazy=True)
            tp = ex.new_region(name + '.type', size=None, lazy=True)
            ft, fs = z3.BitVec(name + '.typeflags', 64), z3.BitVec(name + '.ownflags', 64)
            tp.fields[stubs.TP_FLAGS] = (8, ft)
            r.fields[0] = (8, z3.BitVec(name + '.refcnt', 64)); r.fields[8] = (8, ex.ptr_to(tp)); r.fields[stubs.TP_FLAGS] = (8, fs)
            return dict(r=r, tp=tp, is_inst=(ft & BASE_EXC) != 0, is_class=z3.And((ft & TYPE_SUB) != 0, (fs & BASE_EXC) != 0), ft=ft, fs=fs)
        Tt, Vv, Cc = mkobj('type'), mkobj('value'), mkobj('cause')
        Inst, CInst = mkobj('new_instance'), mkobj('cause_instance')
        vkind, ckind = z3.BitVec('value_kind', 2), z3.BitVec('cause_kind', 2)       # 0: NULL, 1: None, 2: object
        vptr = Ptr(z3.If(vkind == 0, z3.BitVecVal(0, 64), z3.If(vkind == 1, none.bv, z3.BitVecVal(Vv['r'].base, 64))), [Vv['r'].id, 0] + list(none.regions))
        cptr = Ptr(z3.If(ckind == 0, z3.BitVecVal(0, 64), z3.If(ckind == 1, none.bv, z3.BitVecVal(Cc['r'].base, 64))), [Cc['r'].id, 0] + list(none.regions))
        tbnone = z3.Bool('tb_is_None')
        tbptr = Ptr(z3.If(tbnone, none.bv, z3.BitVecVal(0, 64)), [0] + list(none.regions))
        subcls = z3.BitVec('issubclass_result', 32)
        call_ok, ccall_ok, args_ok = z3.Bool('instantiation_ok'), z3.Bool('cause_instantiation_ok'), z3.Bool('args_tuple_ok')
        merr = env.exc_type('PyExc_MemoryError')
        ev = dict(setcause=[], setobject=[], call=[], ccall=[])
        ex.stubs['PyObject_IsSubclass'] = lambda ex_, g, a, rt, c: subcls
        argsr = ex.new_region('args_tuple', size=None, lazy=True)

        def mktuple(ex_, g, a, rt, caller):
            env.set_error(z3.And(g, z3.Not(args_ok)), ex_.ptr_to(merr))
            return Ptr(z3.If(args_ok, z3.BitVecVal(argsr.base, 64), z3.BitVecVal(0, 64)), [argsr.id, 0])
        ex.stubs['PyTuple_New'] = mktuple
        ex.stubs['PyTuple_Pack'] = mktuple

        def call(ex_, g, a, rt, caller):
            ev['call'].append(env.event(g, 'instantiate', a))
            env.set_error(z3.And(g, z3.Not(call_ok)), ex_.ptr_to(merr))
            return Ptr(z3.If(call_ok, z3.BitVecVal(Inst['r'].base, 64), z3.BitVecVal(0, 64)), [Inst['r'].id, 0])
        ex.stubs['PyObject_Call'] = call

        def ccall(ex_, g, a, rt, caller):
            ev['ccall'].append(env.event(g, 'instantiate_cause', a))
            env.set_error(z3.And(g, z3.Not(ccall_ok)), ex_.ptr_to(merr))
            return Ptr(z3.If(ccall_ok, z3.BitVecVal(CInst['r'].base, 64), z3.BitVecVal(0, 64)), [CInst['r'].id, 0])
        ex.stubs['PyObject_CallObject'] = ccall
        ex.stubs['PyException_SetCause'] = lambda ex_, g, a, rt, c: ev['setcause'].append(env.event(g, 'setcause', a)) and None

        def setobject(ex_, g, a, rt, caller):
            ev['setobject'].append(env.event(g, 'setobject', a))
            env.set_error(g, a[0])
            return None
        ex.stubs['PyErr_SetObject'] = setobject
        ex.stubs['PyException_SetTraceback'] = lambda ex_, g, a, rt, c: z3.BitVecVal(0, 32) if rt.kind == 'int' else None
        ret, rg = ex.run('__Pyx_Raise', [ex.ptr_to(Tt['r']), vptr, tbptr, cptr])
    except (symex.Unsupported, ir.ParseError, KeyError, IndexError) as e:
        return [dict(name='raise:encode', status='inconclusive', s=time.time() - t0, detail='Unsupported: %s' % str(e)[:300], mandatory=True)]
    pre = [z3.ULE(vkind, 2), z3.ULE(ckind, 2), z3.And(subcls >= -1, subcls <= 1)] + list(ex.assumptions)
    # tuple-ness of value is a third property of the value object
    is_tuple = (Vv['ft'] & (1 << 26)) != 0
    pre.append(z3.Not(z3.And(is_tuple, Vv['is_inst'])))
    hasval = vkind == 2
    # CPython do_raise(): classification
    t_inst, t_class = Tt['is_inst'], z3.And(z3.Not(Tt['is_inst']), Tt['is_class'])
    v_is_inst = z3.And(hasval, Vv['is_inst'])
    same_cls = z3.BitVecVal(Vv['tp'].base, 64) == z3.BitVecVal(Tt['r'].base, 64)        # never: distinct regions -> always the subclass test
    believe = z3.And(v_is_inst, subcls == 1)
    need_new = z3.And(t_class, z3.Not(believe), z3.Not(z3.And(v_is_inst, subcls == -1)))
    fail_early = z3.Or(z3.And(t_inst, hasval), z3.And(z3.Not(t_inst), z3.Not(Tt['is_class'])), z3.And(t_class, v_is_inst, subcls == -1),
                       z3.And(need_new, z3.Or(z3.Not(args_ok), z3.Not(call_ok), z3.Not(Inst['is_inst']))))
    final_value = z3.If(t_inst, z3.BitVecVal(Tt['r'].base, 64), z3.If(need_new, z3.BitVecVal(Inst['r'].base, 64), z3.BitVecVal(Vv['r'].base, 64)))
    c_none, c_obj = ckind == 1, ckind == 2
    c_class = z3.And(c_obj, Cc['is_class'])
    c_inst = z3.And(c_obj, z3.Not(Cc['is_class']), Cc['is_inst'])
    c_bad = z3.And(c_obj, z3.Not(Cc['is_class']), z3.Not(Cc['is_inst']))
    sc_called = z3.Or(*[e.guard for e in ev['setcause']]) if ev['setcause'] else z3.BoolVal(False)
    so_called = z3.Or(*[e.guard for e in ev['setobject']]) if ev['setobject'] else z3.BoolVal(False)

    def sc_with(causeval):
        return z3.Or(*[z3.And(e.guard, e.args[0].bv == final_value, e.args[1].bv == causeval) for e in ev['setcause']]) if ev['setcause'] else z3.BoolVal(False)

    def cexf(m):
        return dict(kind='raise', value_kind=m.eval(vkind, model_completion=True).as_long(), cause_kind=m.eval(ckind, model_completion=True).as_long(),
                    type_is_instance=bool(m.eval(Tt['is_inst'], model_completion=True)), cause_is_class=bool(m.eval(Cc['is_class'], model_completion=True)))

    def ob(name, conds, kind_='unsat'):
        r, m, s = solve.check(pre + conds, T())
        d = dict(name='raise statement: %s' % name, s=s, mandatory=True)
        d['status'] = ({'unsat': 'proved', 'sat': 'refuted'} if kind_ == 'unsat' else {'sat': 'witness', 'unsat': 'vacuous'}).get(r, 'inconclusive')
        if r == 'sat' and kind_ == 'unsat':
            d['cex'] = cexf(m)
        out.append(d)
    okv = z3.Not(fail_early)
    ob('`raise X from None`: the cause is cleared explicitly (PyException_SetCause(exc, NULL), which also sets __suppress_context__) before the exception is set',
       [okv, c_none, z3.Not(z3.And(rg, sc_with(z3.BitVecVal(0, 64)), so_called))])
    ob('`raise X` without from: the cause is not touched', [okv, ckind == 0, z3.Not(z3.And(rg, z3.Not(sc_called), so_called))])
    ob('`raise X from <exception instance>`: that instance becomes the cause', [okv, c_inst, z3.Not(z3.And(rg, sc_with(z3.BitVecVal(Cc['r'].base, 64)), so_called))])
    ob('`raise X from <exception class>`: the class is instantiated and the instance becomes the cause (or its construction error propagates)',
       [okv, c_class, z3.Not(z3.And(rg, z3.If(ccall_ok, z3.And(sc_with(z3.BitVecVal(CInst['r'].base, 64)), so_called), z3.And(z3.Not(so_called), z3.Not(env.no_error())))))])
    ob('`raise X from <anything else>`: TypeError, X is not raised', [okv, c_bad, z3.Not(z3.And(rg, z3.Not(so_called), env.error_is('PyExc_TypeError')))])
    ob('an exception instance with a separate value, or a non-exception: TypeError',
       [z3.Or(z3.And(t_inst, hasval), z3.And(z3.Not(t_inst), z3.Not(Tt['is_class']))), z3.Not(z3.And(rg, z3.Not(so_called), env.error_is('PyExc_TypeError')))])
    want_type = z3.If(t_inst, z3.BitVecVal(Tt['tp'].base, 64), z3.If(believe, z3.BitVecVal(Vv['tp'].base, 64), z3.BitVecVal(Tt['r'].base, 64)))
    so_ok = z3.Or(*[z3.And(e.guard, e.args[0].bv == want_type, e.args[1].bv == final_value) for e in ev['setobject']]) if ev['setobject'] else z3.BoolVal(False)
    ob('otherwise the exception set is (class, instance) as do_raise() determines them: the instance itself, a believed instance of a subclass, or a new instance of the class',
       [okv, z3.Or(ckind == 0, c_none, c_inst), z3.Not(z3.And(rg, so_ok))])
    ob('reach: raise Class from None with instantiation', [rg, t_class, vkind == 0, c_none, so_called], kind_='witness')
    return out


# ---------------------------------------------------------------------------------------------------------------------------
KERNELS = {'exc_continue': 2, 'exc_break': 2, 'exc_return': 2, 'exc_pass': 2, 'reraise_in_finally': 1, 'reraise_nested': 2}


class ExcTracker(C35.Tracker):
    """adds the handled-exception state (sys.exc_info) as a ghost cell: which saved / caught exception is current"""

    def install(self):
        C35.Tracker.install(self)
        ex, env, tr = self.ex, self.env, self
        self.exc_info = z3.BitVecVal(0, 64)          # identity (type object base) of the exception being handled; 0 = the caller's state
        self.saved = []
        self.fetched = []        # exceptions fetched at the entry of a finally clause (propagating)
        self.caught = []         # exceptions caught by an except clause
        self.restored = []
        base_out = ex.stubs['__Pyx__ExceptionSave']
        pt = ir.T('ptr', elem=ir.T('int', bits=8))

        def wrap_save(name):
            orig = ex.stubs[name]

            def stub(ex_, g, a, rt, caller):
                n0 = len(tr.objs)
                r = orig(ex_, g, a, rt, caller)
                first = tr.objs[n0]['region']          # the "type" slot object stands for the saved state
                # identification needs a non-NULL token: here the saved type slot is always an object (the all-NULL case is covered by C35's reference check)
                ex_.assumptions.append(z3.Implies(g, tr.objs[n0]['created']))
                tr.saved.append((g, first, tr.exc_info))
                return r
            return stub
        for nm in ('__Pyx_ExceptionSave', '__Pyx__ExceptionSave'):
            ex.stubs[nm] = wrap_save(nm)

        def wrap_get(name):
            orig = ex.stubs[name]

            def stub(ex_, g, a, rt, caller):
                n0 = len(tr.objs)
                r = orig(ex_, g, a, rt, caller)
                first = tr.objs[n0]['region']
                ok = tr.objs[n0]['created']
                tr.exc_info = z3.If(ok, z3.BitVecVal(first.base, 64), tr.exc_info)        # the caught exception is now being handled
                tr.caught.append((ok, first))
                return r
            return stub
        for nm in ('__Pyx_GetException', '__Pyx__GetException'):
            ex.stubs[nm] = wrap_get(nm)

        def wrap_fetch(name):
            orig = ex.stubs[name]

            def stub(ex_, g, a, rt, caller):
                n0 = len(tr.objs)
                r = orig(ex_, g, a, rt, caller)
                tr.fetched.append((tr.objs[n0]['created'], tr.objs[n0]['region']))
                return r
            return stub
        for nm in ('__Pyx_ErrFetch', '__Pyx_ErrFetchInState'):
            ex.stubs[nm] = wrap_fetch(nm)

        def wrap_reset(name, idx):
            orig = ex.stubs[name]

            def stub(ex_, g, a, rt, caller):
                r = orig(ex_, g, a, rt, caller)
                # restoring a saved state: exc_info becomes what it was when that state was saved
                new = tr.exc_info
                for (sg, first, before) in tr.saved:
                    new = z3.If(z3.And(g, a[idx].bv == z3.BitVecVal(first.base, 64)), before, new)
                tr.exc_info = new
                return r
            return stub
        ex.stubs['__Pyx_ExceptionReset'] = wrap_reset('__Pyx_ExceptionReset', 0)
        ex.stubs['__Pyx__ExceptionReset'] = wrap_reset('__Pyx__ExceptionReset', 1)

        def wrap_restore(name, idx):
            orig = ex.stubs[name]

            def stub(ex_, g, a, rt, caller):
                tr.restored.append((g, a[idx]))
                return orig(ex_, g, a, rt, caller)
            return stub
        ex.stubs['__Pyx_ErrRestore'] = wrap_restore('__Pyx_ErrRestore', 0)
        ex.stubs['__Pyx_ErrRestoreInState'] = wrap_restore('__Pyx_ErrRestoreInState', 1)
        ex.stubs['__Pyx_ErrRestoreWithState'] = wrap_restore('__Pyx_ErrRestoreWithState', 0)


PARTS = {'exc_continue': 4}      # balance obligations of the largest kernel are spread over this many worker processes


def check_kernel(fn, part=0, nparts=1):
    """part 0 discharges every obligation of the kernel and its share of the per-object balance queries; parts > 0 only their share"""
    out = []
    t0 = time.time()
    try:
        ex, env = _B.new_exec(unroll=3)
        tr = ExcTracker(ex, env)
        tr.install()
        for g_ in ('_Py_NoneStruct', '_Py_TrueStruct', '_Py_FalseStruct'):
            p = ex.global_ptr(g_)
            ex.regions[next(iter(p.regions))].fields[stubs.OB_REFCNT] = (8, z3.BitVecVal(0xFFFFFFFF, 64))
        ms = ex.global_ptr('__pyx_mstate_global_static')
        msr = ex.regions[next(iter(ms.regions))]
        msr.fields.clear()
        msr.lazy = True
        args = [tr.arg('arg%d' % i) for i in range(KERNELS[fn])]
        ret, rg = ex.run(C35.fname_of(_B, 'pf', fn), [symex.NULLPTR] + args)
    except (symex.Unsupported, ir.ParseError, KeyError, IndexError) as e:
        return [dict(name='%s:encode' % fn, status='inconclusive', s=time.time() - t0, detail='Unsupported: %s' % str(e)[:300], mandatory=True)]
    pre = list(ex.assumptions)

    def cexf(m):
        fl = {}
        for f in tr.flags:
            v = m.eval(f, model_completion=True)
            fl[str(f)] = (bool(v) if z3.is_bool(v) else v.as_signed_long())
        return dict(kind='excstate', fn=fn, flags=fl)

    def ob(name, conds, kind_='unsat'):
        r, m, s = solve.check(pre + conds, T())
        d = dict(name='%s: %s' % (fn, name), s=s, mandatory=True)
        d['status'] = ({'unsat': 'proved', 'sat': 'refuted'} if kind_ == 'unsat' else {'sat': 'witness', 'unsat': 'vacuous'}).get(r, 'inconclusive')
        if r == 'sat' and kind_ == 'unsat':
            d['cex'] = cexf(m)
        out.append(d)
    if part == 0:
        if not fn.startswith('reraise'):
            ob('whatever path leaves the function (normal end, continue, break, return from the handler, error), the handled-exception state is what it was on entry',
               [rg, tr.exc_info != 0])
            matched = [f for f in tr.flags if 'ExceptionMatches' in str(f)]
            ob('reach: an exception was caught and handled, normal return', [rg, ret.bv != 0] + ([z3.Or(*[f == 1 for f in matched])] if matched else []), kind_='witness')
        else:
            # bare raise in a finally clause entered by an exception: the propagating exception (fetched at the entry of the clause) is re-raised
            okr = z3.BoolVal(False)
            for (g, p) in tr.restored:
                for ok, first in tr.fetched:
                    okr = z3.Or(okr, z3.And(g, ok, p.bv == z3.BitVecVal(first.base, 64)))
            failing = z3.Or(*[ok for ok, _ in tr.fetched]) if tr.fetched else z3.BoolVal(False)
            ob('the exception re-raised by the bare `raise` is the one that was propagating into the finally clause', [rg, failing, z3.Not(okr)])
            ob('reach: finally entered by an exception', [rg, failing], kind_='witness')
    # references: one query per tracked object (the disjunction over all objects is unsatisfiable iff every disjunct is).  The single big
    # query took 85-125 s of z3 time depending on term order; the per-object ones take < 15 s each and are shared between PARTS[fn] processes
    bal = tr.balance(ret, rg)
    if bal:
        d = dict(name='%s: references balanced on every path (as C35)' % fn, s=0.0, mandatory=True, status='proved', balance=True, nobj=0, total=len(bal), max_s=0.0,
                 order=','.join(n for n, _, _, _ in bal))
        for _, c, _, _ in bal[part::nparts]:
            r, m, s_ = solve.check(pre + [c], T())
            d['s'] += s_
            d['nobj'] += 1
            d['max_s'] = max(d['max_s'], s_)
            if r == 'sat':
                d['status'] = 'refuted'
                d['cex'] = cexf(m)
                break
            if r != 'unsat':
                d['status'] = 'inconclusive'
        out.append(d)
    return out


def merge_balance(results):
    """one `references balanced` obligation per kernel from the shares of its parts: refuted if any share is, else inconclusive if any is"""
    merged = []
    for d in results:
        if d.get('balance'):
            first = next((x for x in merged if x.get('balance') and x['name'] == d['name']), None)
            if first is not None:
                first['s'] += d['s']
                first['nobj'] += d['nobj']
                first['max_s'] = max(first['max_s'], d['max_s'])
                rank = ['proved', 'inconclusive', 'refuted']
                if rank.index(d['status']) > rank.index(first['status']):
                    first['status'] = d['status']
                    if 'cex' in d:
                        first['cex'] = d['cex']
                if d['order'] != first['order']:      # the parts must have split the same object list
                    first['split_ok'] = False
                continue
        merged.append(d)
    for d in merged:
        if d.get('balance'):
            if (d['nobj'] != d['total'] or not d.get('split_ok', True)) and d['status'] == 'proved':
                d['status'], d['detail'] = 'inconclusive', 'the parts did not cover the object list (%d of %d)' % (d['nobj'], d['total'])
            elif d['status'] != 'refuted':
                d['detail'] = '%d per-object queries, slowest %.1f s (limit %d s each)' % (d['nobj'], d['max_s'], T())
            d['name'] = '%s: %d objects' % (d['name'], d['total'])
    return merged


REPLAY = r'''
import sys
sys.path.insert(0, %(dir)r)
import %(mod)s as M
c = %(cex)r
bad = []
class A(Exception): pass
class Bx(Exception): pass
def outcome(thunk):
    try: return ('v', thunk())
    except BaseException as e:
        return ('e', type(e).__name__, type(e.__cause__).__name__, e.__suppress_context__, type(e.__context__).__name__)
if c['kind'] == 'raise':
    cases = []
    for t in (A, A(1), 5, 'x'):
        cases.append(('raise1', (t,), lambda t=t: (_ for _ in ()).throw(t) if False else None))
    def py_raise1(t): raise t
    def py_from(t, c_): raise t from c_
    def py_none(t): raise t from None
    for t in (A, A(1), 5):
        for f, g, extra in ((M.raise1, py_raise1, ()),):
            pass
    import itertools
    for t in (lambda: A, lambda: A(1), lambda: 5):
        def within(f, *a):
            def run():
                try: raise Bx('ctx')
                except Bx: return f(*a)
            return outcome(run)
        got, want = within(M.raise1, t()), within(py_raise1, t())
        if got != want: bad.append(('raise1', got, want))
        got, want = within(M.raise_from_none, t()), within(py_none, t())
        if got != want: bad.append(('from None', got, want))
        for cz in (lambda: Bx, lambda: Bx(2), lambda: 7, lambda: None):
            got, want = within(M.raise_from, t(), cz()), within(py_from, t(), cz())
            if got != want: bad.append(('from', got, want))
else:
    def state():
        return type(sys.exc_info()[1]).__name__
    def f_raise(i=None):
        if i is None or i %% 2: raise ValueError(i)
    def f_ok(i=None): return None
    for items in ([], [1], [2], [1, 2, 3], [2, 4], [1, 3]):
        for f in (f_raise, f_ok):
            for fn in ('exc_continue', 'exc_break'):
                before = state(); getattr(M, fn)(list(items), f); after = state()
                if before != after: bad.append((fn, items, before, after))
    for f in (f_raise, f_ok):
        for fn in ('exc_return', 'exc_pass'):
            before = state(); getattr(M, fn)(f, f_ok); after = state()
            if before != after: bad.append((fn, before, after))
    def vraise(): raise ValueError(1)
    def boom(): raise Bx(2)
    def py_nested(f, g):
        try: f()
        except ValueError:
            try: g()
            finally: raise
    for g in (boom, lambda: None):
        got = outcome(lambda: M.reraise_nested(vraise, g)); want = outcome(lambda: py_nested(vraise, g))
        if got != want: bad.append(('reraise_nested', got, want))
    def run():
        try: raise A(1)
        except A:
            try: M.reraise_in_finally(boom)
            except BaseException as e: return (type(e).__name__, type(e.__context__).__name__)
    def py_rif(f):
        try: f()
        finally: raise
    def runp():
        try: raise A(1)
        except A:
            try: py_rif(boom)
            except BaseException as e: return (type(e).__name__, type(e.__context__).__name__)
    if run() != runp(): bad.append(('reraise', run(), runp()))
    # references (counterexamples of the balance obligations): every exception raised inside a kernel must be dead after the call,
    # and the arguments must keep their reference counts
    import gc, weakref
    class VE(ValueError): pass
    live = []
    def t_raise(i=None):
        e = VE(i); live.append(weakref.ref(e)); raise e
    def t_boom(i=None):
        e = Bx(i); live.append(weakref.ref(e)); raise e
    def t_ok(i=None): return None
    def leak_probe(label, thunk, keep):
        del live[:]
        thunk(); gc.collect()                     # warm-up (caches, interned objects)
        del live[:]
        before = [sys.getrefcount(k) for k in keep]
        try: thunk()
        except BaseException: pass
        gc.collect()
        after = [sys.getrefcount(k) for k in keep]
        if any(r() is not None for r in live): bad.append((label, 'exception object still alive after the call'))
        if before != after: bad.append((label, 'argument reference counts', before, after))
    def quiet(f, *a):
        def run():
            try: return f(*a)
            except BaseException: return None
        return run
    for f in (t_raise, t_ok, t_boom):
        for fn in ('exc_continue', 'exc_break'):
            for items in ([1], [1, 2, 3]):
                leak_probe((fn, f.__name__, len(items)), quiet(getattr(M, fn), items, f), [items, f])
        for fn in ('exc_return', 'exc_pass'):
            for g in (t_ok, t_boom):
                leak_probe((fn, f.__name__, g.__name__), quiet(getattr(M, fn), f, g), [f, g])
        for g in (t_ok, t_boom, t_raise):
            leak_probe(('reraise_nested', f.__name__, g.__name__), quiet(M.reraise_nested, f, g), [f, g])
        def in_handler():
            try: raise A(1)
            except A: return quiet(M.reraise_in_finally, f)()
        leak_probe(('reraise_in_finally', f.__name__), in_handler, [f])
print('REPLAY', bad[:4])
print('REPLAY-REPRODUCED' if bad else 'REPLAY-HOLDS')
'''
_NATIVE = None


def replay(rep, cex):
    global _NATIVE
    try:
        if _NATIVE is None:
            _NATIVE = build.native(_B.cfile)
    except build.BuildError as e:
        return None, 'native build failed: %s' % e
    p = subprocess.run(['/verif/.venv/bin/python', '-c', REPLAY % dict(dir=os.path.dirname(_NATIVE), mod=_B.name, cex=cex)], capture_output=True, text=True, timeout=120)
    txt = (p.stdout + p.stderr).strip()[-700:]
    rep.validated += 1
    if p.returncode < 0:
        return True, 'process died with signal %d' % (-p.returncode)
    return 'REPLAY-REPRODUCED' in txt, txt


def worker(job):
    return check_raise(None) if job == 'raise' else check_kernel(*job)


def _init(B):
    global _B
    _B = B
    C35._B = B


def run(rep, tier, only=None):
    global _B
    snapshot.activate()
    _B = harness.build_template('c22t', TEMPLATE)
    C35._B = _B
    names = [j for j in ['raise'] + list(KERNELS) if not only or only in j]
    jobs = [j if j == 'raise' else (j, k, PARTS.get(j, 1)) for j in names for k in range(1 if j == 'raise' else PARTS.get(j, 1))]
    rep.functions += ['Cython/Utility/Exceptions.c: __Pyx_Raise (RaiseException); generated code of 4 try/except kernels leaving the handler by fall-through, continue, break and return, '
                      'and of a bare raise inside a finally clause (Nodes.TryExceptStatNode / ExceptClauseNode / TryFinallyStatNode) [%s]' % build.sha(_B.cfile)]
    rep.bounds += ['__Pyx_Raise: every classification of the type operand (exception instance / exception class / other), value (absent, None, exception instance, tuple, other), '
                   'traceback (absent / None), cause (absent, None, exception class, exception instance, other), every outcome of the subclass test and of the instantiations',
                   'kernels: every combination of success / failure of the calls, loops unrolled 3 times; the handled-exception state is modelled as a ghost cell updated by '
                   '__Pyx_ExceptionSave / __Pyx_GetException / __Pyx_ExceptionReset',
                   'outside: exception groups and except*, with statements (C35 covers their references), generators, the traceback objects, __context__ chaining done by CPython itself']
    rep.assume('reference for raise: CPython ceval.c do_raise()', 'API contracts of C35')
    with mp.Pool(min(len(jobs), os.cpu_count() or 4), initializer=_init, initargs=(_B,)) as pool:
        results = pool.map(worker, jobs, chunksize=1)
    results = [merge_balance([d for job, res in zip(jobs, results) if (job if job == 'raise' else job[0]) == nm for d in res]) for nm in names]
    for job, res in zip(names, results):
        for d in res:
            if d['status'] == 'refuted':
                ok, txt = replay(rep, d['cex'])
                if ok:
                    rep.obligation(d['name'], 'refuted', d['s'], True, str(d['cex'])[:600])
                    rep.violation('%s fails for %s: %s' % (d['name'], str(d['cex'])[:500], txt), dict(cex=d['cex'], replay_output=txt))
                else:
                    rep.obligation(d['name'], 'inconclusive', d['s'], d.get('mandatory', True), 'counterexample %s did not reproduce: %s' % (str(d['cex'])[:400], txt))
            else:
                rep.obligation(d['name'], d['status'], d['s'], d.get('mandatory', True), d.get('detail'))
    rep.cov['states'] = sum(len(r) for r in results)
    rep.cov['transitions'] = sum(len(r) for r in results)
    rep.sample(dict(function='__Pyx_Raise', inputs='kinds of type / value / tb / cause symbolic through type flags'))
