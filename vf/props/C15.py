"""C15 indexing and slicing of builtin sequences match CPython (CIR on ObjectHandling.c / StringTools.c helpers)."""
import multiprocessing as mp, os, subprocess, time
import z3
from .. import snapshot
from ..cir import build, solve, symex, stubs, ir
from ..cir.symex import Ptr
from ..gen import harness

LEVEL = 'model_checking'
_B = None
TEMPLATE = '''# cython: language_level=3
def li(list L, Py_ssize_t i): return L[i]
def ti(tuple T, Py_ssize_t i): return T[i]
def oi(o, Py_ssize_t i): return o[i]
def ls(list L, Py_ssize_t a, Py_ssize_t b): return L[a:b]
def ts(tuple L, Py_ssize_t a, Py_ssize_t b): return L[a:b]
def us(str s, Py_ssize_t a, Py_ssize_t b): return s[a:b]
def bs(bytes s, Py_ssize_t a, Py_ssize_t b): return s[a:b]
def bi(bytes s, Py_ssize_t i): return s[i]
def bai(bytearray s, Py_ssize_t i): return s[i]
def ui(str s, Py_ssize_t i): return s[i]
def set_li(list L, Py_ssize_t i, v): L[i] = v
def del_li(list L, Py_ssize_t i): del L[i]
def ls_none(list L, a, b): return L[a:b]
'''
I64 = lambda n: z3.BitVec(n, 64)
NMAX = 1 << 40


def event_stub(env, name, ret_obj=False):
    def stub(ex, g, args, rt, caller):
        r = None
        if rt.kind == 'ptr':
            r = ex.ptr_to(env.new_object('res:' + name, dict(kind=name)))
        elif rt.kind != 'void':
            r = ex.fresh_of(rt, 'ret_' + name)
        env.event(g, name, args, r)
        return r
    return stub


def mk_seq(ex, env, kind):
    """a list or tuple object with a symbolic number n of items; returns (ptr, n, items array region, item offset)"""
    n = I64('n')
    if kind == 'list':
        items = ex.new_region('items', size=n * 8, kind='elems', elemsize=8)
        L = ex.new_region('L', size=40, lazy=False)
        tp = env.type_object('PyList_Type', stubs.TPFLAGS_LIST | (1 << 10))
        L.fields[0] = (8, z3.BitVec('L.refcnt', 64))
        L.fields[8] = (8, ex.ptr_to(tp))
        L.fields[16] = (8, n)
        L.fields[24] = (8, ex.ptr_to(items))
        L.fields[32] = (8, z3.BitVec('L.allocated', 64))
        return ex.ptr_to(L), n, items, 0
    # tuple: items inline after the header -> the whole object is an array of 8-byte words
    T = ex.new_region('T', size=24 + n * 8, kind='elems', elemsize=8)
    tp = env.type_object('PyTuple_Type', stubs.TPFLAGS_TUPLE | (1 << 10))
    T.array = z3.Store(z3.Store(T.array, z3.BitVecVal(1, 64), z3.BitVecVal(tp.base, 64)), z3.BitVecVal(2, 64), n)
    T.ptr_targets = frozenset([tp.id])
    return ex.ptr_to(T), n, T, 3


def common_stubs(ex, env):
    for nm in ('Py_INCREF', 'Py_DECREF', 'Py_XDECREF', 'Py_XINCREF', '_Py_NewRef', 'Py_NewRef'):
        pass
    ex.stubs['Py_INCREF'] = lambda ex_, g, a, rt, c: None
    ex.stubs['Py_DECREF'] = lambda ex_, g, a, rt, c: None
    ex.stubs['Py_XDECREF'] = lambda ex_, g, a, rt, c: None
    ex.stubs['__Pyx_NewRef'] = lambda ex_, g, a, rt, c: a[0]
    ex.stubs['Py_NewRef'] = lambda ex_, g, a, rt, c: a[0]
    ex.stubs['_Py_NewRef'] = lambda ex_, g, a, rt, c: a[0]


def check_getitem(kind):
    fname = '__Pyx_GetItemInt_%s_Fast' % ('List' if kind == 'list' else 'Tuple')
    out = []
    T = int(os.environ.get('VF_QTIMEOUT', '60'))
    t0 = time.time()
    try:
        ex, env = _B.new_exec()
        common_stubs(ex, env)
        ex.stubs['__Pyx_GetItemInt_Generic_size'] = event_stub(env, 'generic')
        ex.stubs['__Pyx_GetItemInt_Generic'] = event_stub(env, 'generic_obj')
        o, n, items, base = mk_seq(ex, env, kind)
        i = I64('i')
        wrap, bchk = z3.BitVec('wraparound', 32), z3.BitVec('boundscheck', 32)
        ret, rg = ex.run(fname, [o, i, wrap, bchk, z3.BitVecVal(0, 32)])
    except (symex.Unsupported, ir.ParseError, KeyError) as e:
        return [dict(name='%s:encode' % fname, status='inconclusive', s=time.time() - t0, detail='Unsupported: %s' % e)]
    pre = [n >= 0, n <= NMAX, z3.Or(wrap == 0, wrap == 1), z3.Or(bchk == 0, bchk == 1)]
    iw = z3.If(z3.And(i < 0, wrap == 1), i + n, i)
    inr = z3.And(iw >= 0, iw < n)
    elem = z3.Select(items.array, iw + base)
    gen = [e for e in ex.events if e.name == 'generic']
    deleg = z3.Or(*[z3.And(e.guard, e.args[1] == i, ret.bv == e.ret.bv) for e in gen]) if gen else z3.BoolVal(False)

    def ob(name, conds, kind_='unsat'):
        r, m, s = solve.check(pre + conds, T)
        d = dict(name='%s: %s' % (fname, name), s=s)
        d['status'] = ({'unsat': 'proved', 'sat': 'refuted'} if kind_ == 'unsat' else {'sat': 'witness', 'unsat': 'vacuous'}).get(r, 'inconclusive')
        if r == 'sat' and kind_ == 'unsat':
            d['cex'] = dict(kind=kind, n=m.eval(n, model_completion=True).as_signed_long(), i=m.eval(i, model_completion=True).as_signed_long(),
                            wraparound=m.eval(wrap, model_completion=True).as_long(), boundscheck=m.eval(bchk, model_completion=True).as_long())
        out.append(d)
    ob('in-range index (after wraparound) returns exactly that element', [inr, z3.Not(z3.And(rg, ret.bv == elem))])
    ob('out-of-range index with boundscheck is delegated to the generic lookup with the ORIGINAL index (CPython raises IndexError)',
       [bchk == 1, z3.Not(inr), z3.Not(z3.And(rg, deleg))])
    seen = set()
    for c, desc, fn in ex.ub:
        if (fn, desc) in seen:
            continue
        seen.add((fn, desc))
        ob('no UB / out-of-object access (boundscheck on): %s' % desc[:70], [bchk == 1, c])
    ob('reach', [inr, rg], kind_='witness')
    return out


def ref_slice(n, start, stop):
    """PySlice_AdjustIndices for step 1"""
    def adj(v):
        return z3.If(v < 0, z3.If(v + n < 0, z3.BitVecVal(0, 64), v + n), z3.If(v >= n, n, v))
    s, e = adj(start), adj(stop)
    return s, e, z3.If(e > s, e - s, z3.BitVecVal(0, 64))


def check_getslice(kind):
    fname = '__Pyx_PyList_GetSlice_locked' if kind == 'list' else '__Pyx_PyTuple_GetSlice'
    out = []
    T = int(os.environ.get('VF_QTIMEOUT', '60'))
    t0 = time.time()
    try:
        ex, env = _B.new_exec()
        common_stubs(ex, env)
        cname = '__Pyx_PyList_FromArray' if kind == 'list' else '__Pyx_PyTuple_FromArray'
        ex.stubs[cname] = event_stub(env, 'fromarray')
        ex.stubs['PyList_New'] = event_stub(env, 'newlist')
        o, n, items, base = mk_seq(ex, env, kind)
        start, stop = I64('start'), I64('stop')
        ret, rg = ex.run(fname, [o, start, stop])
    except (symex.Unsupported, ir.ParseError, KeyError) as e:
        return [dict(name='%s:encode' % fname, status='inconclusive', s=time.time() - t0, detail='Unsupported: %s' % e)]
    pre = [n >= 0, n <= NMAX]
    s, e, ln = ref_slice(n, start, stop)
    evs = [x for x in ex.events if x.name == 'fromarray']
    good = z3.BoolVal(False)
    for x in evs:
        want_ptr = z3.BitVecVal(items.base, 64) + (s + base) * 8
        good = z3.Or(good, z3.And(x.guard, ret.bv == x.ret.bv, z3.If(ln > 0, z3.And(x.args[1] == ln, x.args[0].bv == want_ptr), x.args[1] <= 0)))

    for x in ex.events:
        if x.name == 'newlist':
            good = z3.Or(good, z3.And(x.guard, ret.bv == x.ret.bv, x.args[0] == 0, ln == 0))

    def ob(name, conds, kind_='unsat'):
        r, m, s_ = solve.check(pre + conds, T)
        d = dict(name='%s: %s' % (fname, name), s=s_)
        d['status'] = ({'unsat': 'proved', 'sat': 'refuted'} if kind_ == 'unsat' else {'sat': 'witness', 'unsat': 'vacuous'}).get(r, 'inconclusive')
        if r == 'sat' and kind_ == 'unsat':
            d['cex'] = dict(kind=kind + '_slice', n=m.eval(n, model_completion=True).as_signed_long(), start=m.eval(start, model_completion=True).as_signed_long(),
                            stop=m.eval(stop, model_completion=True).as_signed_long())
        out.append(d)
    ob('the new sequence is built from exactly the items [start\', stop\') CPython selects (PySlice_AdjustIndices)', [z3.Not(z3.And(rg, good))])
    seen = set()
    for c, desc, fn in ex.ub:
        if (fn, desc) in seen:
            continue
        seen.add((fn, desc))
        ob('no UB: %s' % desc[:70], [c])
    ob('reach', [rg, ln > 1], kind_='witness')
    return out


def check_substring(_):
    fname = '__Pyx_PyUnicode_Substring'
    out = []
    T = int(os.environ.get('VF_QTIMEOUT', '60'))
    t0 = time.time()
    try:
        ex, env = _B.new_exec()
        common_stubs(ex, env)
        ex.stubs['PyUnicode_FromKindAndData'] = event_stub(env, 'fromkind')
        # a ready unicode object: header fields concrete offsets (CPython 3.12): length @16, hash @24, state @32, utf8_length @40, utf8 @48, data.any @56
        U = ex.new_region('text', size=None, lazy=False)
        n = I64('n')
        state = z3.BitVec('state', 32)
        anyp = ex.new_region('external_data', size=None)
        tp = env.type_object('PyUnicode_Type', stubs.TPFLAGS_UNICODE | (1 << 10))
        U.fields[0] = (8, z3.BitVec('U.refcnt', 64)); U.fields[8] = (8, ex.ptr_to(tp)); U.fields[16] = (8, n)
        U.fields[24] = (8, z3.BitVec('U.hash', 64)); U.fields[32] = (4, state); U.fields[36] = (4, z3.BitVecVal(0, 32))
        U.fields[40] = (8, z3.BitVec('U.utf8len', 64)); U.fields[48] = (8, symex.NULLPTR); U.fields[56] = (8, ex.ptr_to(anyp))
        text = ex.ptr_to(U)
        start, stop = I64('start'), I64('stop')
        empty = ex.global_ptr('__pyx_mstate_global_static')
        ret, rg = ex.run(fname, [text, start, stop])
    except (symex.Unsupported, ir.ParseError, KeyError) as e:
        return [dict(name='%s:encode' % fname, status='inconclusive', s=time.time() - t0, detail='Unsupported: %s' % e)]
    # state bit-field (CPython 3.12): interned:2, kind:3, compact:1, ascii:1
    kind = z3.ZeroExt(61, z3.Extract(4, 2, state))
    compact = z3.Extract(5, 5, state) == 1
    ascii_ = z3.Extract(6, 6, state) == 1
    pre = [n >= 0, n <= NMAX, z3.Or(kind == 1, kind == 2, kind == 4), z3.Implies(ascii_, z3.And(kind == 1, compact))]
    data = z3.If(compact, z3.If(ascii_, z3.BitVecVal(U.base + 40, 64), z3.BitVecVal(U.base + 56, 64)), z3.BitVecVal(anyp.base, 64))
    s, e, ln = ref_slice(n, start, stop)
    evs = [x for x in ex.events if x.name == 'fromkind']
    good = z3.BoolVal(False)
    for x in evs:
        good = z3.Or(good, z3.And(x.guard, ret.bv == x.ret.bv, z3.ZeroExt(32, x.args[0]) == kind, x.args[1].bv == data + s * kind, x.args[2] == ln, ln > 0))
    whole = z3.And(s == 0, e == n)
    good = z3.Or(good, z3.And(whole, ret.bv == text.bv))

    def ob(name, conds, kind_='unsat'):
        r, m, s_ = solve.check(pre + conds, T)
        d = dict(name='%s: %s' % (fname, name), s=s_)
        d['status'] = ({'unsat': 'proved', 'sat': 'refuted'} if kind_ == 'unsat' else {'sat': 'witness', 'unsat': 'vacuous'}).get(r, 'inconclusive')
        if r == 'sat' and kind_ == 'unsat':
            d['cex'] = dict(kind='str_slice', n=m.eval(n, model_completion=True).as_signed_long(), start=m.eval(start, model_completion=True).as_signed_long(),
                            stop=m.eval(stop, model_completion=True).as_signed_long(), ukind=m.eval(kind, model_completion=True).as_long())
        out.append(d)
    ob('non-empty slice: new string from (kind, data + start\' * kind, stop\' - start\') per CPython slice adjustment; whole-string slice may return the string itself',
       [ln > 0, z3.Not(z3.And(rg, good))])
    ob('reach: 2-byte kind', [rg, kind == 2, ln > 1, s > 0], kind_='witness')
    return out


def check_none_bounds(_):
    """call site of L[a:b] with Python-object bounds: None defaults and C index conversion (ExprNodes.SliceIndexNode)"""
    import re
    out = []
    T = int(os.environ.get('VF_QTIMEOUT', '60'))
    t0 = time.time()
    fname = 'ls_none'
    try:
        cands = [f for f in _B.module.functions if re.match(r'^__pyx_pf_\d+%s_\d+ls_none$' % _B.name, f)]
        ex, env = _B.new_exec()
        common_stubs(ex, env)
        ex.stubs['__Pyx_PyIndex_AsSsize_t'] = event_stub(env, 'asindex')
        ex.stubs['__Pyx_PyList_GetSlice'] = event_stub(env, 'getslice')
        ex.stubs['__Pyx_AddTraceback'] = lambda ex_, g, a, rt, c: None
        o, n, items, base = mk_seq(ex, env, 'list')
        none = ex.global_ptr('_Py_NoneStruct')
        objs, isnone = [], []
        for nm in ('a', 'b'):
            p, _inv = env.make_opaque(nm)
            c = z3.Bool(nm + '_is_None')
            isnone.append(c)
            objs.append(Ptr(z3.If(c, none.bv, p.bv), p.regions | none.regions))
        ret, rg = ex.run(cands[0], [symex.NULLPTR, o, objs[0], objs[1]])
    except (symex.Unsupported, ir.ParseError, KeyError, IndexError) as e:
        return [dict(name='%s:encode' % fname, status='inconclusive', s=time.time() - t0, detail='Unsupported: %s' % e)]
    pre = [n >= 0, n <= NMAX]
    conv = {0: None, 1: None}
    for e in ex.events:
        if e.name == 'asindex':
            for k in (0, 1):
                conv[k] = z3.If(z3.And(e.guard, e.args[0].bv == objs[k].bv, z3.Not(isnone[k])), e.ret, conv[k]) if conv[k] is not None else e.ret
    gs = [e for e in ex.events if e.name == 'getslice']
    MAXS = z3.BitVecVal((1 << 63) - 1, 64)
    good = z3.BoolVal(False)
    for e in gs:
        st_ok = z3.If(isnone[0], z3.Or(e.args[1] == 0, e.args[1] <= -n), e.args[1] == conv[0])
        sp_ok = z3.If(isnone[1], e.args[2] >= n, e.args[2] == conv[1])
        good = z3.Or(good, z3.And(e.guard, e.args[0].bv == o.bv, st_ok, sp_ok, ret.bv == e.ret.bv))

    def ob(name, conds, kind_='unsat'):
        r, m, s_ = solve.check(pre + conds, T)
        d = dict(name='%s: %s' % (fname, name), s=s_)
        d['status'] = ({'unsat': 'proved', 'sat': 'refuted'} if kind_ == 'unsat' else {'sat': 'witness', 'unsat': 'vacuous'}).get(r, 'inconclusive')
        if r == 'sat' and kind_ == 'unsat':
            d['cex'] = dict(kind='none_bounds', n=m.eval(n, model_completion=True).as_signed_long(),
                            a_none=bool(m.eval(isnone[0], model_completion=True)), b_none=bool(m.eval(isnone[1], model_completion=True)))
        out.append(d)
    noerr = env.no_error()
    ob('L[a:b] with object bounds: None start means 0, None stop means "to the end", other bounds are converted with __index__ and passed unchanged',
       [noerr, z3.Not(z3.And(rg, good))])
    ob('reach', [rg, isnone[1], noerr, z3.Or(*[e.guard for e in gs]) if gs else z3.BoolVal(False)], kind_='witness')
    return out


REPLAY = r'''
import sys
sys.path.insert(0, %(dir)r)
import %(mod)s as M
c = %(cex)r
n = min(c['n'], 30)
def clip(v): return max(-2**63, min(2**63 - 1, v))
if c['kind'] in ('list', 'tuple'):
    seq = list(range(100, 100 + n)); seq = seq if c['kind'] == 'list' else tuple(seq)
    f = M.li if c['kind'] == 'list' else M.ti
    try: want = ('v', seq[c['i']])
    except IndexError: want = ('IndexError',)
    try: got = ('v', f(seq, c['i']))
    except IndexError: got = ('IndexError',)
elif c['kind'] in ('list_slice', 'tuple_slice'):
    seq = list(range(100, 100 + n)); seq = seq if c['kind'] == 'list_slice' else tuple(seq)
    f = M.ls if c['kind'] == 'list_slice' else M.ts
    want = ('v', seq[c['start']:c['stop']])
    try: got = ('v', f(seq, c['start'], c['stop']))
    except Exception as e: got = ('exc', type(e).__name__)
elif c['kind'] == 'none_bounds':
    seq = list(range(100, 100 + max(n, 4)))
    a = None if c['a_none'] else 1; b = None if c['b_none'] else 3
    want = ('v', seq[a:b]); got = ('v', M.ls_none(seq, a, b))
else:
    base = {1: 'abcdefghij', 2: 'ab€cdefghij', 4: 'ab\U0001F600cdefghi'}[c['ukind']]
    s = (base * 4)[:max(n, 3)]
    want = ('v', s[c['start']:c['stop']])
    try: got = ('v', M.us(s, c['start'], c['stop']))
    except Exception as e: got = ('exc', type(e).__name__)
print('REPLAY', c, 'got', got, 'want', want)
print('REPLAY-REPRODUCED' if got != want else 'REPLAY-HOLDS')
'''
_NATIVE = None


def replay(rep, cex):
    global _NATIVE
    try:
        if _NATIVE is None:
            _NATIVE = build.native(_B.cfile)
    except build.BuildError as e:
        return None, 'native build failed: %s' % e
    if cex['n'] > 30:
        return None, 'sequence too long to replay (n=%d)' % cex['n']
    p = subprocess.run(['/verif/.venv/bin/python', '-c', REPLAY % dict(dir=os.path.dirname(_NATIVE), mod=_B.name, cex=cex)], capture_output=True, text=True, timeout=60)
    txt = (p.stdout + p.stderr).strip()[-400:]
    rep.validated += 1
    if p.returncode < 0:
        return True, 'process died with signal %d' % (-p.returncode)
    return 'REPLAY-REPRODUCED' in txt, txt


def _small(fn, arg):
    """same job with n <= 8 and small indices: replayable counterexamples"""
    orig = solve.check

    def small(conds, timeout_s=60, want_model=True):
        extra = [I64('n') <= 8]
        small_idx = []
        for v in ('i', 'start', 'stop'):
            small_idx += [I64(v) >= -20, I64(v) <= 20]
        r = orig(list(conds) + extra + small_idx, timeout_s, want_model)
        if r[0] == 'sat':
            return r
        return orig(list(conds) + extra, timeout_s, want_model)
    solve.check = small
    try:
        return fn(arg)
    finally:
        solve.check = orig


JOBS = [('getitem', 'list'), ('getitem', 'tuple'), ('getslice', 'list'), ('getslice', 'tuple'), ('substring', None), ('none_bounds', None)]
FN = dict(getitem=check_getitem, getslice=check_getslice, substring=check_substring, none_bounds=check_none_bounds)


def worker(job):
    return FN[job[0]](job[1])


def worker_small(job):
    return _small(FN[job[0]], job[1])


def run(rep, tier, only=None):
    global _B
    snapshot.activate()
    _B = harness.build_template('c15t', TEMPLATE)
    jobs = [j for j in JOBS if not only or only in j[0] or (j[1] and only in j[1])]
    rep.functions += ['Cython/Utility/ObjectHandling.c: __Pyx_GetItemInt_List_Fast, __Pyx_GetItemInt_Tuple_Fast, __Pyx_crop_slice, __Pyx_PyList_GetSlice(_locked), '
                      '__Pyx_PyTuple_GetSlice; Cython/Utility/StringTools.c: __Pyx_PyUnicode_Substring; CPython inline accessors from Python.h [%s]' % build.sha(_B.cfile)]
    rep.bounds += ['list/tuple of any length 0 <= n <= 2^40 (items as a z3 array), index / slice bounds any 64-bit value, wraparound and boundscheck flags symbolic',
                   'str: any ready unicode object (kind 1/2/4, compact/ascii/non-compact state bits symbolic), any length <= 2^40, any 64-bit bounds',
                   'outside: SetItemInt/DelItemInt, bytes/bytearray indexing, object (non-C-integer) indices, what PyObject_GetItem does in the delegated arm']
    rep.assume('CPython 3.12 list/tuple/unicode object layouts; reference = PySlice_AdjustIndices and CPython index wraparound',
               'Py_INCREF/Py_DECREF are ignored (reference counts are C35)', 'the generic lookup with the original index behaves like CPython (it is CPython)')
    with mp.Pool(min(16, os.cpu_count() or 4)) as pool:
        results = pool.map(worker, jobs, chunksize=1)
        need_small = [j for j, res in zip(jobs, results) if any(d['status'] == 'refuted' for d in res)]
        small = dict(zip(need_small, pool.map(worker_small, need_small, chunksize=1))) if need_small else {}
    for job, res in zip(jobs, results):
        sm = {d['name']: d for d in small.get(job, [])}
        for d in res:
            if d['status'] == 'refuted':
                cex = (sm.get(d['name']) or {}).get('cex') or d['cex']
                ok, txt = replay(rep, cex)
                if ok:
                    rep.obligation(d['name'], 'refuted', d['s'], True, str(cex))
                    rep.violation('%s fails for %s: %s' % (d['name'], cex, txt), dict(cex=cex, replay_output=txt))
                else:
                    rep.obligation(d['name'], 'inconclusive', d['s'], True, 'counterexample %s did not reproduce / not replayable: %s' % (cex, txt))
            else:
                rep.obligation(d['name'], d['status'], d['s'], True, d.get('detail'))
    rep.cov['states'] = 40 * len(jobs)
    rep.cov['transitions'] = 60 * len(jobs)
    rep.sample(dict(function='__Pyx_GetItemInt_List_Fast', inputs='n, i, wraparound, boundscheck symbolic; ob_item a z3 array'))
