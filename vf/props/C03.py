"""C03 C-integer division and modulo follow Python semantics (GEN + CIR)."""
import multiprocessing as mp, os, subprocess, sys, time, json
import z3
from .. import snapshot
from ..cir import build, solve, symex, stubs, ir
from ..gen import harness, arith

LEVEL = 'model_checking'
_B = None      # Built template (inherited by forked workers)
_K = {}


def check_kernel(kname):
    """worker: encode one kernel, discharge its obligations; returns plain data"""
    k = _K[kname]
    cty, bits, signed = arith.TYPEINFO[k.tname]
    W, ps = arith.promoted(bits, signed)
    out = []
    t0 = time.time()
    try:
        ex, env = _B.new_exec()
        a = z3.BitVec('a', bits)
        b = z3.BitVec('b', bits)
        outr = ex.new_region('out', size=bits // 8, lazy=False)
        out0 = z3.BitVec('out0', bits)
        outr.fields[0] = (bits // 8, out0)
        zde = env.exc_type('PyExc_ZeroDivisionError')
        ret, rg = ex.run(_B.cfunc(k.name), [a, b, ex.ptr_to(outr)])
        res = ex.load(ex.ptr_to(outr), ir.T('int', bits=bits), z3.BoolVal(True))
    except (symex.Unsupported, ir.ParseError, KeyError) as e:
        return [dict(name=kname + ':encode', status='inconclusive', s=time.time() - t0, detail='Unsupported: %s' % e)]
    enc_s = time.time() - t0
    A = arith.ext(a, W, signed)
    Bv = arith.ext(b, W, signed) if k.divisor == 'p' else z3.BitVecVal(k.divisor, W)
    nz = Bv != 0
    noovf = z3.Not(z3.And(A == z3.BitVecVal(1 << (W - 1), W), Bv == z3.BitVecVal(-1, W))) if ps else z3.BoolVal(True)
    if k.op == '//':
        S = arith.c_div(A, Bv, ps) if k.cdivision else arith.py_floordiv(A, Bv, ps)
    else:
        S = arith.c_rem(A, Bv, ps) if k.cdivision else arith.py_mod(A, Bv, ps)
    St = z3.Extract(bits - 1, 0, S) if bits < W else S
    fits = arith.ext(St, W, signed) == S
    pre = z3.And(nz, noovf, fits)
    good = z3.And(rg, ret == 0, env.no_error(), res == St)
    T = int(os.environ.get('VF_QTIMEOUT', '60'))
    stats = dict(blocks=ex.stats['blocks'], edges=ex.stats['edges'], ins=ex.stats['ins'])

    def ob(name, conds, expect_unsat=True):
        r, m, s = solve.check(conds, T)
        d = dict(name='%s:%s' % (kname, name), s=s, stats=stats)
        if expect_unsat:
            d['status'] = {'unsat': 'proved', 'sat': 'refuted'}.get(r, 'inconclusive')
            if r == 'sat':
                d['cex'] = dict(a=solve.model_int(m, a, signed), b=solve.model_int(m, b, signed) if k.divisor == 'p' else k.divisor)
        else:
            d['status'] = {'sat': 'witness', 'unsat': 'vacuous'}.get(r, 'inconclusive')
            if r == 'sat':
                d['cex'] = dict(a=solve.model_int(m, a, signed), b=solve.model_int(m, b, signed))
        out.append(d)
    ob('value', [pre, z3.Not(good)])
    if not k.cdivision and k.divisor == 'p':
        ob('zero-divisor raises ZeroDivisionError', [Bv == 0, z3.Not(z3.And(rg, ret == z3.BitVecVal(-1, 32), env.error_is('PyExc_ZeroDivisionError')))])
    ob('reach', [pre, rg, ret == 0], expect_unsat=False)
    if ex.unwind:
        ob('unwinding', [z3.Or(*[u[0] for u in ex.unwind])])
    out[0]['encode_s'] = enc_s
    return out


REPLAY_SNIPPET = r'''
import sys, json
sys.path.insert(0, %(dir)r)
import %(mod)s as M
name, a, b, op, cdiv, lo, hi = %(args)r
r = getattr(M, 'py_' + name)(a, b)
if cdiv:
    q = abs(a) // abs(b); q = q if (a < 0) == (b < 0) else -q
    want = q if op == '//' else a - q * b
else:
    want = a // b if op == '//' else a %% b
print('REPLAY got', r, 'want', want)
print('REPLAY-REPRODUCED' if r != want else 'REPLAY-HOLDS')
'''


def replay(rep, k, cex):
    """end-to-end replay on a real build of the template module"""
    global _NATIVE
    try:
        if _NATIVE is None:
            _NATIVE = build.native(_B.cfile)
    except build.BuildError as e:
        return None, 'native build failed: %s' % e
    cty, bits, signed = arith.TYPEINFO[k.tname]
    lo, hi = arith.rng(bits, signed)
    code = REPLAY_SNIPPET % dict(dir=os.path.dirname(_NATIVE), mod=_B.name,
                                 args=(k.name, cex['a'], cex['b'], k.op, k.cdivision, lo, hi))
    p = subprocess.run(['/verif/.venv/bin/python', '-c', code], capture_output=True, text=True, timeout=120)
    txt = (p.stdout + p.stderr).strip()[-600:]
    rep.validated += 1
    if p.returncode < 0:
        return True, 'process died with signal %d: %s' % (-p.returncode, txt)
    if 'Error' in txt and 'REPLAY-' not in txt:
        return True, 'raised: ' + txt
    return 'REPLAY-REPRODUCED' in txt, txt


_NATIVE = None


def selftest(rep, ks):
    """translator self-test: the native build and the encoding agree on boundary vectors (a sample of kernels)"""
    global _NATIVE
    _NATIVE = build.native(_B.cfile)
    vecs = {}
    sample = [k for k in ks if k.divisor == 'p'][::3]
    for k in sample:
        cty, bits, signed = arith.TYPEINFO[k.tname]
        lo, hi = arith.rng(bits, signed)
        vals = sorted({lo, lo + 1, -1 if signed else 1, 0, 1, 2, 7, hi - 1, hi, (-7 if signed else 5)})
        vecs[k.name] = [(x, y) for x in vals for y in vals if y != 0 and not (signed and x == lo and y == -1)]
    code = ("import sys, json\nsys.path.insert(0, %r)\nimport %s as M\nV = json.load(open(%r))\nout = {}\n"
            "for n, vs in V.items():\n    f = getattr(M, 'py_' + n)\n    out[n] = [f(a, b) for a, b in vs]\n"
            "json.dump(out, open(%r, 'w'))\n") % (os.path.dirname(_NATIVE), _B.name, _NATIVE + '.vec.json', _NATIVE + '.res.json')
    json.dump(vecs, open(_NATIVE + '.vec.json', 'w'))
    p = subprocess.run(['/verif/.venv/bin/python', '-c', code], capture_output=True, text=True, timeout=300)
    if p.returncode != 0:
        rep.harness_error('self-test run of the native build failed: ' + (p.stdout + p.stderr)[-400:])
        return
    got = json.load(open(_NATIVE + '.res.json'))
    n = 0
    for k in sample:
        cty, bits, signed = arith.TYPEINFO[k.tname]
        ex, env = _B.new_exec()
        a = z3.BitVec('a', bits); b = z3.BitVec('b', bits)
        outr = ex.new_region('out', size=bits // 8, lazy=False)
        outr.fields[0] = (bits // 8, z3.BitVecVal(0, bits))
        ret, rg = ex.run(_B.cfunc(k.name), [a, b, ex.ptr_to(outr)])
        res = ex.load(ex.ptr_to(outr), ir.T('int', bits=bits), z3.BoolVal(True))
        for (x, y), want in zip(vecs[k.name], got[k.name]):
            v = z3.simplify(z3.substitute(res, (a, z3.BitVecVal(x, bits)), (b, z3.BitVecVal(y, bits))))
            enc = v.as_signed_long() if signed else v.as_long()
            n += 1
            if enc != want:
                rep.harness_error('translator self-test: %s(%d, %d): native %d, encoding %d' % (k.name, x, y, want, enc))
                return
    rep.validated += n
    rep.sample(dict(selftest='encoding == native build on %d boundary vectors over %d kernels' % (n, len(sample))))


def run(rep, tier, only=None):
    global _B, _K
    snapshot.activate()
    types = None if tier == 'thorough' else ['schar', 'short', 'int', 'long', 'uchar', 'uint', 'ulong', 'ssize_t', 'myint']
    src, ks = arith.divmod_family(types)
    if only:
        ks = [k for k in ks if only in k.name]
    _K = {k.name: k for k in ks}
    t0 = time.time()
    _B = harness.build_template('c03t', src)
    rep.functions += ['Cython/Utility/CMath.c: DivInt, ModInt (as instantiated per type: __Pyx_div_<T>, __Pyx_mod_<T>) [%s]' % build.sha(_B.cfile),
                      'Cython/Compiler/ExprNodes.py DivNode/ModNode call sites: %d generated kernels (zero check, helper selection, cdivision)' % len(ks)]
    rep.bounds += ['%d template kernels: T in %s x {//, %%} x divisor {parameter, 1, -1, 2, 7, -7, 2^31-1} x cdivision {off, on}' % (len(ks), sorted({k.tname for k in ks})),
                   'every value of both operands at the full width of T (8..64 bits); no loops (unwinding not needed)',
                   'precondition (from the property): divisor != 0 for the value obligation; mathematical result fits T (excludes MIN // -1, see C04/C36)',
                   'outside: floating point (C06), Python-object operands (C02), mixed operand types']
    rep.assume('SMT-LIB bvsdiv/bvsrem/bvudiv/bvurem are C99 division on non-overflowing operands (definition)',
               'Python floor quotient / remainder are the closed forms over C division justified by the two NIA lemmas (discharged each run)',
               'stubs: PyErr_SetString sets the ghost error indicator; __Pyx_AddTraceback is an event')
    for name, r, s in solve.nia_lemmas():
        rep.obligation(name + ' (unbounded integers, z3 NIA)', 'proved' if r == 'unsat' else 'inconclusive', s)
    selftest(rep, ks)
    with mp.Pool(min(16, os.cpu_count() or 4)) as pool:
        results = pool.map(check_kernel, [k.name for k in ks], chunksize=2)
    states = trans = 0
    for k, res in zip(ks, results):
        for d in res:
            st = d.get('stats') or {}
            name = d['name']
            if d['status'] == 'refuted':
                ok, txt = replay(rep, k, d['cex'])
                if ok:
                    rep.obligation(name, 'refuted', d['s'], True, str(d['cex']))
                    rep.violation('%s fails for a=%s b=%s: %s' % (name, d['cex']['a'], d['cex']['b'], txt),
                                  dict(kernel=k.name, source=k.src, cex=d['cex'], replay_output=txt))
                else:
                    rep.obligation(name, 'inconclusive', d['s'], True, 'counterexample %s did not reproduce on the real build: %s' % (d['cex'], txt))
            else:
                rep.obligation(name, d['status'], d['s'], True, d.get('detail'))
        if res and res[0].get('stats'):
            states += res[0]['stats']['blocks']
            trans += res[0]['stats']['edges']
    rep.cov['states'] = states
    rep.cov['transitions'] = trans
    rep.cov['programs'] = len(ks)
    rep.sample(dict(kernel=ks[0].name, source=ks[0].src, obligation='for all a, b: b != 0 and result fits => out == floor(a / b), no error'))
