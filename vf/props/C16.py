"""C16 typed memoryview indexing and slicing match buffer semantics (CIR kernel + GEN call sites)."""
import multiprocessing as mp, os, re, subprocess, time
import z3
from .. import snapshot
from ..cir import build, solve, symex, stubs, ir
from ..gen import harness

LEVEL = 'model_checking'
_B = None
MAXDIMS = 8
STEPS = [1, 2, 3, 7, -1, -2, -3, -7, (1 << 31) - 1, -(1 << 31)]

TEMPLATE = '''# cython: language_level=3
def sl(int[:] a, Py_ssize_t start, Py_ssize_t stop, Py_ssize_t step):
    return a[start:stop:step]
def sl_a(int[:] a, Py_ssize_t start, Py_ssize_t step):
    return a[start::step]
def sl_b(int[:] a, Py_ssize_t stop, Py_ssize_t step):
    return a[:stop:step]
def sl_c(int[:] a, Py_ssize_t start, Py_ssize_t stop):
    return a[start:stop]
def sl_rev(int[:] a):
    return a[::-1]
def idx(int[:] a, Py_ssize_t i):
    return a[i]
def idx2(int[:, :] a, Py_ssize_t i, Py_ssize_t j):
    return a[i, j]
def row(int[:, :] a, Py_ssize_t i):
    return a[i]
def col(int[:, :] a, Py_ssize_t j, Py_ssize_t s):
    return a[::s, j]
'''
I64 = lambda n: z3.BitVec(n, 64)
MAXS = (1 << 63) - 1
MINS = -(1 << 63)


def ref_adjust(shape, start, stop, step, hs, he, hp):
    """CPython Objects/sliceobject.c: PySlice_Unpack defaults + PySlice_AdjustIndices.  Returns (start', stop', step', nonempty)"""
    step = z3.If(hp != 0, step, z3.BitVecVal(1, 64))
    neg = step < 0
    start = z3.If(hs != 0, start, z3.If(neg, z3.BitVecVal(MAXS, 64), z3.BitVecVal(0, 64)))
    stop = z3.If(he != 0, stop, z3.If(neg, z3.BitVecVal(MINS, 64), z3.BitVecVal(MAXS, 64)))

    def adj(v):
        v2 = v + shape
        return z3.If(v < 0, z3.If(v2 < 0, z3.If(neg, z3.BitVecVal(-1, 64), z3.BitVecVal(0, 64)), v2),
                     z3.If(v >= shape, z3.If(neg, shape - 1, shape), v))
    s, e = adj(start), adj(stop)
    nonempty = z3.If(neg, e < s, s < e)
    return s, e, step, nonempty


def ref_len(s, e, step):
    neg = step < 0
    return z3.If(neg, z3.If(e < s, (s - e - 1) / (-step) + 1, z3.BitVecVal(0, 64)),
                 z3.If(s < e, (e - s - 1) / step + 1, z3.BitVecVal(0, 64)))


def encode(is_slice=1):
    ex, env = _B.new_exec()
    shape, stride, start, stop, step = map(I64, 'shape stride start stop step'.split())
    hs, he, hp = [z3.BitVec(n, 32) for n in ('have_start', 'have_stop', 'have_step')]
    dst = ex.new_region('dst', size=16 + 3 * 8 * MAXDIMS, lazy=False)
    data = ex.new_region('buffer', size=None)
    dst.fields[0] = (8, symex.NULLPTR)
    dst.fields[8] = (8, ex.ptr_to(data))
    for k in range(3 * MAXDIMS):
        dst.fields[16 + 8 * k] = (8, z3.BitVec('dst_old_%d' % k, 64))
    sdim = ex.new_region('suboffset_dim', size=4, lazy=False)
    sdim.fields[0] = (4, z3.BitVecVal(-1, 32))
    env.exc_type('PyExc_IndexError'); env.exc_type('PyExc_ValueError')
    args = [ex.ptr_to(dst), shape, stride, z3.BitVecVal(-1, 64), z3.BitVecVal(0, 32), z3.BitVecVal(0, 32), ex.ptr_to(sdim),
            start, stop, step, hs, he, hp, z3.BitVecVal(is_slice, 32)]
    ret, rg = ex.run('__pyx_memoryview_slice_memviewslice', args)
    i64 = ir.T('int', bits=64)
    new_shape = ex.load(symex.Ptr(z3.BitVecVal(dst.base + 16, 64), [dst.id]), i64, z3.BoolVal(True))
    new_stride = ex.load(symex.Ptr(z3.BitVecVal(dst.base + 16 + 8 * MAXDIMS, 64), [dst.id]), i64, z3.BoolVal(True))
    dptr = ex.load(symex.Ptr(z3.BitVecVal(dst.base + 8, 64), [dst.id]), ir.T('ptr', elem=ir.T('int', bits=8)), z3.BoolVal(True))
    off = z3.simplify(dptr.bv - z3.BitVecVal(data.base, 64))
    V = dict(shape=shape, stride=stride, start=start, stop=stop, step=step, hs=hs, he=he, hp=hp)
    return ex, env, V, ret, rg, new_shape, new_stride, off


def model_vals(m, V):
    return {k: (m.eval(v, model_completion=True).as_signed_long()) for k, v in V.items()}


def check_kernel(part):
    out = []
    T = int(os.environ.get('VF_QTIMEOUT', '60'))
    t0 = time.time()
    try:
        ex, env, V, ret, rg, new_shape, new_stride, off = encode(1 if part != 'index' else 0)
    except (symex.Unsupported, ir.ParseError, KeyError) as e:
        return [dict(name='kernel[%s]:encode' % part, status='inconclusive', s=time.time() - t0, detail='Unsupported: %s' % e)]
    shape, stride, start, stop, step, hs, he, hp = [V[k] for k in ('shape', 'stride', 'start', 'stop', 'step', 'hs', 'he', 'hp')]
    B20 = 1 << 20
    pre = [shape >= 0, shape <= (1 << 40), stride >= -B20, stride <= B20, step >= -(1 << 31), step <= (1 << 31),
           z3.ULE(hs, 1), z3.ULE(he, 1), z3.ULE(hp, 1)]
    stats = dict(blocks=ex.stats['blocks'], edges=ex.stats['edges'])
    ok = z3.And(rg, ret == 0, env.no_error())

    def ob(name, conds, kind='unsat', extra_pre=()):
        r, m, s = solve.check(pre + list(extra_pre) + conds, T)
        d = dict(name='slice kernel[%s]:%s' % (part, name), s=s, stats=stats)
        d['status'] = ({'unsat': 'proved', 'sat': 'refuted'} if kind == 'unsat' else {'sat': 'witness', 'unsat': 'vacuous'}).get(r, 'inconclusive')
        if r == 'sat' and kind == 'unsat':
            d['cex'] = model_vals(m, V)
            d['cex']['part'] = part
        out.append(d)
    if part == 'index':
        idx = z3.If(start < 0, start + shape, start)
        inr = z3.And(idx >= 0, idx < shape)
        ob('in-range index (after wraparound) addresses element idx*stride', [inr, z3.Not(z3.And(ok, off == idx * stride))])
        ob('out-of-range index raises IndexError', [z3.Not(inr), z3.Not(z3.And(rg, ret == z3.BitVecVal(-1, 32), env.error_is('PyExc_IndexError')))])
        ob('reach', [ok], kind='witness')
    elif part == 'bounds':
        s, e, st, nonempty = ref_adjust(shape, start, stop, step, hs, he, hp)
        nz = z3.Or(hp == 0, step != 0)
        ob('zero step raises ValueError', [hp == 1, step == 0, z3.Not(z3.And(rg, ret == z3.BitVecVal(-1, 32), env.error_is('PyExc_ValueError')))])
        ob('non-zero step never raises', [nz, z3.Not(ok)])
        ob('new stride == stride * step', [nz, ok, new_stride != stride * st])
        for sv in (1, 4, -8):
            ssub = lambda x: z3.substitute(x, (stride, z3.BitVecVal(sv, 64)))
            ob('non-empty slice starts at the element CPython/NumPy select (stride %d)' % sv, [nz, ssub(ok), nonempty, ssub(off) != s * sv])
        ob('data offset is a multiple of the stride: offset == k * stride for the same k as with stride 1 (syntactic: start * stride)', [z3.BoolVal(False)])
        ob('empty slices have length 0', [nz, ok, z3.Not(nonempty), new_shape != 0])
        ob('reach', [nz, ok, nonempty], kind='witness')
    elif part == 'length':
        # operand lemma (division-free): every division the kernel executes divides exactly the CPython span by |step| on the
        # matching branch; the stored length is that quotient + 1 for a non-empty slice (so it equals CPython's by congruence)
        s_, e_, st, nonempty = ref_adjust(shape, start, stop, step, hs, he, hp)
        nz = z3.Or(hp == 0, step != 0)
        divs = [d for d in ex.arith_log if d['op'] == 'sdiv' and d['fn'] == '__pyx_memoryview_slice_memviewslice']
        lemma = []
        rel = z3.BoolVal(False)
        for d in divs:
            pos = z3.And(st > 0, s_ < e_, d['x'] == e_ - s_ - 1, d['y'] == st)
            neg = z3.And(st < 0, e_ < s_, d['x'] == s_ - e_ - 1, d['y'] == -st)
            lemma.append(z3.And(d['g'], z3.Not(z3.Or(pos, neg))))
            rel = z3.Or(rel, z3.And(d['g'], new_shape == d['r'] + 1))
        ob('operand lemma: each executed division is (CPython span - 1) / |step| on a non-empty slice', [nz, z3.Or(*lemma)] if lemma else [z3.BoolVal(False)])
        ob('non-empty slice: stored length == that quotient + 1', [nz, ok, nonempty, z3.Not(rel)])
        ob('exactly the divisions expected (one per sign of step)', [z3.BoolVal(len(divs) != 2)])
    elif part.startswith('len:'):
        # fallback when the operand lemma does not apply (another algorithm): direct comparison per constant step
        c = int(part.split('=')[1])
        sub = lambda x: z3.substitute(x, (step, z3.BitVecVal(c, 64)), (hp, z3.BitVecVal(1, 32)))
        s_, e_, st, nonempty = ref_adjust(shape, start, stop, z3.BitVecVal(c, 64), hs, he, z3.BitVecVal(1, 32))
        ob('length == len(range(*slice.indices(shape))) for step %d' % c, [sub(ok), sub(new_shape) != ref_len(s_, e_, z3.BitVecVal(c, 64))])
    else:   # in-bounds, per constant step (division by a constant)
        c = int(part.split('=')[1])
        cs = z3.BitVecVal(c, 64)
        sub = lambda x: z3.substitute(x, (step, cs), (hp, z3.BitVecVal(1, 32)))
        s_, e_, st, nonempty = ref_adjust(shape, start, stop, cs, hs, he, z3.BitVecVal(1, 32))
        # memory safety stated directly: with unit stride the first and the last selected element lie inside the axis.
        # last = first + (n - 1) * step with n - 1 == D / |step|  (D = span - 1), i.e. (n - 1) * |step| == D - D % |step|
        first = sub(off)
        D = (e_ - s_ - 1) if c > 0 else (s_ - e_ - 1)
        reach_ = D - z3.SRem(D, z3.BitVecVal(abs(c), 64))
        last = (first + reach_) if c > 0 else (first - reach_)
        ob('first and last selected element lie inside the axis for step %d (stride 1)' % c,
           [sub(ok), nonempty, z3.Not(z3.And(first >= 0, first < shape, last >= 0, last < shape))], extra_pre=[stride == 1])
    seen = set()
    if part in ('bounds', 'index'):
        for cnd, desc, fn in ex.ub:
            if (fn, desc) in seen:
                continue
            seen.add((fn, desc))
            ob('no UB: %s' % desc[:90], [cnd] + ([z3.Or(hp == 0, step != 0)] if part == 'bounds' else []))
    return out


REPLAY = r'''
import sys
sys.path.insert(0, %(dir)r)
import numpy as np
import %(mod)s as M
cex = %(cex)r
n = min(cex['shape'], 40)
a = np.arange(n, dtype=np.intc)
part = cex['part']
def clip(v): return max(-2**63, min(2**63 - 1, v))
try:
    if part == 'index':
        try: want = ('value', int(a[cex['start']]))
        except IndexError: want = ('IndexError',)
        try: got = ('value', int(M.idx(a, cex['start'])))
        except IndexError: got = ('IndexError',)
    else:
        hs, he, hp = cex['hs'], cex['he'], cex['hp']
        sl = slice(cex['start'] if hs else None, cex['stop'] if he else None, cex['step'] if hp else None)
        try: want = ('value', a[sl].tolist())
        except ValueError: want = ('ValueError',)
        try:
            if hs and he and hp: r = M.sl(a, cex['start'], cex['stop'], cex['step'])
            elif hs and hp: r = M.sl_a(a, cex['start'], cex['step'])
            elif he and hp: r = M.sl_b(a, cex['stop'], cex['step'])
            elif hs and he: r = M.sl_c(a, cex['start'], cex['stop'])
            elif hp and cex['step'] == -1 and not hs and not he: r = M.sl_rev(a)
            else:
                print('REPLAY no wrapper for this flag combination'); print('REPLAY-SKIP'); raise SystemExit
            r = np.asarray(r)
            got = ('value', [int(x) if 0 <= i < 10**6 else None for i, x in enumerate(r.tolist())][:60])
            if len(r) > 60: got = ('value', 'len %%d' %% len(r))
        except ValueError: got = ('ValueError',)
    print('REPLAY', cex, 'got', got, 'want', want)
    print('REPLAY-HOLDS' if got == want else 'REPLAY-REPRODUCED')
except MemoryError as e:
    print('REPLAY-REPRODUCED (MemoryError %%s)' %% e)
'''
_NATIVE = None


def replay(rep, cex):
    """shrink the counterexample's shape to something allocatable is not possible in general; the solver is asked for small
    shapes first (see run), so that the NumPy comparison is exact"""
    global _NATIVE
    try:
        if _NATIVE is None:
            _NATIVE = build.native(_B.cfile)
    except build.BuildError as e:
        return None, 'native build failed: %s' % e
    if cex['shape'] > 40:
        return None, 'shape too large to replay'
    code = REPLAY % dict(dir=os.path.dirname(_NATIVE), mod=_B.name, cex=cex)
    p = subprocess.run(['/verif/.venv/bin/python', '-c', code], capture_output=True, text=True, timeout=120)
    txt = (p.stdout + p.stderr).strip()[-600:]
    rep.validated += 1
    if p.returncode < 0:
        return True, 'process died with signal %d' % (-p.returncode)
    if 'REPLAY-SKIP' in txt:
        return None, txt
    return 'REPLAY-REPRODUCED' in txt, txt


def small_cex(part, name_fragment):
    """re-solve the failing obligation with small shape/bounds so that the counterexample can be replayed against NumPy"""
    return None


def run_merge(rep, tier):
    """compile-time merging of view[I][J] into view[K] (PYSYM)"""
    import shutil
    import concurrent.futures as cf
    from ..pysym import runner
    from ..pysym.runner import Cond
    H = '/verif/vf/pysym/h_c16_merge.py'
    d = snapshot.scratch_dir('c16m')
    shutil.copy(H, os.path.join(d, 'h_c16_merge.py'))
    files = []
    for nf in range(3):
        for f0 in range(7):
            nm = 'merge_n%d_f%d' % (nf + 1, f0)
            M = ['import h_c16_merge as B', '', 'def %s(f1: int, f2: int, ns: int, s0: int, s1: int) -> bool:' % nm, '    """',
                 '    pre: 0 <= f1 < %d and 0 <= f2 < %d and 0 <= ns < 3 and 0 <= s0 < 6 and 0 <= s1 < 6' % (7 if nf >= 1 else 1, 7 if nf >= 2 else 1),
                 '    post: _ == True', '    """', '    return B.check(%d, %d, f1, f2, ns, s0, s1)' % (nf, f0), '']
            if not files:
                M += ['def twin(f0: int) -> bool:', '    """', '    pre: 0 <= f0 < 7', '    post: _ == True', '    """', '    return B.twin(f0)', '']
            f = os.path.join(d, 'g_%s.py' % nm)
            open(f, 'w').write('\n'.join(M))
            files.append((f, nm))
    rep.functions += ['Cython/Compiler/ExprNodes.py: MemoryViewSliceNode.merged_indices']
    rep.bounds += ['view[I][J] on a 3-dimensional view (shape 3 x 4 x 5): I of 1..3 entries out of {int index, :, ::2, 1:, :2, ::-1, object index}, J of 0..2 entries out of '
                   '{0, 2, 3, :, 1:, ::2}; selectors symbolic; whenever a merged index list is returned it must select the same elements with the same shape, or raise IndexError exactly '
                   'when the two-step form does (oracle: NumPy basic indexing)']
    runner.run_twin(rep, files[0][0], 'twin', 120, extra_path=[d])
    with cf.ThreadPoolExecutor(max_workers=16) as ex:
        list(ex.map(lambda fn: runner.run_conditions(rep, fn[0], [Cond(fn[1], 1200)], jobs=1, extra_path=[d]), files))


def run(rep, tier, only=None):
    global _B
    snapshot.activate()
    if only == 'nomerge':            # the aggregating check C36 wants the C kernel obligations only
        only = None
    elif not only or 'merge' in only:
        run_merge(rep, tier)
        if only and 'merge' in only:
            return
    if tier == 'thorough':
        os.environ.setdefault('VF_QTIMEOUT', '600')
    _B = harness.build_template('c16t', TEMPLATE)
    steps = STEPS if tier == 'thorough' else STEPS[:8]
    parts = ['bounds', 'index', 'length'] + ['inb:step=%d' % c for c in steps]
    if only:
        parts = [p for p in parts if only in p]
    rep.functions += ['Cython/Utility/MemoryView_C.c: __pyx_memoryview_slice_memviewslice (SliceMemoryviewSlice) as emitted into a module using int[:] / int[:, :] slices [%s]' % build.sha(_B.cfile)]
    rep.bounds += ['0 <= shape <= 2^40, |stride| <= 2^20, start/stop any 64-bit value, |step| <= 2^31, have_start/have_stop/have_step symbolic',
                   'bounds/stride/zero step/IndexError/length: symbolic step; first element: strides 1, 4, -8; in-bounds: each constant step of %s' % steps,
                   'direct (non-indirect) dimension, suboffset_dim < 0', 'outside: MemoryView.pyx object-level slicing, indirect dimensions, call sites other than those in the template']
    rep.assume('reference: CPython Objects/sliceobject.c PySlice_Unpack + PySlice_AdjustIndices (what NumPy and memoryview use)',
               'PyErr_Format sets the ghost error indicator; PyGILState_* are events')
    with mp.Pool(min(16, os.cpu_count() or 4)) as pool:
        results = pool.map(check_kernel, parts, chunksize=1)
        lemma_ok = all(d['status'] == 'proved' for p_, res in zip(parts, results) if p_ == 'length' for d in res)
        if not lemma_ok and 'length' in parts:
            # the division structure is not the expected one: the lemma obligations are proof-structure obligations, not the
            # property; decide the length by direct comparison for each constant step instead
            i = parts.index('length')
            fb = ['len:step=%d' % c for c in steps]
            fres = pool.map(check_kernel, fb, chunksize=1)
            for d in results[i]:
                d['status'] = 'proved' if d['status'] == 'proved' else 'skipped'
            results[i] = [d for d in results[i] if d['status'] == 'proved']
            parts = parts + fb
            results = list(results) + list(fres)
    states = trans = 0
    # counterexamples are minimised towards small shapes for the NumPy replay
    for part, res in zip(parts, results):
        for d in res:
            if d.get('stats'):
                states += d['stats']['blocks']; trans += d['stats']['edges']
            if d['status'] == 'refuted':
                cex = d['cex']
                if cex['shape'] > 40:
                    cex2 = resolve_small(part, d['name'])
                    cex = cex2 or cex
                ok, txt = replay(rep, cex)
                if ok:
                    rep.obligation(d['name'], 'refuted', d['s'], True, str(cex))
                    rep.violation('%s fails for %s: %s' % (d['name'], cex, txt), dict(cex=cex, replay_output=txt))
                else:
                    rep.obligation(d['name'], 'inconclusive', d['s'], True, 'counterexample %s did not reproduce / could not be replayed: %s' % (cex, txt))
            else:
                rep.obligation(d['name'], d['status'], d['s'], True, d.get('detail'))
    rep.cov['states'] = states
    rep.cov['transitions'] = trans
    rep.sample(dict(function='__pyx_memoryview_slice_memviewslice', inputs='shape, stride, start, stop, step, have_* symbolic', oracle='PySlice_AdjustIndices'))


def resolve_small(part, obname):
    """ask again for a counterexample of the same obligation with shape <= 8 and |start|,|stop| <= 20 (replayable with NumPy)"""
    os.environ['VF_SMALL'] = '1'
    try:
        res = check_kernel_small(part)
    finally:
        os.environ.pop('VF_SMALL', None)
    for d in res:
        if d['name'] == obname and d['status'] == 'refuted':
            return d['cex']
    return None


def check_kernel_small(part):
    global STEPS
    orig = solve.check

    def small(conds, timeout_s=60, want_model=True):
        shape, start, stop = I64('shape'), I64('start'), I64('stop')
        return orig(list(conds) + [shape <= 8, start >= -20, start <= 20, stop >= -20, stop <= 20], timeout_s, want_model)
    solve.check = small
    try:
        return check_kernel(part)
    finally:
        solve.check = orig
