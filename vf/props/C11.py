"""C11 emitted C string literals denote exactly the original bytes (PYSYM)."""
import os, shutil
from ..pysym import runner
from ..pysym.runner import Cond
from .. import snapshot

LEVEL = 'model_checking'
NA, NT = 19, 9


def gen(path, tier):
    L = ['from h_c11_base import ok_bytes, ok_sel, ok_split, ok_char, pin', '']
    names = []

    def fn(name, params, pre, body):
        L.extend(['def %s(%s) -> bool:' % (name, params), '    """'] + ['    pre: ' + p for p in pre] + ['    post: _ == True', '    """', '    ' + body, ''])
        names.append(name)
    fn('bytes_len1', 'b: bytes', ['len(b) <= 1'], 'return ok_bytes(b)')
    fn('char_all', 'v: int', ['0 <= v < 256'], 'return ok_char(v)')
    nfree0 = 2 if tier == 'quick' else 3
    # class-alphabet byte strings: first class enumerated, nfree symbolic (with a stop symbol for shorter strings)
    L.append('def _seq(first, rest):\n    out = [first]\n    for r in rest:\n        r = pin(r, %d)\n        if r == %d:\n            break\n        out.append(r)\n    return out\n' % (NA, NA))
    HOT = (0, 1, 2, 4, 5, 12, 14)        # \\ ? " LF NUL 0x80 BEL
    for a in range(NA):
        nfree = nfree0
        ps = ', '.join('s%d: int' % i for i in range(nfree))
        fn('cls_%02d' % a, ps, [' and '.join('0 <= s%d <= %d' % (i, NA) for i in range(nfree))],
           'return ok_sel(_seq(%d, [%s]))' % (a, ', '.join('s%d' % i for i in range(nfree))))
    # one more position when the first two bytes are both from the hot set (trigraph runs, escapes followed by digits, ...)
    for a in HOT:
        for b in HOT:
            ps = ', '.join('s%d: int' % i for i in range(nfree0))
            fn('hot_%02d_%02d' % (a, b), ps, [' and '.join('0 <= s%d <= %d' % (i, NA) for i in range(nfree0))],
               'return ok_sel([%d] + _seq(%d, [%s]))' % (a, b, ', '.join('s%d' % i for i in range(nfree0))))
    # split_string_literal with small limits over escape-token sequences
    ntok = 4 if tier == 'quick' else 5
    for limit in (6, 7, 8, 9):
        for t0 in range(NT):
            ps = ', '.join('k%d: int' % i for i in range(ntok - 1))
            fn('split_%d_%d' % (limit, t0), ps, [' and '.join('0 <= k%d <= %d' % (i, NT) for i in range(ntok - 1))],
               'return ok_split(_tseq(%d, [%s]), %d)' % (t0, ', '.join('k%d' % i for i in range(ntok - 1)), limit))
    L.insert(2, 'def _tseq(first, rest):\n    out = [first]\n    for r in rest:\n        r = pin(r, %d)\n        if r == %d:\n            break\n        out.append(r)\n    return out\n' % (NT, NT))
    L.extend(['def twin(s0: int, s1: int) -> bool:', '    """', '    pre: 0 <= s0 < 19 and 0 <= s1 < 19', '    post: _ == True', '    """',
              '    ok_sel([s0, s1])', '    return False', ''])
    open(path, 'w').write('\n'.join(L))
    return names


def run(rep, tier, only=None):
    snapshot.activate()
    d = snapshot.scratch_dir('c11')
    shutil.copy('/verif/vf/pysym/h_c11_base.py', d)
    H = os.path.join(d, 'h_c11.py')
    names = gen(H, tier)
    T = 600 if tier == 'quick' else 3000
    nfree, ntok = (3, 4) if tier == 'quick' else (4, 5)
    rep.functions += ['Cython/Compiler/StringEncoding.py: escape_byte_string, _replace_specials (_build_specials_replacer, _to_escape_sequence), '
                      'split_string_literal, escape_char, BytesLiteral.as_c_string_literal; Cython/Compiler/Code.py: _split_characters']
    rep.bounds += ['all byte strings of length <= 1 (all 256 values, symbolic bytes)',
                   'all byte strings of length <= %d (one less unless the first two bytes are both among \\ ? " LF NUL 0x80 BEL) over the 19 byte classes \\ ? " \' LF NUL 0 7 a = / DEL 0x80 0xFF BEL 1 f CR TAB '
                   '(first byte enumerated, the rest symbolic selectors)' % (nfree + 1),
                   'split_string_literal(s, limit) for limit in 6..9 and every s that is a sequence of <= %d escape tokens from '
                   'a 0 ? \\n \\\\ \\" \\033 \\377 7 (exactly the shapes escape_byte_string emits); the production limit 2000 is the same code with another parameter value' % ntok,
                   'escape_char for every byte value; the MSVC character-array arm (_split_characters) on the same byte strings',
                   'outside: strings whose interesting feature needs more class letters than the bound; what C compilers do beyond ISO C lexing']
    rep.assume('oracle: vf/pysym/ref_clex.py (trigraphs -> escapes -> adjacent-literal concatenation; octal <= 3 digits, hex greedy)',
               'a raw DEL (0x7F) inside a literal denotes byte 127 on the supported compilers',
               'selectors are symbolic ints; byte strings are concrete per path (regex substitution runs natively)')
    runner.run_twin(rep, H, 'twin', 60, extra_path=[d])
    runner.run_conditions(rep, H, [Cond(nm, T) for nm in names], extra_path=[d])
    rep.sample(dict(condition='cls_01', bytes='"?" followed by <= %d class bytes' % nfree))
