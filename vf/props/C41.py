"""C41 compiler directives apply exactly within their scope; directive strings parse or are rejected (PYSYM + GEN/CIR)."""
import multiprocessing as mp, os, subprocess, time
import z3
from .. import snapshot
from ..cir import build, solve, symex, stubs, ir
from ..gen import harness, arith
from ..pysym import runner
from ..pysym.runner import Cond

LEVEL = 'model_checking'
H = '/verif/vf/pysym/h_c41.py'

SIG = '(int a, int b, int* out) except -1'
BODY = '''
cdef int d0%(sig)s:
    out[0] = a // b
    return 0
@cython.cdivision(True)
cdef int d1%(sig)s:
    out[0] = a // b
    return 0
@cython.cdivision(False)
cdef int d2%(sig)s:
    out[0] = a // b
    return 0
@cython.cdivision(False)
@cython.cdivision(True)
cdef int d3%(sig)s:
    out[0] = a // b
    return 0
@cython.cdivision(True)
@cython.cdivision(False)
cdef int d4%(sig)s:
    out[0] = a // b
    return 0
cdef int d5%(sig)s:
    with cython.cdivision(True):
        out[0] = a // b
    return 0
@cython.cdivision(True)
cdef int d6%(sig)s:
    with cython.cdivision(False):
        out[0] = a // b
    return 0
cdef int d7%(sig)s:
    with cython.cdivision(True):
        with cython.cdivision(False):
            out[0] = a // b
    return 0
cdef int d8%(sig)s:
    with cython.cdivision(True):
        pass
    out[0] = a // b
    return 0
''' % dict(sig=SIG) + ''.join('def py_d%d(int a, int b):\n    cdef int r = 0\n    d%d(a, b, &r)\n    return r\n' % (i, i) for i in range(9))
# expected semantics of `a // b` in each function given the module-level default D (innermost wins; for stacked decorators the outermost)
EXPECT = lambda D: dict(d0=D, d1='trunc', d2='floor', d3='floor', d4='trunc', d5='trunc', d6='floor', d7='floor', d8=D)
# module configurations: (name, header line or None, -X options, expected module default)
CONFIGS = [('m_plain', None, {}, 'floor'),
           ('m_header', '# cython: cdivision=True', {}, 'trunc'),
           ('m_header_ws', '# cython: cdivision = True', {}, 'trunc'),
           ('m_option', None, {'cdivision': 'True'}, 'trunc'),
           ('m_header_over_option', '# cython: cdivision=False', {'cdivision': 'True'}, 'floor')]
_MODS = {}


def classify(job):
    mname, fn, expect = job
    B = _MODS[mname]
    t0 = time.time()
    T = int(os.environ.get('VF_QTIMEOUT', '60'))
    try:
        ex, env = B.new_exec()
        a, b = z3.BitVec('a', 32), z3.BitVec('b', 32)
        outr = ex.new_region('out', size=4, lazy=False)
        outr.fields[0] = (4, z3.BitVec('out0', 32))
        ret, rg = ex.run(B.cfunc(fn), [a, b, ex.ptr_to(outr)])
        res = ex.load(ex.ptr_to(outr), ir.T('int', bits=32), z3.BoolVal(True))
    except (symex.Unsupported, ir.ParseError, KeyError) as e:
        return [dict(name='%s.%s:encode' % (mname, fn), status='inconclusive', s=time.time() - t0, detail='Unsupported: %s' % e)]
    pre = [b != 0, z3.Not(z3.And(a == z3.BitVecVal(1 << 31, 32), b == -1))]
    spec = {'floor': arith.py_floordiv(a, b, True), 'trunc': a / b}
    out = []
    r, m, s = solve.check(pre + [z3.Not(z3.And(rg, ret == 0, res == spec[expect]))], T)
    d = dict(name='%s.%s: `a // b` has %s semantics for every a, b' % (mname, fn, 'Python floor' if expect == 'floor' else 'C truncation'),
             s=s, status={'unsat': 'proved', 'sat': 'refuted'}.get(r, 'inconclusive'))
    if r == 'sat':
        d['cex'] = dict(a=solve.model_int(m, a), b=solve.model_int(m, b), module=mname, fn=fn, expect=expect)
    out.append(d)
    other = 'trunc' if expect == 'floor' else 'floor'
    r, m, s = solve.check(pre + [rg, ret == 0, res != spec[other]], T)
    out.append(dict(name='%s.%s: distinguishable from the other semantics (witness)' % (mname, fn), s=s,
                    status={'sat': 'witness', 'unsat': 'vacuous'}.get(r, 'inconclusive')))
    if expect == 'floor':
        r, m, s = solve.check([b == 0, z3.Not(z3.And(rg, ret == z3.BitVecVal(-1, 32), env.error_is('PyExc_ZeroDivisionError')))], T)
        out.append(dict(name='%s.%s: zero divisor raises (cdivision off)' % (mname, fn), s=s, status={'unsat': 'proved', 'sat': 'refuted'}.get(r, 'inconclusive'),
                        cex=dict(a=1, b=0, module=mname, fn=fn, expect=expect) if r == 'sat' else None))
    return out


def build_modules(d):
    """compile every configuration with the real compiler; the last two modules are compiled in ONE compiler process
    (a header in the first must not leak into the second)"""
    for name, header, opts, default in CONFIGS:
        src = (header + '\n' if header else '') + 'cimport cython\n' + BODY
        _MODS[name] = harness.build_template(name, src, workdir=os.path.join(d, name), directives=opts)
    # same-process pair
    pdir = os.path.join(d, 'pair')
    os.makedirs(pdir, exist_ok=True)
    open(os.path.join(pdir, 'p_first.pyx'), 'w').write('# cython: cdivision=True\ncimport cython\n' + BODY)
    open(os.path.join(pdir, 'p_second.pyx'), 'w').write('cimport cython\n' + BODY)
    code = ("import sys, Cython; assert Cython.__file__.startswith(%r)\nfrom Cython.Compiler.Main import setuptools_main\n"
            "sys.argv = ['cython', '-3', 'p_first.pyx', 'p_second.pyx']\nsys.exit(setuptools_main())\n") % snapshot.make_overlay()
    p = subprocess.run([build.PY, '-c', code], env=snapshot.child_env(), capture_output=True, text=True, cwd=pdir)
    if p.returncode != 0:
        raise build.BuildError('pair compile failed: ' + (p.stdout + p.stderr)[-800:])
    for nm, default in (('p_first', 'trunc'), ('p_second', 'floor')):
        ll = build.lower(os.path.join(pdir, nm + '.c'))
        _MODS[nm] = harness.Built(nm, os.path.join(pdir, nm + '.c'), ll, ir.Module(open(ll).read()))
    return [(n, dflt) for n, h, o, dflt in CONFIGS] + [('p_first', 'trunc'), ('p_second', 'floor')]


REPLAY = r'''
import sys
sys.path.insert(0, %(dir)r)
import %(mod)s as M
'''


def run(rep, tier, only=None):
    snapshot.activate()
    T = 300 if tier == 'quick' else 900
    rep.functions += ['Cython/Compiler/Options.py: parse_directive_value, parse_directive_list, one_of, normalise_* validators',
                      'Cython/Compiler/ParseTreeTransforms.py InterpretCompilerDirectives (header / decorator / with scopes) and Main/CmdLine option plumbing, '
                      'observed through the C generated for `a // b` in 9 scope shapes x 7 module configurations']
    rep.bounds += ['parse_directive_value: every string-settable directive (all names in the defaults table with a non-list type) x 30 value spellings',
                   'parse_directive_list: two items `name <ws>=<ws> value` joined by comma/whitespace variants: 8 names x 6 values x 5 "=" spellings x 6 separators x 3 leading-blank variants (symbolic selectors)',
                   'scope: cdivision at {default, header, header with blanks, -X option, header over -X option, two modules in one compiler process} x '
                   '{no decorator, decorator True/False, stacked decorators both orders, with-block, with in decorated function, nested with, after a with-block}; '
                   'each generated function is classified BY THE SOLVER (floor vs truncation for all a, b) and must match the innermost-wins rule',
                   'outside: directives without a locally observable C-level effect; boundscheck/wraparound scopes']
    rep.assume('stacked decorators: the outermost decorator wins (behaviour of the unchanged tree, relied on by the seeded change that broke it)',
               'header beats -X / cythonize options, which beat the defaults (documented)')
    if not only or 'parse' in only:
        runner.run_twin(rep, H, 'twin', 60)
        runner.run_conditions(rep, H, [Cond('parse_value', T * 2), Cond('parse_list_1', T), Cond('parse_list_2', T)])
    if only and 'scope' not in only:
        return
    d = snapshot.scratch_dir('c41')
    try:
        mods = build_modules(d)
    except build.BuildError as e:
        rep.harness_error('template build failed: %s' % str(e)[:500])
        return
    jobs = []
    for mname, default in mods:
        for fn, exp in sorted(EXPECT(default).items()):
            jobs.append((mname, fn, exp))
    with mp.Pool(min(16, os.cpu_count() or 4)) as pool:
        results = pool.map(classify, jobs, chunksize=2)
    for job, res in zip(jobs, results):
        for dd in res:
            if dd['status'] == 'refuted':
                # the counterexample is a (module, function, a, b): replay on a native build
                ok, txt = replay(rep, dd['cex'])
                if ok:
                    rep.obligation(dd['name'], 'refuted', dd['s'], True, str(dd['cex']))
                    rep.violation('%s fails: %s' % (dd['name'], txt), dict(cex=dd['cex'], replay_output=txt))
                else:
                    rep.obligation(dd['name'], 'inconclusive', dd['s'], True, 'counterexample did not reproduce: %s' % txt)
            else:
                rep.obligation(dd['name'], dd['status'], dd['s'], True, dd.get('detail'))
    rep.cov['programs'] = len(jobs)
    rep.cov['states'] = len(jobs) * 4
    rep.cov['transitions'] = len(jobs) * 5
    rep.sample(dict(module='m_header_over_option', function='d6', expect='floor'))


_NAT = {}


def replay(rep, cex):
    B = _MODS[cex['module']]
    try:
        if cex['module'] not in _NAT:
            so = build.native(B.cfile)
            _NAT[cex['module']] = os.path.dirname(so)
    except build.BuildError as e:
        return None, str(e)[:300]
    a, b = cex['a'], cex['b']
    code = ("import sys\nsys.path.insert(0, %r)\nimport %s as M\n"
            "a, b, expect = %d, %d, %r\n"
            "try:\n    got = ('value', M.py_%s(a, b))\nexcept ZeroDivisionError:\n    got = ('zde',)\n"
            "if b == 0:\n    want = ('zde',) if expect == 'floor' else None\n"
            "else:\n    q = abs(a) // abs(b); q = q if (a < 0) == (b < 0) else -q\n    want = ('value', a // b if expect == 'floor' else q)\n"
            "print('REPLAY got', got, 'want', want)\nprint('REPLAY-REPRODUCED' if want is not None and got != want else 'REPLAY-HOLDS')\n") % (
                _NAT[cex['module']], B.name, a, b, cex['expect'], cex['fn'])
    p = subprocess.run([build.PY, '-c', code], capture_output=True, text=True, timeout=120)
    rep.validated += 1
    txt = (p.stdout + p.stderr).strip()[-300:]
    if p.returncode < 0:
        return True, 'process died with signal %d' % (-p.returncode)
    return 'REPLAY-REPRODUCED' in txt, txt
