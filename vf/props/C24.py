"""C24 argument binding (narrow): the keyword-matching slow path __Pyx_MatchKeywordArg_str over an arbitrary parameter table, and the
argument-unpacking wrappers of 6 signatures: what they hand to the keyword parser and that keyword names are validated (GEN + CIR)."""
import multiprocessing as mp, os, re, subprocess, time
import z3
from .. import snapshot
from ..cir import build, solve, symex, stubs, ir
from ..cir.symex import Ptr
from ..gen import harness

LEVEL = 'model_checking'
TEMPLATE = '''# cython: language_level=3
def f1(a, /, b, *args, k=1): return (a, b, args, k)
def f2(a, b=2, *, k): return (a, b, k)
def f3(a, /, b, c=3): return (a, b, c)
def f4(a, b, c=3, *args): return (a, b, c, args)
def fn(*args, **kwargs): return args
def fk(**kwargs): return 0
def fu(*args, **kwargs): return (args, kwargs)
'''
# signature facts: (positional-only count, keyword-capable positional count, has *args)
SIGS = {'f1': (1, 1, True), 'f2': (0, 2, False), 'f3': (1, 2, False), 'f4': (0, 3, True)}
_B = None
NNAMES = 4


def T():
    return int(os.environ.get('VF_QTIMEOUT', '120'))


def fname_of(B, prefix, fn):
    c = [f for f in B.module.functions if re.match(r'^__pyx_%s_\d+%s_\d*%s$' % (prefix, B.name, fn), f)]
    if len(c) != 1:
        raise KeyError('function %s not found (%r)' % (fn, c))
    return c[0]


def check_match(_):
    out = []
    t0 = time.time()
    fname = '__Pyx_MatchKeywordArg_str'
    try:
        ex, env = _B.new_exec(unroll=NNAMES + 2)
        for nm in ('Py_INCREF', 'Py_DECREF', 'Py_XDECREF'):
            ex.stubs[nm] = lambda ex_, g, a, rt, c: None
        nn = z3.BitVec('n_names', 64)                  # number of entries in the NULL-terminated parameter table (1..NNAMES)
        p = z3.BitVec('first_kw_index', 64)            # entries before it were filled positionally
        tab = ex.new_region('argnames', size=8 * (NNAMES + 1), lazy=False)
        names, slots, eqs, hashes = [], [], [], []
        keyhash = z3.BitVec('key_hash', 64)
        for k in range(NNAMES):
            nobj = ex.new_region('name%d' % k, size=None, lazy=True)
            h = z3.BitVec('name%d_hash' % k, 64)
            nobj.fields[24] = (8, h)
            slot = ex.new_region('slot%d' % k, size=8, lazy=False)
            slot.fields[0] = (8, ex.ptr_to(nobj))
            tab.fields[8 * k] = (8, Ptr(z3.If(z3.BitVecVal(k, 64) < nn, z3.BitVecVal(slot.base, 64), z3.BitVecVal(0, 64)), [slot.id, 0]))
            names.append(nobj); slots.append(slot); hashes.append(h)
            eqs.append(z3.Bool('key_equals_name%d' % k))
        tab.fields[8 * NNAMES] = (8, symex.NULLPTR)
        key = ex.new_region('key', size=None, lazy=True)
        key.fields[24] = (8, keyhash)

        def kweq(ex_, g, a, rt, caller):
            res = z3.BoolVal(False)
            for k in range(NNAMES):
                res = z3.If(a[0].bv == z3.BitVecVal(names[k].base, 64), eqs[k], res)
            return z3.If(res, z3.BitVecVal(1, rt.bits), z3.BitVecVal(0, rt.bits))
        ex.stubs['__Pyx_UnicodeKeywordsEqual'] = kweq
        ex.stubs['PyObject_Hash'] = lambda ex_, g, a, rt, c: keyhash
        idx = ex.new_region('index_found', size=8, lazy=False)
        idx.fields[0] = (8, z3.BitVec('index_before', 64))
        env.exc_type('PyExc_TypeError')
        fnname = ex.new_region('function_name', size=None, lazy=True)
        fbv = z3.BitVecVal(tab.base, 64)
        for k in range(1, NNAMES + 1):
            fbv = z3.If(p == k, z3.BitVecVal(tab.base + 8 * k, 64), fbv)
        first = Ptr(fbv, [tab.id])
        ret, rg = ex.run(fname, [ex.ptr_to(key), ex.ptr_to(tab), first, ex.ptr_to(idx), ex.ptr_to(fnname)])
    except (symex.Unsupported, ir.ParseError, KeyError, IndexError) as e:
        return [dict(name='keyword matching:encode', status='inconclusive', s=time.time() - t0, detail='Unsupported: %s' % str(e)[:300], mandatory=True)]
    pre = [nn >= 1, nn <= NNAMES, p >= 0, p <= nn, keyhash != -1] + list(ex.assumptions)
    # strings: equal strings have equal hashes; parameter names are pairwise different, so the key equals at most one of them
    for k in range(NNAMES):
        pre.append(z3.Implies(eqs[k], hashes[k] == keyhash))
        for j in range(k + 1, NNAMES):
            pre.append(z3.Not(z3.And(eqs[k], eqs[j])))
    found = idx.fields[0][1]
    live = lambda k: z3.BitVecVal(k, 64) < nn
    match_kw = z3.Or(*[z3.And(live(k), z3.BitVecVal(k, 64) >= p, eqs[k]) for k in range(NNAMES)])
    match_pos = z3.Or(*[z3.And(live(k), z3.BitVecVal(k, 64) < p, eqs[k]) for k in range(NNAMES)])
    want_idx = z3.BitVecVal(0, 64)
    for k in range(NNAMES):
        want_idx = z3.If(z3.And(live(k), eqs[k]), z3.BitVecVal(k, 64), want_idx)

    def cexf(m):
        return dict(kind='match', n=m.eval(nn, model_completion=True).as_long(), first_kw=m.eval(p, model_completion=True).as_long(),
                    equals=[bool(m.eval(e, model_completion=True)) for e in eqs])

    def ob(name, conds, kind_='unsat'):
        r, m, s = solve.check(pre + conds, T())
        d = dict(name='keyword name matching (non-interned key): %s' % name, s=s, mandatory=True)
        d['status'] = ({'unsat': 'proved', 'sat': 'refuted'} if kind_ == 'unsat' else {'sat': 'witness', 'unsat': 'vacuous'}).get(r, 'inconclusive')
        if r == 'sat' and kind_ == 'unsat':
            d['cex'] = cexf(m)
        out.append(d)
    ob('a key equal to a keyword-capable parameter name reports that parameter\'s index in the table (counted from the start of the table)',
       [match_kw, z3.Not(z3.And(rg, ret == 1, found == want_idx))])
    ob('a key equal to a parameter already filled positionally: TypeError (multiple values)', [match_pos, z3.Not(match_kw), z3.Not(z3.And(rg, ret == -1, env.error_is('PyExc_TypeError')))])
    ob('a key equal to no parameter name: 0, no exception, index untouched', [z3.Not(match_kw), z3.Not(match_pos), z3.Not(z3.And(rg, ret == 0, env.no_error(), found == z3.BitVec('index_before', 64)))])
    if ex.unwind:
        ob('loop unwinding bound suffices for tables of up to %d names' % NNAMES, [z3.Or(*[u[0] for u in ex.unwind])])
    ubs = [c for c, d_, f_ in ex.ub]
    if ubs:
        ob('no UB, reads stay inside the table', [z3.Or(*ubs)])
    ob('reach: match on the last of 4 names with 2 filled positionally', [rg, nn == 4, p == 2, eqs[3], ret == 1], kind_='witness')
    return out


def check_wrapper(fn):
    """the arguments the generated wrapper hands to __Pyx_ParseKeywords"""
    posonly, kwcap, star = SIGS[fn]
    out = []
    t0 = time.time()
    try:
        ex, env = _B.new_exec(unroll=4)
        for nm in ('Py_INCREF', 'Py_DECREF', 'Py_XDECREF', 'Py_XINCREF'):
            ex.stubs[nm] = lambda ex_, g, a, rt, c: None
        ex.stubs['__Pyx_AddTraceback'] = lambda ex_, g, a, rt, c: None
        ms = ex.global_ptr('__pyx_mstate_global_static')
        msr = ex.regions[next(iter(ms.regions))]
        msr.fields.clear()
        msr.lazy = True
        NA = 5
        arr = ex.new_region('args', size=8 * (NA + 2), lazy=False)
        for k in range(NA + 2):
            o, inv = env.make_opaque('arg%d' % k)
            ex.assumptions.append(inv)
            arr.fields[8 * k] = (8, o)
        nargs = z3.BitVec('nargs', 64)
        kw, kwinv = env.make_opaque('kwnames')
        nkw = z3.BitVec('n_kwnames', 64)
        ex.regions[next(iter(kw.regions))].fields[16] = (8, nkw)
        ex.assumptions += [kwinv, nargs >= 0, nargs <= NA, nkw >= 1, nkw <= 2]
        parses = []

        def parsekw(ex_, g, a, rt, caller):
            parses.append(env.event(g, 'ParseKeywords', a))
            return z3.BitVecVal(0, rt.bits)
        for nm in ('__Pyx_ParseKeywords', '__Pyx_ParseOptionalKeywords'):
            ex.stubs[nm] = parsekw
        for nm in ('__Pyx_ArgsSlice_FASTCALL', '__Pyx_PyTuple_FromArray', 'PyDict_New'):
            ex.stubs[nm] = (lambda n_: lambda ex_, g, a, rt, c: ex_.ptr_to(env.new_object(n_, dict(kind=n_))))(nm)
        ex.stubs[fname_of(_B, 'pf', fn)] = lambda ex_, g, a, rt, c: ex_.ptr_to(env.new_object('body', dict(kind='body')))
        ex.stubs['__Pyx_RaiseArgtupleInvalid'] = lambda ex_, g, a, rt, c: env.set_error(g, ex_.ptr_to(env.exc_type('PyExc_TypeError'))) or None
        ret, rg = ex.run(fname_of(_B, 'pw', fn), [symex.NULLPTR, ex.ptr_to(arr), nargs, kw])
    except (symex.Unsupported, ir.ParseError, KeyError, IndexError) as e:
        return [dict(name='%s:encode' % fn, status='inconclusive', s=time.time() - t0, detail='Unsupported: %s' % str(e)[:300], mandatory=True)]
    pre = list(ex.assumptions)
    pre.append(nargs >= posonly)          # fewer positional arguments than positional-only parameters: rejected before any keyword is looked at
    if not star:
        pre.append(nargs <= posonly + kwcap)
    # number of keyword-capable parameters already filled by positional arguments
    used = z3.If(nargs <= posonly, z3.BitVecVal(0, 64), z3.If(nargs - posonly > kwcap, z3.BitVecVal(kwcap, 64), nargs - posonly))
    good = z3.BoolVal(False)
    for e in parses:
        # (kwds, kwvalues, argnames, kwds2, values, num_pos_args, num_kwargs, function_name, ignore_unknown)
        values_off = e.args[4].bv
        good = z3.Or(good, z3.And(e.guard, e.args[0].bv == kw.bv, e.args[1].bv == z3.BitVecVal(arr.base, 64) + 8 * nargs, e.args[5] == used, e.args[6] == nkw))
    called = z3.Or(*[e.guard for e in parses]) if parses else z3.BoolVal(False)
    r, m, s = solve.check(pre + [rg, z3.Not(good)], T())
    d = dict(name='%s%s: with keyword arguments present the parser is given the keyword names, the keyword values (args + nargs), their count, and as "already filled" exactly the '
                  'keyword-capable parameters covered by positional arguments (positional-only ones and *args excluded)' % (fn, {'f1': '(a, /, b, *args, k=1)', 'f2': '(a, b=2, *, k)', 'f3': '(a, /, b, c=3)', 'f4': '(a, b, c=3, *args)'}[fn]),
             s=s, mandatory=True, status={'unsat': 'proved', 'sat': 'refuted'}.get(r, 'inconclusive'))
    if r == 'sat':
        d['cex'] = dict(kind='wrapper', fn=fn, nargs=m.eval(nargs, model_completion=True).as_long(), nkw=m.eval(nkw, model_completion=True).as_long())
    out.append(d)
    r2, _, s2 = solve.check(pre + [rg, called, nargs == posonly + 1], T())
    out.append(dict(name='%s: reach' % fn, s=s2, mandatory=True, status={'sat': 'witness', 'unsat': 'vacuous'}.get(r2, 'inconclusive')))
    return out


def check_kwstrings(fn):
    """signatures of only *args / **kwargs: keyword names are validated whenever keywords are present"""
    out = []
    t0 = time.time()
    try:
        ex, env = _B.new_exec(unroll=3)
        for nm in ('Py_INCREF', 'Py_DECREF', 'Py_XDECREF', 'Py_XINCREF'):
            ex.stubs[nm] = lambda ex_, g, a, rt, c: None
        ex.stubs['__Pyx_AddTraceback'] = lambda ex_, g, a, rt, c: None
        ms = ex.global_ptr('__pyx_mstate_global_static')
        msr = ex.regions[next(iter(ms.regions))]
        msr.fields.clear()
        msr.lazy = True
        args, ainv = env.make_opaque('args_tuple', tpflags=stubs.TPFLAGS_TUPLE)
        kw, kinv = env.make_opaque('kwds_dict', tpflags=stubs.TPFLAGS_DICT)
        nkw = z3.BitVec('n_keywords', 64)
        has_kw = z3.Bool('kwds_given')
        ex.assumptions += [ainv, kinv, nkw >= 0, nkw <= 3]
        ex.regions[next(iter(args.regions))].fields[16] = (8, z3.BitVecVal(0, 64))
        checks = []
        bad = z3.Bool('a_keyword_name_is_not_a_string')

        def chk(ex_, g, a, rt, caller):
            checks.append(env.event(g, 'CheckKeywordStrings', a))
            env.set_error(z3.And(g, bad), ex_.ptr_to(env.exc_type('PyExc_TypeError')))
            return z3.If(bad, z3.BitVecVal(-1, rt.bits), z3.BitVecVal(0, rt.bits))
        ex.stubs['__Pyx_CheckKeywordStrings'] = chk
        for nm in ('PyDict_Size', '__Pyx_NumKwargs_VARARGS', 'PyDict_GET_SIZE'):
            ex.stubs[nm] = lambda ex_, g, a, rt, c: nkw
        ex.regions[next(iter(kw.regions))].fields[16] = (8, nkw)          # ma_used
        bodies = []
        ex.stubs[fname_of(_B, 'pf', fn)] = lambda ex_, g, a, rt, c: (bodies.append(env.event(g, 'body', a)), ex_.ptr_to(env.new_object('body', dict(kind='body'))))[1]
        for nm in ('PyDict_Copy', 'PyDict_New', '__Pyx_PyDict_Copy'):
            ex.stubs[nm] = (lambda n_: lambda ex_, g, a, rt, c: ex_.ptr_to(env.new_object(n_, dict(kind=n_))))(nm)
        kwp = Ptr(z3.If(has_kw, kw.bv, z3.BitVecVal(0, 64)), kw.regions | {0})
        w = _B.module.functions[fname_of(_B, 'pw', fn)]
        if len(w.params) == 4:
            # vectorcall convention: CPython itself guarantees that the keyword-name tuple holds strings; nothing to validate
            return [dict(name='%s: vectorcall convention (keyword names are strings by CPython\'s contract)' % fn, status='proved', s=0.0, mandatory=False)]
        ret, rg = ex.run(fname_of(_B, 'pw', fn), [symex.NULLPTR, args, kwp])
    except (symex.Unsupported, ir.ParseError, KeyError, IndexError) as e:
        return [dict(name='%s:encode' % fn, status='inconclusive', s=time.time() - t0, detail='Unsupported: %s' % str(e)[:300], mandatory=True)]
    pre = list(ex.assumptions)
    checked = z3.Or(*[z3.And(e.guard, e.args[0].bv == kw.bv) for e in checks]) if checks else z3.BoolVal(False)
    ran = z3.Or(*[e.guard for e in bodies]) if bodies else z3.BoolVal(False)
    sig = {'fn': '(*args, **kwargs) with kwargs unused', 'fk': '(**kwargs) with kwargs unused', 'fu': '(*args, **kwargs) with kwargs used'}[fn]

    def ob(name, conds):
        r, m, s = solve.check(pre + conds, T())
        d = dict(name='%s%s: %s' % (fn, sig, name), s=s, mandatory=True, status={'unsat': 'proved', 'sat': 'refuted'}.get(r, 'inconclusive'))
        if r == 'sat':
            d['cex'] = dict(kind='kwstrings', fn=fn, nkw=m.eval(nkw, model_completion=True).as_long())
        out.append(d)
    ob('keyword names are validated whenever keyword arguments are present (whether or not the body reads **kwargs)', [rg, has_kw, nkw > 0, z3.Not(checked)])
    ob('a non-string keyword name: TypeError, the body does not run', [rg, has_kw, nkw > 0, bad, z3.Not(z3.And(ret.bv == 0, z3.Not(ran), z3.Not(env.no_error())))])
    return out


REPLAY = r'''
import sys
sys.path.insert(0, %(dir)r)
import %(mod)s as M
c = %(cex)r
bad = []
def outcome(f, *a, **k):
    try: return ('v', f(*a, **k))
    except TypeError as e: return ('TypeError',)
def py_f1(a, /, b, *args, k=1): return (a, b, args, k)
def py_f2(a, b=2, *, k): return (a, b, k)
def py_f3(a, /, b, c=3): return (a, b, c)
def py_f4(a, b, c=3, *args): return (a, b, c, args)
def py_fn(*args, **kwargs): return args
def py_fk(**kwargs): return 0
def py_fu(*args, **kwargs): return (args, kwargs)
PY = dict(f1=py_f1, f2=py_f2, f3=py_f3, f4=py_f4, fn=py_fn, fk=py_fk, fu=py_fu)
def nonint(s): return ''.join(list(s))        # an equal but not interned / not identical string
for name, f in PY.items():
    g = getattr(M, name)
    for npos in range(0, 5):
        pos = tuple(range(10, 10 + npos))
        for kws in ({}, {'k': 5}, {'b': 6}, {'c': 7}, {'a': 8}, {'b': 6, 'k': 5}, {nonint('c'): 3}, {nonint('k'): 3, nonint('b'): 4}, {'zz': 1}):
            got, want = outcome(g, *pos, **kws), outcome(f, *pos, **kws)
            if got != want: bad.append((name, pos, kws, got, want))
    if name in ('fn', 'fk', 'fu'):
        got, want = outcome(g, **{1: 2}) if False else None, None
        try: got = ('v', g(**{1: 2}))
        except TypeError: got = ('TypeError',)
        try: want = ('v', f(**{1: 2}))
        except TypeError: want = ('TypeError',)
        if got != want: bad.append((name, 'non-string keyword', got, want))
print('REPLAY', bad[:4])
print('REPLAY-REPRODUCED' if bad else 'REPLAY-HOLDS')
'''
_NATIVE = None


def replay(rep, cex):
    global _NATIVE
    try:
        if _NATIVE is None:
            _NATIVE = build.native(_B.cfile)
    except build.BuildError as e:
        return None, 'native build failed: %s' % e
    p = subprocess.run(['/verif/.venv/bin/python', '-c', REPLAY % dict(dir=os.path.dirname(_NATIVE), mod=_B.name, cex=cex)], capture_output=True, text=True, timeout=120)
    txt = (p.stdout + p.stderr).strip()[-700:]
    rep.validated += 1
    if p.returncode < 0:
        return True, 'process died with signal %d' % (-p.returncode)
    return 'REPLAY-REPRODUCED' in txt, txt


def worker(job):
    return dict(match=check_match, wrapper=check_wrapper, kwstrings=check_kwstrings)[job[0]](job[1])


def _init(B):
    global _B
    _B = B


def run(rep, tier, only=None):
    global _B
    snapshot.activate()
    _B = harness.build_template('c24t', TEMPLATE)
    jobs = [('match', None)] + [('wrapper', f) for f in SIGS] + [('kwstrings', f) for f in ('fn', 'fk', 'fu')]
    if only:
        jobs = [j for j in jobs if only in j[0] or only == j[1]]
    rep.functions += ['Cython/Utility/FunctionArguments.c: __Pyx_MatchKeywordArg_str; generated argument-unpacking wrappers (Nodes.DefNodeWrapper.generate_keyword_unpacking_code / '
                      'generate_stararg_copy_code) of 7 signatures with positional-only, defaults, *args, keyword-only and **kwargs parameters [%s]' % build.sha(_B.cfile)]
    rep.bounds += ['keyword matching: any parameter table of 1..%d pairwise different names, any split between positionally filled and keyword-capable entries, any key (equal to one name '
                   'or to none, hashes consistent with equality)' % NNAMES,
                   'wrappers: 0..5 positional arguments, 1..2 keyword arguments; what is handed to the keyword parser (the parser itself is checked only through the matching kernel)',
                   'outside: the fast pointer-identity path and the dict-based parsers, default-value evaluation, **kwargs dict construction, error message texts']
    rep.assume('CPython strings: equal strings have equal hashes', 'reference counts ignored (C35)')
    with mp.Pool(min(8, os.cpu_count() or 4), initializer=_init, initargs=(_B,)) as pool:
        results = pool.map(worker, jobs, chunksize=1)
    for job, res in zip(jobs, results):
        for d in res:
            if d['status'] == 'refuted':
                ok, txt = replay(rep, d['cex'])
                if ok:
                    rep.obligation(d['name'], 'refuted', d['s'], True, str(d['cex'])[:600])
                    rep.violation('%s fails for %s: %s' % (d['name'], str(d['cex'])[:500], txt), dict(cex=d['cex'], replay_output=txt))
                else:
                    rep.obligation(d['name'], 'inconclusive', d['s'], d.get('mandatory', True), 'counterexample %s did not reproduce: %s' % (str(d['cex'])[:400], txt))
            else:
                rep.obligation(d['name'], d['status'], d['s'], d.get('mandatory', True), d.get('detail'))
    rep.cov['states'] = sum(len(r) for r in results)
    rep.cov['transitions'] = sum(len(r) for r in results)
    rep.sample(dict(function='__Pyx_MatchKeywordArg_str', inputs='table of up to 4 names, first keyword index, equality of the key with each name symbolic'))
