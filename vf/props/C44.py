"""C44 position-table encoder round-trips (PYAST primary, CrossHair secondary search)."""
import os, random, sys, time, z3
from ..pysym import runner
from ..pysym.runner import Cond
from ..pyast import symex
from .. import snapshot

LEVEL = 'model_checking'
H = '/verif/vf/pysym/h_c44.py'
B = 2 ** 30


def validate_reference(rep, seed):
    """ref_linetable.decode == CPython's co_positions() on tables produced by an independent encoder
    covering all forms (validates the oracle, not the code under test)."""
    from ..pysym import ref_linetable as R
    rnd = random.Random(seed)
    n = 0
    for _ in range(300):
        first = rnd.randint(1, 50)
        line = first
        tab, exp = [], []
        for _ in range(rnd.randint(1, 4)):
            form = rnd.choice('short one long'.split())
            if form == 'short':
                sc = rnd.randint(0, 79); ec = sc + rnd.randint(0, 15)
                tab += [128 | ((sc >> 3) << 3), ((sc & 7) << 4) | (ec - sc)]
                exp.append((line, line, sc, ec))
            elif form == 'one':
                d = rnd.randint(0, 2); line += d
                sc, ec = rnd.randint(0, 127), rnd.randint(0, 127)
                tab += [128 | ((10 + d) << 3), sc, ec]
                exp.append((line, line, sc, ec))
            else:
                d = rnd.randint(0, 5000); line += d
                el = rnd.randint(0, 300); sc = rnd.randint(0, 70000); ec = rnd.randint(0, 70000)
                tab.append(128 | (14 << 3))
                for v in (d << 1, el, sc + 1, ec + 1):
                    while v >= 64:
                        tab.append(64 | (v & 63)); v >>= 6
                    tab.append(v)
                exp.append((line, line + el, sc, ec))
        t = ''.join(map(chr, tab))
        if not (R.decode(t, first) == exp == R.cpython_decode(t, first, len(exp))):
            rep.harness_error('reference decoder disagrees with CPython on %r' % (tab,))
            return
        n += 1
    rep.validated += n
    rep.sample(dict(reference_validation='ref_linetable.decode == code.co_positions() on %d generated tables' % n))


def _pre(first, ps):
    cs = [first >= 1, first < B]
    last = first
    for (sl, el, sc, ec) in ps:
        cs += [sl >= last, el >= sl, el < B, sc >= 0, sc < B, ec >= 0, ec < B, z3.Implies(el == sl, ec >= sc)]
        last = sl
    return cs


def _model_call(fn, names, m):
    vals = [m.eval(z3.BitVec(n, 64), model_completion=True).as_signed_long() for n in names]
    return '%s(%s)' % (fn, ', '.join(map(str, vals)))


def known_classifier(call, func):
    # F6 (fixed): a multi-line position followed by another one.  Kept for the record only.
    return None


# ---- traceback line after a finally clause (GEN + CIR, exception machinery of C22) -----------------------------------------------------
FL_TEMPLATE = """# cython: language_level=3
def fin_line(f, g):
    try:
        f()
    finally:
        try:
            g()
        except ValueError:
            pass
    return f
"""
FL_LINE_F, FL_LINE_G = 4, 7
FL_REPLAY = r"""
import sys, traceback
sys.path.insert(0, %(dir)r)
import %(mod)s as M
def f(): raise KeyError('f')
def g(): raise ValueError('g')
bad = []
try:
    M.fin_line(f, g)
    bad.append('no exception')
except KeyError as e:
    lines = [fr.lineno for fr in traceback.extract_tb(e.__traceback__) if fr.name.split('.')[-1] == 'fin_line']
    allf = [(fr.name, fr.lineno) for fr in traceback.extract_tb(e.__traceback__)]
    if lines != [%(line)d]: bad.append(('traceback lines of fin_line', lines, allf))
print('REPLAY-REPRODUCED' if bad else 'REPLAY-HOLDS', bad)
"""


def run_finline(rep, tier):
    """the exception that is re-raised after a finally clause is reported at the line where it was raised, also when the clause handled an exception of its own in between"""
    import subprocess
    from ..gen import harness
    from ..cir import build, solve, stubs, ir, symex as csym
    from . import C22, C35
    Bt = harness.build_template('c44ln', FL_TEMPLATE)
    C22._B = Bt
    C35._B = Bt
    rep.functions.append('generated code of a try/finally whose finally clause handles an exception of its own (Nodes.TryFinallyStatNode.put_error_catcher / put_error_uncatcher: '
                         'saving and restoring __pyx_lineno / __pyx_clineno / __pyx_filename) up to the __Pyx_AddTraceback call [%s]' % build.sha(Bt.cfile))
    rep.bounds.append('fin_line kernel: every combination of success / failure of the two calls, of the exception match and of the C-API calls of the handler; __Pyx_AddTraceback is an '
                      'event carrying the line it is given; outside: other shapes of finally clauses, the frame / traceback objects built by __Pyx_AddTraceback')
    name = 'fin_line: the exception re-raised after the finally clause is reported at the line of the call that raised it (line %d), whatever happened inside the clause' % FL_LINE_F
    t0 = time.time()
    try:
        ex, env = Bt.new_exec(unroll=3)
        tr = C22.ExcTracker(ex, env)
        tr.install()
        for g_ in ('_Py_NoneStruct', '_Py_TrueStruct', '_Py_FalseStruct'):
            p = ex.global_ptr(g_)
            ex.regions[next(iter(p.regions))].fields[stubs.OB_REFCNT] = (8, z3.BitVecVal(0xFFFFFFFF, 64))
        msr = ex.regions[next(iter(ex.global_ptr('__pyx_mstate_global_static').regions))]
        msr.fields.clear()
        msr.lazy = True
        tbs = []
        ex.stubs['__Pyx_AddTraceback'] = lambda ex_, g, a, rt, c: tbs.append((g, a[2]))
        args = [tr.arg('arg%d' % i) for i in range(2)]
        ret, rg = ex.run(C35.fname_of(Bt, 'pf', 'fin_line'), [csym.NULLPTR] + args)
    except (csym.Unsupported, ir.ParseError, KeyError, IndexError) as e:
        rep.obligation(name, 'inconclusive', time.time() - t0, True, 'Unsupported: %s' % str(e)[:300])
        return
    pre = list(ex.assumptions)
    T = int(os.environ.get('VF_QTIMEOUT', '120'))
    reraised = z3.BoolVal(False)
    for (g, p) in tr.restored:
        for ok, first in tr.fetched:
            reraised = z3.Or(reraised, z3.And(g, ok, p.bv == z3.BitVecVal(first.base, 64)))
    okline = z3.And(*[z3.Implies(g, ln == FL_LINE_F) for g, ln in tbs]) if tbs else z3.BoolVal(True)
    anyline = z3.And(*[z3.Implies(g, z3.Or(ln == FL_LINE_F, ln == FL_LINE_G)) for g, ln in tbs]) if tbs else z3.BoolVal(True)
    matched = [f for f in tr.flags if 'ExceptionMatches' in str(f)]
    r, m, s = solve.check(pre + [rg, reraised, z3.Not(okline)], T)
    if r == 'sat':
        try:
            so = build.native(Bt.cfile)
            pr = subprocess.run(['/verif/.venv/bin/python', '-c', FL_REPLAY % dict(dir=os.path.dirname(so), mod=Bt.name, line=FL_LINE_F)], capture_output=True, text=True, timeout=120)
            txt = (pr.stdout + pr.stderr).strip()[-400:]
        except build.BuildError as e:
            txt = 'native build failed: %s' % e
        rep.validated += 1
        if 'REPLAY-REPRODUCED' in txt:
            rep.obligation(name, 'refuted', s, True, txt)
            rep.violation('%s: f raises KeyError, g raises ValueError (handled inside the finally clause): %s' % (name, txt), dict(kernel='fin_line', replay_output=txt))
        else:
            rep.obligation(name, 'inconclusive', s, True, 'counterexample did not reproduce: %s' % txt[:200])
    else:
        rep.obligation(name, 'proved' if r == 'unsat' else 'inconclusive', s, True, None)
    r, m, s = solve.check(pre + [rg, z3.Not(anyline)], T)
    rep.obligation('fin_line: every traceback entry carries the line of one of the two calls', {'unsat': 'proved', 'sat': 'refuted'}.get(r, 'inconclusive'), s, False, None)
    r, m, s = solve.check(pre + [rg, reraised] + ([z3.Or(*[f == 1 for f in matched])] if matched else []), T)
    rep.obligation('fin_line: reach: re-raise after the finally clause caught and handled its own exception', {'sat': 'witness', 'unsat': 'vacuous'}.get(r, 'inconclusive'), s, True, None)


def run(rep, tier, only=None):
    root = snapshot.activate()
    if not only or 'finline' in only:
        run_finline(rep, tier)
        if only and 'finline' in only:
            return
    if not only or 'codeobj' in only:
        run_codeobj(rep, tier)
        if only and 'codeobj' in only:
            return
    src = open(os.path.join(root, 'Cython/Compiler/LineTable.py')).read()
    hsrc = open('/verif/vf/pyast/h_c44_src.py').read()
    rep.functions += ['Cython/Compiler/LineTable.py (AST of the working tree): build_line_table, encode_single_position, '
                      'encode_location_short, encode_location_oneline, encode_location_start, encode_varint']
    npos = 2        # lists of 3 positions: z3 answers unknown after 600 s at a branch of the 3rd entry; longer lists are covered by the inductive step below, not by unrolling
    rep.bounds += ['positions: every start-sorted list of <= %d four-tuples, all line/column values symbolic in [0, 2^30), firstlineno in [1, 2^30)' % npos,
                   'encode_varint: all values in [0, 2^32); loop unwound 8 with unwinding assertion',
                   'compositional: level 1 proves encode_varint(v) is a self-delimiting code of v under the reference varint reader; '
                   'level 2 proves the table with varints kept as abstract tokens decodes to the input',
                   'ints are 64-bit bit-vectors with no-overflow side obligations (all discharged) standing in for Python ints',
                   'outside: lists longer than %d (the encoder keeps only last_lineno between entries); traceback objects, __Pyx_AddTraceback' % npos]
    rep.assume('oracle: reference decoder transcribed from CPython InternalDocs/locations.md; its byte-level twin '
               '(vf/pysym/ref_linetable.decode) is validated each run against code.co_positions()',
               'precondition = what the encoder documents: start-sorted, end_line >= start_line, same-line ranges have end_col >= start_col',
               'entry length field is always 1 code unit (as emitted)')
    validate_reference(rep, rep.seed)

    # ---- level 1: varint (real loop, unrolled) -------------------------------------------------
    it = symex.Interp({'LineTable': src, 'h': hsrc}, loop_bound=8)
    v = z3.BitVec('v', 64)
    t0 = time.time()
    try:
        ok, m, st = symex.prove_all_paths(it, 'check_varint', [v], [v >= 0, v < 2 ** 32], 'varint')
    except symex.Unsupported as e:
        ok, m, st = None, None, dict(why='Unsupported: %s' % e, paths=0)
    _report(rep, 'L1 encode_varint is a self-delimiting code of v (all v < 2^32)', ok, m, st, time.time() - t0,
            lambda m: 'check_varint(%d)' % m.eval(v, model_completion=True).as_signed_long(), it)

    # ---- level 2: positions with varint tokens -----------------------------------------------
    def sum_varint(interp, lst, value):
        if isinstance(value, int):
            value = z3.BitVecVal(value, 64)
        interp.side.append((value >= 0, 'encode_varint argument is non-negative (it is a C unsigned int)'))
        lst.append(symex.Token('varint', value))
        return 0

    def token_value(interp, tok):
        if not isinstance(tok, symex.Token):
            raise symex.Raised('TypeError', 'expected a varint token, got a byte')
        return tok.value
    _step(rep, src, hsrc, sum_varint, token_value)
    for n in range(1, npos + 1):
        it = symex.Interp({'LineTable': src, 'h': hsrc}, summaries={'encode_varint': sum_varint, 'token_value': token_value}, loop_bound=8)
        first = z3.BitVec('first', 64)
        names = ['first']
        ps = []
        for k in range(n):
            tup = tuple(z3.BitVec('%s%d' % ('abcd'[k], j), 64) for j in range(4))
            names += ['%s%d' % ('abcd'[k], j) for j in range(4)]
            ps.append(tup)
        args = [first] + [x for tup in ps for x in tup]
        t0 = time.time()
        try:
            ok, m, st = symex.prove_all_paths(it, 'check_rt%d' % n, args, _pre(first, ps), 'rt%d' % n)
        except symex.Unsupported as e:
            ok, m, st = None, None, dict(why='Unsupported: %s' % e, paths=0)
        _report(rep, 'L2 build_line_table round-trips for every sorted list of %d positions' % n, ok, m, st, time.time() - t0,
                lambda m, n=n, names=names: _model_call('check_rt%d' % n, names, m), it)

    # ---- vacuity: a long-form + multi-line path is reachable -------------------------------------
    runner.run_twin(rep, H, 'twin_rt2', 30)
    # ---- secondary: CrossHair counterexample search on the byte-level harness (not mandatory) ----
    T = 20 if tier == 'quick' else 120
    runner.run_conditions(rep, H, [Cond('check_rt2', T, mandatory=False), Cond('check_rt2_single_line', T, mandatory=False)])


def run_codeobj(rep, tier):
    """first-line / argument-count bit-fields of the code object descriptions (PYSYM)"""
    import shutil
    import concurrent.futures as cf
    HC = '/verif/vf/pysym/h_codeobj.py'
    d = snapshot.scratch_dir('c44co')
    shutil.copy(HC, os.path.join(d, 'h_codeobj.py'))
    specs = []
    for g1 in (0, 1):
        for two in (0, 1):
            specs.append(('codeobj_lines_g%d_n%d' % (g1, two + 1), 'l1: int, l2: int, g2: int', '0 <= l1 < 14 and 0 <= l2 < %d and 0 <= g2 < %d' % ((14, 2) if two else (1, 1)),
                          'B.check_lines(l1, %d, %d, l2, g2)' % (g1, two)))
    for a1 in range(4):
        for k1 in range(3):
            specs.append(('codeobj_args_a%d_k%d' % (a1, k1), 'p1: int, g1: int, two: int, a2: int, k2: int, g2: int',
                          '0 <= p1 <= %d and 0 <= g1 < 2 and 0 <= two < 2 and 0 <= a2 < 4 and 0 <= k2 < 3 and 0 <= g2 < 2' % a1, 'B.check_args(%d, %d, p1, g1, two, a2, k2, g2)' % (a1, k1)))
    specs += [('codeobj_locals', 'v1: int, two: int, v2: int, g2: int', '0 <= v1 < 9 and 0 <= two < 2 and 0 <= v2 < 9 and 0 <= g2 < 2', 'B.check_locals(v1, two, v2, g2)'),
              ('codeobj_flags', 's1: int, ss1: int, kind1: int, g1: int, two: int', '0 <= s1 < 2 and 0 <= ss1 < 2 and 0 <= kind1 < 4 and 0 <= g1 < 2 and 0 <= two < 2', 'B.check_flags(s1, ss1, kind1, g1, two)')]
    files = []
    for nm, params, pre, call in specs:
        M = ['import h_codeobj as B', '', 'def %s(%s) -> bool:' % (nm, params), '    """', '    pre: ' + pre, '    post: _ == True', '    """', '    return ' + call, '']
        if not files:
            M += ['def twin(l1: int) -> bool:', '    """', '    pre: 0 <= l1 < 14', '    post: _ == True', '    """', '    return B.twin(l1)', '']
        f = os.path.join(d, 'g_%s.py' % nm)
        open(f, 'w').write('\n'.join(M))
        files.append((f, nm))
    rep.functions += ['Cython/Compiler/Code.py: GlobalState.generate_codeobject_constants; Cython/Compiler/ExprNodes.py: CodeObjectNode.generate_codeobj (on stand-in function nodes)']
    rep.bounds += ['code object descriptions of 1..2 functions: first lines out of {1, 2, 3, 4, 7, 8, 15, 16, 255, 256, 1023, 1024, 65535, 65536}, 0..3 positional and 0..2 keyword-only '
                   'arguments, 0..a positional-only, 0..8 locals, *args/**kw, plain/generator/coroutine/async generator, generator expression or not; selectors symbolic, one field group per '
                   'condition: every initialiser fits the bit-field declared for it and is the value of its own function']
    runner.run_twin(rep, files[0][0], 'twin', 120, extra_path=[d])
    with cf.ThreadPoolExecutor(max_workers=16) as ex:
        list(ex.map(lambda fn: runner.run_conditions(rep, fn[0], [Cond(fn[1], 1500)], jobs=1, extra_path=[d]), files))


def _step(rep, src, hsrc, sum_varint, token_value):
    it = symex.Interp({'LineTable': src, 'h': hsrc}, summaries={'encode_varint': sum_varint, 'token_value': token_value}, loop_bound=8)
    names = ['last', 'a0', 'a1', 'a2', 'a3']
    last, a0, a1, a2, a3 = [z3.BitVec(n, 64) for n in names]
    pre = [last >= 1, last < B, a0 >= last, a1 >= a0, a1 < B, a2 >= 0, a2 < B, a3 >= 0, a3 < B, z3.Implies(a1 == a0, a3 >= a2)]
    t0 = time.time()
    try:
        ok, m, st = symex.prove_all_paths(it, 'check_step', [last, a0, a1, a2, a3], pre, 'step')
    except symex.Unsupported as e:
        ok, m, st = None, None, dict(why='Unsupported: %s' % e, paths=0)

    def mk(m):
        v = [m.eval(z3.BitVec(n, 64), model_completion=True).as_signed_long() for n in names]
        # replay through the byte-level harness: previous entry (last,last,0,0) establishes the running line
        return 'check_rt2(%d, %d, %d, 0, 0, %d, %d, %d, %d)' % (v[0], v[0], v[0], v[1], v[2], v[3], v[4])
    _report(rep, 'L2 inductive step: encode_single_position from ANY running line (lists of any length)', ok, m, st, time.time() - t0, mk, it)


def _report(rep, name, ok, m, st, secs, mkcall, it):
    rep.cov['states'] = rep.cov.get('states', 0) + st.get('paths', 0)
    rep.cov['transitions'] = rep.cov.get('transitions', 0) + it.queries
    if ok is True:
        rep.obligation(name + ' [%d paths]' % st['paths'], 'proved', secs)
        rep.sample(dict(obligation=name, paths=st['paths'], solver_queries=it.queries))
        return
    if ok is None or m is None:
        rep.obligation(name, 'inconclusive', secs, True, st.get('why'))
        return
    call = mkcall(m)
    repro, txt = runner.replay_call(H, call)
    rep.validated += 1
    if not repro:
        rep.obligation(name, 'inconclusive', secs, True, 'counterexample %s did not reproduce on the real code: %s' % (call, txt))
        return
    rep.obligation(name, 'refuted', secs, True, call + ' :: ' + str(st.get('why')))
    rep.violation('%s fails for %s (%s)' % (name, call, st.get('why')), dict(harness=H, call=call, replay_output=txt))
