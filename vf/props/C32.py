"""C32 exception declarations of cdef functions: call-site tests and function exit code for every specification (GEN + CIR)."""
import multiprocessing as mp, os, re, struct, subprocess, time
import z3
from .. import snapshot
from ..cir import build, solve, symex, stubs, ir
from ..cir.symex import Ptr
from ..gen import harness

LEVEL = 'model_checking'
_B = None
# callee: (name, C return type, spec, sentinel text, threshold below which the body raises)
CALLEES = [
    ('i_m1', 'int', 'except -1', -1, 0), ('i_q1', 'int', 'except? -1', -1, -5), ('i_q0', 'int', 'except? 0', 0, -5),
    ('uc_m1', 'unsigned char', 'except -1', 255, 0), ('us_q', 'unsigned short', 'except? -1', 65535, -5),
    ('l_m1', 'long', 'except -1', -1, 0), ('l_q', 'long', 'except? -7', -7, -5),
    ('sc_q', 'signed char', 'except? -1', -1, -5),
    ('d_nan', 'double', 'except NAN', 'nan', 0), ('d_q', 'double', 'except? -1.0', -1.0, -5), ('d_qnan', 'double', 'except? NAN', 'nan', -5),
    ('f_q', 'float', 'except? -1.0', -1.0, -5),
    ('v_star', 'void', 'except *', None, 0), ('i_star', 'int', 'except *', -1, 0), ('i_no', 'int', 'noexcept', None, 0),
    ('q_nogil', 'int', 'except? -1 nogil', -1, -5), ('m_nogil', 'int', 'except -1 nogil', -1, 0), ('s_nogil', 'int', 'except * nogil', -1, 0),
]
ARG = {'int': 'int', 'unsigned char': 'int', 'unsigned short': 'int', 'long': 'long', 'signed char': 'int', 'double': 'double', 'float': 'float', 'void': 'int'}


def template():
    out = ['# cython: language_level=3', 'from libc.math cimport NAN']
    for name, rt, spec, sent, thr in CALLEES:
        at = ARG[rt]
        nogil = 'nogil' in spec
        out.append('cdef %s %s(%s x) %s:' % (rt, name, at, spec))
        if nogil:
            out.append('    if x < %d:\n        with gil: raise ValueError("neg")' % thr)
        else:
            out.append('    if x < %d: raise ValueError("neg")' % thr)
        if rt != 'void':
            out.append('    return <%s>x' % rt)
        if nogil:
            out.append('def call_%s(%s x):\n    cdef %s r\n    with nogil:\n        r = %s(x)\n    return r' % (name, at, rt, name))
        elif rt == 'void':
            out.append('def call_%s(%s x):\n    %s(x)\n    return 1' % (name, at, name))
        else:
            out.append('def call_%s(%s x): return %s(x)' % (name, at, name))
    out.append('cdef int chain_q(int x) except? -2:\n    return i_q1(x) + 1')
    out.append('cdef int chain_m(int x) except -2:\n    return i_m1(x)')
    out.append('cdef int chain_no(int x) noexcept:\n    return i_q1(x)')
    out.append('def call_chain(int x): return chain_q(x), chain_m(x), chain_no(x)')
    return '\n'.join(out) + '\n'


TEMPLATE = template()
BITS = {'int': 32, 'unsigned char': 8, 'unsigned short': 16, 'long': 64, 'signed char': 8}


def T():
    return int(os.environ.get('VF_QTIMEOUT', '60'))


def _ob(out, prefix, pre, cexf):
    def ob(name, conds, kind_='unsat', mandatory=True):
        r, m, s = solve.check(pre + conds, T())
        d = dict(name='%s: %s' % (prefix, name), s=s, mandatory=mandatory)
        d['status'] = ({'unsat': 'proved', 'sat': 'refuted'} if kind_ == 'unsat' else {'sat': 'witness', 'unsat': 'vacuous'}).get(r, 'inconclusive')
        if r == 'sat' and kind_ == 'unsat':
            d['cex'] = cexf(m)
        out.append(d)
        return d
    return ob


def quiet_refs(ex):
    for nm in ('Py_INCREF', 'Py_DECREF', 'Py_XDECREF', 'Py_XINCREF'):
        ex.stubs[nm] = lambda ex_, g, a, rt, c: None
    ex.stubs['__Pyx_AddTraceback'] = lambda ex_, g, a, rt, c: None


def fname_of(B, prefix, fn):
    c = [f for f in B.module.functions if re.match(r'^__pyx_%s_\d+%s_\d*%s$' % (prefix, B.name, fn), f)]
    if len(c) != 1:
        raise KeyError('function %s not found (%r)' % (fn, c))
    return c[0]


def sym_of(rt, name):
    if rt == 'double':
        return z3.FP(name, z3.Float64())
    if rt == 'float':
        return z3.FP(name, z3.Float32())
    return z3.BitVec(name, BITS[rt])


def is_sentinel(rt, v, sent):
    if sent == 'nan':
        return z3.fpIsNaN(v)
    if rt in ('double', 'float'):
        return z3.fpEQ(v, z3.FPVal(sent, v.sort()))
    return v == z3.BitVecVal(sent, v.size())


def fval(m, v):
    if z3.is_fp(v):
        bits = m.eval(z3.fpToIEEEBV(v), model_completion=True).as_long()
        return struct.unpack('<d', struct.pack('<Q', bits))[0] if v.sort() == z3.Float64() else struct.unpack('<f', struct.pack('<I', bits))[0]
    return m.eval(v, model_completion=True).as_signed_long()


def check_caller(job):
    """def caller of one callee: the callee is replaced by its contract (any result value, raised or not, related by the declaration)"""
    name, rt, spec, sent, thr = job
    out = []
    t0 = time.time()
    try:
        ex, env = _B.new_exec(unroll=2)
        quiet_refs(ex)
        raised = z3.Bool('callee_raised')
        rv = sym_of(rt, 'callee_result') if rt != 'void' else None
        calls = []
        verr = env.exc_type('PyExc_ValueError')

        def callee(ex_, g, a, rt_, caller):
            calls.append(env.event(g, 'callee', a))
            env.set_error(z3.And(g, raised), ex_.ptr_to(verr))
            return rv
        ex.stubs[fname_of(_B, 'f', name)] = callee
        ms = ex.global_ptr('__pyx_mstate_global_static')          # constants of the module state: some distinct non-NULL objects
        msr = ex.regions[next(iter(ms.regions))]
        msr.fields.clear()
        msr.lazy = True
        at = ARG[rt]
        x = z3.FP('x', z3.Float64()) if at == 'double' else z3.FP('x', z3.Float32()) if at == 'float' else z3.BitVec('x', 64 if at == 'long' else 32)
        ret, rg = ex.run(fname_of(_B, 'pf', 'call_' + name), [symex.NULLPTR, x])
    except (symex.Unsupported, ir.ParseError, KeyError, IndexError) as e:
        return [dict(name='call of %s:encode' % name, status='inconclusive', s=time.time() - t0, detail='Unsupported: %s' % e, mandatory=True)]
    pre = list(ex.assumptions)
    # the callee's side of the contract
    if 'noexcept' in spec:
        pre.append(z3.Not(raised))
    elif 'except *' in spec and rt == 'void':
        pass
    elif 'except?' in spec or 'except *' in spec:
        # `except *` on a non-void function is implemented as `except? -1` (the callee check below proves the callee's half)
        pre.append(z3.Implies(raised, is_sentinel(rt, rv, sent)))
    else:
        pre.append(raised == is_sentinel(rt, rv, sent))

    def cexf(m):
        return dict(kind='caller', callee=name, rt=rt, raised=bool(m.eval(raised, model_completion=True)), result=(fval(m, rv) if rv is not None else None))
    ob = _ob(out, 'call of `%s %s(..) %s`' % (rt, name, spec), pre, cexf)
    still = env.error_indicator() == z3.BitVecVal(verr.base, 64)
    ob('the callee raised: the caller returns NULL with that exception still set', [raised, z3.Not(z3.And(rg, ret.bv == 0, still))])
    # result conversion
    good = z3.BoolVal(False)
    for e in ex.events:
        if e.ret is None or not isinstance(e.ret, Ptr):
            continue
        gh = env.ghost_of(e.ret)
        if not gh:
            continue
        if rt == 'void':
            continue
        if gh.get('kind') == 'int' and rt not in ('double', 'float'):
            wide = z3.SignExt(stubs.WIDE - rv.size(), rv) if rt in ('int', 'long', 'signed char') else z3.ZeroExt(stubs.WIDE - rv.size(), rv)
            good = z3.Or(good, z3.And(e.guard, ret.bv == e.ret.bv, gh['value'] == wide))
        if gh.get('kind') == 'float' and rt in ('double', 'float'):
            want = rv if rt == 'double' else z3.fpFPToFP(z3.RNE(), rv, z3.Float64())
            good = z3.Or(good, z3.And(e.guard, ret.bv == e.ret.bv, z3.Or(gh['value'] == want, z3.And(z3.fpIsNaN(gh['value']), z3.fpIsNaN(want)))))
    if rt == 'void':
        good = ret.bv != 0
    ob('the callee did not raise: the caller goes on with exactly the returned value (also when it equals the declared error value) and sets no exception',
       [z3.Not(raised), z3.Not(z3.And(rg, env.no_error(), good))])
    ob('the callee is called exactly once with the argument', [rg, z3.Not(z3.And(len(calls) == 1, calls[0].guard if calls else z3.BoolVal(False)))])
    ob('reach: error value returned without an exception', [rg, z3.Not(raised)] + ([is_sentinel(rt, rv, sent)] if sent is not None and 'except?' in spec else []), kind_='witness')
    return out


def check_callee(job):
    """the cdef function itself: raising stores the declared error value and leaves the exception set; noexcept reports and clears it"""
    name, rt, spec, sent, thr = job
    out = []
    t0 = time.time()
    try:
        ex, env = _B.new_exec(unroll=2)
        quiet_refs(ex)
        verr = env.exc_type('PyExc_ValueError')
        merr = env.exc_type('PyExc_MemoryError')
        mkfail = z3.Bool('exception_object_creation_fails')

        def mkobj(ex_, g, a, rt_, caller):
            r = env.new_object('excobj', dict(kind='exc'))
            env.set_error(z3.And(g, mkfail), ex_.ptr_to(merr))
            return Ptr(z3.If(mkfail, z3.BitVecVal(0, 64), z3.BitVecVal(r.base, 64)), [r.id, 0])
        for nm in ('__Pyx_PyObject_Call', '__Pyx_PyObject_FastCallDict', '__Pyx_PyObject_CallOneArg', 'PyObject_Call', '__Pyx_PyObject_FastCall', 'PyObject_VectorcallDict',
                   '__Pyx_PyObject_FastCall_fallback', '__Pyx_PyVectorcall_FastCallDict'):
            ex.stubs[nm] = mkobj
        raises = []

        def doraise(ex_, g, a, rt_, caller):
            raises.append(env.event(g, 'raise', a))
            env.set_error(g, ex_.ptr_to(verr))
            return None
        ex.stubs['__Pyx_Raise'] = doraise
        unr = []

        def unraisable(ex_, g, a, rt_, caller):
            unr.append(env.event(g, 'unraisable', a))
            env.set_error(g, symex.NULLPTR)
            return None
        ex.stubs['__Pyx_WriteUnraisable'] = unraisable
        ms = ex.global_ptr('__pyx_mstate_global_static')
        msr = ex.regions[next(iter(ms.regions))]
        msr.fields.clear()
        msr.lazy = True
        at = ARG[rt]
        x = z3.FP('x', z3.Float64()) if at == 'double' else z3.FP('x', z3.Float32()) if at == 'float' else z3.BitVec('x', 64 if at == 'long' else 32)
        ret, rg = ex.run(fname_of(_B, 'f', name), [x])
    except (symex.Unsupported, ir.ParseError, KeyError, IndexError) as e:
        return [dict(name='%s:encode' % name, status='inconclusive', s=time.time() - t0, detail='Unsupported: %s' % e, mandatory=True)]
    pre = list(ex.assumptions)
    if z3.is_fp(x):
        below = z3.fpLT(x, z3.FPVal(float(thr), x.sort()))
        notbelow = z3.And(z3.Not(below), z3.Not(z3.fpIsNaN(x))) if False else z3.Not(below)
    else:
        below = x < thr
        notbelow = z3.Not(below)
    ob = _ob(out, '`%s %s(..) %s`' % (rt, name, spec), pre, lambda m: dict(kind='callee', callee=name, x=fval(m, x)))
    if 'noexcept' in spec:
        ob('raising body: the exception is reported as unraisable, cleared, and the function returns', [below, z3.Not(z3.And(rg, env.no_error(), z3.Or(*[u.guard for u in unr]) if unr else z3.BoolVal(False)))])
    else:
        errset = z3.Not(env.no_error())
        if rt == 'void' or sent is None:
            ob('raising body: returns with the exception set', [below, z3.Not(z3.And(rg, errset))])
        else:
            ob('raising body: returns the declared error value with the exception set', [below, z3.Not(z3.And(rg, errset, is_sentinel(rt, ret, sent)))])
    if rt != 'void':
        if rt in ('double', 'float'):
            same = z3.Or(ret == x, z3.And(z3.fpIsNaN(ret), z3.fpIsNaN(x)))
        else:
            same = ret == z3.Extract(BITS[rt] - 1, 0, x)
        ob('non-raising body: returns the value, no exception', [notbelow, z3.Not(z3.And(rg, env.no_error(), same))])
    else:
        ob('non-raising body: returns, no exception', [notbelow, z3.Not(z3.And(rg, env.no_error()))])
    return out


def check_chain(_):
    """cdef caller with its own declaration calling an `except? -1` callee"""
    out = []
    for cname, cspec, csent in (('chain_q', 'except? -2', -2), ('chain_m', 'except -2', -2), ('chain_no', 'noexcept', None)):
        t0 = time.time()
        callee = 'i_q1' if cname != 'chain_m' else 'i_m1'
        try:
            ex, env = _B.new_exec(unroll=2)
            quiet_refs(ex)
            raised = z3.Bool('callee_raised')
            rv = z3.BitVec('callee_result', 32)
            verr = env.exc_type('PyExc_ValueError')

            def stub(ex_, g, a, rt_, caller):
                env.set_error(z3.And(g, raised), ex_.ptr_to(verr))
                return rv
            ex.stubs[fname_of(_B, 'f', callee)] = stub
            unr = []

            def unraisable(ex_, g, a, rt_, caller):
                unr.append(env.event(g, 'unraisable', a))
                env.set_error(g, symex.NULLPTR)
                return None
            ex.stubs['__Pyx_WriteUnraisable'] = unraisable
            x = z3.BitVec('x', 32)
            ret, rg = ex.run(fname_of(_B, 'f', cname), [x])
        except (symex.Unsupported, ir.ParseError, KeyError, IndexError) as e:
            out.append(dict(name='%s:encode' % cname, status='inconclusive', s=time.time() - t0, detail='Unsupported: %s' % e, mandatory=True))
            continue
        pre = list(ex.assumptions) + ([z3.Implies(raised, rv == -1)] if callee == 'i_q1' else [raised == (rv == -1)])
        ob = _ob(out, '`int %s(..) %s` calling %s' % (cname, cspec, callee), pre, lambda m: dict(kind='chain', fn=cname, raised=bool(m.eval(raised, model_completion=True)),
                                                                                                result=m.eval(rv, model_completion=True).as_signed_long()))
        if csent is None:
            ob('callee raised: reported as unraisable and cleared', [raised, z3.Not(z3.And(rg, env.no_error(), z3.Or(*[u.guard for u in unr]) if unr else z3.BoolVal(False)))])
        else:
            ob('callee raised: own error value returned, exception kept', [raised, z3.Not(z3.And(rg, ret == csent, z3.Not(env.no_error())))])
        want = rv + 1 if cname == 'chain_q' else rv
        ob('callee did not raise: the computed value is returned, no exception (also for a result equal to the callee\'s error value)', [z3.Not(raised), z3.Not(z3.And(rg, ret == want, env.no_error()))])
    return out


REPLAY = r'''
import sys, math
sys.path.insert(0, %(dir)r)
import %(mod)s as M
c = %(cex)r
# native replay: drive the real callee through the real caller over a grid of arguments around the thresholds and sentinels
bad = []
def ref(name, rt, thr, x):
    if x < thr: return 'ValueError'
    if rt == 'void': return 1
    if rt in ('double', 'float'): return float(x)
    bits = {'int': 32, 'unsigned char': 8, 'unsigned short': 16, 'long': 64, 'signed char': 8}[rt]
    v = int(x) & ((1 << bits) - 1)
    if rt in ('int', 'long', 'signed char') and v >= 1 << (bits - 1): v -= 1 << bits
    return v
for name, rt, spec, sent, thr in %(callees)r:
    if c.get('callee') not in (None, name): continue
    if 'noexcept' in spec: continue
    xs = [thr - 1, thr, thr + 1, -1, 0, 1, 254, 255, 256, 65535, 65534, -7, -2, 3]
    if rt in ('double', 'float'): xs = [float(v) for v in xs] + [-1.0, 0.5]
    for x in xs:
        try: got = getattr(M, 'call_' + name)(x)
        except ValueError: got = 'ValueError'
        except BaseException as e: got = type(e).__name__
        want = ref(name, rt, thr, x)
        if isinstance(want, float) and isinstance(got, float) and (got == want or (got != got and want != want)): continue
        if got != want: bad.append((name, x, got, want))
print('REPLAY', c, bad[:6])
print('REPLAY-REPRODUCED' if bad else 'REPLAY-HOLDS')
'''
_NATIVE = None


def replay(rep, cex):
    global _NATIVE
    try:
        if _NATIVE is None:
            _NATIVE = build.native(_B.cfile)
    except build.BuildError as e:
        return None, 'native build failed: %s' % e
    p = subprocess.run(['/verif/.venv/bin/python', '-c', REPLAY % dict(dir=os.path.dirname(_NATIVE), mod=_B.name, cex=cex, callees=CALLEES)], capture_output=True, text=True, timeout=120)
    txt = (p.stdout + p.stderr).strip()[-600:]
    rep.validated += 1
    if p.returncode < 0:
        return True, 'process died with signal %d' % (-p.returncode)
    return 'REPLAY-REPRODUCED' in txt, txt


FN = dict(caller=check_caller, callee=check_callee, chain=check_chain)


def worker(job):
    return FN[job[0]](job[1])


def run(rep, tier, only=None):
    global _B
    snapshot.activate()
    _B = harness.build_template('c32t', TEMPLATE)
    jobs = [('caller', c) for c in CALLEES] + [('callee', c) for c in CALLEES] + [('chain', None)]
    if only:
        jobs = [j for j in jobs if only in j[0] or only in str(j[1])]
    rep.functions += ['generated call sites (ExprNodes.SimpleCallNode.generate_result_code, PyrexTypes.CFuncType exception tests, Exceptions.c FloatExceptionCheck / ErrOccurredWithGIL) '
                      'and function exit code (Nodes.FuncDefNode) for %d cdef functions covering except V / except? V / except * / noexcept, with and without the GIL, '
                      'int / unsigned char / unsigned short / signed char / long / float / double / void results, NaN sentinels [%s]' % (len(CALLEES), build.sha(_B.cfile))]
    rep.bounds += ['call sites: the callee replaced by its declaration\'s contract (any result value of the type; raised or not; related exactly as the declaration states), every result value',
                   'callee exit code: every argument value; construction of the exception object may fail (MemoryError instead)',
                   'outside: C++ `except +`, cpdef dispatch, function pointers, struct/pointer return types, the conversion helpers applied after the call']
    rep.assume('CPython error indicator modelled as one ghost cell; PyErr_Occurred / __Pyx_ErrOccurredWithGIL read it', 'reference counts ignored (C35)')
    with mp.Pool(min(16, os.cpu_count() or 4)) as pool:
        results = pool.map(worker, jobs, chunksize=1)
    for job, res in zip(jobs, results):
        for d in res:
            if d['status'] == 'refuted':
                ok, txt = replay(rep, d['cex'])
                if ok:
                    rep.obligation(d['name'], 'refuted', d['s'], True, str(d['cex']))
                    rep.violation('%s fails for %s: %s' % (d['name'], d['cex'], txt), dict(cex=d['cex'], replay_output=txt))
                else:
                    rep.obligation(d['name'], 'inconclusive', d['s'], d.get('mandatory', True), 'counterexample %s did not reproduce: %s' % (d['cex'], txt))
            else:
                rep.obligation(d['name'], d['status'], d['s'], d.get('mandatory', True), d.get('detail'))
    rep.cov['states'] = sum(len(r) for r in results)
    rep.cov['transitions'] = sum(len(r) for r in results)
    rep.sample(dict(function='call site of `unsigned char uc_m1(int) except -1`', inputs='callee result any 8-bit value, raised iff result == 255'))
