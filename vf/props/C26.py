"""C26 global and builtin lookups see the current binding: one inductive step of the dict-version cache (forced on with -DCYTHON_USE_DICT_VERSIONS=1),
the uncached arm that this CPython uses, and "a name the module may rebind is looked up, not inlined" (GEN + CIR)."""
import multiprocessing as mp, os, re, subprocess, time
import z3
from .. import snapshot
from ..cir import build, solve, symex, stubs, ir
from ..cir.symex import Ptr
from ..gen import harness

LEVEL = 'model_checking'
TEMPLATE = '''# cython: language_level=3
def read_x(): return x
def set_x(v):
    global x
    x = v
def del_x():
    global x
    del x
def read_len(): return len
def shadow_max(f):
    global max
    max = f
def biggest(a, b): return max(a, b)
def smallest(a, b): return min(a, b)
def read_max(): return max
def read_group(): return ExceptionGroup
def read_anext(): return anext
'''
_BC = None       # built with the dict-version cache
_BU = None       # default build (no cache on CPython >= 3.12)
MA_VERSION_TAG = 24      # PyDictObject: ob_refcnt, ob_type, ma_used, ma_version_tag


def T():
    return int(os.environ.get('VF_QTIMEOUT', '120'))


def fname_of(B, prefix, fn):
    c = [f for f in B.module.functions if re.match(r'^__pyx_%s_\d+%s_\d*%s$' % (prefix, B.name, fn), f)]
    if len(c) != 1:
        raise KeyError('function %s not found (%r)' % (fn, c))
    return c[0]


def setup(B, cached):
    """module state with a module dict whose version tag, binding of the name and builtin of that name are symbolic"""
    ex, env = B.new_exec(unroll=2)
    for nm in ('Py_INCREF', 'Py_DECREF', 'Py_XDECREF', 'Py_XINCREF'):
        ex.stubs[nm] = lambda ex_, g, a, rt, c: None
    for nm in ('__Pyx_NewRef', 'Py_NewRef', '_Py_NewRef', '__Pyx_XNewRef', 'Py_XNewRef'):
        ex.stubs[nm] = lambda ex_, g, a, rt, c: a[0]
    ex.stubs['__Pyx_AddTraceback'] = lambda ex_, g, a, rt, c: None
    ms = ex.global_ptr('__pyx_mstate_global_static')
    msr = ex.regions[next(iter(ms.regions))]
    msr.fields.clear()
    msr.lazy = True
    ver = z3.BitVec('dict_version', 64)
    D = ex.new_region('module_dict', size=None, lazy=True)
    D.fields[MA_VERSION_TAG] = (8, ver)
    doff = ex.field_offset([k for k in ex.m.structs if k.endswith('__pyx_mstatetype') or '__pyx_mstatetype' in k][0], [0])
    msr.fields[doff] = (8, ex.ptr_to(D))
    bound = z3.Bool('name_is_bound_in_module')
    binding = ex.new_region('current_binding', size=None, lazy=True)
    builtin_ok = z3.Bool('name_is_a_builtin')
    builtin = ex.new_region('builtin_object', size=None, lazy=True)
    B_ptr = Ptr(z3.If(bound, z3.BitVecVal(binding.base, 64), z3.BitVecVal(0, 64)), [binding.id, 0])
    lookups = []

    def getitem(ex_, g, a, rt, caller):
        lookups.append(env.event(g, 'dict_lookup', a, B_ptr))
        return B_ptr
    for nm in ('_PyDict_GetItem_KnownHash', 'PyDict_GetItem', 'PyDict_GetItemWithError', '__Pyx_PyDict_GetItemStr', '_PyDict_GetItemStringWithError'):
        ex.stubs[nm] = getitem
    nerr = env.exc_type('PyExc_NameError')

    def getbuiltin(ex_, g, a, rt, caller):
        env.event(g, 'builtin_lookup', a)
        env.set_error(z3.And(g, z3.Not(builtin_ok)), ex_.ptr_to(nerr))
        return Ptr(z3.If(builtin_ok, z3.BitVecVal(builtin.base, 64), z3.BitVecVal(0, 64)), [builtin.id, 0])
    ex.stubs['__Pyx_GetBuiltinName'] = getbuiltin
    return ex, env, dict(ver=ver, D=D, bound=bound, binding=binding, builtin_ok=builtin_ok, builtin=builtin, B_ptr=B_ptr, lookups=lookups, nerr=nerr)


def want_result(st, ret, env):
    """CPython: the module binding if present, else the builtin, else NameError"""
    return z3.If(st['bound'], z3.And(ret.bv == z3.BitVecVal(st['binding'].base, 64), env.no_error()),
                 z3.If(st['builtin_ok'], z3.And(ret.bv == z3.BitVecVal(st['builtin'].base, 64), env.no_error()),
                       z3.And(ret.bv == 0, env.error_is('PyExc_NameError'))))


def find_cache_globals(ex, fn_ir):
    """the function-static cache variables of the lookup site in this function"""
    vs = [g for g in ex.m.globals if fn_ir in g and '__pyx_dict_version' in g]
    cs = [g for g in ex.m.globals if fn_ir in g and '__pyx_dict_cached_value' in g]
    return vs, cs


def check_cached(fn):
    out = []
    t0 = time.time()
    try:
        ex, env, st = setup(_BC, True)
        fn_ir = fname_of(_BC, 'pf', fn)
        vs, cs = find_cache_globals(ex, fn_ir)
        if len(vs) != 1 or len(cs) != 1:
            raise KeyError('cache variables of %s not found (%r, %r)' % (fn, vs, cs))
        vreg = ex.regions[next(iter(ex.global_ptr(vs[0]).regions))]
        creg = ex.regions[next(iter(ex.global_ptr(cs[0]).regions))]
        cver = z3.BitVec('cached_version', 64)
        stale = ex.new_region('stale_object', size=None, lazy=True)
        ckind = z3.BitVec('cached_value_kind', 2)       # 0: NULL, 1: the current binding, 2: some other object
        cval = z3.If(ckind == 0, z3.BitVecVal(0, 64), z3.If(ckind == 1, z3.BitVecVal(st['binding'].base, 64), z3.BitVecVal(stale.base, 64)))
        vreg.fields.clear(); creg.fields.clear()
        vreg.fields[0] = (8, cver)
        creg.fields[0] = (8, Ptr(cval, [st['binding'].id, stale.id, 0]))
        ret, rg = ex.run(fn_ir, [symex.NULLPTR])
    except (symex.Unsupported, ir.ParseError, KeyError, IndexError) as e:
        return [dict(name='%s[cache]:encode' % fn, status='inconclusive', s=time.time() - t0, detail='Unsupported: %s' % str(e)[:300], mandatory=True)]
    cur = st['B_ptr'].bv
    inv_pre = z3.Implies(cver == st['ver'], cval == cur)          # a cache entry made at the current version holds the current binding (or "absent")
    pre = [z3.ULE(ckind, 2), inv_pre] + list(ex.assumptions)
    nv = vreg.fields[0][1]
    nc = creg.fields[0][1]
    nc = nc.bv if isinstance(nc, Ptr) else nc
    inv_post = z3.Implies(nv == st['ver'], nc == cur)

    def cexf(m):
        return dict(kind='cache', fn=fn, cached_version=m.eval(cver, model_completion=True).as_long(), dict_version=m.eval(st['ver'], model_completion=True).as_long(),
                    cached=['NULL', 'current', 'other'][m.eval(ckind, model_completion=True).as_long() % 3], bound=bool(m.eval(st['bound'], model_completion=True)),
                    builtin=bool(m.eval(st['builtin_ok'], model_completion=True)))

    def ob(name, conds, kind_='unsat'):
        r, m, s = solve.check(pre + conds, T())
        d = dict(name='%s [dict-version cache]: %s' % (fn, name), s=s, mandatory=True)
        d['status'] = ({'unsat': 'proved', 'sat': 'refuted'} if kind_ == 'unsat' else {'sat': 'witness', 'unsat': 'vacuous'}).get(r, 'inconclusive')
        if r == 'sat' and kind_ == 'unsat':
            d['cex'] = cexf(m)
        out.append(d)
    ob('from any cache state satisfying the invariant, the read returns the current module binding, else the builtin, else raises NameError', [z3.Not(z3.And(rg, want_result(st, ret, env)))])
    ob('the invariant (an entry tagged with the current dict version holds the current binding) is re-established: with CPython changing the version on every dict mutation '
       'this covers every history of set / del / rebind', [rg, z3.Not(inv_post)])
    ob('reach: stale cache refreshed after a deletion', [rg, cver != st['ver'], ckind == 2, z3.Not(st['bound'])], kind_='witness')
    return out


def check_uncached(fn):
    out = []
    t0 = time.time()
    try:
        ex, env, st = setup(_BU, False)
        ret, rg = ex.run(fname_of(_BU, 'pf', fn), [symex.NULLPTR])
    except (symex.Unsupported, ir.ParseError, KeyError, IndexError) as e:
        return [dict(name='%s[default]:encode' % fn, status='inconclusive', s=time.time() - t0, detail='Unsupported: %s' % str(e)[:300], mandatory=True)]
    pre = list(ex.assumptions)
    r, m, s = solve.check(pre + [z3.Not(z3.And(rg, want_result(st, ret, env)))], T())
    d = dict(name='%s [default build, no cache]: every read returns the current module binding, else the builtin, else raises NameError' % fn, s=s, mandatory=True,
             status={'unsat': 'proved', 'sat': 'refuted'}.get(r, 'inconclusive'))
    if r == 'sat':
        d['cex'] = dict(kind='uncached', fn=fn, bound=bool(m.eval(st['bound'], model_completion=True)), builtin=bool(m.eval(st['builtin_ok'], model_completion=True)))
    out.append(d)
    lk = z3.Or(*[e.guard for e in st['lookups']]) if st['lookups'] else z3.BoolVal(False)
    r2, _, s2 = solve.check(pre + [rg, z3.Not(lk)], T())
    out.append(dict(name='%s [default build]: the module dict is consulted on every read' % fn, s=s2, mandatory=True, status={'unsat': 'proved', 'sat': 'refuted'}.get(r2, 'inconclusive'),
                    cex=dict(kind='uncached', fn=fn, bound=True, builtin=True)))
    return out


def check_rebindable(fn):
    """max/min are assigned by the module (shadow_max) / not assigned (min): a rebindable name must be looked up and called, never inlined"""
    out = []
    t0 = time.time()
    try:
        ex, env, st = setup(_BU, False)
        a, ia = env.make_opaque('a')
        b, ib = env.make_opaque('b')
        calls = []

        def call(ex_, g, args, rt, caller):
            r = ex_.ptr_to(env.new_object('result', dict(kind='res')))
            calls.append(env.event(g, 'call', args, r))
            return r
        for nm in ('__Pyx_PyObject_FastCallDict', '__Pyx_PyObject_FastCall', '__Pyx_PyObject_Call', 'PyObject_Call', '__Pyx_PyObject_Call2Args'):
            ex.stubs[nm] = call
        cmps = []
        for f in _BU.module.functions:
            if re.match(r'^__Pyx_PyObject_Compare(Bool)?(Lt|Gt)_object_object$', f) or f in ('PyObject_RichCompare', 'PyObject_RichCompareBool'):
                ex.stubs[f] = (lambda ex_, g, args, rt, c: (cmps.append(env.event(g, 'cmp', args)), ex_.fresh_of(rt, 'cmp'))[1])
        ret, rg = ex.run(fname_of(_BU, 'pf', fn), [symex.NULLPTR, a, b])
    except (symex.Unsupported, ir.ParseError, KeyError, IndexError) as e:
        return [dict(name='%s:encode' % fn, status='inconclusive', s=time.time() - t0, detail='Unsupported: %s' % str(e)[:300], mandatory=True)]
    pre = [ia, ib, st['bound']] + list(ex.assumptions)
    called = z3.Or(*[z3.And(e.guard, e.args[0].bv == z3.BitVecVal(st['binding'].base, 64), ret.bv == e.ret.bv) for e in calls]) if calls else z3.BoolVal(False)
    r, m, s = solve.check(pre + [rg, z3.Not(called)], T())
    rebind = fn == 'biggest'
    if rebind:
        out.append(dict(name='%s: the module assigns this name elsewhere, so the call goes through the current module binding (never an inlined comparison)' % fn, s=s, mandatory=True,
                        status={'unsat': 'proved', 'sat': 'refuted'}.get(r, 'inconclusive'), cex=dict(kind='rebind', fn=fn)))
    else:
        out.append(dict(name='%s: the module never binds this name (inlining is permitted; informational)' % fn, s=s, mandatory=False,
                        status='proved' if r in ('sat', 'unsat') else 'inconclusive'))
    return out


REPLAY = r'''
import sys
sys.path.insert(0, %(dir)r)
import %(mod)s as M
c = %(cex)r
bad = []
def read(f):
    try: return ('v', f())
    except NameError: return ('NameError',)
x1, x2 = object(), object()
hist = [('read', None), ('set', x1), ('read', None), ('read', None), ('del', None), ('read', None), ('read', None), ('set', x2), ('read', None), ('set', x1), ('read', None),
        ('del', None), ('read', None)]
cur = None
for op, v in hist:
    if op == 'set': M.set_x(v); cur = v
    elif op == 'del':
        M.del_x(); cur = None
    else:
        got = read(M.read_x); want = ('v', cur) if cur is not None else ('NameError',)
        if got != want: bad.append((op, got, want))
fake = lambda a, b: 'fake'
if M.biggest(1, 2) != 2: bad.append(('biggest before', M.biggest(1, 2)))
M.shadow_max(fake)
if M.read_max() is not fake: bad.append(('read_max',))
if M.biggest(1, 2) != 'fake': bad.append(('biggest after shadow', M.biggest(1, 2)))
import builtins
for nm, rd in (('ExceptionGroup', M.read_group), ('anext', M.read_anext)):
    if rd() is not getattr(builtins, nm): bad.append((nm, 'before shadowing'))
    setattr(M, nm, x1)
    if rd() is not x1: bad.append((nm, 'shadowed through the module namespace', rd()))
    delattr(M, nm)
    if rd() is not getattr(builtins, nm): bad.append((nm, 'after deleting the shadow'))
print('REPLAY', bad[:5])
print('REPLAY-REPRODUCED' if bad else 'REPLAY-HOLDS')
'''
_NATIVE = {}


def replay(rep, cex):
    B = _BC if cex.get('kind') == 'cache' else _BU
    try:
        if B.name not in _NATIVE:
            _NATIVE[B.name] = build.native(B.cfile, extra_flags=(['-DCYTHON_USE_DICT_VERSIONS=1', '-Wno-deprecated-declarations'] if B is _BC else []))
    except build.BuildError as e:
        return None, 'native build failed: %s' % e
    p = subprocess.run(['/verif/.venv/bin/python', '-c', REPLAY % dict(dir=os.path.dirname(_NATIVE[B.name]), mod=B.name, cex=cex)], capture_output=True, text=True, timeout=120)
    txt = (p.stdout + p.stderr).strip()[-600:]
    rep.validated += 1
    if p.returncode < 0:
        return True, 'process died with signal %d' % (-p.returncode)
    return 'REPLAY-REPRODUCED' in txt, txt


FN = dict(cached=check_cached, uncached=check_uncached, rebind=check_rebindable)


def worker(job):
    return FN[job[0]](job[1])


def _init(bc, bu):
    global _BC, _BU
    _BC, _BU = bc, bu


def run(rep, tier, only=None):
    global _BC, _BU
    snapshot.activate()
    _BU = harness.build_template('c26u', TEMPLATE)
    _BC = harness.build_template('c26c', TEMPLATE, defines=['CYTHON_USE_DICT_VERSIONS=1'])
    jobs = [('cached', 'read_x'), ('cached', 'read_max'), ('uncached', 'read_x'), ('uncached', 'read_max'),
            ('cached', 'read_group'), ('uncached', 'read_group'), ('cached', 'read_anext'), ('uncached', 'read_anext'),
            ('rebind', 'biggest'), ('rebind', 'smallest')]
    if only:
        jobs = [j for j in jobs if only in j[0] or only in j[1]]
    rep.functions += ['Cython/Utility/ObjectHandling.c: GetModuleGlobalName (__Pyx_GetModuleGlobalName macro, __Pyx__GetModuleGlobalName, __PYX_UPDATE_DICT_CACHE of PyDictVersioning) as '
                      'instantiated at the lookup sites of the generated functions, in two builds: default (no cache on CPython >= 3.12) and -DCYTHON_USE_DICT_VERSIONS=1; '
                      'generated code of max(a, b) when the module assigns `max` (Optimize.EarlyReplaceBuiltinCalls._function_is_builtin_name) [%s]' % build.sha(_BU.cfile)]
    rep.bounds += ['cache arm: ONE read from an arbitrary cache state (any cached version, cached value NULL / the current binding / any other object) that satisfies the invariant, '
                   'any dict version, name bound or not, builtin or not: result correct and invariant re-established.  By induction this covers every history of assignments, deletions '
                   'and re-creations, given that CPython changes ma_version_tag on every mutation of the module dict (its documented contract, trusted)',
                   'default arm: every read consults the dict; outside: attribute-style access to module globals from other modules, class-scope lookups, the builtins module being patched '
                   '(the builtin lookup itself is CPython\'s), lenient-mode compilation, cacheable builtins the module never binds (resolved once at import: documented cache_builtins behaviour; the never-cached builtins ExceptionGroup and anext ARE covered: read_group / read_anext)']
    rep.assume('PyDictObject layout of CPython 3.12 (ma_version_tag at offset 24)', 'reference counts ignored (C35)')
    with mp.Pool(min(8, os.cpu_count() or 4), initializer=_init, initargs=(_BC, _BU)) as pool:
        results = pool.map(worker, jobs, chunksize=1)
    for job, res in zip(jobs, results):
        for d in res:
            if d['status'] == 'refuted':
                ok, txt = replay(rep, d['cex'])
                if ok:
                    rep.obligation(d['name'], 'refuted', d['s'], True, str(d['cex'])[:600])
                    rep.violation('%s fails for %s: %s' % (d['name'], str(d['cex'])[:500], txt), dict(cex=d['cex'], replay_output=txt))
                else:
                    rep.obligation(d['name'], 'inconclusive', d['s'], d.get('mandatory', True), 'counterexample %s did not reproduce: %s' % (str(d['cex'])[:400], txt))
            else:
                rep.obligation(d['name'], d['status'], d['s'], d.get('mandatory', True), d.get('detail'))
    rep.cov['states'] = sum(len(r) for r in results)
    rep.cov['transitions'] = sum(len(r) for r in results)
    rep.sample(dict(function='read_x with the dict-version cache', inputs='cached version, cached value kind, dict version, bound?, builtin? all symbolic'))
