"""C38 Pure-Python mode: the shadow cdiv/cmod/cast helpers equal C semantics (PYSYM)."""
import os
from ..pysym import runner
from ..pysym.runner import Cond

LEVEL = 'model_checking'
H = '/verif/vf/pysym/h_c38.py'


def run(rep, tier, only=None):
    T = 20 if tier == 'quick' else 120
    rep.functions += ['Cython/Shadow.py: cdiv, cmod, cast, typedef.__call__, declare']
    rep.bounds += ['cdiv/cmod: all pairs of unbounded Python ints with b != 0 (CrossHair: confirmed over all paths, z3 Int)',
                   'cast: unbounded int, 8 integer typedefs enumerated by a symbolic selector',
                   'cdiv additionally on dividends 2^53 / 2^63 / 2^64 / 2^100 + (0..1023), divisors 1..7 (a search that does not depend on unbounded float reasoning)']
    rep.assume('reference = C99 6.5.5 truncating division written over Python ints (h_c38.ref_cdiv/ref_cmod)',
               'CrossHair 0.0.110 int model (z3 Int) is faithful')
    runner.run_twin(rep, H, 'twin_cdiv', 20)
    runner.run_conditions(rep, H, [Cond('check_cdiv', T), Cond('check_cdiv_wide', T), Cond('check_cmod', T), Cond('check_divmod_identity', T),
                                   Cond('check_cast_int_identity', T), Cond('check_cast_bint', T),
                                   Cond('check_declare_int', T)])
    rep.sample(dict(condition='check_cdiv', over='a:int, b:int, b != 0', oracle='ref_cdiv'))
