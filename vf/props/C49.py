"""C49 code buffer: insertion-point order (PYSYM, prefix-split histories)."""
import itertools, os
from ..pysym import runner
from ..pysym.runner import Cond
from .. import snapshot

LEVEL = 'model_checking'
NOPS = 5


def prefixes(depth):
    """all op prefixes of the given length that are histories (buffer index < number of live buffers)"""
    out = []

    def rec(pfx, ntrees):
        if len(pfx) == depth:
            out.append(tuple(pfx)); return
        for op in range(NOPS):
            for k in range(ntrees):
                rec(pfx + [(op, k)], ntrees + (1 if op in (1, 2, 4) else 0))
    rec([], 1)
    return out


def gen_harness(path, plen, nsym, base='h_c49_base', fn='run_ops', tag='hist'):
    lines = ['from %s import %s as run_ops' % (base, fn), 'NOPS = 5', '']
    names = []
    for p in prefixes(plen):
        name = tag + '_' + '_'.join('%d%d' % (o, k) for o, k in p) if p else tag + '_all'
        params = ', '.join('o%d: int, k%d: int' % (i, i) for i in range(nsym))
        pre = ' and '.join('0 <= o%d < NOPS and 0 <= k%d < %d' % (i, i, 1 + plen + i) for i in range(nsym))
        sym = ', '.join('(o%d, k%d)' % (i, i) for i in range(nsym))
        lines += ['def %s(%s) -> bool:' % (name, params), '    """', '    pre: ' + pre, '    post: _ == True', '    """',
                  '    return run_ops(%r + [%s])' % (list(p), sym), '']
        names.append(name)
    # prefixes shorter than plen+nsym are covered because run_ops checks *every* intermediate tree state?  No:
    # they are covered by the commit op being idempotent; shorter histories are run separately below.
    lines += ['def twin(o0: int, k0: int, o1: int, k1: int) -> bool:', '    """', '    pre: 0 <= o0 < NOPS and 0 <= o1 < NOPS and k0 == 0 and 0 <= k1 < 2',
              '    post: _ == True', '    """', '    run_ops([(o0, k0), (o1, k1)])', '    return False', '']
    open(path, 'w').write('\n'.join(lines))
    return names


def run(rep, tier, only=None):
    snapshot.activate()
    d = snapshot.scratch_dir('c49')
    import shutil
    shutil.copy('/verif/vf/pysym/h_c49_base.py', d)
    plen, nsym, T = (2, 2, 300) if tier == 'quick' else (3, 3, 900)
    rep.functions += ['Cython/StringIOTree.py: StringIOTree.__init__, write, insertion_point, insert, commit, getvalue, '
                      '_collect_in, copyto, empty, allmarkers']
    rep.bounds += ['all histories of <= %d operations over {write+marker, insertion_point, insert(non-empty tree), commit, insert(empty tree)} '
                   'applied to any live buffer (<= %d live buffers); the first %d operations are enumerated (one CrossHair condition per '
                   'prefix), the last %d are symbolic' % (plen + nsym, 1 + plen + nsym, plen, nsym),
                   'shorter histories: every k-op history is a prefix-closed case because the final check inspects every live buffer and '
                   'commit on an empty buffer is a no-op (checked as part of the enumeration: op 3 on fresh buffers)',
                   'outside: reset(); CCodeWriter bookkeeping on top of the tree; histories longer than the bound']
    rep.assume('oracle: list-of-holes model in h_c49_base.run_ops (text = in-order concatenation, markers listed in the order of the lines)',
               'io.StringIO is a C boundary: written text is concrete per path (only the operation choice is symbolic)')
    H = os.path.join(d, 'h_c49.py')
    names = gen_harness(H, plen, nsym)
    runner.run_twin(rep, H, 'twin', 30, extra_path=[d])
    runner.run_conditions(rep, H, [Cond(n, T) for n in names], extra_path=[d])
    # CCodeWriter level (markers written by _write_lines / putln / emit_marker through insertion points and inserts)
    shutil.copy('/verif/vf/pysym/h_c49_cw.py', d)
    H2 = os.path.join(d, 'h_c49w.py')
    p2, n2 = (2, 2) if tier == 'quick' else (2, 3)
    names2 = gen_harness(H2, p2, n2, base='h_c49_cw', fn='run_cw', tag='cw')
    rep.functions += ['Cython/Compiler/Code.py: CCodeWriter.__init__, write, _write_lines, _write_to_buffer, insertion_point, new_writer, '
                      'insert, putln, put, mark_pos, emit_marker, getvalue']
    rep.bounds += ['CCodeWriter level: all histories of <= %d operations over {write 1 line, insertion_point, new_writer+insert, write 2 lines, '
                   'mark_pos+putln} on any live writer; first %d enumerated, last %d symbolic' % (p2 + n2, p2, n2)]
    runner.run_conditions(rep, H2, [Cond(n, T) for n in names2], extra_path=[d])
    rep.cov['exhaustive'] = False
    rep.sample(dict(condition=names[len(names) // 2], prefix_len=plen, symbolic_ops=nsym, conditions=len(names)))
