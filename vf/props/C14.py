"""C14 optimised loops iterate exactly like Python loops (GEN + CIR, event traces)."""
import multiprocessing as mp, os, subprocess, time
import z3
from .. import snapshot
from ..cir import build, solve, symex, stubs, ir
from ..gen import harness, arith, loops, trace

LEVEL = 'model_checking'
_B = None
_K = {}
MAXTRIP = 6
W = 128


def sxw(v, signed):
    return z3.SignExt(W - v.size(), v) if signed else z3.ZeroExt(W - v.size(), v)


def py_range(k, A, Bv):
    """Python semantics of the iteration: list of (present, value) for index 0..MAXTRIP-1 at W bits"""
    if k.form == 'range1':
        start, stop, step, rev = z3.BitVecVal(0, W), Bv, 1, False
    elif k.form in ('range3',):
        start, stop, step, rev = A, Bv, k.step, False
    elif k.form == 'rev2':
        start, stop, step, rev = A, Bv, 1, True
    elif k.form == 'rev3':
        start, stop, step, rev = A, Bv, 2, True
    else:
        a, b, s = k.consts
        start, stop, step, rev = z3.BitVecVal(a, W), z3.BitVecVal(b, W), s, True
    S = z3.BitVecVal(step, W)
    vals = []
    # length: number of j >= 0 with start + j*step before stop
    items = []
    for j in range(MAXTRIP + 1):
        v = start + j * S
        pres = (v < stop) if step > 0 else (v > stop)
        items.append((pres, v))
    n = z3.BitVecVal(0, 8)
    for pres, v in items:
        n = n + z3.If(pres, z3.BitVecVal(1, 8), z3.BitVecVal(0, 8))
    if not rev:
        return items[:MAXTRIP], n, items[MAXTRIP][0]
    # reversed: element j of the reversed sequence is element n-1-j of the forward one
    out = []
    for j in range(MAXTRIP):
        pres = z3.UGT(n, j)
        idx = z3.ZeroExt(W - 8, n) - 1 - j
        out.append((pres, start + idx * S))
    return out, n, items[MAXTRIP][0]


def check_kernel(kname):
    k = _K[kname]
    cty, bits, signed = arith.TYPEINFO[k.tname]
    T = int(os.environ.get('VF_QTIMEOUT', '180'))
    t0 = time.time()
    out = []
    try:
        ex, env = _B.new_exec(unroll=MAXTRIP + 1)
        ex.stubs['ev'] = lambda ex_, g, args, rt, caller: (env.event(g, 'ev', args), z3.BitVecVal(0, 64))[1]
        a, b = z3.BitVec('a', bits), z3.BitVec('b', bits)
        brk, brk_at = z3.BitVec('brk', 32), z3.BitVec('brk_at', 64)
        lastr = ex.new_region('last', size=bits // 8, lazy=False)
        lastr.fields[0] = (bits // 8, z3.BitVecVal(0, bits))
        ret, rg = ex.run(_B.cfunc(k.name), [a, b, brk, brk_at, ex.ptr_to(lastr)])
        last = ex.load(ex.ptr_to(lastr), ir.T('int', bits=bits), z3.BoolVal(True))
    except (symex.Unsupported, ir.ParseError, KeyError) as e:
        return [dict(name=kname + ':encode', status='inconclusive', s=time.time() - t0, detail='Unsupported: %s' % e)]
    A, Bv = sxw(a, signed), sxw(b, signed)
    items, n, toolong = py_range(k, A, Bv)
    pre = [z3.Not(toolong), z3.Or(brk == 0, brk == 1), brk_at >= 0, brk_at < 8]
    # reference trace with break / else
    spec = []
    broke = z3.BoolVal(False)
    lastv = z3.BitVecVal(k.init, W) if signed else z3.BitVecVal(k.init, W)
    completed = z3.BitVecVal(0, 64)
    for j, (pres, v) in enumerate(items):
        runs = z3.And(pres, z3.Not(broke))
        spec.append((runs, z3.Extract(63, 0, v)))
        lastv = z3.If(runs, v, lastv)
        brk_here = z3.And(runs, brk == 1, brk_at == j)
        completed = z3.If(z3.And(runs, z3.Not(brk_here)), completed + 1, completed)
        broke = z3.Or(broke, brk_here)
    spec.append((z3.Not(broke), z3.BitVecVal(loops.ELSE_MARK, 64)))
    impl = trace.impl_trace(ex, 'ev')
    stats = dict(blocks=ex.stats['blocks'], edges=ex.stats['edges'])
    MAXT = (1 << (bits - 1)) - 1 if signed else (1 << bits) - 1
    MINT = -(1 << (bits - 1)) if signed else 0
    # known finding F8: with |step| > 1 the C loop `for (t = a; t < b; t += s)` increments past the last element; when that
    # leaves the range of T the increment is signed overflow (wraps under -fwrapv, and the loop runs on)
    kp = {}
    stepabs = abs(k.step) if k.form != 'rev2' else 1
    if k.form == 'rev3':
        stepabs = 2
    if k.form != 'revlit':
        # known finding F8 (generalised): the loop bounds, the distance b - a and the first/last value +- step are computed in the
        # target type; within a margin of the type's limits (or when |b - a| does not fit) that arithmetic overflows
        mg = 2 * stepabs + 2
        hiL, loL = z3.BitVecVal(MAXT - mg, W), z3.BitVecVal(MINT + mg, W)
        near = z3.Or(A > hiL, Bv > hiL, (A < loL) if signed else z3.BoolVal(False), (Bv < loL) if signed else z3.BoolVal(False),
                     Bv - A > z3.BitVecVal(MAXT, W), A - Bv > z3.BitVecVal(MAXT, W))
        if k.form == 'range1':
            near = z3.Or(Bv > hiL)
        kp['F8-range-loop-arithmetic-overflows-near-type-limits'] = near
    downward = (k.form == 'range3' and k.step < 0) or k.form in ('rev2', 'rev3')
    if not signed and downward:
        # known finding F12: the special downward-counting loop for unsigned targets starts at `first + |s|` and tests against
        # `lower + |s|`; when either sum exceeds the type's maximum it wraps
        lim = z3.BitVecVal(MAXT - stepabs, W)
        kp['F12-unsigned-downward-loop-bounds-wrap'] = z3.Or(A > lim, Bv > lim)
    def ob(name, conds, kind='unsat'):
        r, m, s = solve.check(pre + conds, T)
        d = dict(name=kname + ':' + name, s=s, stats=stats, known_hits=[])
        excl = []
        while kind == 'unsat' and r == 'sat':
            matched = [key for key, pr in kp.items() if key not in [h[0] for h in d['known_hits']] and z3.is_true(m.eval(pr, model_completion=True))]
            if not matched:
                break
            for key in matched:
                d['known_hits'].append((key, model_cex(m)))
                excl.append(z3.Not(kp[key]))
            r, m, s2 = solve.check(pre + conds + excl, T)
            s += s2
        d['s'] = s
        d['status'] = ({'unsat': 'proved', 'sat': 'refuted'} if kind == 'unsat' else {'sat': 'witness', 'unsat': 'vacuous'}).get(r, 'inconclusive')
        if r == 'sat' and kind == 'unsat':
            d['cex'] = model_cex(m)
        out.append(d)

    def model_cex(m):
        return dict(a=solve.model_int(m, a, signed), b=solve.model_int(m, b, signed), brk=solve.model_int(m, brk), brk_at=solve.model_int(m, brk_at))
    ob('iterations, order, break and else clause equal Python\'s (event trace)', [rg, trace.trace_differs(impl, spec)])
    ob('loop variable after the loop has Python\'s value', [rg, sxw(last, signed) != lastv])
    ob('returns', [z3.Not(rg)])
    ob('completed iteration count', [rg, ret != completed])
    if ex.unwind:
        ob('unwinding assertion (trip count <= %d under the precondition)' % MAXTRIP, [z3.Or(*[u[0] for u in ex.unwind])])
    seen = set()
    for c, desc, fn in ex.ub:
        if (fn, desc) in seen:
            continue
        seen.add((fn, desc))
        ob('no UB: %s' % desc[:80], [c])
        out[-1]['ub'] = True
    ob('reach: the loop body runs', [rg, n >= 1, brk == 0] if k.form != 'revlit' else [rg], kind='witness')
    return out


# ---- one step of the optimised dict iteration (dict_iter_common): __Pyx_dict_iter_next_source_is_dict --------------------------------
DICT_TEMPLATE = """# cython: language_level=3
def dk(dict d):
    r = []
    for k in d:
        r.append(k)
        if k == 'grow': d['new'] = 1
        if k == 'swap':
            del d['swap']
            d['other'] = 1
        if k == 'del_last': del d['z']
    else:
        r.append('else')
    return r
def di(dict d):
    r = []
    for k, v in d.items():
        r.append((k, v))
        if k == 'del_last': del d['z']
    else:
        r.append('else')
    return r
"""
_BD = None


def check_dictiter(variant):
    """variant: which outputs the loop asks for: 'key', 'value', 'key+value', 'item'"""
    from ..cir.symex import Ptr
    out = []
    t0 = time.time()
    T = int(os.environ.get('VF_QTIMEOUT', '180'))
    fname = '__Pyx_dict_iter_next_source_is_dict'
    try:
        ex, env = _BD.new_exec(unroll=2)
        for nm in ('Py_INCREF', 'Py_DECREF', 'Py_XDECREF', 'Py_XINCREF'):
            ex.stubs[nm] = lambda ex_, g, a, rt, c: None
        d, dinv = env.make_opaque('d')
        orig, cur = z3.BitVec('orig_length', 64), z3.BitVec('current_size', 64)
        found = z3.Bool('another_entry')
        key = ex.new_region('key', size=None, lazy=True)
        val = ex.new_region('value', size=None, lazy=True)
        pt = ir.T('ptr', elem=ir.T('int', bits=8))
        nexts = []

        def dsize(ex_, g, a, rt, caller):
            return cur

        def dnext(ex_, g, a, rt, caller):
            nexts.append(env.event(g, 'PyDict_Next', a))
            gg = z3.And(g, found)
            ex_.store(a[2], ex_.ptr_to(key), pt, gg, 'stub')
            ex_.store(a[3], ex_.ptr_to(val), pt, gg, 'stub')
            return z3.If(found, z3.BitVecVal(1, 32), z3.BitVecVal(0, 32))
        ex.stubs['PyDict_Size'] = dsize
        ex.stubs['PyDict_Next'] = dnext
        tup_ok = z3.Bool('tuple_alloc_ok')
        tup = ex.new_region('tuple', size=None, lazy=True)

        def tnew(ex_, g, a, rt, caller):
            env.set_error(z3.And(g, z3.Not(tup_ok)), ex_.ptr_to(env.exc_type('PyExc_MemoryError')))
            return Ptr(z3.If(tup_ok, z3.BitVecVal(tup.base, 64), z3.BitVecVal(0, 64)), [tup.id, 0])
        ex.stubs['PyTuple_New'] = tnew
        env.exc_type('PyExc_RuntimeError')
        pos = ex.new_region('pos', size=8, lazy=False); pos.fields[0] = (8, z3.BitVec('pos', 64))
        slots = {}
        for nm in ('pkey', 'pvalue', 'pitem'):
            r = ex.new_region(nm, size=8, lazy=False)
            r.fields[0] = (8, symex.NULLPTR)
            slots[nm] = r
        want = {'key': ('pkey',), 'value': ('pvalue',), 'key+value': ('pkey', 'pvalue'), 'item': ('pitem',)}[variant]
        args = [d, orig, ex.ptr_to(pos)] + [ex.ptr_to(slots[nm]) if nm in want else symex.NULLPTR for nm in ('pkey', 'pvalue', 'pitem')]
        ret, rg = ex.run(fname, args)
    except (symex.Unsupported, ir.ParseError, KeyError, IndexError) as e:
        return [dict(name='dict iteration step [%s]:encode' % variant, status='inconclusive', s=time.time() - t0, detail='Unsupported: %s' % str(e)[:300])]
    pre = [dinv, orig >= 0, cur >= 0] + list(ex.assumptions)

    def got(nm):
        v = slots[nm].fields[0][1]
        return v.bv if isinstance(v, Ptr) else v

    def ob(name, conds, kind='unsat'):
        r, m, s = solve.check(pre + conds, T)
        d_ = dict(name='dict iteration step [%s]: %s' % (variant, name), s=s)
        d_['status'] = ({'unsat': 'proved', 'sat': 'refuted'} if kind == 'unsat' else {'sat': 'witness', 'unsat': 'vacuous'}).get(r, 'inconclusive')
        if r == 'sat' and kind == 'unsat':
            d_['cex'] = dict(kind='dictiter', variant=variant, orig=m.eval(orig, model_completion=True).as_signed_long(), cur=m.eval(cur, model_completion=True).as_signed_long(),
                             found=bool(m.eval(found, model_completion=True)))
        out.append(d_)
    ob('a dict whose size changed since the loop started raises RuntimeError, whether or not another entry exists (as CPython\'s dict iterators do)',
       [cur != orig, z3.Not(z3.And(rg, ret == -1, env.error_is('PyExc_RuntimeError')))])
    ob('same size, no further entry: the loop ends (0) without an exception', [cur == orig, z3.Not(found), z3.Not(z3.And(rg, ret == 0, env.no_error()))])
    if variant == 'item':
        okv = z3.And(ret == 1, got('pitem') == z3.BitVecVal(tup.base, 64))
        ob('same size, another entry: 1 with a new (key, value) tuple, or -1 if the tuple cannot be allocated', [cur == orig, found, z3.Not(z3.And(rg, z3.If(tup_ok, z3.And(okv, env.no_error()), ret == -1)))])
    else:
        conds = [ret == 1, env.no_error()]
        if 'pkey' in want:
            conds.append(got('pkey') == z3.BitVecVal(key.base, 64))
        if 'pvalue' in want:
            conds.append(got('pvalue') == z3.BitVecVal(val.base, 64))
        ob('same size, another entry: 1 and exactly the requested key / value are handed out', [cur == orig, found, z3.Not(z3.And(rg, *conds))])
    return out


DICT_REPLAY = r"""
import sys
sys.path.insert(0, %(dir)r)
import %(mod)s as M
bad = []
def run(f, d):
    try: return ('v', f(d))
    except RuntimeError as e: return ('RuntimeError',)
def py_dk(d):
    r = []
    for k in d:
        r.append(k)
        if k == 'grow': d['new'] = 1
        if k == 'swap':
            del d['swap']
            d['other'] = 1
        if k == 'del_last': del d['z']
    else:
        r.append('else')
    return r
def py_di(d):
    r = []
    for k, v in d.items():
        r.append((k, v))
        if k == 'del_last': del d['z']
    else:
        r.append('else')
    return r
for mk in (lambda: {'a': 1, 'b': 2}, lambda: {'a': 1, 'grow': 2}, lambda: {'grow': 1, 'b': 2}, lambda: {'z': 0, 'a': 1, 'del_last': 2}, lambda: {'a': 1, 'z': 0, 'del_last': 2},
           lambda: {'swap': 1}, lambda: {'a': 0, 'swap': 1}, lambda: {}):
    for f, g in ((M.dk, py_dk), (M.di, py_di)):
        got, want = run(f, mk()), run(g, mk())
        if got != want: bad.append((mk(), got, want))
print('REPLAY', bad[:4])
print('REPLAY-REPRODUCED' if bad else 'REPLAY-HOLDS')
"""


REPLAY = r'''
import sys
sys.path.insert(0, %(dir)r)
import %(mod)s as M
name, a, b, brk, brk_at, header, init, lo, hi = %(args)r
trace, last, n = getattr(M, 'py_' + name)(a, b, brk, brk_at)
# CPython semantics of the same loop
want = []; i = init; cnt = 0
for i in eval(header, dict(a=a, b=b, range=range, reversed=reversed)):
    want.append(i)
    if brk and cnt == brk_at: break
    cnt += 1
else:
    want.append(1000001)
print('REPLAY got', trace[:12], last, n, 'want', want[:12], i, cnt)
print('REPLAY-REPRODUCED' if (list(trace) != want or last != i or n != cnt) else 'REPLAY-HOLDS')
'''
_NATIVE = None


def replay(rep, k, cex):
    global _NATIVE
    try:
        if _NATIVE is None:
            _NATIVE = build.native(_B.cfile)
    except build.BuildError as e:
        return None, 'native build failed: %s' % e
    cty, bits, signed = arith.TYPEINFO[k.tname]
    lo, hi = arith.rng(bits, signed)
    header = [l for l in k.src.split('\n') if l.strip().startswith('for i in')][0].strip()[len('for i in '):-1]
    code = REPLAY % dict(dir=os.path.dirname(_NATIVE), mod=_B.name, args=(k.name, cex['a'], cex['b'], cex['brk'], cex['brk_at'], header, k.init, lo, hi))
    try:
        p = subprocess.run(['/verif/.venv/bin/python', '-c', code], capture_output=True, text=True, timeout=8)
    except subprocess.TimeoutExpired:
        return True, 'the compiled loop did not terminate within 8 s (CPython finishes immediately)'
    txt = (p.stdout + p.stderr).strip()[-500:]
    rep.validated += 1
    if p.returncode < 0:
        return True, 'process died with signal %d' % (-p.returncode)
    return 'REPLAY-REPRODUCED' in txt, txt


def run(rep, tier, only=None):
    global _B, _K
    snapshot.activate()
    if tier == 'thorough':
        os.environ.setdefault('VF_QTIMEOUT', '600')
    types = ('int', 'uint', 'long', 'uchar') if tier == 'quick' else ('int', 'uint', 'long', 'ssize_t', 'short', 'uchar')
    src, ks = loops.family(types)
    if only:
        ks = [k for k in ks if only in k.name]
    _K = {k.name: k for k in ks}
    _B = harness.build_template('c14t', src)
    rep.functions += ['Cython/Compiler/Optimize.py IterationTransform (_transform_range_iteration, reversed/range handling) and Nodes.ForFromStatNode code generation, '
                      'observed through %d generated loop kernels [%s]' % (len(ks), build.sha(_B.cfile))]
    rep.bounds += ['kernels: T in %s x {range(a, b, s) for s in 1 2 3 -1 -2 -7, range(b), reversed(range(a, b)), reversed(range(a, b, 2))} + 6 all-literal reversed ranges; '
                   'body with a symbolic break (flag and iteration index), else clause, read of the loop variable after the loop' % list(types),
                   'a, b anywhere in the range of T subject to: trip count <= %d (loops unrolled %d times, unwinding assertion discharged)' % (MAXTRIP, MAXTRIP + 1),
                   'outside: iteration over set/str/bytes contents and non-exact dicts (CPython API), run-time steps, C arrays, longer trip counts (same loop code)']
    rep.assume('ev() is an event leaf; the ordered guarded event list is compared with the reference trace of the Python loop',
               'reference: Python range() semantics in exact (128-bit) arithmetic')
    with mp.Pool(min(16, os.cpu_count() or 4)) as pool:
        results = pool.map(check_kernel, [k.name for k in ks], chunksize=1)
    states = trans = 0
    seen_known = set()
    for k, res in zip(ks, results):
        for d in res:
            if d.get('stats'):
                states += d['stats']['blocks']; trans += d['stats']['edges']
            for key, cex in d.get('known_hits', ()):
                if key in seen_known and key in rep.known:
                    continue            # already witnessed and replayed once in this run
                ok, txt = replay(rep, k, cex)
                if ok and key in rep.known:
                    if key not in seen_known:
                        rep.known_finding(key, rep.known[key] + '  [witness: %s %s: %s]' % (k.name, cex, txt[:200]))
                        seen_known.add(key)
                elif ok:
                    rep.violation('%s fails for %s: %s' % (d['name'], cex, txt), dict(kernel=k.name, source=k.src, cex=cex, replay_output=txt))
                elif d.get('ub'):
                    pass        # UB that does not change the observable trace on this build (wrapping): still covered by the key when it replays elsewhere
                else:
                    rep.harness_error('known-finding witness %s for %s did not reproduce: %s' % (cex, d['name'], txt))
            if d['status'] == 'refuted':
                ok, txt = replay(rep, k, d['cex'])
                if ok:
                    rep.obligation(d['name'], 'refuted', d['s'], True, str(d['cex']))
                    rep.violation('%s fails for %s: %s' % (d['name'], d['cex'], txt), dict(kernel=k.name, source=k.src, cex=d['cex'], replay_output=txt))
                else:
                    rep.obligation(d['name'], 'inconclusive', d['s'], True, 'counterexample %s did not reproduce on the real build: %s' % (d['cex'], txt))
            else:
                rep.obligation(d['name'], d['status'], d['s'], True, d.get('detail'))
    if not only or 'dict' in only:
        global _BD
        _BD = harness.build_template('c14d', DICT_TEMPLATE)
        dn = None
        for variant in ('key', 'value', 'key+value', 'item'):
            for d in check_dictiter(variant):
                if d['status'] == 'refuted':
                    if dn is None:
                        dn = build.native(_BD.cfile)
                    p = subprocess.run(['/verif/.venv/bin/python', '-c', DICT_REPLAY % dict(dir=os.path.dirname(dn), mod=_BD.name)], capture_output=True, text=True, timeout=60)
                    txt = (p.stdout + p.stderr).strip()[-500:]
                    rep.validated += 1
                    if 'REPLAY-REPRODUCED' in txt or p.returncode < 0:
                        rep.obligation(d['name'], 'refuted', d['s'], True, str(d['cex']))
                        rep.violation('%s fails for %s: %s' % (d['name'], d['cex'], txt), dict(cex=d['cex'], replay_output=txt))
                    else:
                        rep.obligation(d['name'], 'inconclusive', d['s'], True, 'counterexample %s did not reproduce: %s' % (d['cex'], txt))
                else:
                    rep.obligation(d['name'], d['status'], d['s'], True, d.get('detail'))
        rep.functions.append('Cython/Utility/Optimize.c dict_iter_common: __Pyx_dict_iter_next_source_is_dict (one step of `for k in d` / `.values()` / `.items()` over an exact dict)')
        rep.bounds.append('dict iteration: ONE step from any state (any original length, any current size, another entry or not, tuple allocation failing or not), all four output shapes')
    rep.cov['states'] = states
    rep.cov['transitions'] = trans
    rep.cov['programs'] = len(ks)
    if ks:
        rep.sample(dict(kernel=ks[0].name, source=ks[0].src))
    else:
        rep.sample(dict(kernel='__Pyx_dict_iter_next_source_is_dict', inputs='orig_length, current size, another entry?, allocation ok? symbolic'))
