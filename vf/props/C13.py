"""C13 builtin call / method optimisations: bytes.startswith/endswith helper, list.pop(i) helper, unrolled min()/max(), abs() (GEN + CIR)."""
import multiprocessing as mp, os, re, subprocess, time
import z3
from .. import snapshot
from ..cir import build, solve, symex, stubs, ir
from ..cir.symex import Ptr
from ..gen import harness

LEVEL = 'model_checking'
_B = None
TEMPLATE = '''# cython: language_level=3
def sw(bytes s, sub, Py_ssize_t a, Py_ssize_t b): return s.startswith(sub, a, b)
def ew(bytes s, sub, Py_ssize_t a, Py_ssize_t b): return s.endswith(sub, a, b)
def pop_c(list L, Py_ssize_t i):
    r = L.pop(i)
    return r, L
def pop_o(list L, i): return L.pop(i)
def mn2(a, b): return min(a, b)
def mx2(a, b): return max(a, b)
def mn3(a, b, c): return min(a, b, c)
def mx3(a, b, c): return max(a, b, c)
def mnl(long a, long b, long c): return min(a, b, c)
def mxl(long a, long b, long c): return max(a, b, c)
def abs_i(int x): return abs(x)
def abs_l(long x): return abs(x)
def abs_o(x): return abs(x)
cdef long abs_lc(long x) noexcept: return abs(x)
cdef int abs_ic(int x) noexcept: return abs(x)
cdef long long abs_qc(long long x) noexcept: return abs(x)
def w_abs(int a, long b, long long c): return abs_ic(a), abs_lc(b), abs_qc(c)
'''
I64 = lambda n: z3.BitVec(n, 64)
NMAX = 1 << 40
MAXS = (1 << 63) - 1


def T():
    return int(os.environ.get('VF_QTIMEOUT', '60'))


def _ob(out, prefix, pre, cexf):
    def ob(name, conds, kind_='unsat', mandatory=True):
        r, m, s = solve.check(pre + conds, T())
        d = dict(name='%s: %s' % (prefix, name), s=s, mandatory=mandatory)
        d['status'] = ({'unsat': 'proved', 'sat': 'refuted'} if kind_ == 'unsat' else {'sat': 'witness', 'unsat': 'vacuous'}).get(r, 'inconclusive')
        if r == 'sat' and kind_ == 'unsat':
            d['cex'] = cexf(m)
        out.append(d)
        return d
    return ob


def ev(m, v):
    return m.eval(v, model_completion=True).as_signed_long()


def quiet_refs(ex):
    for nm in ('Py_INCREF', 'Py_DECREF', 'Py_XDECREF', 'Py_XINCREF'):
        ex.stubs[nm] = lambda ex_, g, a, rt, c: None
    for nm in ('__Pyx_NewRef', 'Py_NewRef', '_Py_NewRef'):
        ex.stubs[nm] = lambda ex_, g, a, rt, c: a[0]
    ex.stubs['__Pyx_AddTraceback'] = lambda ex_, g, a, rt, c: None


def pf_name(B, fn):
    c = [f for f in B.module.functions if re.match(r'^__pyx_pf_\d+%s_\d*%s$' % (B.name, fn), f)]
    if len(c) != 1:
        raise KeyError('python function %s not found (%r)' % (fn, c))
    return c[0]


# ---------------------------------------------------------------------------------------------------------------------------
def check_tailmatch(argkind):
    out = []
    t0 = time.time()
    fname = '__Pyx_PyBytes_SingleTailmatch'
    try:
        ex, env = _B.new_exec(unroll=2)
        quiet_refs(ex)
        n, m_ = I64('n'), I64('m')
        S = ex.new_region('self', size=None, lazy=False)
        S.fields[0] = (8, z3.BitVec('S.refcnt', 64)); S.fields[8] = (8, ex.ptr_to(env.type_object('PyBytes_Type', stubs.TPFLAGS_BYTES | (1 << 10)))); S.fields[16] = (8, n)
        S.fields[24] = (8, z3.BitVec('S.hash', 64))
        cmps = []

        def memcmp(ex_, g, a, rt, caller):
            r = ex_.fresh_of(rt, 'memcmp')
            cmps.append(env.event(g, 'memcmp', a, r))
            return r
        ex.stubs['memcmp'] = memcmp
        ex.stubs['bcmp'] = memcmp
        getbuf_ok = z3.Bool('getbuffer_ok')
        bufreg = ex.new_region('viewbuf', size=None)
        if argkind == 'bytes':
            A = ex.new_region('arg', size=None, lazy=False)
            A.fields[0] = (8, z3.BitVec('A.refcnt', 64)); A.fields[8] = (8, ex.ptr_to(env.type_object('PyBytes_Type', stubs.TPFLAGS_BYTES | (1 << 10)))); A.fields[16] = (8, m_)
            A.fields[24] = (8, z3.BitVec('A.hash', 64))
            arg = ex.ptr_to(A)
            subptr = z3.BitVecVal(A.base + 32, 64)
            inv = z3.BoolVal(True)
        else:
            arg, inv = env.make_opaque('arg', tpflags=0)
            subptr = z3.BitVecVal(bufreg.base, 64)
            pv = ir.T('ptr', elem=ir.T('int', bits=8))

            def getbuffer(ex_, g, a, rt, caller):
                env.event(g, 'PyObject_GetBuffer', a)
                gg = z3.And(g, getbuf_ok)
                ex_.store(Ptr(a[1].bv, a[1].regions), ex_.ptr_to(bufreg), pv, gg, 'stub')
                ex_.store(Ptr(a[1].bv + 8, a[1].regions), a[0], pv, gg, 'stub')
                ex_.store(Ptr(a[1].bv + 16, a[1].regions), m_, ir.T('int', bits=64), gg, 'stub')
                env.set_error(z3.And(g, z3.Not(getbuf_ok)), ex_.ptr_to(env.exc_type('PyExc_TypeError')))
                return z3.If(getbuf_ok, z3.BitVecVal(0, 32), z3.BitVecVal(-1, 32))
            ex.stubs['PyObject_GetBuffer'] = getbuffer
            ex.stubs['PyBuffer_Release'] = lambda ex_, g, a, rt, c: env.event(g, 'PyBuffer_Release', a) and None
        start, end, direction = I64('start'), I64('end'), z3.BitVec('direction', 32)
        ret, rg = ex.run(fname, [Ptr(z3.BitVecVal(S.base, 64), [S.id]), arg, start, end, direction])
    except (symex.Unsupported, ir.ParseError, KeyError, IndexError) as e:
        return [dict(name='tailmatch[%s]:encode' % argkind, status='inconclusive', s=time.time() - t0, detail='Unsupported: %s' % e, mandatory=True)]
    pre = [inv, n >= 0, n <= NMAX, m_ >= 0, z3.Or(direction == 1, direction == -1)] + list(ex.assumptions)
    # CPython: ADJUST_INDICES + _Py_bytes_tailmatch
    e1 = z3.If(end > n, n, z3.If(end < 0, z3.If(end + n < 0, z3.BitVecVal(0, 64), end + n), end))
    s1 = z3.If(start < 0, z3.If(start + n < 0, z3.BitVecVal(0, 64), start + n), start)
    fits = (e1 - s1) >= m_            # e1 in [0, n], s1 >= 0: no overflow
    pos = z3.If(direction > 0, e1 - m_, s1)
    selfdata = z3.BitVecVal(S.base + 32, 64)
    called = z3.BoolVal(False)
    ok_call = z3.BoolVal(False)
    for c in cmps:
        called = z3.Or(called, c.guard)
        ok_call = z3.Or(ok_call, z3.And(c.guard, c.args[0].bv == selfdata + pos, c.args[1].bv == subptr, c.args[2] == m_,
                                        ret == z3.If(c.ret == 0, z3.BitVecVal(1, 32), z3.BitVecVal(0, 32))))
    okbuf = getbuf_ok if argkind != 'bytes' else z3.BoolVal(True)

    def cexf(m):
        return dict(kind='tailmatch', arg=argkind, n=ev(m, n), m=ev(m, m_), start=ev(m, start), end=ev(m, end), direction=ev(m, direction))
    ob = _ob(out, 'bytes.startswith/endswith [%s argument]' % argkind, pre, cexf)
    ob('window large enough: the result is the comparison of exactly the bytes CPython compares (start/end adjusted like a slice)',
       [okbuf, fits, z3.Not(z3.And(rg, ok_call))])
    ob('window too small (including start beyond the end): False without comparing', [okbuf, z3.Not(fits), z3.Not(z3.And(rg, ret == 0, z3.Not(called)))])
    if argkind != 'bytes':
        ob('argument without buffer support: -1 with the exception left set', [z3.Not(getbuf_ok), z3.Not(z3.And(rg, ret == -1, z3.Not(env.no_error())))])
        rel = [e for e in ex.events if e.name == 'PyBuffer_Release']
        ob('the buffer view is released exactly when it was acquired', [getbuf_ok, rg, z3.Not(z3.Or(*[e.guard for e in rel]) if rel else z3.BoolVal(False))])
    for c in cmps:
        ob('memcmp stays inside the bytes object', [c.guard, c.args[2] != 0, z3.Not(z3.And(c.args[0].bv - selfdata >= 0, (c.args[0].bv - selfdata) + c.args[2] <= n,
                                                                                                  c.args[0].bv - selfdata <= n))])
    seen = set()
    for c, desc, fn in ex.ub:
        if (fn, desc) in seen:
            continue
        seen.add((fn, desc))
        ob('no UB: %s' % desc[:80], [okbuf, c])
    ob('reach: endswith match attempted', [rg, direction == 1, called, m_ == 2, n == 5], kind_='witness')
    return out


# ---------------------------------------------------------------------------------------------------------------------------
def check_pop(_):
    out = []
    t0 = time.time()
    fname = '__Pyx__PyList_PopIndex'
    try:
        ex, env = _B.new_exec(unroll=2)
        quiet_refs(ex)
        n, alloc = I64('n'), I64('allocated')
        items = ex.new_region('items', size=alloc * 8, kind='elems', elemsize=8)
        old = items.array
        L = ex.new_region('L', size=40, lazy=False)
        tp = env.type_object('PyList_Type', stubs.TPFLAGS_LIST | (1 << 10))
        L.fields[0] = (8, z3.BitVec('L.refcnt', 64)); L.fields[8] = (8, ex.ptr_to(tp)); L.fields[16] = (8, n)
        L.fields[24] = (8, ex.ptr_to(items)); L.fields[32] = (8, alloc)
        Lp = ex.ptr_to(L)
        none = ex.global_ptr('_Py_NoneStruct')
        po, pinv = env.make_opaque('py_ix')
        is_none = z3.Bool('py_ix_is_None')
        py_ix = Ptr(z3.If(is_none, none.bv, po.bv), po.regions | none.regions)
        ix = I64('ix')
        calls = []

        def callmethod(ex_, g, a, rt, caller):
            r = ex_.ptr_to(env.new_object('res:pop', dict(kind='pop')))
            calls.append(env.event(g, 'callmethod1', a, r))
            return r
        ex.stubs['__Pyx_PyObject_CallMethod1'] = callmethod
        ret, rg = ex.run(fname, [Lp, py_ix, ix])
    except (symex.Unsupported, ir.ParseError, KeyError, IndexError) as e:
        return [dict(name='list.pop(i):encode', status='inconclusive', s=time.time() - t0, detail='Unsupported: %s' % e, mandatory=True)]
    pre = [pinv, n >= 0, n <= alloc, alloc <= NMAX] + list(ex.assumptions)
    cix = z3.If(ix < 0, ix + n, ix)
    valid = z3.And(cix >= 0, cix < n)
    new_n = L.fields[16][1]
    new_n = new_n.bv if isinstance(new_n, Ptr) else new_n
    j = I64('j')
    new = items.array
    deleg = z3.BoolVal(False)
    anycall = z3.BoolVal(False)
    for c in calls:
        anycall = z3.Or(anycall, c.guard)
        a2 = c.args[2]
        cand = z3.And(z3.Not(is_none), a2.bv == py_ix.bv)
        for e in ex.events:
            if e.name == 'PyLong_FromSsize_t' and e.ret is not None:
                v = e.args[0]
                wv, wi = z3.If(v < 0, v + n, v), z3.If(ix < 0, ix + n, ix)
                vv, vi = z3.And(wv >= 0, wv < n), z3.And(wi >= 0, wi < n)
                # list.pop(v) must behave like list.pop(ix): both out of range, or the same item
                cand = z3.Or(cand, z3.And(is_none, e.guard, a2.bv == e.ret.bv, vv == vi, z3.Implies(vi, wv == wi)))
        deleg = z3.Or(deleg, z3.And(c.guard, c.args[0].bv == Lp.bv, cand, ret.bv == c.ret.bv))

    def cexf(m):
        return dict(kind='pop', n=ev(m, n), allocated=ev(m, alloc), ix=ev(m, ix), py_ix_none=bool(m.eval(is_none, model_completion=True)))
    ob = _ob(out, 'list.pop(i)', pre, cexf)
    fast_post = z3.And(valid, ret.bv == z3.Select(old, cix), new_n == n - 1,
                       z3.Implies(z3.And(j >= 0, j < n - 1), z3.Select(new, j) == z3.If(j < cix, z3.Select(old, j), z3.Select(old, j + 1))))
    unchanged = z3.And(new_n == n, z3.Implies(z3.And(j >= 0, j < n), z3.Select(new, j) == z3.Select(old, j)))
    ob('either the fast path removes exactly item i (valid index, wraparound once, tail shifted down by one) or list.pop is called on the untouched list with the original index object / an int that selects the same item (or is equally out of range)',
       [rg, z3.Not(z3.Or(z3.And(z3.Not(anycall), fast_post), z3.And(deleg, unchanged)))])
    ob('an out-of-range index never takes the fast path', [rg, z3.Not(valid), z3.Not(anycall)])
    seen = set()
    for c, desc, fn in ex.ub:
        if (fn, desc) in seen:
            continue
        seen.add((fn, desc))
        ob('no UB / out-of-array access: %s' % desc[:80], [c])
    ob('reach: fast path with a negative index', [rg, z3.Not(anycall), ix < 0, n == 5], kind_='witness')
    return out


# ---------------------------------------------------------------------------------------------------------------------------
def check_minmax(job):
    fn, nargs, op = job
    out = []
    t0 = time.time()
    try:
        ex, env = _B.new_exec(unroll=2)
        quiet_refs(ex)
        objs = []
        invs = []
        for k in range(nargs):
            p, inv = env.make_opaque('abc'[k])
            objs.append(p)
            invs.append(inv)
        cmps = []

        def cmpstub(ex_, g, a, rt, caller):
            r = z3.BitVec('cmp%d' % len(cmps), 32)
            cmps.append(env.event(g, 'cmp', a, r))
            env.set_error(z3.And(g, r < 0), ex_.ptr_to(env.exc_type('PyExc_TypeError')))
            return r
        names = [f for f in _B.module.functions if re.match(r'^__Pyx_PyObject_CompareBool(Lt|Gt)_object_object$', f)]
        for nm in names:
            ex.stubs[nm] = cmpstub
        ret, rg = ex.run(pf_name(_B, fn), [symex.NULLPTR] + objs)
    except (symex.Unsupported, ir.ParseError, KeyError, IndexError) as e:
        return [dict(name='%s:encode' % fn, status='inconclusive', s=time.time() - t0, detail='Unsupported: %s' % e, mandatory=True)]
    pre = invs + [z3.And(c.ret >= -1, c.ret <= 1) for c in cmps] + [z3.Distinct(*[o.bv for o in objs])] + list(ex.assumptions)
    # CPython: cur = a; for item in rest: if item OP cur: cur = item   (error -> propagate)
    ok = z3.BoolVal(len(cmps) == nargs - 1)
    cur = objs[0].bv
    alive = z3.BoolVal(True)
    for k in range(1, nargs):
        if k - 1 >= len(cmps):
            break
        c = cmps[k - 1]
        ok = z3.And(ok, z3.Implies(alive, z3.And(c.guard, c.args[0].bv == objs[k].bv, c.args[1].bv == cur, c.args[2] == op)),
                    z3.Implies(z3.Not(alive), z3.Not(c.guard)))
        cur = z3.If(c.ret == 1, objs[k].bv, cur)
        alive = z3.And(alive, c.ret >= 0)
    ok = z3.And(ok, z3.If(alive, ret.bv == cur, ret.bv == 0))
    ob = _ob(out, '%s(%s)' % (fn[:2].replace('mn', 'min').replace('mx', 'max'), ', '.join('abc'[:nargs])), pre,
             lambda m: dict(kind='minmax', fn=fn, cmps=[ev(m, c.ret) for c in cmps]))
    ob('compares each candidate against the current extreme as `candidate %s current`, in argument order, keeps the first extreme on ties, stops at the first error' % ('<' if op == 0 else '>'),
       [rg, z3.Not(ok)])
    ob('reach', [rg, alive], kind_='witness')
    return out


def check_minmax_c(job):
    fn, ismin = job
    out = []
    t0 = time.time()
    try:
        ex, env = _B.new_exec(unroll=2)
        quiet_refs(ex)
        a, b, c = I64('a'), I64('b'), I64('c')
        ret, rg = ex.run(pf_name(_B, fn), [symex.NULLPTR, a, b, c])
    except (symex.Unsupported, ir.ParseError, KeyError, IndexError) as e:
        return [dict(name='%s:encode' % fn, status='inconclusive', s=time.time() - t0, detail='Unsupported: %s' % e, mandatory=True)]
    m1 = z3.If(b < a, b, a) if ismin else z3.If(b > a, b, a)
    m2 = z3.If(c < m1, c, m1) if ismin else z3.If(c > m1, c, m1)
    good = z3.BoolVal(False)
    for e in ex.events:
        if e.name.startswith('PyLong_From') and e.ret is not None:
            good = z3.Or(good, z3.And(e.guard, ret.bv == e.ret.bv, env.ghost_of(e.ret)['value'] == z3.SignExt(stubs.WIDE - 64, m2)))
    ob = _ob(out, fn, list(ex.assumptions), lambda m: dict(kind='minmax_c', fn=fn, a=ev(m, a), b=ev(m, b), c=ev(m, c)))
    ob('C long operands: the result is the int object of the mathematical %s' % ('minimum' if ismin else 'maximum'), [rg, z3.Not(good)])
    return out


# ---------------------------------------------------------------------------------------------------------------------------
KNOWN_ABS = 'F13-abs-of-most-negative-c-integer'


def check_abs(job):
    fn, W = job
    out = []
    t0 = time.time()
    try:
        ex, env = _B.new_exec(unroll=2)
        quiet_refs(ex)
        x = z3.BitVec('x', W)
        ret, rg = ex.run(_B.cfunc(fn), [x])
    except (symex.Unsupported, ir.ParseError, KeyError, IndexError) as e:
        return [dict(name='%s:encode' % fn, status='inconclusive', s=time.time() - t0, detail='Unsupported: %s' % e, mandatory=True)]
    MIN = z3.BitVecVal(1 << (W - 1), W)
    wide = z3.SignExt(W, x)
    want = z3.If(wide < 0, -wide, wide)        # mathematical |x| in 2W bits
    ob = _ob(out, 'abs(<%d-bit C integer>)' % W, list(ex.assumptions), lambda m: dict(kind='abs', fn=fn, x=ev(m, x)))
    d = ob('the value is |x| as CPython computes it', [rg, z3.Not(z3.SignExt(W, ret) == want)])
    if d['status'] == 'refuted':
        # is the counterexample inside the known region (x == MIN)?  then re-solve outside it
        d['known'] = KNOWN_ABS if d['cex']['x'] == -(1 << (W - 1)) else None
        if d['known']:
            d2 = ob('the value is |x| for every x except the most negative one', [rg, x != MIN, z3.Not(z3.SignExt(W, ret) == want)])
    return out


def check_abs_obj(_):
    out = []
    t0 = time.time()
    try:
        ex, env = _B.new_exec(unroll=2)
        quiet_refs(ex)
        x, V, inv = env.make_pylong('x', 5)
        deleg = []

        def dstub(name):
            def stub(ex_, g, a, rt, caller):
                r = ex_.ptr_to(env.new_object('res:' + name, dict(kind=name)))
                deleg.append(env.event(g, name, a, r))
                return r
            return stub
        for nm in ('PyNumber_Absolute', '_PyLong_Copy', 'PyNumber_Negative'):
            ex.stubs[nm] = dstub(nm)
        ret, rg = ex.run(pf_name(_B, 'abs_o'), [symex.NULLPTR, x])
    except (symex.Unsupported, ir.ParseError, KeyError, IndexError) as e:
        return [dict(name='abs(int object):encode', status='inconclusive', s=time.time() - t0, detail='Unsupported: %s' % e, mandatory=True)]
    pre = [inv] + list(ex.assumptions)
    good = z3.And(V >= 0, ret.bv == x.bv)
    for e in ex.events:
        if e.name.startswith('PyLong_From') and e.ret is not None:
            good = z3.Or(good, z3.And(e.guard, ret.bv == e.ret.bv, V < 0, env.ghost_of(e.ret)['value'] == -V))
    for e in deleg:
        if e.name in ('_PyLong_Copy', 'PyNumber_Negative'):
            good = z3.Or(good, z3.And(e.guard, e.args[0].bv == x.bv, ret.bv == e.ret.bv, V < 0))
        if e.name == 'PyNumber_Absolute':          # CPython's own abs(): correct for every value
            good = z3.Or(good, z3.And(e.guard, e.args[0].bv == x.bv, ret.bv == e.ret.bv))
    ob = _ob(out, 'abs(exact int object)', pre, lambda m: dict(kind='abs_o', x=m.eval(V, model_completion=True).as_signed_long()))
    ob('non-negative: the object itself; negative compact: the int -x; larger: a sign-flipped copy / CPython', [rg, z3.Not(good)])
    ob('reach: negative one-digit int', [rg, V == -5], kind_='witness')
    return out


REPLAY = r'''
import sys
sys.path.insert(0, %(dir)r)
import %(mod)s as M
c = %(cex)r
k = c['kind']
def clip(v): return max(-2**63, min(2**63 - 1, v))
if k == 'tailmatch':
    n, m = min(c['n'], 12), min(c['m'], 12)
    s = bytes(range(97, 97 + n));
    f, g = (M.ew, bytes.endswith) if c['direction'] > 0 else (M.sw, bytes.startswith)
    res = []
    for sub in ([s[-m:] if m else b'', s[:m], b'z' * m] if m <= n else [b'z' * m]):
        arg = sub if c['arg'] == 'bytes' else bytearray(sub)
        res.append((f(s, arg, c['start'], c['end']), g(s, arg, c['start'], c['end'])))
    got, want = [r[0] for r in res], [r[1] for r in res]
elif k == 'pop':
    n = min(c['n'], 12)
    L1, L2 = list(range(n)), list(range(n))
    try: want = (L2.pop(c['ix']), L2)
    except IndexError: want = 'IndexError'
    try: got = M.pop_c(L1, c['ix'])
    except IndexError: got = 'IndexError'
elif k == 'minmax':
    class X:
        def __init__(s, n): s.n = n
        def __repr__(s): return s.n
    log = []
    seq = list(c['cmps'])
    def mk(n):
        x = X(n)
        return x
    class Y(X):
        def __lt__(s, o): log.append((s.n, '<', o.n)); return bool(seq.pop(0)) if seq else False
        def __gt__(s, o): log.append((s.n, '>', o.n)); return bool(seq.pop(0)) if seq else False
    args = [Y(ch) for ch in 'abc'[:3 if c['fn'].endswith('3') else 2]]
    seq = [max(v, 0) for v in c['cmps']]; log.clear(); got = (getattr(M, c['fn'])(*args).n, list(log))
    seq = [max(v, 0) for v in c['cmps']]; log.clear(); want = ((min if c['fn'].startswith('mn') else max)(*args).n, list(log))
elif k == 'minmax_c':
    got = getattr(M, c['fn'])(c['a'], c['b'], c['c']); want = (min if c['fn'] == 'mnl' else max)(c['a'], c['b'], c['c'])
elif k == 'abs':
    f = {'abs_ic': M.abs_i, 'abs_lc': M.abs_l, 'abs_qc': M.abs_l}[c['fn']]
    got = f(c['x']); want = abs(c['x'])
elif k == 'abs_o':
    got = M.abs_o(c['x']); want = abs(c['x'])
print('REPLAY', c, 'got', got, 'want', want)
print('REPLAY-REPRODUCED' if got != want else 'REPLAY-HOLDS')
'''
_NATIVE = None


def replay(rep, cex):
    global _NATIVE
    try:
        if _NATIVE is None:
            _NATIVE = build.native(_B.cfile)
    except build.BuildError as e:
        return None, 'native build failed: %s' % e
    p = subprocess.run(['/verif/.venv/bin/python', '-c', REPLAY % dict(dir=os.path.dirname(_NATIVE), mod=_B.name, cex=cex)], capture_output=True, text=True, timeout=60)
    txt = (p.stdout + p.stderr).strip()[-500:]
    rep.validated += 1
    if p.returncode < 0:
        return True, 'process died with signal %d' % (-p.returncode)
    return 'REPLAY-REPRODUCED' in txt, txt


def _small(fn, arg):
    orig = solve.check

    def small(conds, timeout_s=60, want_model=True):
        extra = [I64('n') <= 8, I64('m') <= 8, I64('allocated') <= 12]
        small_idx = []
        for v in ('ix', 'start', 'end'):
            small_idx += [I64(v) >= -20, I64(v) <= 20]
        r = orig(list(conds) + extra + small_idx, timeout_s, want_model)
        if r[0] == 'sat':
            return r
        return orig(list(conds) + extra, timeout_s, want_model)
    solve.check = small
    try:
        return fn(arg)
    finally:
        solve.check = orig


FN = dict(tailmatch=check_tailmatch, pop=check_pop, minmax=check_minmax, minmax_c=check_minmax_c, abs=check_abs, abs_o=check_abs_obj)
JOBS = [('tailmatch', 'bytes'), ('tailmatch', 'buffer'), ('pop', None),
        ('minmax', ('mn2', 2, 0)), ('minmax', ('mx2', 2, 4)), ('minmax', ('mn3', 3, 0)), ('minmax', ('mx3', 3, 4)),
        ('minmax_c', ('mnl', True)), ('minmax_c', ('mxl', False)),
        ('abs', ('abs_ic', 32)), ('abs', ('abs_lc', 64)), ('abs', ('abs_qc', 64)), ('abs_o', None)]


def worker(job):
    return FN[job[0]](job[1])


def worker_small(job):
    return _small(FN[job[0]], job[1])


def run(rep, tier, only=None):
    global _B
    snapshot.activate()
    _B = harness.build_template('c13t', TEMPLATE)
    jobs = [j for j in JOBS if not only or only in j[0] or only in str(j[1])]
    rep.functions += ['Cython/Utility/StringTools.c: __Pyx_PyBytes_SingleTailmatch; Cython/Utility/Optimize.c: __Pyx__PyList_PopIndex (+ PopNewIndex/PopIndex); '
                      'generated code of min()/max() with 2-3 arguments (Optimize.py EarlyReplaceBuiltinCalls._optimise_min_max) and of abs() on C integers / objects '
                      '(Builtin.py table, Builtins.c py_abs) [%s]' % build.sha(_B.cfile)]
    rep.bounds += ['bytes.startswith/endswith: any self length <= 2^40, any argument length >= 0, any 64-bit start/end, both directions, bytes argument and buffer-protocol argument (success / failure)',
                   'list.pop(i): any list with 0 <= size <= allocated <= 2^40 (item array as z3 array, shift checked at a symbolic position), any 64-bit index, C index (py_ix None) and object index',
                   'min/max: 2 and 3 object arguments with arbitrary comparison outcomes (true/false/error) per comparison; 3 C long arguments, all values',
                   'abs: int / long / long long all values; exact int objects up to 5 digits',
                   'outside: the other builtins and methods named in the property (len, sum, any/all, sorted, isinstance, ord/chr, type constructors, dict/set/bytearray/str methods), '
                   'unicode tailmatch (delegates to PyUnicode_Tailmatch), tuples of prefixes, star-argument forms of min/max']
    rep.assume('CPython 3.12 bytes/list/int layouts; memcmp, PyObject_GetBuffer, list.pop and rich comparison are CPython\'s own (stubs return arbitrary results within their contracts)',
               'reference counts ignored (C35)')
    with mp.Pool(min(16, os.cpu_count() or 4)) as pool:
        results = pool.map(worker, jobs, chunksize=1)
        need_small = [j for j, res in zip(jobs, results) if j[0] in ('tailmatch', 'pop') and any(d['status'] == 'refuted' for d in res)]
        small = dict(zip(need_small, pool.map(worker_small, need_small, chunksize=1))) if need_small else {}
    known_reported = set()
    for job, res in zip(jobs, results):
        sm = {d['name']: d for d in small.get(job, [])}
        for d in res:
            if d['status'] == 'refuted':
                cex = (sm.get(d['name']) or {}).get('cex') or d['cex']
                ok, txt = replay(rep, cex)
                if ok and d.get('known') and d['known'] in rep.known:
                    rep.obligation(d['name'], 'refuted', d['s'], False, 'known finding %s: %s' % (d['known'], cex))
                    if d['known'] not in known_reported:
                        known_reported.add(d['known'])
                        rep.known_finding(d['known'])
                elif ok:
                    rep.obligation(d['name'], 'refuted', d['s'], True, str(cex))
                    rep.violation('%s fails for %s: %s' % (d['name'], cex, txt), dict(cex=cex, replay_output=txt))
                else:
                    rep.obligation(d['name'], 'inconclusive', d['s'], d.get('mandatory', True), 'counterexample %s did not reproduce: %s' % (cex, txt))
            else:
                rep.obligation(d['name'], d['status'], d['s'], d.get('mandatory', True), d.get('detail'))
    rep.cov['states'] = sum(len(r) for r in results)
    rep.cov['transitions'] = sum(len(r) for r in results)
    rep.sample(dict(function='__Pyx_PyBytes_SingleTailmatch', inputs='n, m, start, end, direction symbolic'))
