"""C04 overflowcheck reports exactly the overflowing C arithmetic (GEN + CIR)."""
import multiprocessing as mp, os, re, subprocess, time, json
import z3
from .. import snapshot
from ..cir import build, solve, symex, stubs, ir
from ..gen import harness, arith

LEVEL = 'model_checking'
_BS = {}       # arm -> Built
_K = {}
_NATIVE = None


def encode(arm, k):
    B = _BS[arm]
    cty, bits, signed = arith.TYPEINFO[k.tname]
    W, ps = arith.promoted(bits, signed)
    ex, env = B.new_exec()
    if arm == 'portable':
        ex.is_constant = False      # -O0: __builtin_constant_p of a parameter is 0; the constant arm is checked as a unit below
    vs = k.expr.vars()
    xs = {v: z3.BitVec(v, bits) for v in vs}
    outr = ex.new_region('out', size=W // 8, lazy=False)
    outr.fields[0] = (W // 8, z3.BitVec('out0', W))
    env.exc_type('PyExc_ZeroDivisionError'); env.exc_type('PyExc_OverflowError')
    ret, rg = ex.run(B.cfunc(k.name), [xs[v] for v in vs] + [ex.ptr_to(outr)])
    res = ex.load(ex.ptr_to(outr), ir.T('int', bits=W), z3.BoolVal(True))
    senv = {v: arith.ext(xs[v], W, signed) for v in vs}
    val, ovf, zd = arith.spec_eval(k.expr.node, senv, W, ps)
    kp = arith.known_preds(k.expr.node, senv, W, ps)
    return ex, env, xs, ret, rg, res, val, ovf, zd, kp


def check_kernel(job):
    arm, kname = job
    k = _K[kname]
    cty, bits, signed = arith.TYPEINFO[k.tname]
    t0 = time.time()
    try:
        ex, env, xs, ret, rg, res, val, ovf, zd, kp = encode(arm, k)
    except (symex.Unsupported, ir.ParseError, KeyError) as e:
        return [dict(name='%s[%s]:encode' % (kname, arm), status='inconclusive', s=time.time() - t0, detail='Unsupported: %s' % e)]
    T = int(os.environ.get('VF_QTIMEOUT', '180'))
    stats = dict(blocks=ex.stats['blocks'], edges=ex.stats['edges'])
    out = []
    W, ps = arith.promoted(bits, signed)
    hard = (arm == 'portable' and W == 64 and _has_symbolic_mul(k.expr.node))
    normal = z3.And(rg, ret == 0, env.no_error())
    raised = z3.And(rg, ret == z3.BitVecVal(-1, 32), z3.Not(env.no_error()))

    def ob(name, conds, kind='unsat', mandatory=True):
        if not mandatory and hard and os.environ.get('VF_TIER') != 'thorough':
            return      # 64-bit symbolic x symbolic multiplication through the division-based arm: attempted in the thorough tier only
        if kind == 'unsat':
            r, m, s = solve.check_abstract_first(conds, T)
        elif kind == 'witness':
            # reachability: try a simple concrete input first (all operands 1), then the general query
            r, m, s = solve.check(list(conds) + [x == 1 for x in xs.values()], T)
            if r != 'sat':
                r, m, s = solve.check(conds, T)
        else:
            r, m, s = solve.check(conds, min(T, 20))
        d = dict(name='%s[%s]:%s' % (kname, arm, name), s=s, stats=stats, mandatory=mandatory)
        # known findings are input-space predicates: a counterexample inside a known region is reported as such and the
        # query is repeated with that region excluded, so any OTHER violation of the same obligation is still found
        hits = []
        excl = []
        while kind == 'unsat' and r == 'sat':
            matched = [key for key, pr in kp.items() if key not in [h[0] for h in hits] and z3.is_true(m.eval(pr, model_completion=True))]
            if not matched:
                break
            for key in matched:
                hits.append((key, {v: solve.model_int(m, x, signed) for v, x in xs.items()}))
                excl.append(z3.Not(kp[key]))
            r, m, s2 = solve.check_abstract_first(list(conds) + excl, T)
            s += s2
            d['s'] = s
        d['known_hits'] = hits
        if kind == 'unsat':
            d['status'] = {'unsat': 'proved', 'sat': 'refuted'}.get(r, 'inconclusive')
        elif kind == 'witness':
            d['status'] = {'sat': 'witness', 'unsat': 'vacuous'}.get(r, 'inconclusive')
        else:       # measured: sat/unsat are both acceptable outcomes
            d['status'] = 'proved' if r in ('sat', 'unsat') else 'inconclusive'
            d['measured'] = r
        if r == 'sat':
            d['cex'] = {v: solve.model_int(m, x, signed) for v, x in xs.items()}
        out.append(d)
    # O1 soundness: a normal return carries the exact value
    ob('sound: normal return => exact result', [z3.Not(ovf), z3.Not(zd), normal, res != val], mandatory=not hard)
    # O2 completeness: every unrepresentable (sub)result and every zero divisor raises
    ob('complete: overflow or zero divisor => raises', [z3.Or(ovf, zd), z3.Not(raised)], mandatory=not hard)
    ob('error kind: raising => OverflowError or ZeroDivisionError', [rg, z3.Not(env.no_error()),
        z3.Not(z3.Or(env.error_is('PyExc_OverflowError'), env.error_is('PyExc_ZeroDivisionError')))])
    ob('total: returns normally or with an error (never both, never neither)', [rg, z3.Not(z3.Or(normal, raised))])
    ob('spurious OverflowError on a fitting result (tolerated, measured)', [z3.Not(ovf), z3.Not(zd), raised], kind='measured', mandatory=False)
    ob('reach: a normal return exists', [normal], kind='witness')
    # undefined behaviour on any executed path (part of C36, and a precondition for the value obligations to mean anything)
    seen_ub = set()
    for c, desc, fn in ex.ub:
        key = (fn, desc)
        if key in seen_ub:
            continue
        seen_ub.add(key)
        ob('no UB: %s in %s' % (desc[:90], fn), [c])
        out[-1]['ub'] = True
    if ex.unwind:
        ob('unwinding', [z3.Or(*[u[0] for u in ex.unwind])])
    return out


def _has_symbolic_mul(n):
    if n[0] in ('var', 'const', 'lit'):
        return False
    if n[0] == '*' and n[1][0] not in ('const', 'lit') and n[2][0] not in ('const', 'lit'):
        return True
    return any(_has_symbolic_mul(c) for c in n[1:] if isinstance(c, tuple))


MULC = [2, 3, 7, -1, -2, -7, 1 << 15, (1 << 31) - 1, -(1 << 31), 1, 0]


def check_mul_const(fname):
    """unit obligation for the portable constant-multiplier helper: for each constant b of the boundary set and every a:
    overflow flag <=> exact product not representable, and the returned value is the wrapped product"""
    B = _BS['portable']
    fn = B.module.functions[fname]
    bits = fn.params[0][0].bits
    signed = 'unsigned' not in fname
    out = []
    t0 = time.time()
    try:
        ex, env = B.new_exec()
        ex.is_constant = False
        a = z3.BitVec('a', bits); b = z3.BitVec('b', bits)
        ovr = ex.new_region('ovf', size=4, lazy=False)
        ov0 = z3.BitVec('ov0', 32)
        ovr.fields[0] = (4, ov0)
        ret, rg = ex.run(fname, [a, b, ex.ptr_to(ovr)])
        flag = ex.load(ex.ptr_to(ovr), ir.T('int', bits=32), z3.BoolVal(True))
    except (symex.Unsupported, KeyError) as e:
        return [dict(name=fname + ':encode', status='inconclusive', s=time.time() - t0, detail=str(e))]
    for c in MULC:
        lo, hi = arith.rng(bits, signed)
        if not (lo <= c <= hi):
            continue
        cb = z3.BitVecVal(c, bits)
        sub = lambda e: z3.substitute(e, (b, cb))
        fits = symex.mul_fits(a, cb, signed)
        good = z3.And(sub(rg), sub(ret) == a * cb, (sub(flag) != 0) == z3.Not(fits))
        r, m, s = solve.check([ov0 == 0, z3.Not(good)], int(os.environ.get('VF_QTIMEOUT', '180')))
        d = dict(name='%s[portable,b=%d]: flag <=> product unrepresentable, value = wrapped product' % (fname, c), s=s,
                 status={'unsat': 'proved', 'sat': 'refuted'}.get(r, 'inconclusive'), mandatory=(bits <= 32 or abs(c) <= 7))
        if r == 'sat':
            d['cex'] = dict(a=solve.model_int(m, a, signed), b=c)
            d['unit'] = True
        out.append(d)
    return out


REPLAY = r'''
import sys
sys.path.insert(0, %(dir)r)
import %(mod)s as M
name, args, lo, hi, src = %(args)r
env = dict(zip(%(vars)r, args))
def exact(n):
    k = n[0]
    if k == 'var': return env[n[1]]
    if k in ('const', 'lit'): return n[1]
    if k == 'neg': return chk(-exact(n[1]))
    x, y = exact(n[1]), exact(n[2])
    if k == '+': return chk(x + y)
    if k == '-': return chk(x - y)
    if k == '*': return chk(x * y)
    if k == '<<':
        if y < 0: raise OverflowError('negative shift')
        return chk(x << y) if y < 4096 else chk(x * 2 ** 4096)
    if k == '//': return chk(x // y)
class Ovf(Exception): pass
def chk(v):
    if not (lo <= v <= hi): raise Ovf()
    return v
try:
    want = ('value', exact(%(node)r))
except (Ovf, OverflowError, ZeroDivisionError):
    want = ('raise',)
try:
    got = ('value', getattr(M, 'py_' + name)(*args))
except (OverflowError, ZeroDivisionError):
    got = ('raise',)
print('REPLAY got', got, 'want', want)
bad = (want[0] == 'raise' and got[0] != 'raise') or (want[0] == 'value' and got[0] == 'value' and got != want)
print('REPLAY-REPRODUCED' if bad else 'REPLAY-HOLDS')
'''


def replay(rep, arm, k, cex, ub=False):
    ok, txt = _replay(rep, arm, k, cex, False)
    if ub and not ok:
        ok2, txt2 = _replay(rep, arm, k, cex, True)
        if ok2:
            return ok2, txt2
    return ok, txt


def _replay(rep, arm, k, cex, sanitize):
    global _NATIVE
    if _NATIVE is None:
        _NATIVE = {}
    try:
        akey = arm + ('_ubsan' if sanitize else '')
        if akey not in _NATIVE:
            _NATIVE[akey] = build.native(_BS[arm].cfile, tag=akey, sanitize=sanitize)
    except build.BuildError as e:
        return None, 'native build failed: %s' % e
    cty, bits, signed = arith.TYPEINFO[k.tname]
    W, ps = arith.promoted(bits, signed)
    lo, hi = arith.rng(W, ps)
    vs = k.expr.vars()
    so = _NATIVE[akey]
    # the module name inside the .so is the template name; load it from a private directory
    d = os.path.join(os.path.dirname(so), 'replay_' + akey)
    os.makedirs(d, exist_ok=True)
    tgt = os.path.join(d, _BS[arm].name + build.EXT_SUFFIX)
    if not os.path.exists(tgt):
        os.link(so, tgt)
    code = REPLAY % dict(dir=d, mod=_BS[arm].name, args=(k.name, [cex[v] for v in vs], lo, hi, k.src), vars=vs, node=k.expr.node)
    p = subprocess.run(['/verif/.venv/bin/python', '-c', code], capture_output=True, text=True, timeout=120)
    txt = (p.stdout + p.stderr).strip()[-500:]
    rep.validated += 1
    if p.returncode < 0:
        return True, 'process died with signal %d' % (-p.returncode)
    if sanitize and 'runtime error' in txt:
        return True, 'UBSan: ' + txt[txt.find('runtime error') - 60:][:300]
    return 'REPLAY-REPRODUCED' in txt, txt


def known_key(k, cex):
    """input-space predicates of the known findings (DESIGN §5)"""
    cty, bits, signed = arith.TYPEINFO[k.tname]
    W, ps = arith.promoted(bits, signed)
    env = dict(cex)

    def has(node, pred):
        if node[0] in ('var', 'const', 'lit'):
            return False
        if pred(node):
            return True
        return any(has(c, pred) for c in node[1:] if isinstance(c, tuple))

    def val(n):
        kk = n[0]
        if kk == 'var': return env[n[1]]
        if kk in ('const', 'lit'): return n[1]
        if kk == 'neg': return -val(n[1])
        x, y = val(n[1]), val(n[2])
        try:
            return {'+': x + y, '-': x - y, '*': x * y, '<<': x << y if 0 <= y < 200 else 0, '//': x // y if y else 0}[kk]
        except Exception:
            return 0
    MIN = -(1 << (W - 1))
    # F2: signed a // b with a == MIN and b == -1 where sizeof(T) != sizeof(long): no OverflowError guard is emitted
    if ps and W != 64 and has(k.expr.node, lambda n: n[0] == '//' and val(n[1]) == MIN and val(n[2]) == -1):
        return 'F2-min-div-minus-one-narrow-types'
    # F10: unary minus is not overflow-checked
    if ps and has(k.expr.node, lambda n: n[0] == 'neg' and val(n[1]) == MIN):
        return 'F10-unary-neg-min-unchecked'
    return None


def portable_arm(cfile):
    """the configuration without __builtin_*_overflow (what an MSVC user gets): same C text with the two
    `#define __PYX_HAVE_BUILTIN_OVERFLOW` lines removed"""
    s = open(cfile).read()
    s2, n = re.subn(r'^#\s*define __PYX_HAVE_BUILTIN_OVERFLOW\s*$', '/* verif: builtin overflow arm disabled */', s, flags=re.M)
    if n == 0:
        raise build.BuildError('no __PYX_HAVE_BUILTIN_OVERFLOW definition found to disable')
    out = cfile.replace('.c', '_portable.c')
    open(out, 'w').write(s2)
    return out


def run(rep, tier, only=None):
    global _BS, _K
    os.environ['VF_TIER'] = tier
    if tier == 'thorough':
        os.environ.setdefault('VF_QTIMEOUT', '600')
    snapshot.activate()
    types = ('int', 'uint', 'long', 'ulong', 'short', 'ushort') if tier == 'quick' else ('int', 'uint', 'long', 'ulong', 'longlong', 'short', 'ushort')
    src, ks = arith.overflow_family(types)
    if only:
        ks = [k for k in ks if only in k.name]
    _K = {k.name: k for k in ks}
    B = harness.build_template('c04t', src)
    _BS['builtin'] = B
    pc = portable_arm(B.cfile)
    _BS['portable'] = harness.Built(B.name, pc, None, ir.Module(open(build.lower(pc)).read()))
    rep.functions += ['Cython/Utility/Overflow.c: BaseCaseSigned/BaseCaseUnsigned (add/sub/mul/div, mul_const), LeftShift, as instantiated per type; '
                      'both the __builtin_*_overflow arm and the portable arm (macro definition removed from the generated C) [%s]' % build.sha(B.cfile),
                      'Cython/Compiler/ExprNodes.py NumBinopNode/DivNode overflow plumbing, Optimize.ConsolidateOverflowCheck: %d generated kernels' % len(ks)]
    rep.bounds += ['%d kernels: T in %s x 18 expression shapes (single operators, constant operands, nesting depth <= 3) x overflowcheck.fold {on, off for nested}' % (len(ks), list(types)),
                   'every value of every operand at full width; two preprocessor arms',
                   'reference: SMT-LIB overflow predicates (bvsadd/bvssub/bvsmul no-overflow etc.) per operation = "exact result not representable"; '
                   'for 64-bit multiplication these predicates are the specification (no 128-bit re-multiplication)',
                   'outside: true division `/` (double result under language_level 3), C types narrower than the promoted arithmetic type as result']
    rep.assume('stubs: PyErr_SetString sets the ghost error indicator, __Pyx_AddTraceback is an event',
               'spurious OverflowError on fitting results is tolerated (measured, not mandatory)')
    for name, r, s_ in solve.nia_lemmas(mul=True):
        rep.obligation(name + ' (unbounded integers, z3 NIA)', 'proved' if r == 'unsat' else 'inconclusive', s_)
    jobs = [(arm, k.name) for arm in ('builtin', 'portable') for k in ks]
    units = sorted(n for n in _BS['portable'].module.functions if re.match(r'^__Pyx_mul_const_\w+_checking_overflow$', n))
    with mp.Pool(min(16, os.cpu_count() or 4)) as pool:
        results = pool.map(check_kernel, jobs, chunksize=1)
        uresults = pool.map(check_mul_const, units, chunksize=1)
    for fname, res in zip(units, uresults):
        for d in res:
            if d['status'] == 'refuted':
                # unit-level counterexample: confirm through a kernel that multiplies by that constant is not available in
                # general, so it is reported as inconclusive unless a kernel-level obligation also fails
                rep.obligation(d['name'], 'inconclusive', d['s'], d.get('mandatory', True), 'unit counterexample %s (not replayable at unit level)' % d['cex'])
            else:
                rep.obligation(d['name'], d['status'], d['s'], d.get('mandatory', True), d.get('detail'))
    states = trans = 0
    spurious = {}
    seen_known = set()
    for (arm, kname), res in zip(jobs, results):
        k = _K[kname]
        for d in res:
            name = d['name']
            if 'measured' in d:
                spurious[name.split(':')[0]] = d['measured']
                rep.obligation(name + ' = ' + d['measured'], d['status'], d['s'], False)
                continue
            for key, cex in d.get('known_hits', ()):
                if key in rep.known:
                    if key not in seen_known:
                        ok, txt = replay(rep, arm, k, cex, ub=d.get('ub', False))
                        if ok:
                            rep.known_finding(key, rep.known[key] + '  [witness: %s %s: %s]' % (k.name, cex, txt[:120]))
                            seen_known.add(key)
                        else:
                            rep.harness_error('known finding %s did not reproduce for %s %s: %s' % (key, k.name, cex, txt))
                else:
                    # the region is not (or no longer) listed as known: it is an ordinary violation
                    ok, txt = replay(rep, arm, k, cex)
                    if ok:
                        rep.violation('%s fails for %s: %s' % (name, cex, txt), dict(kernel=k.name, arm=arm, source=k.src, cex=cex, replay_output=txt))
                    else:
                        rep.harness_error('counterexample %s for %s did not reproduce: %s' % (cex, name, txt))
            if d['status'] == 'refuted':
                ok, txt = replay(rep, arm, k, d['cex'], ub=d.get('ub', False))
                if ok:
                    rep.obligation(name, 'refuted', d['s'], True, str(d['cex']))
                    rep.violation('%s fails for %s: %s' % (name, d['cex'], txt), dict(kernel=k.name, arm=arm, source=k.src, cex=d['cex'], replay_output=txt))
                else:
                    rep.obligation(name, 'inconclusive', d['s'], True, 'counterexample %s did not reproduce on the real build: %s' % (d['cex'], txt))
            else:
                rep.obligation(name, d['status'], d['s'], d.get('mandatory', True), d.get('detail'))
        if res and res[0].get('stats'):
            states += res[0]['stats']['blocks']
            trans += res[0]['stats']['edges']
    rep.cov['states'] = states
    rep.cov['transitions'] = trans
    rep.cov['programs'] = len(jobs)
    rep.cov['spurious_overflow_sat'] = sorted(n for n, r in spurious.items() if r == 'sat')[:80]
    rep.sample(dict(kernel=ks[0].name, source=ks[0].src))
