# Harness source for engine PYAST (parsed, never imported).  Python subset only.
# token_value / is_token are interpreter summaries for abstract varint tokens.

def ref_read_varint(data, i):
    # CPython locations.md: 6-bit chunks, least significant first, bit 6 = "more chunks follow"
    b = ord(data[i])
    i += 1
    val = b & 63
    shift = 0
    while b & 64:
        b = ord(data[i])
        i += 1
        shift += 6
        val |= (b & 63) << shift
    return (val, i)


def check_varint(v):
    out = []
    encode_varint(out, v)
    n = len(out)
    k = 0
    for ch in out:
        b = ord(ch)
        if b >= 128 or b < 0:
            return False
        k += 1
    r = ref_read_varint(out, 0)
    val, i = r
    return val == v and i == n


def ref_decode_one(items, i, line):
    # one entry of the reference decoder (bytes + abstract varint tokens); entry length must be 1 code unit
    # returns (entry, next index, new running line) or None for a malformed entry
    first = ord(items[i])
    i += 1
    if (first & 128) == 0 or first > 255:
        return None
    if (first & 7) != 0:
        return None
    code = (first >> 3) & 15
    if code <= 9:
        second = ord(items[i])
        i += 1
        if second > 127 or second < 0:
            return None
        sc = (code << 3) | ((second >> 4) & 7)
        ec = sc + (second & 15)
        return ((line, line, sc, ec), i, line)
    elif code <= 12:
        line += code - 10
        sc = ord(items[i])
        ec = ord(items[i + 1])
        i += 2
        if sc > 127 or ec > 127 or sc < 0 or ec < 0:
            return None
        return ((line, line, sc, ec), i, line)
    elif code == 14:
        u = token_value(items[i])
        if (u & 1) != 0:
            d = 0 - (u >> 1)
        else:
            d = u >> 1
        line += d
        el = line + token_value(items[i + 1])
        sc = token_value(items[i + 2]) - 1
        ec = token_value(items[i + 3]) - 1
        i += 4
        return ((line, el, sc, ec), i, line)
    return None


def ref_decode_tokens(items, firstlineno):
    i = 0
    n = len(items)
    line = firstlineno
    out = []
    while i < n:
        r = ref_decode_one(items, i, line)
        if r is None:
            return None
        entry, i, line = r
        out.append(entry)
    return out


def check_step(last, a0, a1, a2, a3):
    # inductive step: from ANY running line `last` (the invariant: encoder's last_lineno == decoder's line),
    # one call of encode_single_position emits exactly one entry that the reference decodes to the input
    # position, and the value it returns is the decoder's new running line.
    table = []
    new_last = encode_single_position(table, (a0, a1, a2, a3), last)
    table = ''.join(table)
    r = ref_decode_one(table, 0, last)
    if r is None:
        return False
    entry, i, line = r
    return entry == (a0, a1, a2, a3) and i == len(table) and line == new_last


def check_rt1(first, a0, a1, a2, a3):
    ps = [(a0, a1, a2, a3)]
    table = build_line_table(ps, first)
    return ref_decode_tokens(table, first) == ps


def check_rt2(first, a0, a1, a2, a3, b0, b1, b2, b3):
    ps = [(a0, a1, a2, a3), (b0, b1, b2, b3)]
    table = build_line_table(ps, first)
    return ref_decode_tokens(table, first) == ps


def check_rt3(first, a0, a1, a2, a3, b0, b1, b2, b3, c0, c1, c2, c3):
    ps = [(a0, a1, a2, a3), (b0, b1, b2, b3), (c0, c1, c2, c3)]
    table = build_line_table(ps, first)
    return ref_decode_tokens(table, first) == ps


def check_rt4(first, a0, a1, a2, a3, b0, b1, b2, b3, c0, c1, c2, c3, d0, d1, d2, d3):
    ps = [(a0, a1, a2, a3), (b0, b1, b2, b3), (c0, c1, c2, c3), (d0, d1, d2, d3)]
    table = build_line_table(ps, first)
    return ref_decode_tokens(table, first) == ps
