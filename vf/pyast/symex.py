"""Engine PYAST (DESIGN §2.4b): a small symbolic interpreter for integer-only Python.

The *real* source of the function under test is parsed with `ast` from the overlay on every run and
interpreted here; ints are 64-bit z3 bit-vectors with "does not leave the model" side obligations
(signed overflow of + - * << must be unsat under the path condition), booleans are z3 Bools, symbolic
branches fork (decision replay: each path is a fresh execution, so Python-level mutable state needs no
copying).  Every path ends in an obligation `pc => result`; `assert` statements inside the interpreted
code are obligations too.  Anything outside the subset raises Unsupported -> inconclusive.
"""
import ast, inspect, time, z3

W = 64


class Unsupported(Exception):
    pass


class PathAbort(Exception):
    """infeasible / pruned path"""


class Raised(Exception):
    def __init__(self, exc_name, msg=None):
        self.exc_name, self.msg = exc_name, msg


class SymChar:
    """chr(x) of a symbolic int (one character whose code point is the z3 term)."""
    def __init__(self, code): self.code = code
    def __repr__(self): return 'SymChar(%s)' % (self.code,)


class SymStr:
    """a string made of concrete characters and SymChars (concrete length per path)."""
    def __init__(self, items): self.items = list(items)
    def __len__(self): return len(self.items)


class Token:
    """abstract token appended by a function summary (e.g. a varint)"""
    def __init__(self, kind, value): self.kind, self.value = kind, value
    def __repr__(self): return 'Token(%s,%s)' % (self.kind, self.value)


class _Return(Exception):
    def __init__(self, v): self.v = v


class _Break(Exception): pass
class _Continue(Exception): pass


def is_sym(v):
    return isinstance(v, z3.ExprRef)


def bv(v):
    if isinstance(v, bool):
        return z3.BitVecVal(int(v), W)
    if isinstance(v, int):
        if not (-(1 << (W - 1)) <= v < (1 << (W - 1))):
            raise Unsupported('constant outside the %d-bit model: %d' % (W, v))
        return z3.BitVecVal(v, W)
    if z3.is_bool(v):
        return z3.If(v, z3.BitVecVal(1, W), z3.BitVecVal(0, W))
    return v


def to_bool(v):
    if isinstance(v, (bool, int)):
        return bool(v)
    if z3.is_bool(v):
        return v
    if z3.is_bv(v):
        return v != 0
    if isinstance(v, (list, tuple, str, SymStr, dict, bytes)):
        return len(v) > 0
    if v is None:
        return False
    raise Unsupported('truth value of %r' % (v,))


class Interp:
    def __init__(self, modules, summaries=None, loop_bound=8, timeout_ms=30000):
        """modules: dict name -> python source text (functions are looked up across all of them)."""
        self.funcs = {}
        self.globals = {}
        for mname, src in modules.items():
            tree = ast.parse(src)
            for node in tree.body:
                if isinstance(node, ast.FunctionDef):
                    self.funcs[node.name] = node
                elif isinstance(node, ast.Assign) and len(node.targets) == 1 and isinstance(node.targets[0], ast.Name):
                    try:
                        self.globals[node.targets[0].id] = ast.literal_eval(node.value)
                    except Exception:
                        pass
        self.summaries = summaries or {}
        self.loop_bound = loop_bound
        self.solver = z3.Solver()
        self.solver.set('timeout', timeout_ms)
        self.solver_time = 0.0
        self.queries = 0
        # per-path state
        self.pc = []
        self.decisions = []
        self.pos = 0
        self.side = []          # (condition that must hold, description): model-exit / assert obligations
        self.unwind_hit = False
        self._depth = 0
        self._stack_ids = []
        self._model = None

    # -- solver helpers --------------------------------------------------
    # The solver stack mirrors the path condition (one push per pc entry), so queries are incremental.
    def _sync(self):
        while self._depth > len(self.pc) or (self._depth and not self._stack_ids[self._depth - 1].eq(self.pc[self._depth - 1])):
            self.solver.pop(); self._depth -= 1; self._stack_ids.pop()
            self._model = None
        while self._depth < len(self.pc):
            c = self.pc[self._depth]
            self.solver.push(); self.solver.add(c); self._depth += 1; self._stack_ids.append(c)
            if self._model is not None and not z3.is_true(self._model.eval(c, model_completion=True)):
                self._model = None

    def check(self, *extra):
        t0 = time.time()
        self._sync()
        self.solver.push()
        for c in extra:
            self.solver.add(c)
        r = self.solver.check()
        m = self.solver.model() if r == z3.sat else None
        self.solver.pop()
        if m is not None and not extra:
            self._model = m
        self.solver_time += time.time() - t0
        self.queries += 1
        return str(r), m

    def branch(self, cond):
        """decide a symbolic condition on this path (decision replay)"""
        if isinstance(cond, bool):
            return cond
        cond = z3.simplify(cond)
        if z3.is_true(cond):
            return True
        if z3.is_false(cond):
            return False
        if self.pos < len(self.decisions):
            d = self.decisions[self.pos]
        else:
            self._sync()
            if self._model is None:
                r0, m0 = self.check()
                if r0 != 'sat':
                    if r0 == 'unknown':
                        raise Unsupported('solver unknown at branch')
                    raise PathAbort()
            # one side is known feasible from the cached model of the path condition
            mv = z3.is_true(self._model.eval(cond, model_completion=True))
            other = z3.Not(cond) if mv else cond
            ro, mo = self.check(other)
            if ro == 'unknown':
                raise Unsupported('solver unknown at branch')
            if ro == 'sat':
                d = True
                self.pending.append(self.decisions[:self.pos] + [False])
                if not mv:
                    self._model = mo      # model for the side we take (cond true)
            else:
                d = mv
            self.decisions.append(d)
        self.pos += 1
        self.pc.append(cond if d else z3.Not(cond))
        return d

    # -- driving ---------------------------------------------------------
    def explore(self, fname, args, pre=None, max_paths=20000):
        """Run function `fname` on (possibly symbolic) args over all feasible paths.
        Yields dict(pc, result | raised, side) per path."""
        self.pending = [[]]
        n = 0
        while self.pending:
            self.decisions = self.pending.pop()
            self.pos = 0
            self.pc = list(pre or [])
            self.side = []
            out = dict()
            try:
                out['result'] = self.call(fname, list(args))
            except Raised as r:
                out['raised'] = r.exc_name
                out['msg'] = r.msg
            except PathAbort:
                continue
            out['pc'] = list(self.pc)
            out['side'] = list(self.side)
            out['decisions'] = list(self.decisions[:self.pos])
            n += 1
            if n > max_paths:
                raise Unsupported('more than %d paths' % max_paths)
            yield out

    # -- calls -----------------------------------------------------------
    def call(self, fname, args):
        if fname in self.summaries:
            return self.summaries[fname](self, *args)
        fn = self.funcs.get(fname)
        if fn is None:
            raise Unsupported('call of unknown function ' + fname)
        env = {}
        params = fn.args.args
        if len(args) > len(params):
            raise Unsupported('too many args for ' + fname)
        defaults = fn.args.defaults
        for i, p in enumerate(params):
            if i < len(args):
                env[p.arg] = args[i]
            else:
                d = defaults[i - (len(params) - len(defaults))]
                env[p.arg] = self.expr(d, env)
        try:
            self.block(fn.body, env)
        except _Return as r:
            return r.v
        return None

    # -- statements --------------------------------------------------------
    def block(self, stmts, env):
        for s in stmts:
            self.stmt(s, env)

    def stmt(self, s, env):
        if isinstance(s, ast.Expr):
            if isinstance(s.value, ast.Constant) and isinstance(s.value.value, str):
                return          # docstring / string statement
            self.expr(s.value, env); return
        if isinstance(s, ast.Assign):
            v = self.expr(s.value, env)
            for t in s.targets:
                self.assign(t, v, env)
            return
        if isinstance(s, ast.AnnAssign):
            if s.value is not None:
                self.assign(s.target, self.expr(s.value, env), env)
            return
        if isinstance(s, ast.AugAssign):
            cur = self.expr(_load(s.target), env)
            v = self.binop(s.op, cur, self.expr(s.value, env))
            self.assign(s.target, v, env); return
        if isinstance(s, ast.Return):
            raise _Return(self.expr(s.value, env) if s.value is not None else None)
        if isinstance(s, ast.If):
            if self.branch(to_bool(self.expr(s.test, env))):
                self.block(s.body, env)
            else:
                self.block(s.orelse, env)
            return
        if isinstance(s, ast.While):
            it = 0
            while True:
                c = to_bool(self.expr(s.test, env))
                if it >= self.loop_bound:
                    # unwinding assertion: the loop must be finished under the path condition
                    self.side.append((z3.Not(c) if is_sym(c) else (not c), 'unwinding assertion (loop bound %d)' % self.loop_bound))
                    if not self.branch(z3.Not(c) if is_sym(c) else (not c)):
                        raise PathAbort()
                    break
                if not self.branch(c):
                    self.block(s.orelse, env)
                    break
                it += 1
                try:
                    self.block(s.body, env)
                except _Break:
                    break
                except _Continue:
                    continue
            return
        if isinstance(s, ast.For):
            seq = self.expr(s.iter, env)
            if isinstance(seq, SymStr):
                seq = seq.items
            if not isinstance(seq, (list, tuple, range, str)):
                raise Unsupported('for over %r' % (type(seq),))
            broke = False
            for item in list(seq):
                self.assign(s.target, item, env)
                try:
                    self.block(s.body, env)
                except _Break:
                    broke = True
                    break
                except _Continue:
                    continue
            if not broke:
                self.block(s.orelse, env)
            return
        if isinstance(s, ast.Assert):
            c = to_bool(self.expr(s.test, env))
            self.side.append((c, 'assert at line %d' % s.lineno))
            if not self.branch(c):
                raise Raised('AssertionError', 'line %d' % s.lineno)
            return
        if isinstance(s, ast.Raise):
            name = None
            if s.exc is not None:
                e = s.exc
                if isinstance(e, ast.Call):
                    e = e.func
                name = e.id if isinstance(e, ast.Name) else ast.dump(e)
            raise Raised(name or 'Exception')
        if isinstance(s, ast.Pass):
            return
        if isinstance(s, ast.Break):
            raise _Break()
        if isinstance(s, ast.Continue):
            raise _Continue()
        if isinstance(s, (ast.Import, ast.ImportFrom, ast.Global)):
            return
        raise Unsupported('statement %s' % type(s).__name__)

    def assign(self, t, v, env):
        if isinstance(t, ast.Name):
            env[t.id] = v; return
        if isinstance(t, (ast.Tuple, ast.List)):
            if isinstance(v, SymStr):
                v = v.items
            if not isinstance(v, (tuple, list)) or len(v) != len(t.elts):
                raise Unsupported('unpack of %r' % (v,))
            for tt, vv in zip(t.elts, v):
                self.assign(tt, vv, env)
            return
        if isinstance(t, ast.Subscript):
            base = self.expr(t.value, env)
            idx = self.expr(t.slice, env)
            idx = self.concrete(idx)
            base[idx] = v; return
        raise Unsupported('assignment target %s' % type(t).__name__)

    def concrete(self, v):
        if isinstance(v, int):
            return v
        if is_sym(v):
            s = z3.simplify(v)
            if z3.is_bv_value(s):
                return s.as_signed_long()
        raise Unsupported('symbolic value where a concrete one is needed: %s' % (v,))

    # -- expressions -------------------------------------------------------
    def expr(self, e, env):
        if isinstance(e, ast.Constant):
            return e.value
        if isinstance(e, ast.Name):
            if e.id in env:
                return env[e.id]
            if e.id in self.globals:
                return self.globals[e.id]
            if e.id in ('True', 'False', 'None'):
                return {'True': True, 'False': False, 'None': None}[e.id]
            raise Unsupported('name ' + e.id)
        if isinstance(e, ast.BinOp):
            return self.binop(e.op, self.expr(e.left, env), self.expr(e.right, env))
        if isinstance(e, ast.UnaryOp):
            v = self.expr(e.operand, env)
            if isinstance(e.op, ast.Not):
                b = to_bool(v)
                return (not b) if isinstance(b, bool) else z3.Not(b)
            if isinstance(e.op, ast.USub):
                return self.binop(ast.Sub(), 0, v)
            if isinstance(e.op, ast.Invert):
                return ~v if isinstance(v, int) else ~bv(v)
            if isinstance(e.op, ast.UAdd):
                return v
        if isinstance(e, ast.BoolOp):
            # Python short-circuit semantics with forking on symbolic operands
            isand = isinstance(e.op, ast.And)
            v = None
            for sub in e.values:
                v = self.expr(sub, env)
                b = to_bool(v)
                taken = self.branch(b)
                if isand and not taken:
                    return False if (is_sym(v) or isinstance(v, bool)) else v
                if not isand and taken:
                    return True if (is_sym(v) or isinstance(v, bool)) else v
            return (isand) if (is_sym(v) or isinstance(v, bool)) else v
        if isinstance(e, ast.Compare):
            left = self.expr(e.left, env)
            res = True
            for op, r in zip(e.ops, e.comparators):
                right = self.expr(r, env)
                c = self.compare(op, left, right)
                if not self.branch(c):
                    return False
                left = right
            return True
        if isinstance(e, ast.IfExp):
            if self.branch(to_bool(self.expr(e.test, env))):
                return self.expr(e.body, env)
            return self.expr(e.orelse, env)
        if isinstance(e, ast.Tuple):
            return tuple(self.expr(x, env) for x in e.elts)
        if isinstance(e, ast.List):
            return [self.expr(x, env) for x in e.elts]
        if isinstance(e, ast.Subscript):
            base = self.expr(e.value, env)
            if isinstance(e.slice, ast.Slice):
                lo = self.concrete(self.expr(e.slice.lower, env)) if e.slice.lower else None
                hi = self.concrete(self.expr(e.slice.upper, env)) if e.slice.upper else None
                if isinstance(base, SymStr):
                    return SymStr(base.items[lo:hi])
                return base[lo:hi]
            idx = self.concrete(self.expr(e.slice, env))
            if isinstance(base, SymStr):
                base = base.items
            try:
                return base[idx]
            except IndexError:
                raise Raised('IndexError')
        if isinstance(e, ast.JoinedStr):
            items = []
            for part in e.values:
                if isinstance(part, ast.Constant):
                    items += list(part.value)
                elif isinstance(part, ast.FormattedValue):
                    spec = ''
                    if part.format_spec is not None:
                        spec = ''.join(p.value for p in part.format_spec.values)
                    v = self.expr(part.value, env)
                    if spec == 'c':
                        items.append(self.mkchr(v))
                    elif isinstance(v, (int, str)) and not spec:
                        items += list(str(v))
                    else:
                        items.append(Token('fmt:' + spec, v))     # opaque text (assert messages)
                else:
                    raise Unsupported('f-string part')
            return SymStr(items)
        if isinstance(e, ast.Call):
            return self.callexpr(e, env)
        if isinstance(e, ast.Attribute):
            raise Unsupported('attribute ' + ast.dump(e)[:60])
        raise Unsupported('expression %s' % type(e).__name__)

    def mkchr(self, v):
        if isinstance(v, int):
            if not 0 <= v < 0x110000:
                raise Raised('ValueError', 'chr() arg not in range')
            return chr(v)
        v = bv(v)
        ok = z3.And(v >= 0, v < 0x110000)
        self.side.append((ok, 'chr() argument in range(0x110000)'))
        if not self.branch(ok):
            raise Raised('ValueError', 'chr() arg not in range')
        return SymChar(v)

    def callexpr(self, e, env):
        f = e.func
        args = [self.expr(a, env) for a in e.args]
        if e.keywords:
            raise Unsupported('keyword arguments')
        if isinstance(f, ast.Attribute):
            # method calls on python-level containers
            if isinstance(f.value, ast.Constant) and f.attr == 'join' and isinstance(f.value.value, str):
                sep = f.value.value
                items = []
                for k, part in enumerate(args[0]):
                    if k and sep:
                        items += list(sep)
                    if isinstance(part, SymStr):
                        items += part.items
                    elif isinstance(part, str):
                        items += list(part)
                    else:
                        items.append(part)
                return SymStr(items)
            obj = self.expr(f.value, env)
            if isinstance(obj, list) and f.attr == 'append':
                obj.append(args[0]); return None
            if isinstance(obj, list) and f.attr == 'extend':
                obj.extend(args[0].items if isinstance(args[0], SymStr) else args[0]); return None
            if isinstance(obj, list) and f.attr == 'pop':
                return obj.pop(*[self.concrete(a) for a in args])
            raise Unsupported('method %s' % f.attr)
        if not isinstance(f, ast.Name):
            raise Unsupported('call target')
        name = f.id
        if name in self.summaries or name in self.funcs:
            return self.call(name, args)
        if name == 'len':
            return len(args[0])
        if name == 'chr':
            return self.mkchr(args[0])
        if name == 'ord':
            c = args[0]
            if isinstance(c, SymStr) and len(c) == 1:
                c = c.items[0]
            if isinstance(c, SymChar):
                return c.code
            if isinstance(c, str):
                return ord(c)
            raise Unsupported('ord of %r' % (c,))
        if name == 'range':
            return range(*[self.concrete(a) for a in args])
        if name == 'list':
            a = args[0] if args else []
            return list(a.items) if isinstance(a, SymStr) else list(a)
        if name == 'tuple':
            return tuple(args[0])
        if name == 'enumerate':
            a = args[0]
            return list(enumerate(a.items if isinstance(a, SymStr) else a))
        if name == 'abs':
            v = args[0]
            if isinstance(v, int):
                return abs(v)
            return z3.If(bv(v) < 0, self.binop(ast.Sub(), 0, v), bv(v))
        if name in ('min', 'max'):
            a, b = args
            if isinstance(a, int) and isinstance(b, int):
                return min(a, b) if name == 'min' else max(a, b)
            a, b = bv(a), bv(b)
            return z3.If((a <= b) if name == 'min' else (a >= b), a, b)
        if name == 'bool':
            return to_bool(args[0])
        if name == 'int':
            return args[0]
        if name == 'isinstance':
            raise Unsupported('isinstance')
        raise Unsupported('call of ' + name)

    def compare(self, op, a, b):
        if isinstance(op, (ast.Is, ast.IsNot)):
            r = a is b
            return r if isinstance(op, ast.Is) else (not r)
        conc = not is_sym(a) and not is_sym(b)
        if conc:
            if isinstance(a, SymStr) or isinstance(b, SymStr):
                return self.seq_eq(op, a, b)
            if isinstance(a, (tuple, list)) and isinstance(b, (tuple, list)) and any(_has_sym(x) for x in (a, b)):
                return self.seq_eq(op, a, b)
            return {ast.Eq: lambda: a == b, ast.NotEq: lambda: a != b, ast.Lt: lambda: a < b, ast.LtE: lambda: a <= b,
                    ast.Gt: lambda: a > b, ast.GtE: lambda: a >= b, ast.In: lambda: a in b, ast.NotIn: lambda: a not in b}[type(op)]()
        if a is None or b is None:
            return isinstance(op, ast.NotEq)
        a, b = bv(a), bv(b)
        return {ast.Eq: lambda: a == b, ast.NotEq: lambda: a != b, ast.Lt: lambda: a < b, ast.LtE: lambda: a <= b,
                ast.Gt: lambda: a > b, ast.GtE: lambda: a >= b}[type(op)]()

    def seq_eq(self, op, a, b):
        if not isinstance(op, (ast.Eq, ast.NotEq)):
            raise Unsupported('ordering of symbolic sequences')
        r = self._eq(a, b)
        if isinstance(op, ast.NotEq):
            r = (not r) if isinstance(r, bool) else z3.Not(r)
        return r

    def _eq(self, a, b):
        if isinstance(a, SymStr): a = a.items
        if isinstance(b, SymStr): b = b.items
        if isinstance(a, SymChar): a = a.code
        if isinstance(b, SymChar): b = b.code
        if isinstance(a, str) and len(a) == 1 and is_sym(b): a = ord(a)
        if isinstance(b, str) and len(b) == 1 and is_sym(a): b = ord(b)
        if isinstance(a, (tuple, list)) and isinstance(b, (tuple, list)):
            if len(a) != len(b) or (isinstance(a, tuple) != isinstance(b, tuple)):
                return False
            cs = [self._eq(x, y) for x, y in zip(a, b)]
            if any(c is False for c in cs):
                return False
            cs = [c for c in cs if c is not True]
            return z3.And(*cs) if cs else True
        if is_sym(a) or is_sym(b):
            if a is None or b is None:
                return False
            if isinstance(a, (int, bool)) or is_sym(a):
                if isinstance(b, (int, bool)) or is_sym(b):
                    return bv(a) == bv(b)
            return False
        return a == b

    def binop(self, op, a, b):
        if isinstance(a, int) and isinstance(b, int) and not isinstance(op, (ast.Div,)):
            f = {ast.Add: lambda: a + b, ast.Sub: lambda: a - b, ast.Mult: lambda: a * b, ast.FloorDiv: lambda: a // b,
                 ast.Mod: lambda: a % b, ast.BitAnd: lambda: a & b, ast.BitOr: lambda: a | b, ast.BitXor: lambda: a ^ b,
                 ast.LShift: lambda: a << b, ast.RShift: lambda: a >> b, ast.Pow: lambda: a ** b}.get(type(op))
            if f is None:
                raise Unsupported('operator')
            if isinstance(op, (ast.FloorDiv, ast.Mod)) and b == 0:
                raise Raised('ZeroDivisionError')
            return f()
        if isinstance(a, (str, SymStr, SymChar)) or isinstance(b, (str, SymStr, SymChar)):
            if isinstance(op, ast.Add):
                tolist = lambda x: x.items if isinstance(x, SymStr) else ([x] if isinstance(x, SymChar) else list(x))
                return SymStr(tolist(a) + tolist(b))
            raise Unsupported('string operator')
        if isinstance(a, list) and isinstance(b, list) and isinstance(op, ast.Add):
            return a + b
        if not (isinstance(a, (int, bool)) or is_sym(a)) or not (isinstance(b, (int, bool)) or is_sym(b)):
            raise Unsupported('operands %r %r' % (type(a), type(b)))
        x, y = bv(a), bv(b)
        nov = None
        if isinstance(op, ast.Add):
            r = x + y; nov = z3.And(z3.BVAddNoOverflow(x, y, True), z3.BVAddNoUnderflow(x, y))
        elif isinstance(op, ast.Sub):
            r = x - y; nov = z3.And(z3.BVSubNoOverflow(x, y), z3.BVSubNoUnderflow(x, y, True))
        elif isinstance(op, ast.Mult):
            r = x * y; nov = z3.And(z3.BVMulNoOverflow(x, y, True), z3.BVMulNoUnderflow(x, y))
        elif isinstance(op, ast.BitAnd): r = x & y
        elif isinstance(op, ast.BitOr): r = x | y
        elif isinstance(op, ast.BitXor): r = x ^ y
        elif isinstance(op, ast.LShift):
            r = x << y
            nov = z3.And(y >= 0, y < W - 1, (r >> y) == x)
        elif isinstance(op, ast.RShift):
            r = x >> y; nov = z3.And(y >= 0, y < W)
        elif isinstance(op, (ast.FloorDiv, ast.Mod)):
            zero = (y == 0)
            if self.branch(zero):
                raise Raised('ZeroDivisionError')
            q = x / y            # z3 '/' on BV = bvsdiv (truncating)
            rem = z3.SRem(x, y)
            adj = z3.And(rem != 0, (rem < 0) != (y < 0))
            if isinstance(op, ast.FloorDiv):
                r = z3.If(adj, q - 1, q)
                nov = z3.Not(z3.And(x == z3.BitVecVal(1 << (W - 1), W), y == -1))
            else:
                r = z3.If(adj, rem + y, rem)
        else:
            raise Unsupported('operator %s' % type(op).__name__)
        if nov is not None:
            self.side.append((nov, 'integer stays inside the %d-bit model (%s)' % (W, type(op).__name__)))
        return z3.simplify(r)


def _has_sym(v):
    if is_sym(v) or isinstance(v, (SymChar, SymStr, Token)):
        return True
    if isinstance(v, (tuple, list)):
        return any(_has_sym(x) for x in v)
    return False


def _load(t):
    t2 = ast.copy_location(type(t)(**{k: getattr(t, k) for k in t._fields}), t)
    t2.ctx = ast.Load()
    return t2


def prove_all_paths(interp, fname, args, pre, name, rep=None, expect=True, allowed_raises=(), max_paths=20000):
    """Explore all paths of fname(*args); on every path the result must be `True` and every side
    obligation must hold.  Returns (ok, counterexample_model_or_None, stats)."""
    t0 = time.time()
    paths = 0
    for p in interp.explore(fname, args, pre, max_paths=max_paths):
        paths += 1
        interp.pc = p['pc']
        # side obligations (model exits, asserts, unwinding)
        for cond, what in p['side']:
            if isinstance(cond, bool):
                if not cond:
                    return False, None, dict(paths=paths, why=what, path=p)
                continue
            # the side condition was appended before later branch decisions; check it under the final pc
            r, m = interp.check(z3.Not(cond))
            if r != 'unsat':
                return (None if r == 'unknown' else False), m, dict(paths=paths, why=what, path=p)
        if 'raised' in p:
            if p['raised'] in allowed_raises:
                continue
            r, m = interp.check()
            return False, m, dict(paths=paths, why='raised ' + p['raised'] + ' ' + str(p.get('msg')), path=p)
        res = p['result']
        if isinstance(res, bool) or res is None:
            if res is not True:
                r, m = interp.check()
                return False, m, dict(paths=paths, why='returned %r' % (res,), path=p)
            continue
        r, m = interp.check(z3.Not(to_bool(res)))
        if r == 'sat':
            return False, m, dict(paths=paths, why='result can be false', path=p)
        if r != 'unsat':
            return None, None, dict(paths=paths, why='solver ' + r, path=p)
    return True, None, dict(paths=paths, seconds=time.time() - t0)
