"""Template family for C-integer arithmetic (C03 / C04 / C36 / C41): cdef kernels + def wrappers for replay."""
import z3

# name, C spelling, bits, signed
CTYPES = [
    ('schar', 'signed char', 8, True), ('short', 'short', 16, True), ('int', 'int', 32, True), ('long', 'long', 64, True),
    ('longlong', 'long long', 64, True), ('ssize_t', 'Py_ssize_t', 64, True),
    ('uchar', 'unsigned char', 8, False), ('ushort', 'unsigned short', 16, False), ('uint', 'unsigned int', 32, False),
    ('ulong', 'unsigned long', 64, False), ('ulonglong', 'unsigned long long', 64, False), ('size_t', 'size_t', 64, False),
    ('myint', 'myint', 32, True),       # ctypedef int myint
]
TYPEINFO = {n: (c, b, s) for n, c, b, s in CTYPES}


def promoted(bits, signed):
    """C integer promotion of an operand type: (bits, signed) of the type the arithmetic happens in"""
    if bits < 32:
        return 32, True
    return bits, signed


def rng(bits, signed):
    return (-(1 << (bits - 1)), (1 << (bits - 1)) - 1) if signed else (0, (1 << bits) - 1)


class Kernel:
    def __init__(self, name, tname, op, divisor, cdivision, src, overflowcheck=False):
        self.name, self.tname, self.op, self.divisor, self.cdivision, self.src = name, tname, op, divisor, cdivision, src
        self.overflowcheck = overflowcheck


def divmod_family(types=None, consts=(1, -1, 2, 7, -7, 2147483647)):
    """a // b and a % b, divisor = parameter or literal, cdivision off/on.  Returns (pyx source, [Kernel])."""
    lines = ['# cython: language_level=3', 'cimport cython', 'ctypedef int myint', '']
    ks = []
    for tname, cty, bits, signed in CTYPES:
        if types and tname not in types:
            continue
        for opname, op in (('fd', '//'), ('md', '%')):
            for cdiv in (False, True):
                divs = ['p'] + [c for c in consts if (signed or c > 0) and rng(bits, signed)[0] <= c <= rng(bits, signed)[1]]
                for d in divs:
                    if cdiv and d != 'p' and d not in (7, -7):
                        continue
                    dn = 'p' if d == 'p' else ('c%s' % str(d).replace('-', 'm'))
                    name = '%s_%s_%s%s' % (opname, tname, dn, '_cd' if cdiv else '')
                    expr = 'a %s b' % op if d == 'p' else 'a %s %s' % (op, '(%d)' % d)
                    src = []
                    if cdiv:
                        src.append('@cython.cdivision(True)')
                    src.append('cdef int %s(%s a, %s b, %s* out) except -1:' % (name, cty, cty, cty))
                    src.append('    out[0] = %s' % expr)
                    src.append('    return 0')
                    src.append('def py_%s(a, b):' % name)
                    src.append('    cdef %s r = 0' % cty)
                    src.append('    %s(a, b, &r)' % name)
                    src.append('    return r')
                    src.append('')
                    lines += src
                    ks.append(Kernel(name, tname, op, d, cdiv, '\n'.join(src)))
    return '\n'.join(lines), ks


def ext(v, bits, signed):
    if v.size() == bits:
        return v
    if v.size() > bits:
        return z3.Extract(bits - 1, 0, v)
    return z3.SignExt(bits - v.size(), v) if signed else z3.ZeroExt(bits - v.size(), v)


def c_div(a, b, signed):
    return (a / b) if signed else z3.UDiv(a, b)


def c_rem(a, b, signed):
    return z3.SRem(a, b) if signed else z3.URem(a, b)


def py_floordiv(a, b, signed):
    """Python floor quotient as a closed form over C division (NIA lemma 'floor-quotient' justifies the form)"""
    if not signed:
        return z3.UDiv(a, b)
    q, r = a / b, z3.SRem(a, b)
    return z3.If(z3.And(r != 0, (r < 0) != (b < 0)), q - 1, q)


def py_mod(a, b, signed):
    if not signed:
        return z3.URem(a, b)
    r = z3.SRem(a, b)
    return z3.If(z3.And(r != 0, (r < 0) != (b < 0)), r + b, r)


# ---- overflowcheck expression family (C04) -------------------------------------------------------------
class Expr:
    """tiny expression AST over C-integer variables: ('var', name) | ('const', v) | (op, l, r) | ('neg', x)"""

    def __init__(self, node):
        self.node = node

    def src(self, cty):
        return _src(self.node, cty)

    def vars(self):
        out = []
        _vars(self.node, out)
        return out


def _src(n, cty):
    k = n[0]
    if k == 'var':
        return n[1]
    if k == 'const':
        return '(<%s>%d)' % (cty, n[1]) if n[1] >= 0 else '(<%s>(%d))' % (cty, n[1])
    if k == 'lit':
        return '%d' % n[1]
    if k == 'neg':
        return '(-%s)' % _src(n[1], cty)
    return '(%s %s %s)' % (_src(n[1], cty), k, _src(n[2], cty))


def _vars(n, out):
    if n[0] == 'var':
        if n[1] not in out:
            out.append(n[1])
    elif n[0] in ('const', 'lit'):
        pass
    elif n[0] == 'neg':
        _vars(n[1], out)
    else:
        _vars(n[1], out)
        _vars(n[2], out)


V = lambda x: ('var', x)
C = lambda v: ('const', v)
EXPRS = [
    ('add', ('+', V('a'), V('b'))), ('sub', ('-', V('a'), V('b'))), ('mul', ('*', V('a'), V('b'))),
    ('shl', ('<<', V('a'), V('b'))), ('neg', ('neg', V('a'))), ('fdiv', ('//', V('a'), V('b'))),
    ('addc', ('+', V('a'), C(1))), ('subc', ('-', V('a'), C(1))), ('mulc7', ('*', V('a'), C(7))), ('mulcm1', ('*', V('a'), C(-1))),
    ('cmul', ('*', C(3), V('a'))), ('shlc', ('<<', V('a'), C(3))),
    ('n1', ('-', ('+', ('*', V('a'), V('b')), ('*', V('c'), V('d'))), V('e'))),
    ('n2', ('<<', ('*', ('+', V('a'), V('b')), ('-', V('c'), V('d'))), V('e'))),
    ('n3', ('+', ('*', V('a'), V('b')), V('c'))),
    ('n4', ('-', V('a'), ('*', V('b'), ('+', V('c'), C(1))))),
    ('n5', ('*', ('neg', V('a')), V('b'))),
    ('n6', ('+', ('//', V('a'), V('b')), V('c'))),
]


class OvKernel:
    def __init__(self, name, tname, ename, expr, fold, src):
        self.name, self.tname, self.ename, self.expr, self.fold, self.src = name, tname, ename, expr, fold, src


def overflow_family(types=('int', 'uint', 'long', 'ulong', 'longlong', 'short', 'ushort'), exprs=None, folds=(True, False)):
    lines = ['# cython: language_level=3', 'cimport cython', '']
    ks = []
    for tname in types:
        cty, bits, signed = TYPEINFO[tname]
        W, ps = promoted(bits, signed)
        rty = cty if bits >= 32 else 'int'          # C result type of the arithmetic after promotion
        for ename, node in EXPRS:
            if exprs and ename not in exprs:
                continue
            if not signed and ename in ('neg', 'mulcm1', 'n5'):
                continue
            e = Expr(node)
            vs = e.vars()
            for fold in folds:
                if not fold and not ename.startswith('n'):
                    continue            # fold only matters for nested expressions
                name = 'ov_%s_%s%s' % (ename, tname, '' if fold else '_nofold')
                src = ['@cython.overflowcheck(True)']
                if not fold:
                    src.append('@cython.overflowcheck.fold(False)')
                src.append('cdef int %s(%s, %s* out) except -1:' % (name, ', '.join('%s %s' % (cty, v) for v in vs), rty))
                src.append('    out[0] = %s' % e.src(cty))
                src.append('    return 0')
                src.append('def py_%s(%s):' % (name, ', '.join(vs)))
                src.append('    cdef %s r = 0' % rty)
                src.append('    %s(%s, &r)' % (name, ', '.join(vs)))
                src.append('    return r')
                src.append('')
                lines += src
                ks.append(OvKernel(name, tname, ename, e, fold, '\n'.join(src)))
    return '\n'.join(lines), ks


def spec_eval(node, env, W, signed):
    """reference semantics with SMT-LIB overflow predicates: returns (value at W bits, overflowed Bool, zero-division Bool,
    negative-shift Bool).  Under NOT overflowed the W-bit value is the exact mathematical value."""
    k = node[0]
    F = z3.BoolVal(False)
    if k == 'var':
        return env[node[1]], F, F
    if k in ('const', 'lit'):
        return z3.BitVecVal(node[1], W), F, F
    if k == 'neg':
        x, o, z = spec_eval(node[1], env, W, signed)
        ov = (x == z3.BitVecVal(1 << (W - 1), W)) if signed else (x != 0)
        return -x, z3.Or(o, ov), z
    x, o1, z1 = spec_eval(node[1], env, W, signed)
    y, o2, z2 = spec_eval(node[2], env, W, signed)
    o, zd = z3.Or(o1, o2), z3.Or(z1, z2)
    if k == '+':
        ok = z3.And(z3.BVAddNoOverflow(x, y, True), z3.BVAddNoUnderflow(x, y)) if signed else z3.BVAddNoOverflow(x, y, False)
        return x + y, z3.Or(o, z3.Not(ok)), zd
    if k == '-':
        ok = z3.And(z3.BVSubNoOverflow(x, y), z3.BVSubNoUnderflow(x, y, True)) if signed else z3.UGE(x, y)
        return x - y, z3.Or(o, z3.Not(ok)), zd
    if k == '*':
        from ..cir.symex import mul_fits, mul_wrapped
        ok = mul_fits(x, y, signed)
        return mul_wrapped(x, y, signed), z3.Or(o, z3.Not(ok)), zd
    if k == '<<':
        # exact x * 2**y representable?  (y < 0 has no exact result at all: must raise)
        inrange = z3.And(y >= 0, y < W) if signed else z3.ULT(y, W)
        sh = x << y
        back = (sh >> y) == x if signed else z3.LShR(sh, y) == x
        ok = z3.Or(z3.And(inrange, back), z3.And(x == 0, (y >= 0) if signed else z3.BoolVal(True)))
        return sh, z3.Or(o, z3.Not(ok)), zd
    if k == '//':
        ov = z3.And(x == z3.BitVecVal(1 << (W - 1), W), y == z3.BitVecVal(-1, W)) if signed else F
        return py_floordiv(x, y, signed), z3.Or(o, ov), z3.Or(zd, y == 0)
    raise ValueError(k)


def known_preds(node, env, W, signed):
    """z3 predicates (over the kernel inputs) describing the known findings of DESIGN §5 for this expression"""
    preds = {}
    MIN = z3.BitVecVal(1 << (W - 1), W)

    def walk(n):
        k = n[0]
        if k in ('var', 'const', 'lit'):
            return
        if k == 'neg':
            x, _, _ = spec_eval(n[1], env, W, signed)
            if signed:
                preds.setdefault('F10-unary-neg-min-unchecked', []).append(x == MIN)
            walk(n[1])
            return
        if k == '//' and signed and W != 64:
            x, _, _ = spec_eval(n[1], env, W, signed)
            y, _, _ = spec_eval(n[2], env, W, signed)
            preds.setdefault('F2-min-div-minus-one-narrow-types', []).append(z3.And(x == MIN, y == z3.BitVecVal(-1, W)))
        walk(n[1])
        walk(n[2])
    walk(node)
    return {k: z3.Or(*v) for k, v in preds.items()}
