"""Template family for C-integer arithmetic (C03 / C04 / C36 / C41): cdef kernels + def wrappers for replay."""
import z3

# name, C spelling, bits, signed
CTYPES = [
    ('schar', 'signed char', 8, True), ('short', 'short', 16, True), ('int', 'int', 32, True), ('long', 'long', 64, True),
    ('longlong', 'long long', 64, True), ('ssize_t', 'Py_ssize_t', 64, True),
    ('uchar', 'unsigned char', 8, False), ('ushort', 'unsigned short', 16, False), ('uint', 'unsigned int', 32, False),
    ('ulong', 'unsigned long', 64, False), ('ulonglong', 'unsigned long long', 64, False), ('size_t', 'size_t', 64, False),
    ('myint', 'myint', 32, True),       # ctypedef int myint
]
TYPEINFO = {n: (c, b, s) for n, c, b, s in CTYPES}


def promoted(bits, signed):
    """C integer promotion of an operand type: (bits, signed) of the type the arithmetic happens in"""
    if bits < 32:
        return 32, True
    return bits, signed


def rng(bits, signed):
    return (-(1 << (bits - 1)), (1 << (bits - 1)) - 1) if signed else (0, (1 << bits) - 1)


class Kernel:
    def __init__(self, name, tname, op, divisor, cdivision, src, overflowcheck=False):
        self.name, self.tname, self.op, self.divisor, self.cdivision, self.src = name, tname, op, divisor, cdivision, src
        self.overflowcheck = overflowcheck


def divmod_family(types=None, consts=(1, -1, 2, 7, -7, 2147483647)):
    """a // b and a % b, divisor = parameter or literal, cdivision off/on.  Returns (pyx source, [Kernel])."""
    lines = ['# cython: language_level=3', 'cimport cython', 'ctypedef int myint', '']
    ks = []
    for tname, cty, bits, signed in CTYPES:
        if types and tname not in types:
            continue
        for opname, op in (('fd', '//'), ('md', '%')):
            for cdiv in (False, True):
                divs = ['p'] + [c for c in consts if (signed or c > 0) and rng(bits, signed)[0] <= c <= rng(bits, signed)[1]]
                for d in divs:
                    if cdiv and d != 'p' and d not in (7, -7):
                        continue
                    dn = 'p' if d == 'p' else ('c%s' % str(d).replace('-', 'm'))
                    name = '%s_%s_%s%s' % (opname, tname, dn, '_cd' if cdiv else '')
                    expr = 'a %s b' % op if d == 'p' else 'a %s %s' % (op, '(%d)' % d)
                    src = []
                    if cdiv:
                        src.append('@cython.cdivision(True)')
                    src.append('cdef int %s(%s a, %s b, %s* out) except -1:' % (name, cty, cty, cty))
                    src.append('    out[0] = %s' % expr)
                    src.append('    return 0')
                    src.append('def py_%s(a, b):' % name)
                    src.append('    cdef %s r = 0' % cty)
                    src.append('    %s(a, b, &r)' % name)
                    src.append('    return r')
                    src.append('')
                    lines += src
                    ks.append(Kernel(name, tname, op, d, cdiv, '\n'.join(src)))
    return '\n'.join(lines), ks


def ext(v, bits, signed):
    if v.size() == bits:
        return v
    if v.size() > bits:
        return z3.Extract(bits - 1, 0, v)
    return z3.SignExt(bits - v.size(), v) if signed else z3.ZeroExt(bits - v.size(), v)


def c_div(a, b, signed):
    return (a / b) if signed else z3.UDiv(a, b)


def c_rem(a, b, signed):
    return z3.SRem(a, b) if signed else z3.URem(a, b)


def py_floordiv(a, b, signed):
    """Python floor quotient as a closed form over C division (NIA lemma 'floor-quotient' justifies the form)"""
    if not signed:
        return z3.UDiv(a, b)
    q, r = a / b, z3.SRem(a, b)
    return z3.If(z3.And(r != 0, (r < 0) != (b < 0)), q - 1, q)


def py_mod(a, b, signed):
    if not signed:
        return z3.URem(a, b)
    r = z3.SRem(a, b)
    return z3.If(z3.And(r != 0, (r < 0) != (b < 0)), r + b, r)
