"""Event traces as first-class symbolic values (DESIGN §2.3): comparison of the guarded event list produced by engine CIR
with a reference trace given as a list of (present Bool, value BV)."""
import z3


def impl_trace(ex, name='ev', width=64):
    """[(guard, value)] of calls to the leaf `name`, in program order"""
    out = []
    for e in ex.events:
        if e.name == name:
            v = e.args[0]
            if v.size() < width:
                v = z3.SignExt(width - v.size(), v)
            out.append((e.guard, v))
    return out


def trace_differs(impl, spec, width=64):
    """z3 condition: the sequence of executed impl events is NOT exactly the sequence of present spec entries.
    spec entries must be prefix-closed in `present` order is not required: they are filtered like impl events."""
    K = 8
    def positions(items):
        pos = []
        cnt = z3.BitVecVal(0, K)
        for g, v in items:
            pos.append(cnt)
            cnt = cnt + z3.If(g, z3.BitVecVal(1, K), z3.BitVecVal(0, K))
        return pos, cnt
    ipos, icnt = positions(impl)
    spos, scnt = positions(spec)
    bad = [icnt != scnt]
    # the k-th executed impl event must equal the k-th present spec entry
    for (g, v), p in zip(impl, ipos):
        match = z3.BoolVal(False)
        for (sg, sv), sp in zip(spec, spos):
            match = z3.Or(match, z3.And(sg, sp == p, sv == v))
        bad.append(z3.And(g, z3.Not(match)))
    return z3.Or(*bad)
