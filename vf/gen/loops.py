"""Template family for C-typed range loops (C14)."""
from .arith import TYPEINFO, rng

PRELUDE = '''# cython: language_level=3
cdef extern from *:
    """
    static long vf_trace[64]; static int vf_n = 0;
    static long ev(long i) { if (vf_n < 64) vf_trace[vf_n++] = i; return 0; }
    """
    long ev(long i) nogil
    long vf_trace[64]
    int vf_n
'''
ELSE_MARK = 1000001


class Loop:
    def __init__(self, name, tname, form, step, init, src, consts=None):
        self.name, self.tname, self.form, self.step, self.init, self.src, self.consts = name, tname, form, step, init, src, consts


def family(types=('int', 'uint', 'long', 'ssize_t', 'short', 'uchar'), steps=(1, 2, 3, -1, -2, -7)):
    src = [PRELUDE]
    ks = []

    def add(name, tname, form, step, header, consts=None):
        cty, bits, signed = TYPEINFO[tname]
        init = -77 if signed else 5
        body = ['cdef long %s(%s a, %s b, bint brk, long brk_at, %s* last):' % (name, cty, cty, cty),
                '    cdef %s i = %d' % (cty, init), '    cdef long n = 0',
                '    for i in %s:' % header, '        ev(i)', '        if brk and n == brk_at:', '            break', '        n += 1',
                '    else:', '        ev(%d)' % ELSE_MARK, '    last[0] = i', '    return n',
                'def py_%s(a, b, brk, brk_at):' % name, '    global vf_n', '    cdef %s last = 0' % cty, '    vf_n = 0',
                '    n = %s(a, b, brk, brk_at, &last)' % name, '    return [vf_trace[k] for k in range(vf_n)], last, n', '']
        src.extend(body)
        ks.append(Loop(name, tname, form, step, init, '\n'.join(body), consts))
    for tname in types:
        cty, bits, signed = TYPEINFO[tname]
        for s in steps:
            if s < 0 and not signed and tname == 'uchar':
                pass
            add('r3_%s_%s' % (tname, str(s).replace('-', 'm')), tname, 'range3', s, 'range(a, b, %d)' % s)
        add('r1_%s' % tname, tname, 'range1', 1, 'range(b)')
        add('rev_%s' % tname, tname, 'rev2', 1, 'reversed(range(a, b))')
        add('rev3_%s' % tname, tname, 'rev3', 2, 'reversed(range(a, b, 2))')
    # all-literal reversed ranges (bounds folded at compile time)
    for (A, B, K) in ((9, 0, -3), (10, 0, -3), (0, 9, 3), (5, 5, -2), (7, 1, -2), (8, 1, -7)):
        add('revlit_%d_%d_%s' % (A, B, str(K).replace('-', 'm')), 'int', 'revlit', K, 'reversed(range(%d, %d, %d))' % (A, B, K), consts=(A, B, K))
    return '\n'.join(src), ks
