"""Engine GEN (DESIGN §2.3): template programs -> real Cython (pure-Python overlay) -> C -> LLVM IR -> CIR."""
import os, re, time
from .. import snapshot
from ..cir import build, ir, symex, stubs


class Built:
    def __init__(self, name, cfile, llfile, module):
        self.name, self.cfile, self.llfile, self.module = name, cfile, llfile, module

    def cfunc(self, fname):
        """IR name of `cdef ... fname(...)` of the template module"""
        suffix = '_%s' % fname
        cands = [n for n in self.module.functions if n.startswith('__pyx_f_') and n.endswith(suffix)
                 and re.match(r'^__pyx_f_\d+%s_%s$' % (re.escape(self.name), re.escape(fname)), n)]
        if len(cands) != 1:
            raise KeyError('cdef function %s not found (%r)' % (fname, cands))
        return cands[0]

    def new_exec(self, **kw):
        ex = symex.Exec(self.module, **kw)
        env = stubs.Env(ex)
        return ex, env


def build_template(name, src, workdir=None, directives=None, defines=(), cplus=False):
    workdir = workdir or snapshot.scratch_dir('gen')
    c = build.cythonize_template(src, name, workdir, directives=directives, cplus=cplus)
    ll = build.lower(c, defines=defines)
    mod = ir.Module(open(ll).read())
    return Built(name, c, ll, mod)
