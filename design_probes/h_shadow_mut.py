def cdiv(a: int, b: int) -> int:
    if a < 0:
        a = -a
        b = -b
    if b < 0:
        return (a + b) // b
    return a // b
def cmod(a: int, b: int) -> int:
    r = a % b
    if (a * b) < 0:
        r -= b
    return r
def check_cdiv(a: int, b: int) -> bool:
    """
    pre: b != 0
    post: _ == True
    """
    q = cdiv(a, b)
    r = a - q * b
    return abs(r) < abs(b) and (r == 0 or (r < 0) == (a < 0))
def check_cmod(a: int, b: int) -> bool:
    """
    pre: b != 0
    post: _ == True
    """
    r = cmod(a, b)
    return abs(r) < abs(b) and (r == 0 or (r < 0) == (a < 0)) and (a - r) % b == 0
