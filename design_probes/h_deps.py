from typing import List, Tuple
import Cython.Build.Dependencies as D   # pure python module (no .so)

class FakeTree(D.DependencyTree):
    pass

def check(adj: List[bool], queries: List[int]) -> bool:
    """
    pre: len(adj) == 9
    pre: 1 <= len(queries) <= 3
    pre: all(0 <= q < 3 for q in queries)
    post: _ == True
    """
    N = 3
    succ = {i: tuple(j for j in range(N) if adj[i * N + j]) for i in range(N)}
    # reference reachability
    reach = {}
    for i in range(N):
        seen = {i}; work = [i]
        while work:
            x = work.pop()
            for y in succ[x]:
                if y not in seen:
                    seen.add(y); work.append(y)
        reach[i] = seen
    t = D.DependencyTree.__new__(D.DependencyTree)
    t._transitive_cache = {}
    t.cimported_files = lambda n: succ[n]
    extract = lambda n: {n}
    for q in queries:
        got = t.transitive_merge(q, extract, set.union)
        if got != reach[q]:
            return False
    return True
