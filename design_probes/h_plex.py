import sys
sys.path.insert(0, '/tmp/probe/pure')
import re
import Cython.Plex.Scanners as Sc
assert Sc.__file__.endswith('.py'), Sc.__file__
import Cython.Plex.Lexicons as Lx
import Cython.Plex.Errors as Errors
from Cython.Plex.Regexps import Str, Any, AnyBut, Range, Seq, Alt, Rep, Rep1, Opt

LEX = [
    (Str("ab"), "R0"),
    (Rep1(Any("ab")), "R1"),
    (Seq(Str("a"), Opt(Str("c"))), "R2"),
    (AnyBut("abc\n"), "R3"),
]
PYRE = [r"ab", r"[ab]+", r"ac?", r"[^abc\n]"]
lexicon = Lx.Lexicon(LEX)

class Stream:
    def __init__(self, s): self.s = s; self.done = False
    def read(self, n):
        if self.done: return ''
        self.done = True
        return self.s

def ref_first(text):
    best = (-1, None)
    for i, p in enumerate(PYRE):
        m = re.compile(p).match(text)
        if m and m.end() > best[0] and m.end() > 0:
            best = (m.end(), "R%d" % i)
    return best

def check(text: str) -> bool:
    """
    pre: 1 <= len(text) <= 4
    pre: all(c in "abcd" for c in text)
    post: _ == True
    """
    sc = Sc.Scanner(lexicon, Stream(text))
    try:
        val, tok = sc.read()
    except Errors.UnrecognizedInput:
        val, tok = "ERR", None
    n, rule = ref_first(text)
    if text == "":
        return val is None
    if rule is None:
        return val == "ERR"
    return val == rule and tok == text[:n]
