# cython: language_level=3
def f():
    return (0.0, 1), (-0.0, 1), (0, 1.0), (0.0, 1.0), (False, 1), (0, True)
def g():
    a = (0.0, 2)
    b = (-0.0, 2)
    return a, b
