import z3, time
D = z3.Float64(); RNE = z3.RNE()
a, b, r = z3.FP('a', D), z3.FP('b', D), z3.FP('r', D)
zero = z3.FPVal(0.0, D)
# fmod contract (C99 F.9.7.1) for the cases Python reaches (b != 0, a finite... inf a -> nan handled by caller? CPython: fmod(inf, x)=nan -> returns nan)
contract = z3.And(
    z3.Not(z3.fpIsNaN(a)), z3.Not(z3.fpIsNaN(b)), z3.Not(z3.fpIsInf(a)), z3.Not(z3.fpIsZero(b)),
    z3.Not(z3.fpIsNaN(r)),
    z3.fpLT(z3.fpAbs(r), z3.fpAbs(b)),
    z3.fpIsNegative(r) == z3.fpIsNegative(a),
    z3.Implies(z3.fpIsInf(b), r == a),
    z3.fpLEQ(z3.fpAbs(r), z3.fpAbs(a)),
)
one = z3.FPVal(1.0, D)
cond = z3.And(z3.Not(z3.fpEQ(r, zero)), z3.Xor(z3.fpLT(r, zero), z3.fpLT(b, zero)))
impl = z3.fpAdd(RNE, r, z3.fpMul(RNE, z3.If(cond, one, zero), b))
spec = z3.If(z3.Not(z3.fpEQ(r, zero)),
             z3.If(z3.fpLT(b, zero) != z3.fpLT(r, zero), z3.fpAdd(RNE, r, b), r),
             z3.If(z3.fpIsNegative(b), z3.FPVal(-0.0, D), zero))
same = z3.Or(z3.And(z3.fpIsNaN(impl), z3.fpIsNaN(spec)), impl == spec)  # structural == distinguishes -0/+0
s = z3.Solver(); s.set('timeout', 60000)
s.add(contract, z3.Not(same))
t = time.time(); res = s.check(); print(res, round(time.time()-t, 2))
if res == z3.sat:
    m = s.model(); print('a=', m[a], 'b=', m[b], 'r=', m[r])
    # block inf and look for the zero-sign one
    s.add(z3.Not(z3.fpIsInf(b)))
    t = time.time(); res = s.check(); print(res, round(time.time()-t, 2))
    if res == z3.sat:
        m = s.model(); print('a=', m[a], 'b=', m[b], 'r=', m[r])
        s.add(z3.Not(z3.fpIsZero(r)))
        t = time.time(); res = s.check(); print('excluding zero r:', res, round(time.time()-t, 2))
