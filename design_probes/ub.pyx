# cython: language_level=3, binding=False
cdef extern from *:
    """
    PyObject* mk(int tag);
    int use(PyObject* o);
    """
    object mk(int tag)
    int use(object o) except -1

cdef int f(bint c1, bint c2) except -1:
    cdef int r = 0
    if c1:
        x = mk(1)
    while c2:
        y = mk(2)
        if c1:
            break
        c2 = False
    else:
        r = use(y)
    r += use(x)
    return r

def drive(a, b):
    return f(a, b)
