import chpatch
import Cython.Build.Dependencies as D

def check_roundtrip(code: str) -> bool:
    """
    pre: len(code) <= 4
    pre: all(c in "'\"\\#\nfa{}" for c in code)
    post: _ == True
    """
    stripped, literals = D.strip_string_literals(code)
    # losslessness: substituting labels back reproduces the text
    out = stripped
    for label, lit in literals.items():
        out = out.replace(label, lit)
    return out == code
