import z3, time
a, b = z3.BitVecs('a b', 64)
B = 1 << 30
pre = z3.And(a > -B, a < B, b >= -B, b <= B)
for name, goal in (('mul no overflow', z3.Not(z3.And(z3.BVMulNoOverflow(a, b, True), z3.BVMulNoUnderflow(a, b)))),
                   ('mul == wide mul', z3.SignExt(64, a * b) != z3.SignExt(64, a) * z3.SignExt(64, b))):
    s = z3.Solver(); s.set('timeout', 120000); s.add(pre, goal)
    t = time.time(); print(name, s.check(), round(time.time() - t, 2), flush=True)
# Int-theory variant
x, y = z3.Ints('x y')
s = z3.Solver(); s.set('timeout', 60000)
s.add(x > -B, x < B, y >= -B, y <= B, z3.Or(x * y >= 2**63, x * y < -2**63))
t = time.time(); print('int range', s.check(), round(time.time() - t, 2))
