from typing import List
import Cython.Build.Dependencies as D

def mk(N, queries):
    def check(adj: List[bool]) -> bool:
        succ = {i: tuple(j for j in range(N) if adj[i * N + j]) for i in range(N)}
        reach = {}
        for i in range(N):
            seen = {i}; work = [i]
            while work:
                x = work.pop()
                for y in succ[x]:
                    if y not in seen:
                        seen.add(y); work.append(y)
            reach[i] = seen
        t = D.DependencyTree.__new__(D.DependencyTree)
        t._transitive_cache = {}
        t.cimported_files = lambda n: succ[n]
        extract = lambda n: {n}
        for q in queries:
            if t.transitive_merge(q, extract, set.union) != reach[q]:
                return False
        return True
    return check

_c3 = mk(3, (0, 1, 2))
def check3(adj: List[bool]) -> bool:
    """
    pre: len(adj) == 9
    post: _ == True
    """
    return _c3(adj)

_c4 = mk(4, (2, 0, 3))
def check4(adj: List[bool]) -> bool:
    """
    pre: len(adj) == 16
    post: _ == True
    """
    return _c4(adj)
