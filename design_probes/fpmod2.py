import z3, time, sys
def build(D):
    RNE = z3.RNE()
    a, b, r = z3.FP('a', D), z3.FP('b', D), z3.FP('r', D)
    zero = z3.FPVal(0.0, D); one = z3.FPVal(1.0, D)
    contract = z3.And(
        z3.Not(z3.fpIsNaN(a)), z3.Not(z3.fpIsNaN(b)), z3.Not(z3.fpIsInf(a)), z3.Not(z3.fpIsZero(b)),
        z3.Not(z3.fpIsNaN(r)), z3.fpLT(z3.fpAbs(r), z3.fpAbs(b)),
        z3.fpIsNegative(r) == z3.fpIsNegative(a), z3.Implies(z3.fpIsInf(b), r == a),
        z3.fpLEQ(z3.fpAbs(r), z3.fpAbs(a)))
    cond = z3.And(z3.Not(z3.fpEQ(r, zero)), z3.Xor(z3.fpLT(r, zero), z3.fpLT(b, zero)))
    impl = z3.fpAdd(RNE, r, z3.fpMul(RNE, z3.If(cond, one, zero), b))
    spec = z3.If(z3.Not(z3.fpEQ(r, zero)),
                 z3.If(z3.fpLT(b, zero) != z3.fpLT(r, zero), z3.fpAdd(RNE, r, b), r),
                 z3.If(z3.fpIsNegative(b), z3.FPVal(-0.0, D), zero))
    same = z3.Or(z3.And(z3.fpIsNaN(impl), z3.fpIsNaN(spec)), impl == spec)
    return [contract, z3.Not(same), z3.Not(z3.fpIsInf(b)), z3.Not(z3.fpIsZero(r))]
for name, D in (('f16', z3.Float16()), ('f32', z3.Float32()), ('f64', z3.Float64())):
    s = z3.Solver(); s.set('timeout', 120000); s.add(*build(D))
    open(f'fpmod_{name}.smt2','w').write("(set-logic QF_FP)\n" + s.to_smt2())
    t = time.time(); print(name, 'z3', s.check(), round(time.time()-t,2), flush=True)
