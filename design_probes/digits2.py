import z3, time
def step(W, base, timeout=120):
    r = z3.BitVec('r', W)
    d = z3.SRem(r, base); d = z3.If(d < 0, -d, d)
    r2 = r / base
    A = lambda x: z3.If(x < 0, -z3.SignExt(W, x), z3.SignExt(W, x))
    good = z3.And(A(r) == A(r2) * base + z3.ZeroExt(W, d), z3.ULT(d, base), z3.Implies(r != 0, z3.ULT(A(r2), A(r))))
    s = z3.Solver(); s.set('timeout', timeout*1000); s.add(z3.Not(good))
    t = time.time(); res = s.check(); return str(res), round(time.time()-t, 2)
for W in (32, 64):
    for base in (100, 64, 16):
        print(W, base, step(W, base), flush=True)
