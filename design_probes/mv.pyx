# cython: language_level=3
import numpy as np
def sl(int[:] a, Py_ssize_t start, Py_ssize_t stop, Py_ssize_t step):
    return np.asarray(a[start:stop:step])
def sl_nostop(int[:] a, Py_ssize_t start, Py_ssize_t step):
    return np.asarray(a[start::step])
