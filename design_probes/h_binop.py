import sys, time, z3
sys.path.insert(0, '/tmp/probe/cir')
from cirproto import *
structs, fns, decls = parse_module(open('/tmp/probe/p2/k3.ll').read())
W = 192
def run(fname, op, order='ObjC', cmax=1 << 30):
    tag = z3.BitVec('lv_tag', 64); digs = [z3.BitVec('d%d' % i, 32) for i in range(5)]
    nd = z3.LShR(tag, 3); sign = tag & 3
    mag = z3.BitVecVal(0, W)
    for i in range(5):
        mag = mag + z3.If(z3.UGT(nd, i), z3.ZeroExt(W - 32, digs[i]) << (30 * i), z3.BitVecVal(0, W))
    V = z3.If(sign == 2, -mag, mag)
    inv = z3.And(z3.ULE(nd, 5), z3.Or(sign == 0, sign == 1, sign == 2), (sign == 1) == (nd == 0), (tag & 4) == 0,
                 *[z3.ULT(d, 1 << 30) for d in digs], *[z3.Implies(nd == i + 1, digs[i] != 0) for i in range(5)],
                 z3.Implies(sign == 1, digs[0] == 0))
    c = z3.BitVec('c', 64)
    results = []   # (guard, kind, value)
    def from_long(ex, g, args):
        results.append((g, 'int', z3.SignExt(W - 64, args[0]))); return Ptr('RES#%d' % len(results), z3.BitVecVal(0, 64))
    def newref(ex, g, args):
        p = args[0]
        results.append((g, 'ref', V if p.region == 'X' else z3.SignExt(W - 64, c))); return p
    stubs = {'PyLong_FromLong': from_long, 'PyLong_FromLongLong': from_long, '__Pyx_NewRef': newref}
    ex = Exec(structs, fns, decls, stubs)
    ex.mem[('X', 16, 8)] = tag
    for i in range(5): ex.mem[('X', 24 + 4 * i, 4)] = digs[i]
    X, C = Ptr('X', z3.BitVecVal(0, 64)), Ptr('CONST', z3.BitVecVal(0, 64))
    t0 = time.time()
    a1, a2 = (X, C) if order == 'ObjC' else (C, X)
    ret = ex.run(fname, [a1, a2, c, z3.BitVecVal(0, 32), z3.BitVecVal(1, 32)])
    enc = time.time() - t0
    cs = z3.SignExt(W - 64, c)
    a, b = (V, cs) if order == 'ObjC' else (cs, V)
    if op == '+': want = a + b
    elif op == '-': want = a - b
    elif op == '*': want = a * b
    elif op == '&': want = a & b
    elif op == '>>': want = a >> b
    elif op == '<<': want = a << b
    pre = z3.And(inv, c >= -cmax, c <= cmax) if op not in ('>>', '<<') else z3.And(inv, c >= 1, c <= 63)
    out = []
    any_res = z3.Or(*[g for g, k, v in results]) if results else z3.BoolVal(False)
    bad = z3.Or(*[z3.And(g, v != want) for g, k, v in results]) if results else z3.BoolVal(False)
    deleg = z3.Or(*[g for g, n, a_ in ex.events if n == 'INDIRECT' or n.startswith('PyNumber_')]) if ex.events else z3.BoolVal(False)
    for name, goal in (('reach fast', any_res), ('wrong value', bad), ('neither result nor delegation', z3.And(z3.Not(any_res), z3.Not(deleg)))):
        s = z3.Solver(); s.set('timeout', 120000); s.add(pre, goal)
        t = time.time(); r = s.check(); out.append((name, str(r), round(time.time() - t, 2)))
        if r == z3.sat and name != 'reach fast':
            m = s.model(); print('   CEX', name, 'tag', m.eval(tag, True), [m.eval(d, True).as_long() for d in digs], 'c', m.eval(c, True).as_signed_long())
    nub = 0
    for g, d in ex.ub:
        s = z3.Solver(); s.set('timeout', 30000); s.add(pre, g)
        r = s.check()
        if r != z3.unsat: nub += 1; print('   UB?', r, d[:90])
    print(fname.replace('__Pyx_Unpacked___Pyx_PyLong_', ''), 'enc', round(enc, 2), out, 'ub_open', nub, 'of', len(ex.ub))





run('__Pyx_Unpacked___Pyx_PyLong_LshiftObjC', '<<')
run('__Pyx_Unpacked___Pyx_PyLong_MultiplyObjC', '*')
