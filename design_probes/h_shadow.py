
import Cython.Shadow as SH

def check_cdiv(a: int, b: int) -> bool:
    """
    pre: b != 0
    post: _ == True
    """
    q = SH.cdiv(a, b)
    r = a - q * b
    # C truncation: |r| < |b| and r has the sign of a (or zero)
    return abs(r) < abs(b) and (r == 0 or (r < 0) == (a < 0))

def check_cmod(a: int, b: int) -> bool:
    """
    pre: b != 0
    post: _ == True
    """
    r = SH.cmod(a, b)
    return abs(r) < abs(b) and (r == 0 or (r < 0) == (a < 0)) and (a - r) % b == 0
