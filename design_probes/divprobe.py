import z3, time, sys
def probe(W, timeout):
    a, b = z3.BitVecs('a b', W)
    q = a / b   # signed div in z3py for BitVec
    r = a - q*b
    adapt = z3.If(z3.And(r != 0, (r ^ b) < 0), z3.BitVecVal(1, W), z3.BitVecVal(0, W))
    res = q - adapt
    # spec in 2W
    A, B, R = z3.SignExt(W, a), z3.SignExt(W, b), z3.SignExt(W, res)
    M = A - R*B
    spec = z3.And(z3.Implies(B > 0, z3.And(M >= 0, M < B)), z3.Implies(B < 0, z3.And(M <= 0, M > B)))
    MIN = z3.BitVecVal(1 << (W-1), W)
    pre = z3.And(b != 0, z3.Not(z3.And(a == MIN, b == -1)))
    s = z3.SolverFor('QF_BV'); s.set('timeout', timeout*1000)
    s.add(pre, z3.Not(spec))
    t = time.time(); r_ = s.check(); return str(r_), time.time()-t
for W in (8, 16, 32, 64):
    print(W, probe(W, 120), flush=True)
