import sys
from typing import List
sys.path.insert(0, '/tmp/probe/pure')
import chpatch
from Cython.Compiler import StringEncoding as SE
from h_escape import c_decode
TOK = ['a', '0', '\\n', '\\\\', '\\"', '\\033', '?']

def check(kinds: List[int], limit: int) -> bool:
    """
    pre: 6 <= limit <= 7
    pre: len(kinds) <= 5
    pre: all(0 <= k < 7 for k in kinds)
    post: _ == True
    """
    s = ''.join([TOK[k] for k in kinds])
    r = SE.split_string_literal(s, limit)
    return c_decode(r) == c_decode(s)
