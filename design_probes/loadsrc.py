import importlib.util, importlib.machinery, sys
def load_src(relpath, alias=None):
    """Load a /repo module from its .py source (bypassing any compiled .so) under its package."""
    path = '/repo/' + relpath
    modname = relpath[:-3].replace('/', '.')
    pkg, _, base = modname.rpartition('.')
    alias = alias or (pkg + '.vfsrc_' + base)
    importlib.import_module(pkg)
    loader = importlib.machinery.SourceFileLoader(alias, path)
    spec = importlib.util.spec_from_loader(alias, loader)
    mod = importlib.util.module_from_spec(spec)
    sys.modules[alias] = mod
    loader.exec_module(mod)
    return mod
