import sys, ast, inspect, textwrap
sys.path.insert(0, '/tmp/probe/pure')
import Cython.LZSS as LZ
assert LZ.__file__.endswith('.py')

# --- AST slice: statements of the main while-loop body between "flag = 0" and the literal fallback
src = inspect.getsource(LZ.lzss_compress)
tree = ast.parse(textwrap.dedent(src))
fn = tree.body[0]
loop = [n for n in fn.body if isinstance(n, ast.While)][0]
body = loop.body
start = next(i for i, n in enumerate(body) if isinstance(n, ast.Assign) and getattr(n.targets[0], 'id', None) == 'flag')
end = next(i for i, n in enumerate(body) if isinstance(n, ast.AugAssign) and getattr(n.target, 'id', None) == 'pos')
stmts = body[start:end]
code = "def step(offset, length, byte, stats):\n    output = []\n" + textwrap.indent("\n".join(ast.unparse(s) for s in stmts), "    ") + "\n    return output, flag, length\n"
code = code.replace("data[pos]", "byte")
ns = {}
exec(compile(code, '<lzss-step-slice>', 'exec'), ns)
step = ns['step']

def decode_token(lo, hi, b3):
    """reference format: back-reference token -> (end_offset, match_len, consumed)"""
    if not (lo & 0x80):
        return lo, hi + 3, 2
    if not (hi & 0x80):
        return 0x80 + (((hi << 2) & 0x180) | (lo & 0x7F)), (hi & 0x1F) + 3, 2
    return 0x80 + (((hi & 0x7F) << 7) | (lo & 0x7F)), b3 + 3, 3

def check(offset: int, length: int, byte: int) -> bool:
    """
    pre: 0 <= byte <= 255
    pre: (length == 0 and offset == 0) or (3 <= length <= 258 and length <= offset <= (1 << 14) + 128 + 258 + length)
    post: _ == True
    """
    out, flag, ln = step(offset, length, byte, [0] * 5)
    if flag == 1:
        return out == [byte] and ln == 1
    if len(out) not in (2, 3): return False
    if not all(0 <= b <= 255 for b in out): return False
    eo, ml, used = decode_token(out[0], out[1], out[2] if len(out) == 3 else 0)
    # decoder copies from out_pos - eo - ml ; encoder meant pos - offset
    return used == len(out) and ml == length and eo + ml == offset and ln == length
