import sys
sys.path.insert(0, '/tmp/probe/pure')
import chpatch
from Cython.Compiler import Main, Options, Errors, Scanning, Parsing, Symtab
from Cython.Compiler.StringEncoding import EncodedString
from Cython.Compiler.Errors import CompileError
import io

ctx = Main.Context.from_options(Options.CompilationOptions(Options.default_options))
# force lexicon build outside of tracing
Scanning.get_lexicon()
_ENV = Scanning.initial_compile_time_env()
Scanning.initial_compile_time_env = lambda: _ENV

def parse(text):
    name = 'm'
    desc = Scanning.StringSourceDescriptor(name, text)
    scope = Symtab.ModuleScope(name, parent_module=None, context=ctx)
    s = Scanning.PyrexScanner(io.StringIO(text), desc, source_encoding='UTF-8', scope=scope, context=ctx, initial_pos=(desc, 1, 0))
    return Parsing.p_module(s, 0, name)

def never_crashes(text: str) -> bool:
    """
    pre: 1 <= len(text) <= 3
    pre: all(c in "x=(1,'\\\n :" for c in text)
    post: _ == True
    raises: CompileError
    """
    Errors.init_thread()
    try:
        parse(text)
    except CompileError:
        pass
    return True
