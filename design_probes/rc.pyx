# cython: language_level=3
cimport cython
cdef extern from *:
    """
    PyObject* lt_leaf(PyObject*, PyObject*);
    PyObject* eq_leaf(PyObject*, PyObject*);
    """
    object lt_leaf(object a, object b)
    object eq_leaf(object a, object b)

@cython.total_ordering
cdef class A:
    def __lt__(self, other):
        return lt_leaf(self, other)
    def __eq__(self, other):
        return eq_leaf(self, other)
