import sys
sys.path.insert(0, '/tmp/probe/pure')
import chpatch
from Cython.Compiler import Parsing, StringEncoding
assert Parsing.__file__.endswith('.py')

class FakeScanner:
    def __init__(self): self.errors = []
    def error(self, msg, fatal=True, **kw): self.errors.append(msg)

def ref_bytes(esc: str):
    """reference: CPython semantics of one escape token inside a bytes literal -> bytes or None if CPython rejects"""
    c = esc[1]
    if c in "01234567":
        return bytes([int(esc[1:], 8) & 0xFF])
    if c in "'\"\\": return c.encode()
    if c in "abfnrtv": return {'a':b'\a','b':b'\b','f':b'\f','n':b'\n','r':b'\r','t':b'\t','v':b'\v'}[c]
    if c == '\n': return b''
    if c == 'x':
        return bytes([int(esc[2:], 16)]) if len(esc) == 4 else None
    return esc.encode('latin1')   # unknown escapes stay verbatim (incl. \u \N in bytes)

def check_bytes(esc: str) -> bool:
    """
    pre: 2 <= len(esc) <= 4
    pre: esc[0] == chr(92)
    pre: all(c in "01237x\\nNuaf'\"z\n" for c in esc[1:])
    pre: (esc[1] in "01234567" and all(c in "01234567" for c in esc[1:])) or (esc[1] == 'x' and all(c in "0123456789abcdefABCDEF" for c in esc[2:])) or (esc[1] not in "01234567x" and len(esc) == 2)
    post: _ == True
    """
    b = StringEncoding.BytesLiteralBuilder('utf8')
    s = FakeScanner()
    Parsing._append_escape_sequence('b', b, esc, s)
    want = ref_bytes(esc)
    if want is None:
        return len(s.errors) > 0
    return bytes(b.getstring()) == want and not s.errors
