from loadsrc import load_src
SE = load_src('Cython/Compiler/StringEncoding.py', 'vf_StringEncoding')

def c_decode(lit: str) -> bytes:
    """Reference: C string literal body (between quotes, possibly with "" splits) -> bytes.
    Translation phases: trigraphs first, then escapes, then adjacent concatenation."""
    TRI = {'=':'#','(':'[','/':'\\',')':']',"'":'^','<':'{','!':'|','>':'}','-':'~'}
    # phase 1: trigraphs
    s = []
    i = 0
    n = len(lit)
    while i < n:
        if lit[i] == '?' and i + 2 < n and lit[i+1] == '?' and lit[i+2] in TRI:
            s.append(TRI[lit[i+2]]); i += 3
        else:
            s.append(lit[i]); i += 1
    out = bytearray()
    i = 0
    n = len(s)
    while i < n:
        c = s[i]
        if c == '"':
            # must be a "" split
            if i + 1 < n and s[i+1] == '"':
                i += 2
                continue
            raise ValueError("unescaped quote")
        if c == '\n':
            raise ValueError("newline")
        if c != '\\':
            if ord(c) > 127 or ord(c) < 32: raise ValueError("non printable")
            out.append(ord(c)); i += 1; continue
        i += 1
        if i >= n: raise ValueError("trailing backslash")
        c = s[i]
        simple = {'n':10,'t':9,'r':13,'a':7,'b':8,'f':12,'v':11,'\\':92,'"':34,"'":39,'?':63}
        if c in simple:
            out.append(simple[c]); i += 1
        elif c in '01234567':
            v = 0; k = 0
            while k < 3 and i < n and s[i] in '01234567':
                v = v*8 + (ord(s[i]) - 48); i += 1; k += 1
            if v > 255: raise ValueError("octal range")
            out.append(v)
        elif c == 'x':
            i += 1; v = 0; k = 0
            while i < n and s[i] in '0123456789abcdefABCDEF':
                v = v*16 + int(s[i], 16); i += 1; k += 1
            if k == 0 or v > 255: raise ValueError("hex")
            out.append(v)
        else:
            raise ValueError("bad escape")
    return bytes(out)

def check_escape(b: bytes) -> bool:
    """
    pre: len(b) <= 3
    post: _ == True
    """
    return c_decode(SE.escape_byte_string(b)) == b
