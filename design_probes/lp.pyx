# cython: language_level=3
cdef extern from *:
    """
    void ev(long i);
    """
    void ev(long i) nogil

cdef long loop1(int a, int b) noexcept nogil:
    cdef int i = 12345
    for i in range(a, b, 3):
        ev(i)
    return i

cdef long loop2(int a, int b) noexcept nogil:
    cdef int i = 12345
    for i in range(a, b, -2):
        ev(i)
    else:
        ev(-1)
    return i

cdef int sw(int x) noexcept nogil:
    if x == 1 or x == 2:
        return 10
    elif x in (2, 3, 4):
        return 20
    elif x == 4:
        return 30
    return 0

cdef long ulooop(unsigned int n) noexcept nogil:
    cdef unsigned int i
    cdef long s = 0
    for i in range(n - 1, -1, -1):
        s += i
    return s
