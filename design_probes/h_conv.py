import sys, time, z3
sys.path.insert(0, '/tmp/probe/cir')
from cirproto import *
structs, fns, decls = parse_module(open('/tmp/probe/p2/k3.ll').read())

def run(fname, bits, signed):
    st = {'err': z3.BoolVal(False), 'ovf': z3.BoolVal(False)}
    tag = z3.BitVec('lv_tag', 64)
    digs = [z3.BitVec('d%d' % i, 32) for i in range(5)]
    nd = z3.LShR(tag, 3); sign = tag & 3     # 0 pos, 1 zero, 2 neg
    W = 192
    mag = z3.BitVecVal(0, W)
    for i in range(5):
        mag = mag + z3.If(z3.UGT(nd, i), z3.ZeroExt(W - 32, digs[i]) << (30 * i), z3.BitVecVal(0, W))
    V = z3.If(sign == 2, -mag, mag)
    inv = z3.And(z3.ULE(nd, 5), z3.Or(sign == 0, sign == 1, sign == 2), (sign == 1) == (nd == 0), (tag & 4) == 0,
                 *[z3.ULT(d, 1 << 30) for d in digs],
                 *[z3.Implies(nd == i + 1, digs[i] != 0) for i in range(5)])
    def fits(lo, hi): return z3.And(V >= lo, V <= hi)
    def as_c(name, lo, hi, w, unsigned=False):
        def stub(ex, g, args):
            ok = fits(lo, hi)
            st['err'] = z3.If(z3.And(g, z3.Not(ok)), z3.BoolVal(True), st['err'])
            return z3.If(ok, z3.Extract(w - 1, 0, V), z3.BitVecVal(-1, w))
        return stub
    def err_occurred(ex, g, args):
        return PtrChoiceBool(st['err'])
    def pyerr_format(ex, g, args):
        st['ovf'] = z3.If(g, z3.BoolVal(True), st['ovf']); st['err'] = z3.If(g, z3.BoolVal(True), st['err'])
        return Ptr(None, z3.BitVecVal(0, 64))
    stubs = {'PyLong_AsLong': as_c('l', -2**63, 2**63 - 1, 64), 'PyLong_AsUnsignedLong': as_c('ul', 0, 2**64 - 1, 64),
             'PyLong_AsLongLong': as_c('ll', -2**63, 2**63 - 1, 64), 'PyLong_AsUnsignedLongLong': as_c('ull', 0, 2**64 - 1, 64),
             'PyErr_Occurred': err_occurred, 'PyErr_Format': pyerr_format, 'PyErr_SetString': pyerr_format}
    ex = Exec(structs, fns, decls, stubs)
    ex.mem[('X', 16, 8)] = tag
    for i in range(5): ex.mem[('X', 24 + 4 * i, 4)] = digs[i]
    t0 = time.time()
    ret = ex.run(fname, [Ptr('X', z3.BitVecVal(0, 64))])
    enc = time.time() - t0
    lo, hi = (-(1 << (bits - 1)), (1 << (bits - 1)) - 1) if signed else (0, (1 << bits) - 1)
    inrange = fits(lo, hi)
    res = []
    def q(name, goal):
        s = z3.Solver(); s.set('timeout', 120000); s.add(inv, goal)
        t = time.time(); r = s.check(); res.append((name, str(r), round(time.time() - t, 2)))
        if r == z3.sat:
            m = s.model(); print('   CEX', name, 'tag', m.eval(tag, True), [m.eval(d, True) for d in digs], 'ret', m.eval(ret, True))
    q('reach ok', z3.And(inrange, z3.Not(st['err'])))
    q('wrong value', z3.And(inrange, z3.Or(st['err'], z3.SignExt(W - bits, ret) != V if signed else z3.ZeroExt(W - bits, ret) != V)))
    q('missed overflow', z3.And(z3.Not(inrange), z3.Not(st['err'])))
    ubs = 0
    for g, d in ex.ub:
        s = z3.Solver(); s.set('timeout', 20000); s.add(inv, g)
        if s.check() != z3.unsat: ubs += 1; print('   UB?', d)
    print(fname, 'encode', round(enc, 2), res, 'ub', ubs, 'events', sorted(set(e[1] for e in ex.events)))

class PtrChoiceBool(Ptr):
    def __init__(self, c): self.c = c; self.region = ('bool',); self.off = z3.BitVecVal(0, 64)

# teach icmp about PtrChoiceBool vs null
_old_step = Exec.step
def step(self, fn, label, ins, env, g, edge, bguard, rets, depth):
    m = re.match(r'^(%[\w.]+) = icmp (eq|ne) (\S+\*) (\S+), null$', ins)
    if m and isinstance(env.get(m.group(4)), PtrChoiceBool):
        c = env[m.group(4)].c
        c = c if m.group(2) == 'ne' else z3.Not(c)
        env[m.group(1)] = z3.If(c, z3.BitVecVal(1, 1), z3.BitVecVal(0, 1)); return
    return _old_step(self, fn, label, ins, env, g, edge, bguard, rets, depth)
Exec.step = step

run('__Pyx_PyLong___Pyx_PyLong_As_int', 32, True)
run('__Pyx_PyLong___Pyx_PyLong_As_unsigned_short', 16, False)
