# cython: language_level=3
def fmodpy(double a, double b):
    return a % b
def idiv(int a, int b):
    return a // b
