import ast, z3, time
import h_lzss_step as H
W = 32
tree = ast.parse(H.code).body[0]

class Path(Exception): pass
def ev(e, env):
    if isinstance(e, ast.Constant): return z3.BitVecVal(e.value, W)
    if isinstance(e, ast.Name): return env[e.id]
    if isinstance(e, ast.BinOp):
        a, b = ev(e.left, env), ev(e.right, env)
        return {ast.Add: lambda: a + b, ast.Sub: lambda: a - b, ast.BitAnd: lambda: a & b, ast.BitOr: lambda: a | b,
                ast.RShift: lambda: a >> b, ast.LShift: lambda: a << b}[type(e.op)]()
    if isinstance(e, ast.Compare):
        assert len(e.ops) == 1
        a, b = ev(e.left, env), ev(e.comparators[0], env)
        return {ast.Lt: lambda: a < b, ast.LtE: lambda: a <= b, ast.Gt: lambda: a > b, ast.Eq: lambda: a == b}[type(e.ops[0])]()
    if isinstance(e, ast.BoolOp):
        vs = [ev(v, env) for v in e.values]
        return z3.And(*vs) if isinstance(e.op, ast.And) else z3.Or(*vs)
    raise NotImplementedError(ast.dump(e))

def run(stmts, env, pc, out):
    """path-enumerating symbolic execution; yields (pc, env, out) at the end of the block"""
    if not stmts:
        yield pc, env, out; return
    s, rest = stmts[0], stmts[1:]
    if isinstance(s, ast.Assign):
        env = dict(env); env[s.targets[0].id] = ev(s.value, env) if not isinstance(s.value, ast.List) else None
        yield from run(rest, env, pc, out)
    elif isinstance(s, ast.AugAssign):
        if isinstance(s.target, ast.Subscript):   # stats[k] += 1 : ignore
            yield from run(rest, env, pc, out); return
        env = dict(env); env[s.target.id] = ev(ast.BinOp(ast.Name(s.target.id), s.op, s.value), env)
        yield from run(rest, env, pc, out)
    elif isinstance(s, ast.Expr) and isinstance(s.value, ast.Call) and s.value.func.attr == 'append':
        yield from run(rest, env, pc, out + [ev(s.value.args[0], env)])
    elif isinstance(s, ast.If):
        c = ev(s.test, env)
        yield from run(s.body + rest, env, pc + [c], out)
        yield from run(s.orelse + rest, env, pc + [z3.Not(c)], out)
    elif isinstance(s, ast.Return):
        yield pc, env, out
    else:
        raise NotImplementedError(ast.dump(s))

offset, length, byte = z3.BitVecs('offset length byte', W)
pre = z3.And(byte >= 0, byte <= 255, z3.Or(z3.And(length == 0, offset == 0),
             z3.And(length >= 3, length <= 258, length <= offset, offset <= (1 << 14) + 128 + 258 + length)))
def dec(lo, hi, b3):
    c1 = (lo & 0x80) == 0; c2 = (hi & 0x80) == 0
    eo = z3.If(c1, lo, z3.If(c2, 0x80 + (((hi << 2) & 0x180) | (lo & 0x7F)), 0x80 + (((hi & 0x7F) << 7) | (lo & 0x7F))))
    ml = z3.If(c1, hi + 3, z3.If(c2, (hi & 0x1F) + 3, b3 + 3))
    used = z3.If(z3.Or(c1, c2), z3.BitVecVal(2, W), z3.BitVecVal(3, W))
    return eo, ml, used
t0 = time.time(); n = 0; bad = 0
for pc, env, out in run(tree.body[1:], {'offset': offset, 'length': length, 'byte': byte}, [], []):
    s = z3.Solver(); s.add(pre, *pc)
    if s.check() == z3.unsat: continue
    n += 1
    flag, ln = env['flag'], env['length']
    if len(out) == 1:
        good = z3.And(flag == 1, out[0] == byte, ln == 1)
    else:
        eo, ml, used = dec(out[0], out[1], out[2] if len(out) == 3 else z3.BitVecVal(0, W))
        good = z3.And(flag == 0, *[z3.And(b >= 0, b <= 255) for b in out], used == len(out), ml == length, eo + ml == offset, ln == length)
    s.add(z3.Not(good)); r = s.check()
    print('path', n, 'bytes', len(out), r, (s.model() if r == z3.sat else ''))
    bad += r != z3.unsat
print('feasible paths', n, 'violations', bad, round(time.time() - t0, 2), 's')
