# cython: language_level=3
def fs(str s):
    return float(s)
def fb(bytes s):
    return float(s)
