# NOT part of the framework: the unfinished C17 kernel described in DESIGN.md 9.7 (one dtype decided in 5-9 min; not registered).
# To try it: copy to vf/props/C17.py and run ./check C17 --only int
"""C17 buffer acquisition accepts exactly the matching buffers (narrow): the legacy-buffer acquisition helper __Pyx__GetBufferAndValidate with the
format-string checker of Buffer.c (__Pyx_BufFmt_Init / CheckString / ProcessTypeChunk / the type-character tables), for scalar dtypes and every
format string of up to MAXL characters over the struct-module alphabet; reference = the struct module's own reading of the format (GEN + CIR)."""
import itertools, multiprocessing as mp, os, re, struct, subprocess, sys, time
import z3
from .. import snapshot
from ..cir import build, solve, symex, stubs, ir
from ..cir.symex import Ptr
from ..gen import harness

LEVEL = 'model_checking'
DTYPES = [('int', 'int', 4, 'I'), ('uint', 'unsigned int', 4, 'U'), ('short', 'short', 2, 'I'), ('long', 'long', 8, 'I'), ('double', 'double', 8, 'R'),
          ('float', 'float', 4, 'R'), ('schar', 'signed char', 1, 'I'), ('uchar', 'unsigned char', 1, 'U'), ('char', 'char', 1, 'H'), ('ulonglong', 'unsigned long long', 8, 'U')]
TEMPLATE = '# cython: language_level=3\n' + ''.join('def g_%s(object[%s, ndim=1] a):\n    return a[0]\n' % (n, t) for n, t, _, _ in DTYPES)
TYPECHARS = 'bBhHiIlLqQfdc?'
ALPHABET = '@=<>! 12x' + TYPECHARS
MAXL = 3
_B = None
PB_BUF, PB_ITEMSIZE, PB_NDIM, PB_FORMAT, PB_SUBOFF = 0, 24, 36, 40, 64


def T():
    return int(os.environ.get('VF_QTIMEOUT', '300'))


# ---- reference: what the struct module says the format describes ------------------------------------------------
def ref_items(fmt):
    """-> (prefix, [(count, char)]) or None if the struct module rejects the format"""
    try:
        struct.calcsize(fmt)
    except struct.error:
        return None
    s = fmt.strip(' ') if False else fmt
    i = 0
    n = len(s)
    while i < n and s[i] == ' ':
        i += 1
    prefix = '@'
    if i < n and s[i] in '@=<>!':
        prefix = s[i]
        i += 1
    items = []
    while i < n:
        if s[i] == ' ':
            i += 1
            continue
        j = i
        while j < n and s[j].isdigit():
            j += 1
        count = int(s[i:j]) if j > i else 1
        if j >= n:
            return None
        items.append((count, s[j]))
        i = j + 1
    return prefix, items


def group_of(ch):
    return 'H' if ch == 'c' else 'R' if ch in 'fd' else 'U' if ch in 'BHILQ?' else 'I'


def ref_accepts(fmt, size, group):
    """The exporter describes its items by `fmt` (itemsize = calcsize(fmt)).  Compatible with a scalar C type of `size` bytes in `group`
    iff the format is one item of one element of the same size and kind (chars match any 1-byte integer kind), in native byte order,
    with nothing else in the item."""
    r = ref_items(fmt)
    if r is None:
        return False
    prefix, items = r
    if prefix in '>!' and sys.byteorder == 'little':
        return False
    items = [(c, ch) for c, ch in items if c != 0]
    if len(items) != 1:
        return False
    count, ch = items[0]
    if count != 1 or ch == 'x':
        return False
    p = prefix if prefix != '!' else '>'
    sz = struct.calcsize(p + ch)
    if struct.calcsize(fmt) != size or sz != size:
        return False
    g = group_of(ch)
    return g == group or 'H' in (g, group)


def all_formats():
    out = ['']
    for n in range(1, MAXL + 1):
        out += [''.join(t) for t in itertools.product(ALPHABET, repeat=n)]
    return out


def check(dt):
    name, cname, size, group = dt
    out = []
    t0 = time.time()
    label = 'acquire %s' % cname
    try:
        ex, env = _B.new_exec(unroll=MAXL + 3)
        buf = ex.new_region('format', size=z3.BitVecVal(MAXL + 1, 64), kind='elems', elemsize=1)
        chars = [z3.Select(buf.array, z3.BitVecVal(k, 64)) for k in range(MAXL + 1)]
        PB = ex.new_region('py_buffer', size=None, lazy=True)
        DATA = ex.new_region('exported_memory', size=None, lazy=True)
        STACK = ex.new_region('fmt_stack', size=64, lazy=False)
        for o_ in range(0, 64, 8):
            STACK.fields[o_] = (8, z3.BitVecVal(0, 64))
        itemsize, ndim = z3.BitVec('itemsize', 64), z3.BitVec('ndim', 32)
        obj, oinv = env.make_opaque('exporter')
        released = []
        recursion = []

        def getbuffer(ex_, g, a, rt, caller):
            i8p = ir.T('ptr', elem=ir.T('int', bits=8))
            ex_.store(Ptr(a[1].bv + PB_BUF, a[1].regions), ex_.ptr_to(DATA), i8p, g, 'stub')
            ex_.store(Ptr(a[1].bv + PB_ITEMSIZE, a[1].regions), itemsize, ir.T('int', bits=64), g, 'stub')
            ex_.store(Ptr(a[1].bv + PB_NDIM, a[1].regions), ndim, ir.T('int', bits=32), g, 'stub')
            ex_.store(Ptr(a[1].bv + PB_FORMAT, a[1].regions), ex_.ptr_to(buf), i8p, g, 'stub')
            ex_.store(Ptr(a[1].bv + PB_SUBOFF, a[1].regions), Ptr(z3.BitVecVal(0, 64), [0]), i8p, g, 'stub')
            return z3.BitVecVal(0, rt.bits)
        ex.stubs['PyObject_GetBuffer'] = getbuffer
        ex.stubs['PyBuffer_Release'] = lambda ex_, g, a, rt, c: released.append(g)
        ex.stubs['__Pyx_BufFmt_DescribeTypeChar'] = lambda ex_, g, a, rt, c: Ptr(z3.BitVecVal(0, 64), [0])     # text for the error message only
        ti = [g for g in ex.m.globals if g == '__Pyx_TypeInfo_' + cname.replace('unsigned long long', 'unsigned_PY_LONG_LONG').replace(' ', '_')]
        if len(ti) != 1:
            raise KeyError('type info of %s not found' % cname)
        fn = '__Pyx__GetBufferAndValidate'
        alpha = [ord(c) for c in ALPHABET]
        wf = [chars[MAXL] == 0]
        for k in range(MAXL):
            wf.append(z3.Or(chars[k] == 0, *[chars[k] == a for a in alpha]))
            wf.append(z3.Implies(chars[k] == 0, chars[k + 1] == 0))
        ex.prune, ex.prune_pre = 'eager', wf
        ret, rg = ex.run(fn, [ex.ptr_to(PB), obj, ex.global_ptr(ti[0]), z3.BitVecVal(0, 32), z3.BitVecVal(1, 32), z3.BitVecVal(0, 32), ex.ptr_to(STACK)])
    except (symex.Unsupported, ir.ParseError, KeyError, IndexError, AttributeError) as e:
        return [dict(name=label + ':encode', status='inconclusive', s=time.time() - t0, detail='Unsupported: %s ... %s' % (str(e)[:150], str(e)[-350:]), mandatory=True)]
    enc_s = time.time() - t0
    # the format is a NUL-terminated string of <= MAXL characters of the alphabet; the exporter's itemsize is calcsize(format)
    fmts = all_formats()
    key = lambda s: [ord(c) for c in s] + [0] * (MAXL + 1 - len(s))
    word = z3.Concat(*reversed(chars))

    def wval(s):
        v = 0
        for k, b in enumerate(key(s)):
            v |= b << (8 * k)
        return z3.BitVecVal(v, 8 * (MAXL + 1))
    valid = [s for s in fmts if ref_items(s) is not None]
    acc = [s for s in valid if ref_accepts(s, size, group)]
    bysize = {}
    for s in valid:
        bysize.setdefault(struct.calcsize(s), []).append(s)
    contract = z3.Or(*[z3.And(itemsize == sz, z3.Or(*[word == wval(s) for s in ss])) for sz, ss in bysize.items()])
    in_acc = z3.Or(*[word == wval(s) for s in acc]) if acc else z3.BoolVal(False)
    pre = [oinv, contract] + wf + list(ex.assumptions)
    ok = z3.And(rg, ret == 0)

    def cexf(m):
        bs = [m.eval(c, model_completion=True).as_long() for c in chars]
        s = bytes(bs).split(b'\0')[0].decode('latin-1')
        return dict(kind='acquire', dtype=name, format=s, ndim=m.eval(ndim, model_completion=True).as_signed_long())

    def ob(nm, conds, kind_='unsat'):
        r, m, s_ = solve.check(pre + conds, T())
        d = dict(name='%s: %s' % (label, nm), s=s_, mandatory=True)
        d['status'] = ({'unsat': 'proved', 'sat': 'refuted'} if kind_ == 'unsat' else {'sat': 'witness', 'unsat': 'vacuous'}).get(r, 'inconclusive')
        if r == 'sat' and kind_ == 'unsat':
            d['cex'] = cexf(m)
        out.append(d)
    ob('a one-dimensional exporter whose format the struct module reads as one matching element is accepted (%d formats)' % len(acc), [ndim == 1, in_acc, z3.Not(ok)])
    ob('every other format the struct module accepts (%d formats), and every other dimension count, is rejected' % (len(valid) - len(acc)), [z3.Or(ndim != 1, z3.Not(in_acc)), z3.Not(z3.And(rg, ret == -1))])
    ob('rejection sets an exception and releases the acquired buffer', [rg, ret == -1, z3.Not(z3.And(z3.Not(env.no_error()), z3.Or(*released) if released else z3.BoolVal(False)))])
    for bo in ex.obligations_failed() if hasattr(ex, 'obligations_failed') else []:
        pass
    ob('reach: accepted', [ok, ndim == 1], kind_='witness')
    out[0]['s'] += enc_s
    return out


REPLAY = r'''
import sys, ctypes, struct
sys.path.insert(0, %(dir)r)
import %(mod)s as M
fmt, ndim, dtype = %(fmt)r, %(ndim)d, %(dtype)r
import numpy as np
# an exporter with an arbitrary format string: a ctypes-free PEP 3118 object through memoryview.cast is limited to single-char formats,
# so use a small exporter class implemented with the buffer protocol of Python 3.12 (__buffer__)
class Exp:
    def __init__(self, fmt, ndim):
        self.fmt, self.ndim = fmt, ndim
        self.size = struct.calcsize(fmt)
        self.data = bytearray(range(1, self.size * 2 + 1))
    def __buffer__(self, flags):
        mv = memoryview(self.data)
        return mv
print('REPLAY-UNSUPPORTED')
'''


def run(rep, tier, only=None):
    global _B, MAXL
    snapshot.activate()
    _B = harness.build_template('c17t', TEMPLATE)
    rep.functions += ['Cython/Utility/Buffer.c: __Pyx__GetBufferAndValidate, __Pyx_BufFmt_Init, __Pyx_BufFmt_CheckString, __Pyx_BufFmt_ProcessTypeChunk, __Pyx_BufFmt_ParseNumber/ExpectNumber, '
                      '__Pyx_BufFmt_TypeCharTo{StandardSize,NativeSize,Alignment,Padding,Group}, __Pyx_BufFmt_RaiseExpected, as emitted for object[T, ndim=1] arguments [%s]' % build.sha(_B.cfile)]
    dts = [d for d in DTYPES if (only == d[0] if only else (tier == 'thorough' or d[0] in ('int', 'double', 'char', 'ulonglong', 'short')))]
    with mp.Pool(min(16, len(dts))) as pool:
        results = pool.map(check, dts, chunksize=1)
    n = 0
    for dt, res in zip(dts, results):
        for d in res:
            n += 1
            rep.obligation(d['name'], d['status'] if d['status'] != 'refuted' else 'refuted', d['s'], d.get('mandatory', True), str(d.get('cex')) if d.get('cex') else d.get('detail'))
            if d['status'] == 'refuted':
                rep.violation('%s fails for %s' % (d['name'], d['cex']), dict(cex=d['cex']))
    rep.cov['states'] = n
    rep.cov['transitions'] = n
