# cython: language_level=3
cdef int fdiv(int a, int b) except? -1:
    return a // b

cdef long lmod(long a, long b) except? -1:
    return a % b

cdef int cdivc(int a) noexcept:
    return a // 7

def entry(a, b):
    return fdiv(a, b), lmod(a, b), cdivc(a)
