from typing import List, Tuple
from loadsrc import load_src
ST = load_src('Cython/StringIOTree.py', 'Cython.vfsrc_StringIOTree')

def check(ops: List[Tuple[int, int]]) -> bool:
    """
    pre: len(ops) <= 4
    pre: all(0 <= o[0] <= 3 and 0 <= o[1] <= 2 for o in ops)
    post: _ == True
    """
    # real trees
    root = ST.StringIOTree()
    trees = [root]
    # reference: list of "holes": each tree id owns a position in a flat list of fragments
    # model[i] = list of items; item is ('s', text) or ('t', tree_id)
    model = {0: []}
    n = 0
    for (op, k) in ops:
        k = k % len(trees)
        t = trees[k]
        if op == 0:      # write
            n += 1
            s = "w%d\n" % n
            t.write(s)
            t.markers.append(n)
            model[k].append(('s', s, n))
        elif op == 1:    # insertion_point
            new = t.insertion_point()
            trees.append(new)
            nid = len(trees) - 1
            model[nid] = []
            model[k].append(('t', nid))
        elif op == 2:    # insert a fresh tree with some content
            new = ST.StringIOTree()
            n += 1
            s = "i%d\n" % n
            new.write(s); new.markers.append(n)
            trees.append(new)
            nid = len(trees) - 1
            model[nid] = [('s', s, n)]
            t.insert(new)
            model[k].append(('t', nid))
        else:            # commit
            t.commit()
    def flat(i):
        txt = []; mk = []
        for it in model[i]:
            if it[0] == 's':
                txt.append(it[1]); mk.append(it[2])
            else:
                a, b = flat(it[1]); txt.append(a); mk.extend(b)
        return "".join(txt), mk
    for i, t in enumerate(trees):
        a, b = flat(i)
        if t.getvalue() != a or t.allmarkers() != b:
            return False
    return True
