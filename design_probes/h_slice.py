import sys, time, z3
sys.path.insert(0, '/tmp/probe/cir')
from cirproto import *
structs, fns, decls = parse_module(open('/tmp/probe/p2/k3.ll').read())
ex = Exec(structs, fns, decls)
I64 = lambda n: z3.BitVec(n, 64)
shape, stride, sub, start, stop, step = map(I64, 'shape stride sub start stop step'.split())
hs, he, hp = [z3.BitVec(n, 32) for n in ('have_start', 'have_stop', 'have_step')]
dst = Ptr('DST', z3.BitVecVal(0, 64))
sdim = Ptr('SDIM', z3.BitVecVal(0, 64))
ex.mem[('SDIM', 0, 4)] = z3.BitVecVal(-1, 32)
t0 = time.time()
ret = ex.run('__pyx_memoryview_slice_memviewslice',
             [dst, shape, stride, sub, z3.BitVecVal(0, 32), z3.BitVecVal(0, 32), sdim, start, stop, step, hs, he, hp, z3.BitVecVal(1, 32)])
print('encode', round(time.time() - t0, 2), 'events', [(e[1]) for e in ex.events], 'ub conds', len(ex.ub))
new_shape = ex.mem[('DST', 16, 8)]
new_stride = ex.mem[('DST', 16 + 64, 8)]
data = ex.mem[('DST', 8, 8)]
# reference: CPython PySlice_AdjustIndices on (start, stop, step) with defaults
def ref(shape, start, stop, step, hs, he, hp):
    step = z3.If(hp != 0, step, z3.BitVecVal(1, 64))
    neg = step < 0
    start = z3.If(hs != 0, start, z3.If(neg, z3.BitVecVal(2**63 - 1, 64), z3.BitVecVal(0, 64)))
    stop = z3.If(he != 0, stop, z3.If(neg, z3.BitVecVal(-2**63, 64), z3.BitVecVal(2**63 - 1, 64)))
    def adj(v):
        v2 = v + shape
        return z3.If(v < 0, z3.If(v2 < 0, z3.If(neg, z3.BitVecVal(-1, 64), z3.BitVecVal(0, 64)), v2),
                     z3.If(v >= shape, z3.If(neg, shape - 1, shape), v))
    s, e = adj(start), adj(stop)
    ln = z3.If(neg, z3.If(e < s, (s - e - 1) / (-step) + 1, z3.BitVecVal(0, 64)),
               z3.If(s < e, (e - s - 1) / step + 1, z3.BitVecVal(0, 64)))
    return s, ln, step
rs, rlen, rstep = ref(shape, start, stop, step, hs, he, hp)
B = 2**20
pre = z3.And(shape >= 0, shape <= 6, stride >= -B, stride <= B, start >= -20, start <= 20, stop >= -20, stop <= 20, step >= -4, step <= 4,
             z3.Or(hp == 0, step != 0), z3.ULE(hs, 1), z3.ULE(he, 1), z3.ULE(hp, 1))
def solve(name, goal):
    s = z3.Solver(); s.set('timeout', 60000); s.add(pre, goal)
    t = time.time(); r = s.check(); print(name, r, round(time.time() - t, 2))
    if r == z3.sat:
        m = s.model(); print('   ', {str(v): m.eval(v, True).as_signed_long() for v in (shape, start, stop, step, hs, he, hp)},
                             'impl shape', m.eval(new_shape, True).as_signed_long(), 'ref len', m.eval(rlen, True).as_signed_long())
solve('reach (ret==0)', ret == 0)
solve('shape mismatch', z3.And(ret == 0, new_shape != rlen))
solve('first element mismatch', z3.And(ret == 0, rlen > 0, data.off != rs * stride))
solve('stride mismatch', z3.And(ret == 0, new_stride != stride * rstep))
# UB
for g, d in ex.ub:
    s = z3.Solver(); s.set('timeout', 20000); s.add(pre, g)
    r = s.check()
    if r != z3.unsat: print('UB?', r, d)
