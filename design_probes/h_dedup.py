import sys, math
sys.path.insert(0, '/tmp/probe/pure')
from Cython.Compiler import ExprNodes, PyrexTypes
POS = ('<x>', 1, 0)

def mk_float(v: float):
    n = ExprNodes.FloatNode(POS, value=repr(v))
    n.constant_result = v
    return n

def mk_int(v: int):
    n = ExprNodes.IntNode(POS, value=str(v))
    n.constant_result = v
    return n

def distinguishable(a, b) -> bool:
    if type(a) is not type(b): return True
    if isinstance(a, float):
        if a != a and b != b: return False
        return a != b or math.copysign(1.0, a) != math.copysign(1.0, b)
    return a != b

def check(kind1: int, kind2: int, f1: float, f2: float, i1: int, i2: int) -> bool:
    """
    pre: 0 <= kind1 <= 1 and 0 <= kind2 <= 1
    post: _ == True
    """
    v1 = f1 if kind1 == 0 else i1
    v2 = f2 if kind2 == 0 else i2
    n1 = mk_float(f1) if kind1 == 0 else mk_int(i1)
    n2 = mk_float(f2) if kind2 == 0 else mk_int(i2)
    k1 = ExprNodes.make_dedup_key(PyrexTypes.tuple_type if hasattr(PyrexTypes,'tuple_type') else PyrexTypes.py_object_type, [n1])
    k2 = ExprNodes.make_dedup_key(PyrexTypes.tuple_type if hasattr(PyrexTypes,'tuple_type') else PyrexTypes.py_object_type, [n2])
    if k1 == k2 and hash(k1) == hash(k2):
        return not distinguishable(v1, v2)
    return True
