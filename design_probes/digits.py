import z3, time
def probe(W, iters, timeout=120):
    v = z3.BitVec('v', W)
    rem = v; pairs = []
    for i in range(iters):
        d = z3.SRem(rem, 100); d = z3.If(d < 0, -d, d)      # abs((int)(remaining % 100))
        rem = rem / 100                                       # C truncation
        pairs.append(d)
    # spec: reconstruct |v| in 2W bits
    tot = z3.BitVecVal(0, 2*W); mul = 1
    for d in pairs:
        tot = tot + z3.ZeroExt(W, d) * mul; mul *= 100
    absv = z3.If(v < 0, -z3.SignExt(W, v), z3.SignExt(W, v))
    s = z3.Solver(); s.set('timeout', timeout*1000)
    s.add(z3.Or(tot != absv, rem != 0, *[z3.UGE(d, 100) for d in pairs]))
    t = time.time(); r = s.check(); return str(r), round(time.time()-t, 2)
print('int16', probe(16, 3)); print('int32', probe(32, 5)); print('int64', probe(64, 10, 300))
