# cython: language_level=3
def conv(x):
    cdef int a = x
    cdef unsigned short b = x
    cdef long long c = x
    cdef unsigned long d = x
    cdef signed char e = x
    return a, b, c, d, e

def sl(int[:] a, Py_ssize_t start, Py_ssize_t stop, Py_ssize_t step):
    return a[start:stop:step]

def bin(x):
    return x + 5, x - 7, x * 3, x // 4, x % 5, x & 0xff, x >> 3, x << 2, 5 - x, x == 7
