"""Scratch prototype: LLVM-14 textual IR (clang -O0 + mem2reg) -> z3 bit-vector BMC encoding.
Loop-free functions only in this prototype (blocks evaluated in reverse post-order)."""
import re, z3, sys, time, collections

PTR = 64

class Fn:
    def __init__(self, name, rettype, params):
        self.name, self.rettype, self.params = name, rettype, params
        self.blocks = collections.OrderedDict()   # label -> list of instruction strings

def parse_module(text):
    structs, fns, decls = {}, {}, set()
    cur = None; label = None
    for line in text.splitlines():
        m = re.match(r'^(%[\w.]+) = type (.*)$', line)
        if m:
            structs[m.group(1)] = m.group(2); continue
        m = re.match(r'^define .*?([\w<>{}\[\]%.* ]+?) @([\w.$]+)\((.*)\) .*\{$', line)
        if m and cur is None:
            params = split_args(m.group(3))
            cur = Fn(m.group(2), m.group(1), params); label = 'entry0'; cur.blocks[label] = []
            continue
        if cur is not None:
            if line == '}':
                fns[cur.name] = cur; cur = None; continue
            m = re.match(r'^([\w.$]+):', line)
            if m:
                label = m.group(1); cur.blocks[label] = []; continue
            s = line.strip()
            if s and not s.startswith(';'):
                cur.blocks[label].append(s)
        m = re.match(r'^declare .*@([\w.$]+)\(', line)
        if m: decls.add(m.group(1))
    return structs, fns, decls

def split_args(s):
    out, depth, cur = [], 0, ''
    for ch in s:
        if ch in '([{<': depth += 1
        if ch in ')]}>': depth -= 1
        if ch == ',' and depth == 0:
            out.append(cur.strip()); cur = ''
        else: cur += ch
    if cur.strip(): out.append(cur.strip())
    return out


def split_typed(s):
    """'<type> <operand>' -> (type, operand); operand may be a constant expression"""
    s = s.strip()
    depth = 0
    for i, ch in enumerate(s):
        if ch in '([{<': depth += 1
        elif ch in ')]}>': depth -= 1
        elif ch == ' ' and depth == 0:
            rest = s[i+1:]
            if rest[0] in '%@-0123456789' or rest.startswith(('getelementptr', 'null', 'bitcast', 'true', 'false', 'undef', 'poison', 'inttoptr', 'zeroinitializer')):
                return s[:i], rest
    raise Unsupported('split_typed ' + s)

class Layout:
    def __init__(self, structs): self.structs = structs; self.cache = {}
    def size_align(self, t):
        t = t.strip()
        if t in self.cache: return self.cache[t]
        r = self._sa(t); self.cache[t] = r; return r
    def _sa(self, t):
        if t.endswith('*'): return 8, 8
        m = re.match(r'^i(\d+)$', t)
        if m:
            b = (int(m.group(1)) + 7) // 8
            return b, min(b, 8) if b in (1, 2, 4, 8) else 8
        if t == 'double': return 8, 8
        if t == 'float': return 4, 4
        if t == 'x86_fp80': return 16, 16
        m = re.match(r'^\[(\d+) x (.*)\]$', t)
        if m:
            s, a = self.size_align(m.group(2)); return s * int(m.group(1)), a
        if t.startswith('%'):
            return self.size_align(self.structs[t])
        if t.startswith('{') or t.startswith('<{'):
            offs, size, align = self.fields(t); return size, align
        if '(' in t: return 8, 8   # function pointer type
        raise NotImplementedError(t)
    def fields(self, t):
        t = t.strip()
        if t.startswith('%'): t = self.structs[t]
        packed = t.startswith('<{')
        inner = t[2:-2] if packed else t[1:-1]
        offs, off, maxa = [], 0, 1
        types = split_args(inner)
        for ft in types:
            s, a = self.size_align(ft)
            if packed: a = 1
            off = (off + a - 1) // a * a
            offs.append((off, ft)); off += s; maxa = max(maxa, a)
        size = (off + maxa - 1) // maxa * maxa
        return offs, size, maxa
    def elem(self, t, idx_is_first):
        pass

class Ptr:
    """pointer = (region id string or None for null/unknown, z3 offset BV64)"""
    def __init__(self, region, off): self.region, self.off = region, off
    def __repr__(self): return f'Ptr({self.region},{self.off})'

class Unsupported(Exception): pass

class Exec:
    def __init__(self, structs, fns, decls, stubs=None):
        self.L = Layout(structs); self.fns, self.decls = fns, decls
        self.stubs = stubs or {}
        self.mem = {}          # (region, concrete offset, nbytes) -> value (z3 BV or Ptr)
        self.events = []       # (guard, name, args)
        self.ub = []           # (guard-of-UB, description)
        self.fresh = 0
        self.lazy = {}         # initial contents of input regions

    def newbv(self, name, bits):
        self.fresh += 1
        return z3.BitVec(f'{name}#{self.fresh}', bits)

    def bits(self, t):
        m = re.match(r'^i(\d+)$', t)
        if m: return int(m.group(1))
        if t.endswith('*'): return PTR
        raise Unsupported('type ' + t)

    def const(self, t, tok, env):
        tok = tok.strip()
        if tok.startswith('%'): return env[tok]
        if t.endswith('*'):
            if tok == 'null': return Ptr(None, z3.BitVecVal(0, 64))
            if tok.startswith('@'): return Ptr('G:' + tok[1:], z3.BitVecVal(0, 64))
            m = re.match(r'^getelementptr inbounds \((.*)\)$', tok)
            if m:
                args = split_args(m.group(1))
                base_t, base_tok = args[1].rsplit(' ', 1)
                base = self.const(base_t, base_tok, env)
                return self.gep(args[0], base, [(a.rsplit(' ', 1)[0], self.const(a.rsplit(' ', 1)[0], a.rsplit(' ', 1)[1], env)) for a in args[2:]])
            m = re.match(r'^bitcast \((.*) (@[\w.$]+) to .*\)$', tok)
            if m: return Ptr('G:' + m.group(2)[1:], z3.BitVecVal(0, 64))
            raise Unsupported('ptr const ' + tok)
        b = self.bits(t)
        if tok == 'true': return z3.BitVecVal(1, 1)
        if tok == 'false': return z3.BitVecVal(0, 1)
        if tok in ('undef', 'poison'): return self.newbv('undef', b)
        return z3.BitVecVal(int(tok), b)

    def gep(self, basety, base, idxs):
        off = base.off; t = basety
        first = True
        for (it, iv) in idxs:
            if first:
                s, _ = self.L.size_align(t)
                off = off + self.sx(iv, 64) * s; first = False; continue
            tt = t.strip()
            if tt.startswith('%'): tt = self.L.structs[tt]
            m = re.match(r'^\[(\d+) x (.*)\]$', tt)
            if m:
                t = m.group(2); s, _ = self.L.size_align(t)
                off = off + self.sx(iv, 64) * s
            else:
                k = z3.simplify(iv).as_long()
                offs, _, _ = self.L.fields(tt)
                off = off + offs[k][0]; t = offs[k][1]
        return Ptr(base.region, z3.simplify(off))

    def sx(self, v, bits):
        if v.size() == bits: return v
        return z3.SignExt(bits - v.size(), v) if v.size() < bits else z3.Extract(bits - 1, 0, v)

    def load(self, ptr, t, guard):
        n, _ = self.L.size_align(t)
        if ptr.region is None:
            self.ub.append((guard, 'load from null/unknown pointer'));
            return self.newbv('badload', self.bits(t)) if not t.endswith('*') else Ptr(None, z3.BitVecVal(0,64))
        off = z3.simplify(ptr.off)
        if not z3.is_bv_value(off): raise Unsupported(f'symbolic offset load {ptr}')
        key = (ptr.region, off.as_long(), n)
        if key not in self.mem:
            if t.endswith('*'):
                self.mem[key] = Ptr('P:%s+%d' % key[:2], z3.BitVecVal(0, 64))
            else:
                self.mem[key] = z3.BitVec('mem[%s+%d:%d]' % key, 8 * n)
            self.lazy[key] = self.mem[key]
        return self.mem[key]

    def store(self, ptr, val, t, guard):
        n, _ = self.L.size_align(t)
        if ptr.region is None:
            self.ub.append((guard, 'store to null/unknown pointer')); return
        off = z3.simplify(ptr.off)
        if not z3.is_bv_value(off): raise Unsupported(f'symbolic offset store {ptr}')
        key = (ptr.region, off.as_long(), n)
        if isinstance(val, Ptr):
            old = self.mem.get(key)
            if old is None: old = self.load(ptr, t, guard)
            if isinstance(old, Ptr) and old.region == val.region:
                self.mem[key] = Ptr(val.region, z3.If(guard, val.off, old.off))
            else:
                self.mem[key] = val   # prototype: unconditional
        else:
            old = self.load(ptr, t, guard)
            self.mem[key] = z3.If(guard, val, old)

    def run(self, name, args, guard=z3.BoolVal(True), depth=0):
        fn = self.fns[name]
        env = {}
        for p, a in zip(fn.params, args):
            env[p.split()[-1]] = a
        labels = list(fn.blocks)
        # guards per block, edges
        bguard = {l: z3.BoolVal(False) for l in labels}
        bguard[labels[0]] = guard
        edge = {}   # (from,to) -> guard
        rets = []
        order = self.rpo(fn)
        for l in order:
            g = z3.simplify(bguard[l])
            if z3.is_false(g): continue
            for ins in fn.blocks[l]:
                self.step(fn, l, ins, env, g, edge, bguard, rets, depth)
        if fn.rettype.strip() == 'void' or not rets: return None
        val = rets[-1][1]
        for (g, v) in reversed(rets[:-1]):
            val = self.ite(g, v, val)
        return val

    def ite(self, g, a, b):
        if isinstance(a, Ptr) or isinstance(b, Ptr):
            if a.region == b.region: return Ptr(a.region, z3.If(g, a.off, b.off))
            # encode region choice symbolically: prototype -> tagged pointer
            return PtrChoice(g, a, b)
        return z3.If(g, a, b)

    def rpo(self, fn):
        succ = {}
        for l, inss in fn.blocks.items():
            t = inss[-1]
            succ[l] = re.findall(r'label %([\w.$]+)', t)
        seen, out = set(), []
        def dfs(l):
            if l in seen: return
            seen.add(l)
            for s in succ[l]: dfs(s)
            out.append(l)
        sys.setrecursionlimit(10000)
        dfs(list(fn.blocks)[0])
        out.reverse()
        # loop check
        pos = {l: i for i, l in enumerate(out)}
        for l in out:
            for s in succ[l]:
                if pos[s] <= pos[l]: raise Unsupported('loop in ' + fn.name)
        return out

    def step(self, fn, label, ins, env, g, edge, bguard, rets, depth):
        m = re.match(r'^(%[\w.]+) = (.*)$', ins)
        dst, rhs = (m.group(1), m.group(2)) if m else (None, ins)
        op = rhs.split()[0]
        if op in ('add', 'sub', 'mul', 'and', 'or', 'xor', 'shl', 'lshr', 'ashr', 'sdiv', 'udiv', 'srem', 'urem'):
            mm = re.match(r'^\w+((?: nsw| nuw| exact)*) (\S+) (.*), (.*)$', rhs)
            flags, t, a, b = mm.group(1), mm.group(2), mm.group(3), mm.group(4)
            x, y = self.const(t, a, env), self.const(t, b, env)
            w = x.size()
            if op == 'add':
                r = x + y
                if 'nsw' in flags: self.ub.append((z3.And(g, z3.Not(z3.BVAddNoOverflow(x, y, True)), True), ins)) if False else self.ub.append((z3.And(g, z3.Or(z3.Not(z3.BVAddNoOverflow(x, y, True)), z3.Not(z3.BVAddNoUnderflow(x, y)))), 'nsw add overflow: ' + ins))
            elif op == 'sub':
                r = x - y
                if 'nsw' in flags: self.ub.append((z3.And(g, z3.Or(z3.Not(z3.BVSubNoOverflow(x, y)), z3.Not(z3.BVSubNoUnderflow(x, y, True)))), 'nsw sub overflow: ' + ins))
            elif op == 'mul':
                r = x * y
                if 'nsw' in flags: self.ub.append((z3.And(g, z3.Or(z3.Not(z3.BVMulNoOverflow(x, y, True)), z3.Not(z3.BVMulNoUnderflow(x, y)))), 'nsw mul overflow: ' + ins))
            elif op == 'and': r = x & y
            elif op == 'or': r = x | y
            elif op == 'xor': r = x ^ y
            elif op == 'shl': r = x << y; self.ub.append((z3.And(g, z3.UGE(y, w)), 'shift too far: ' + ins))
            elif op == 'lshr': r = z3.LShR(x, y); self.ub.append((z3.And(g, z3.UGE(y, w)), 'shift too far: ' + ins))
            elif op == 'ashr': r = x >> y; self.ub.append((z3.And(g, z3.UGE(y, w)), 'shift too far: ' + ins))
            elif op == 'sdiv':
                r = x / y
                self.ub.append((z3.And(g, y == 0), 'div by zero: ' + ins))
                self.ub.append((z3.And(g, x == z3.BitVecVal(1 << (w - 1), w), y == z3.BitVecVal(-1, w)), 'sdiv overflow: ' + ins))
            elif op == 'udiv': r = z3.UDiv(x, y); self.ub.append((z3.And(g, y == 0), 'div by zero: ' + ins))
            elif op == 'srem':
                r = z3.SRem(x, y); self.ub.append((z3.And(g, y == 0), 'rem by zero: ' + ins))
                self.ub.append((z3.And(g, x == z3.BitVecVal(1 << (w - 1), w), y == z3.BitVecVal(-1, w)), 'srem overflow: ' + ins))
            elif op == 'urem': r = z3.URem(x, y); self.ub.append((z3.And(g, y == 0), 'rem by zero: ' + ins))
            env[dst] = r; return
        if op == 'icmp':
            mm = re.match(r'^icmp (\w+) (\S+) (.*), (.*)$', rhs)
            pred, t, a, b = mm.groups()
            x, y = self.const(t, a, env), self.const(t, b, env)
            if isinstance(x, Ptr) or isinstance(y, Ptr):
                same = z3.And(z3.BoolVal(x.region == y.region), x.off == y.off) if (x.region is not None and y.region is not None) else (
                    z3.BoolVal(x.region is None and y.region is None))
                c = same if pred == 'eq' else z3.Not(same)
            else:
                c = {'eq': x == y, 'ne': x != y, 'slt': x < y, 'sle': x <= y, 'sgt': x > y, 'sge': x >= y,
                     'ult': z3.ULT(x, y), 'ule': z3.ULE(x, y), 'ugt': z3.UGT(x, y), 'uge': z3.UGE(x, y)}[pred]
            env[dst] = z3.If(c, z3.BitVecVal(1, 1), z3.BitVecVal(0, 1)); return
        if op in ('zext', 'sext', 'trunc', 'bitcast', 'ptrtoint', 'inttoptr'):
            mm = re.match(r'^\w+ (.+?) (\S+) to (.+)$', rhs)
            t, a, t2 = mm.groups()
            x = self.const(t, a, env)
            if op == 'bitcast': env[dst] = x; return
            if isinstance(x, Ptr): raise Unsupported(ins)
            b2 = self.bits(t2)
            env[dst] = z3.ZeroExt(b2 - x.size(), x) if op == 'zext' else z3.SignExt(b2 - x.size(), x) if op == 'sext' else z3.Extract(b2 - 1, 0, x)
            return
        if op == 'select':
            parts = split_args(rhs[len('select '):])
            c = parts[0].split()[1]; t, a = split_typed(parts[1]); t2, b = split_typed(parts[2])
            cv = self.const('i1', c, env) == 1
            env[dst] = self.ite(cv, self.const(t, a, env), self.const(t2, b, env)); return
        if op == 'phi':
            mm = re.match(r'^phi (\S+) (.*)$', rhs)
            t = mm.group(1)
            val = None
            for v, l in re.findall(r'\[ (.+?), %([\w.$]+) \]', mm.group(2)):
                eg = edge.get((l, label))
                if eg is None: continue
                cv = self.const(t, v, env)
                val = cv if val is None else self.ite(eg, cv, val)
            env[dst] = val; return
        if op == 'br':
            mm = re.match(r'^br i1 (\S+), label %([\w.$]+), label %([\w.$]+)$', rhs)
            if mm:
                c = self.const('i1', mm.group(1), env) == 1
                for tgt, cg in ((mm.group(2), c), (mm.group(3), z3.Not(c))):
                    eg = z3.And(g, cg)
                    edge[(label, tgt)] = z3.Or(edge[(label, tgt)], eg) if (label, tgt) in edge else eg
                    bguard[tgt] = z3.Or(bguard[tgt], eg)
            else:
                tgt = re.match(r'^br label %([\w.$]+)$', rhs).group(1)
                edge[(label, tgt)] = g; bguard[tgt] = z3.Or(bguard[tgt], g)
            return
        if op == 'switch':
            mm = re.match(r'^switch (\S+) (\S+), label %([\w.$]+) \[(.*)\]$', rhs)
            t, v, dflt, cases = mm.groups()
            x = self.const(t, v, env); notany = z3.BoolVal(True)
            for cv, tgt in re.findall(r'\S+ (-?\d+), label %([\w.$]+)', cases):
                c = x == int(cv); eg = z3.And(g, c); notany = z3.And(notany, z3.Not(c))
                edge[(label, tgt)] = z3.Or(edge[(label, tgt)], eg) if (label, tgt) in edge else eg
                bguard[tgt] = z3.Or(bguard[tgt], eg)
            eg = z3.And(g, notany)
            edge[(label, dflt)] = z3.Or(edge[(label, dflt)], eg) if (label, dflt) in edge else eg
            bguard[dflt] = z3.Or(bguard[dflt], eg); return
        if op == 'ret':
            if rhs.strip() == 'ret void': rets.append((g, None)); return
            mm = re.match(r'^ret (.+?) (\S+)$', rhs)
            rets.append((g, self.const(mm.group(1), mm.group(2), env))); return
        if op == 'getelementptr':
            mm = re.match(r'^getelementptr (?:inbounds )?(.*)$', rhs)
            args = split_args(mm.group(1))
            bt, btok = args[1].rsplit(' ', 1)
            base = self.const(bt, btok, env)
            idxs = []
            for a in args[2:]:
                it, iv = a.rsplit(' ', 1); idxs.append((it, self.const(it, iv, env)))
            env[dst] = self.gep(args[0], base, idxs); return
        if op == 'load':
            parts = split_args(rhs[len('load '):])
            t = parts[0].replace('volatile ', '').strip(); pt, p = split_typed(parts[1])
            env[dst] = self.load(self.const(pt, p, env), t, g); return
        if op == 'store':
            parts = split_args(rhs[len('store '):])
            t, v = split_typed(parts[0]); pt, p = split_typed(parts[1])
            self.store(self.const(pt, p, env), self.const(t, v, env), t, g); return
        if op == 'alloca':
            self.fresh += 1
            env[dst] = Ptr('A:%s#%d' % (dst, self.fresh), z3.BitVecVal(0, 64)); return
        if op in ('call', 'tail'):
            mm = re.match(r'^(?:tail )?call (.+?) @([\w.$]+)\((.*)\)', rhs)
            if not mm:
                mi = re.match(r'^(?:tail )?call (.+?) (%[\w.]+)\((.*)\)', rhs)
                if not mi: raise Unsupported(ins)
                self.events.append((g, 'INDIRECT', [env.get(mi.group(2))]))
                rt = mi.group(1).replace('noundef', '').strip()
                if dst: env[dst] = Ptr('R:indirect#%d' % len(self.events), z3.BitVecVal(0, 64)) if rt.endswith('*') else self.newbv('ret_indirect', self.bits(rt))
                return
            rt, callee, argstr = mm.groups()
            rt = re.sub(r'\(.*\)$', '', rt).replace('noundef', '').replace('zeroext', '').replace('signext', '').strip()
            args = []
            for a in split_args(argstr):
                a = re.sub(r'\b(noundef|zeroext|signext|nonnull)\b', '', a).strip()
                t, v = a.rsplit(' ', 1) if not a.endswith(')') else (a.split(' ', 1)[0], a.split(' ', 1)[1])
                args.append(self.const(t.strip(), v, env))
            if callee in self.stubs:
                r = self.stubs[callee](self, g, args)
            elif callee in self.fns and depth < 6:
                r = self.inline(callee, args, g, depth + 1)
            else:
                self.events.append((g, callee, args))
                r = None
                if rt != 'void':
                    r = Ptr('R:%s#%d' % (callee, len(self.events)), z3.BitVecVal(0, 64)) if rt.endswith('*') else self.newbv('ret_' + callee, self.bits(rt))
            if dst: env[dst] = r
            return
        if op == 'unreachable': return
        raise Unsupported(ins)

    def inline(self, callee, args, g, depth):
        return self.run(callee, args, g, depth)

class PtrChoice(Ptr):
    def __init__(self, g, a, b): self.g, self.a, self.b = g, a, b; self.region = ('choice',); self.off = z3.BitVecVal(0, 64)
