import sys
sys.path.insert(0, '/tmp/probe/pure')
from Cython.Compiler import ExprNodes, Optimize, PyrexTypes, Main, Options, Errors
POS = ('<x>', 1, 0)
ctx = Main.Context.from_options(Options.CompilationOptions(Options.default_options))

def fold(op, a, b):
    n1 = ExprNodes.IntNode(POS, value=str(a), constant_result=a)
    n2 = ExprNodes.IntNode(POS, value=str(b), constant_result=b)
    node = ExprNodes.binop_node(POS, op, n1, n2)
    Errors.init_thread()
    return Optimize.ConstantFolding()(node)

OPS = ['+', '-', '*', '//', '%', '&', '|', '^']
def check(opi: int, a: int, b: int) -> bool:
    """
    pre: 0 <= opi < 8
    post: _ == True
    """
    op = OPS[opi]
    r = fold(op, a, b)
    try:
        want = {'+': lambda: a + b, '-': lambda: a - b, '*': lambda: a * b, '//': lambda: a // b, '%': lambda: a % b,
                '&': lambda: a & b, '|': lambda: a | b, '^': lambda: a ^ b}[op]()
    except ZeroDivisionError:
        return not isinstance(r, ExprNodes.IntNode)
    return isinstance(r, ExprNodes.IntNode) and r.constant_result == want and int(r.value) == want
