from typing import List, Tuple
from loadsrc import load_src
LT = load_src('Cython/Compiler/LineTable.py')

def ref_decode(table: str, firstlineno: int):
    """Reference decoder for the CPython 3.11+ location table (InternalDocs/locations.md)."""
    data = [ord(c) for c in table]
    i = 0
    line = firstlineno
    out = []
    def varint():
        nonlocal i
        b = data[i]; i += 1
        val = b & 63; shift = 0
        while b & 64:
            b = data[i]; i += 1
            shift += 6
            val |= (b & 63) << shift
        return val
    while i < len(data):
        first = data[i]; i += 1
        if not (first & 128): raise ValueError("entry start bit")
        code = (first >> 3) & 15
        length = (first & 7) + 1
        if code <= 9:
            second = data[i]; i += 1
            sc = (code << 3) | ((second >> 4) & 7)
            ec = sc + (second & 15)
            out.append((line, line, sc, ec))
        elif code <= 12:
            line += code - 10
            sc = data[i]; ec = data[i+1]; i += 2
            out.append((line, line, sc, ec))
        elif code == 13:
            u = varint(); d = (u >> 1) if not (u & 1) else -(u >> 1)
            line += d
            out.append((line, line, None, None))
        elif code == 14:
            u = varint(); d = (u >> 1) if not (u & 1) else -(u >> 1)
            line += d
            el = line + varint()
            sc = varint() - 1
            ec = varint() - 1
            out.append((line, el, sc, ec))
        else:
            out.append((None, None, None, None))
    return out

def check(positions: List[Tuple[int, int, int, int]], first: int) -> bool:
    """
    pre: len(positions) <= 2
    pre: first >= 1
    pre: all(p[0] >= 1 and p[1] >= p[0] and p[2] >= 0 and p[3] >= 0 and p[1] < 2**30 and p[2] < 2**30 and p[3] < 2**30 for p in positions)
    pre: all((p[1] > p[0]) or p[3] >= p[2] for p in positions)
    pre: len(positions) == 0 or positions[0][0] >= first
    pre: all(positions[i+1][0] >= positions[i][0] for i in range(len(positions)-1))
    post: _ == True
    """
    table = LT.build_line_table(list(positions), first)
    return ref_decode(table, first) == list(positions)
