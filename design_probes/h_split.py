import sys
sys.path.insert(0, '/tmp/probe/pure')
import chpatch
from Cython.Compiler import StringEncoding as SE
assert SE.__file__.endswith('.py')

def tokens(s):
    """tokenise an escaped C string body into units that must not be split; None if malformed"""
    out = []; i = 0; n = len(s)
    while i < n:
        if s[i] != '\\':
            out.append(s[i]); i += 1; continue
        if i + 1 >= n: return None
        c = s[i+1]
        if c in '01234567':
            j = i + 1; k = 0
            while j < n and k < 3 and s[j] in '01234567': j += 1; k += 1
            if k != 3: return None          # escape_byte_string always emits 3 octal digits
            if s[i+1] in '4567': return None   # value <= 0o377
            out.append(s[i:j]); i = j
        elif c in 'nrt"\\':
            out.append(s[i:i+2]); i += 2
        else:
            return None
    return out

def check(s: str, limit: int) -> bool:
    """
    pre: 6 <= limit <= 8
    pre: len(s) <= limit + 4
    pre: all(c in '\\07an"' for c in s)
    pre: tokens(s) is not None and '"' not in [t for t in tokens(s)]
    post: _ == True
    """
    r = SE.split_string_literal(s, limit)
    chunks = r.split('""')
    if ''.join(chunks) != s: return False
    # every chunk must itself be a sequence of whole tokens (no escape split across literals)
    return all(tokens(c) is not None for c in chunks)
