import z3, time, sys, subprocess, cvc5
def mk(W):
    a, b = z3.BitVecs('a b', W)
    q = a / b
    r = a - q*b
    adapt = z3.If(z3.And(r != 0, (r ^ b) < 0), z3.BitVecVal(1, W), z3.BitVecVal(0, W))
    res = q - adapt
    A, B, R = z3.SignExt(W, a), z3.SignExt(W, b), z3.SignExt(W, res)
    M = A - R*B
    spec = z3.And(z3.Implies(B > 0, z3.And(M >= 0, M < B)), z3.Implies(B < 0, z3.And(M <= 0, M > B)))
    MIN = z3.BitVecVal(1 << (W-1), W)
    pre = z3.And(b != 0, z3.Not(z3.And(a == MIN, b == -1)))
    s = z3.Solver(); s.add(pre, z3.Not(spec))
    return "(set-logic ALL)\n" + s.to_smt2()
for W in (16, 32, 64):
    open(f'div{W}.smt2','w').write(mk(W))
