import z3, time
a,b,q,r = z3.Ints('a b q r')
absr = z3.If(r<0,-r,r); absb = z3.If(b<0,-b,b)
cdiv = z3.And(b != 0, a == q*b + r, absr < absb, z3.Or(r == 0, (r < 0) == (a < 0)))
adj = z3.If(z3.And(r != 0, (r < 0) != (b < 0)), 1, 0)
res = q - adj
m = a - res*b
floor = z3.And(z3.Implies(b>0, z3.And(m>=0, m<b)), z3.Implies(b<0, z3.And(m<=0, m>b)))
s = z3.Solver(); s.set('timeout', 60000)
s.add(cdiv, z3.Not(floor))
t=time.time(); print('div lemma', s.check(), time.time()-t)
# mod lemma: r + adj*b is python mod
pm = r + adj*b
s = z3.Solver(); s.set('timeout', 60000)
s.add(cdiv, z3.Not(z3.And(pm == m)))
t=time.time(); print('mod lemma', s.check(), time.time()-t)
# mul overflow lemma: b>1: (a > MAX div b or a < MIN div_c b) <=> a*b not in [MIN,MAX]
MAX, MIN = z3.Ints('MAX MIN')
d1, m1, d2, m2 = z3.Ints('d1 m1 d2 m2')
s = z3.Solver(); s.set('timeout', 60000)
# C division of MAX by b (MAX>=0,b>1): MAX = d1*b+m1, 0<=m1<b ; MIN = d2*b + m2, -b < m2 <= 0
s.add(b > 1, MAX >= 0, MIN == -MAX-1, MAX == d1*b+m1, m1>=0, m1<b, MIN == d2*b+m2, m2<=0, m2>-b)
ovf_impl = z3.Or(a > d1, a < d2)
ovf_spec = z3.Or(a*b > MAX, a*b < MIN)
s.add(ovf_impl != ovf_spec)
t=time.time(); print('mul ovf lemma', s.check(), time.time()-t)
