import z3, time
A = z3.ArraySort(z3.BitVecSort(64), z3.BitVecSort(8))
dst, src = z3.Array('dst', z3.BitVecSort(64), z3.BitVecSort(8)), z3.Array('src', z3.BitVecSort(64), z3.BitVecSort(8))
pos, out_pos, dst_len = z3.BitVecs('pos out_pos dst_len', 64)
lo = z3.ZeroExt(24, z3.Select(src, pos)); hi = z3.ZeroExt(24, z3.Select(src, pos + 1)); b3 = z3.ZeroExt(24, z3.Select(src, pos + 2))
c1 = (lo & 0x80) == 0; c2 = (hi & 0x80) == 0
eo = z3.If(c1, lo, z3.If(c2, 0x80 + (((hi << 2) & 0x180) | (lo & 0x7F)), 0x80 + (((hi & 0x7F) << 7) | (lo & 0x7F))))
ml = z3.If(c1, hi, z3.If(c2, hi & 0x1F, b3)) + 3
ml64, eo64 = z3.ZeroExt(32, ml), z3.ZeroExt(32, eo)
ref_pos = out_pos - eo64 - ml64
i = z3.BitVec('i', 64)
dst2 = z3.Lambda([i], z3.If(z3.And(z3.UGE(i, out_pos), z3.ULT(i, out_pos + ml64)), z3.Select(dst, i - out_pos + ref_pos), z3.Select(dst, i)))
# property: for the well-formed state W, every written byte equals the byte LZ77 semantics prescribes and nothing else changes
j = z3.BitVec('j', 64)
W = z3.And(z3.ULE(eo64 + ml64, out_pos), z3.ULE(out_pos + ml64, dst_len), z3.ULT(dst_len, 1 << 40))
spec = z3.If(z3.And(z3.UGE(j, out_pos), z3.ULT(j, out_pos + ml64)), z3.Select(dst, j - eo64 - ml64), z3.Select(dst, j))
s = z3.Solver(); s.set('timeout', 60000)
s.add(W, z3.Select(dst2, j) != spec)
t = time.time(); print('copy semantics', s.check(), round(time.time() - t, 2))
# no-overlap + in-bounds obligations
s = z3.Solver(); s.set('timeout', 60000)
s.add(W, z3.Or(z3.UGT(ref_pos + ml64, out_pos), z3.UGE(ref_pos, dst_len), z3.UGT(out_pos + ml64, dst_len)))
t = time.time(); print('memcpy no overlap / in bounds', s.check(), round(time.time() - t, 2))
