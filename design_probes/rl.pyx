# cython: language_level=3
def loop(int a, int b):
    cdef int i
    out = []
    for i in range(a, b, 3):
        out.append(i)
        if len(out) > 5:
            break
    return out
