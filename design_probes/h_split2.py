import sys
sys.path.insert(0, '/tmp/probe/pure')
import chpatch
from Cython.Compiler import StringEncoding as SE
from h_escape import c_decode
from h_split import tokens

def check(s: str, limit: int) -> bool:
    """
    pre: 6 <= limit <= 8
    pre: len(s) <= limit + 4
    pre: all(c in '\\03an"' for c in s)
    pre: tokens(s) is not None and '"' not in [t for t in tokens(s)]
    post: _ == True
    """
    r = SE.split_string_literal(s, limit)
    return c_decode(r) == c_decode(s)
